package srvlab

import (
	"fmt"
	"strings"
	"time"

	"github.com/rminnich/go9p"

	"verif/core"
	"verif/sched"
	"verif/script"
	"verif/wire"
)

func init() {
	core.Register(&core.Engine{
		Property: "C07",
		Level:    "exploration",
		Rule: "scenarios with a Tflush and its target alive at the same time on the real server: target type in {attach, auth, walk (new fid / in place), open, create, read, write, clunk, remove, stat, wstat, flush}; " +
			"stage in {same transport segment, already answered, unknown tag while others are held, several flushes of one target, flush of a flush, target held in the implementation with FlushOp " +
			"absent / ignoring / cancelling}, and every pairwise ordering of the target's schedule points x the flusher's schedule points in both directions (one goroutine parked at its point until the " +
			"other passed its point; orderings the program's own dependencies forbid expire after 50 ms and are counted infeasible). The reply pool is pre-warmed with >= 20 pipelined replies of the target's " +
			"success type. Oracle over the wire order, the implementation's invocation log and fid probes after the Rflush. " +
			"distinct = (target type, flush support, stage or point pair, direction); non-trivial = both goroutines passed a point while the other was alive (infeasible orderings are not counted)",
		Assumptions: []string{
			"a flusher never names its own tag and flushed tags are not shared-tag groups (client protocol violations outside the statement)",
			"'invocation' = a callback entered after the Rflush was received; whether the fid of a cancelled Tremove survives is left open",
			"orderings are those reachable by parking goroutines at the hook points; a preemption needed inside a hook-free region is seen only by chance",
		},
		Cases:       c07Cases,
		MinDistinct: 150,
		Jobs:        8,
	})
}

var c07TargetPts = []string{"process.start", "process.marked", "script", "respond.enter", "respond.claimed", "respond.unlinked", "respond.posted",
	"respond.queued", "respond.exit", "process.work.done", "process.done", "send.dequeued", "send.written", "send.recycled"}

// flusher points: "@f" = a point carrying the flusher's own tag; "@t" = a point of the target's Respond passed on the flusher's goroutine
var c07FlusherPts = []string{"process.start@f", "process.marked@f", "flush.enter@f", "flush.chained@f", "flush.decided@f", "respond.enter@f", "respond.claimed@f",
	"respond.unlinked@f", "respond.queued@f", "send.dequeued@f", "send.written@f", "respond.claimed@t", "respond.unlinked@t", "respond.posted@t", "respond.queued@t"}

var c07Kinds = []string{"walk", "open", "clunk", "attach", "create", "walkin", "read", "write", "remove", "stat", "wstat", "auth", "flush"}

type c07scn struct {
	kind  string
	mode  string // FlushOp: none | ignore | cancel
	stage string // pair | sameseg | replied | unknown | multi | flushflush
	p, f  string
	dir   string // A: target parked at p until flusher passed f; B: flusher parked at f until target passed p
	dotu  bool
	rep   int
	ttag  string // "" (the next free tag) or the tag the target carries: "ffff" (Tversion's tag, legal for any request), "fffe", "zero"
}

func (s c07scn) id() string {
	return fmt.Sprintf("%s/%s/%s/%s/%s/%s/dotu=%v/%d%s", s.kind, s.mode, s.stage, s.p, s.f, s.dir, s.dotu, s.rep, s.ttag)
}

func c07Cases(tier string, seed int64) []core.Case {
	kinds := c07Kinds[:4]
	modes := []string{"none", "cancel"}
	reps := 6
	if tier == "thorough" {
		kinds = c07Kinds
		modes = []string{"none", "ignore", "cancel"}
		reps = 40
	}
	var scns []c07scn
	for ki, k := range kinds {
		for _, mode := range modes {
			dotu := ki%2 == 0
			for _, p := range c07TargetPts {
				for _, f := range c07FlusherPts {
					for _, dir := range []string{"A", "B"} {
						scns = append(scns, c07scn{kind: k, mode: mode, stage: "pair", p: p, f: f, dir: dir, dotu: dotu})
					}
				}
			}
			for _, st := range []string{"sameseg", "replied", "unknown", "multi", "flushflush", "gated", "saved"} {
				if st == "saved" && (k == "flush" || k == "auth") {
					continue
				}
				n := 1
				if st == "sameseg" {
					n = reps
				}
				for i := 0; i < n; i++ {
					scns = append(scns, c07scn{kind: k, mode: mode, stage: st, dotu: dotu, rep: i})
				}
			}
		}
	}
	// the tag of the target is any 16-bit value, also the one Tversion uses
	for ki, k := range kinds {
		for _, mode := range modes {
			for _, tt := range []string{"ffff", "fffe", "zero"} {
				for _, st := range []string{"gated", "multi", "sameseg"} {
					scns = append(scns, c07scn{kind: k, mode: mode, stage: st, dotu: ki%2 == 0, ttag: tt})
				}
			}
		}
	}
	// batches of scenarios per case: one hook controller at a time per worker process
	var cases []core.Case
	const batch = 40
	for i := 0; i < len(scns); i += batch {
		j := i + batch
		if j > len(scns) {
			j = len(scns)
		}
		part := scns[i:j]
		cases = append(cases, core.Case{ID: fmt.Sprintf("batch/%d/%s", i/batch, part[0].id()), Run: func(ctx *core.Ctx) core.Result {
			var res core.Result
			for _, sc := range part {
				c07Run(ctx.Seed, sc, &res)
			}
			return res
		}})
	}
	cases = append(cases, sharedFlushCases("C07", tier)...)
	// what a cancelled request's worker does afterwards (it answers late, filling the reply it was given in place or
	// through the helpers) leaves the requests that came after the Rflush alone
	for _, dotu := range []bool{true, false} {
		dotu := dotu
		cases = append(cases, core.Case{ID: fmt.Sprintf("late-answer-after-cancel/dotu=%v", dotu), Run: func(ctx *core.Ctx) core.Result { return lateAfterCancel(ctx, "C07", dotu) }})
	}
	for _, mp := range []int{0, 4} {
		mp := mp
		cases = append(cases, core.Case{ID: fmt.Sprintf("flush-after-tversion/maxpend=%d", mp), Run: func(ctx *core.Ctx) core.Result { return c07FlushAfterVersion(ctx, mp) }})
	}
	return cases
}

const c07Budget = 50 * time.Millisecond

type c07env struct {
	s    *Sess
	c    *CConn
	sc   c07scn
	tag  uint16
	uid  int
	root uint32
}

func (e *c07env) next() uint16 { e.tag++; return e.tag }

func (e *c07env) rpc(m *wire.Msg) *wire.Msg {
	m.Tag = e.next()
	rep, err := e.c.Rpc(m, W)
	if err != nil || rep.Msg == nil {
		return nil
	}
	return rep.Msg
}

func (e *c07env) ok(m *wire.Msg) bool {
	r := e.rpc(m)
	return r != nil && r.Type == m.Type+1
}

func uname(uid int) string { return map[int]string{0: "root", 1001: "alice", 1002: "bob"}[uid] }

// target builds the target request on fid 50 (already prepared) and the warm-up requests that leave
// reply buffers of the same success type in the pool.
func (e *c07env) prepare() (target *wire.Msg, ok bool) {
	const F = 50
	warm := func(setup func(i uint32) bool, req func(i uint32) *wire.Msg) bool {
		var ms []*wire.Msg
		for i := uint32(0); i < 20; i++ {
			if setup != nil && !setup(200+i) {
				return false
			}
		}
		for i := uint32(0); i < 20; i++ {
			m := req(200 + i)
			m.Tag = e.next()
			ms = append(ms, m)
		}
		if e.c.Send(ms...) != nil {
			return false
		}
		for _, m := range ms {
			if r, err := e.c.WaitTag(m.Tag, W); err != nil || r.Msg == nil {
				return false
			}
		}
		return true
	}
	walkTo := func(fid uint32, name string) bool {
		names := []string{}
		if name != "" {
			names = []string{name}
		}
		return e.ok(&wire.Msg{Type: wire.Twalk, Fid: e.root, Newfid: fid, Wname: names})
	}
	switch e.sc.kind {
	case "walk":
		ok = walkTo(F, "d") && warm(nil, func(i uint32) *wire.Msg {
			return &wire.Msg{Type: wire.Twalk, Fid: e.root, Newfid: i, Wname: []string{"dw"}}
		})
		target = &wire.Msg{Type: wire.Twalk, Fid: F, Newfid: F + 1, Wname: []string{"d1", "f2"}}
	case "walkin":
		ok = walkTo(F, "d") && warm(nil, func(i uint32) *wire.Msg {
			return &wire.Msg{Type: wire.Twalk, Fid: e.root, Newfid: i, Wname: []string{"dw"}}
		})
		target = &wire.Msg{Type: wire.Twalk, Fid: F, Newfid: F, Wname: []string{"f1"}}
	case "open":
		ok = walkTo(F, "f") && warm(func(i uint32) bool { return walkTo(i, "fw") }, func(i uint32) *wire.Msg { return &wire.Msg{Type: wire.Topen, Fid: i, Mode: 0} })
		target = &wire.Msg{Type: wire.Topen, Fid: F, Mode: 2}
	case "create":
		ok = walkTo(F, "d") && warm(func(i uint32) bool { return walkTo(i, "dw") }, func(i uint32) *wire.Msg {
			return &wire.Msg{Type: wire.Tcreate, Fid: i, Name: "x", Perm: 0o644, Mode: 1}
		})
		target = &wire.Msg{Type: wire.Tcreate, Fid: F, Name: "newfile", Perm: 0o644, Mode: 1}
	case "clunk":
		ok = walkTo(F, "f") && warm(func(i uint32) bool { return walkTo(i, "fw") }, func(i uint32) *wire.Msg { return &wire.Msg{Type: wire.Tclunk, Fid: i} })
		target = &wire.Msg{Type: wire.Tclunk, Fid: F}
	case "remove":
		ok = walkTo(F, "f") && warm(func(i uint32) bool { return walkTo(i, "fw") }, func(i uint32) *wire.Msg { return &wire.Msg{Type: wire.Tremove, Fid: i} })
		target = &wire.Msg{Type: wire.Tremove, Fid: F}
	case "attach":
		ok = warm(nil, func(i uint32) *wire.Msg {
			return &wire.Msg{Type: wire.Tattach, Fid: i, Afid: wire.NOFID, Uname: uname(e.uid), Nuname: uint32(e.uid), Aname: fmt.Sprintf("w%d", i)}
		})
		target = &wire.Msg{Type: wire.Tattach, Fid: F, Afid: wire.NOFID, Uname: uname(e.uid), Nuname: uint32(e.uid), Aname: "target"}
	case "auth":
		ok = warm(nil, func(i uint32) *wire.Msg {
			return &wire.Msg{Type: wire.Tauth, Afid: i, Uname: uname(e.uid), Nuname: uint32(e.uid), Aname: fmt.Sprintf("w%d", i)}
		})
		target = &wire.Msg{Type: wire.Tauth, Afid: F, Uname: uname(e.uid), Nuname: uint32(e.uid), Aname: "target"}
	case "read":
		ok = walkTo(F, "f") && e.ok(&wire.Msg{Type: wire.Topen, Fid: F, Mode: 2}) && warm(nil, func(i uint32) *wire.Msg { return &wire.Msg{Type: wire.Tread, Fid: F, Offset: uint64(i), Count: 9} })
		target = &wire.Msg{Type: wire.Tread, Fid: F, Offset: 5, Count: 100}
	case "write":
		ok = walkTo(F, "f") && e.ok(&wire.Msg{Type: wire.Topen, Fid: F, Mode: 2}) && warm(nil, func(i uint32) *wire.Msg {
			return &wire.Msg{Type: wire.Twrite, Fid: F, Offset: uint64(i), Count: 3, Data: []byte("abc")}
		})
		target = &wire.Msg{Type: wire.Twrite, Fid: F, Offset: 5, Count: 4, Data: []byte("data")}
	case "stat":
		ok = walkTo(F, "f") && warm(nil, func(i uint32) *wire.Msg { return &wire.Msg{Type: wire.Tstat, Fid: F} })
		target = &wire.Msg{Type: wire.Tstat, Fid: F}
	case "wstat":
		ok = walkTo(F, "f") && warm(nil, func(i uint32) *wire.Msg { return &wire.Msg{Type: wire.Twstat, Fid: F, Stat: wire.Stat{Name: "n"}} })
		target = &wire.Msg{Type: wire.Twstat, Fid: F, Stat: wire.Stat{Name: "renamed"}}
	case "flush":
		// the target is itself a Tflush of a third request that stays held in the implementation
		ok = walkTo(F, "f")
		target = &wire.Msg{Type: wire.Tflush}
	}
	return target, ok
}

func c07Run(seed int64, sc c07scn, res *core.Result) {
	cfg := Config{Dotu: sc.dotu, Msize: 8192, Flush: sc.mode != "none", Auth: sc.kind == "auth", TracePoints: true,
		ProcOps: sc.kind == "open" || sc.kind == "create" || sc.kind == "remove"} // some targets with an implementation that takes over request processing
	s := NewSess(cfg)
	s.Ctl.UseGID = true // goroutine roles (runtime.Stack per point: expensive, this engine only)
	c := s.Dial()
	e := &c07env{s: s, c: c, sc: sc, uid: uidFor(sc.dotu, 1001), root: 1}
	defer func() {
		s.Ctl.ReleaseAll()
		c.Hangup()
	}()
	res.Evals++
	sig := fmt.Sprintf("%s;%s;%s;%s;%s;%s", sc.kind, sc.mode, sc.stage, sc.p, sc.f, sc.dir)
	fail := func(what, msg string, extra map[string]interface{}) {
		det := map[string]interface{}{"scenario": sc.id(), "log": c07logTail(s.Log, 60)}
		for k, v := range extra {
			det[k] = v
		}
		res.Violate("C07;"+what+";"+sc.kind+";"+sc.mode+";"+sc.stage+";"+sc.p+";"+sc.f+";"+sc.dir, msg+" ["+sc.id()+"]", det)
	}
	ver := "9P2000"
	if sc.dotu {
		ver = "9P2000.u"
	}
	if r, err := c.Version(8192, ver, W); err != nil || r.Msg == nil || r.Msg.Type != wire.Rversion {
		res.Inconclusive = "c07: version failed"
		return
	}
	if !e.ok(&wire.Msg{Type: wire.Tattach, Fid: e.root, Afid: wire.NOFID, Uname: uname(e.uid), Nuname: uint32(e.uid), Aname: "root"}) {
		res.Inconclusive = "c07: attach failed"
		return
	}
	target, ok := e.prepare()
	if !ok {
		res.Inconclusive = "c07: setup failed for " + sc.id()
		return
	}
	// the third request a "flush of a flush" needs
	var third *wire.Msg
	var thirdGate chan struct{}
	if sc.kind == "flush" {
		third = &wire.Msg{Type: wire.Tstat, Fid: 50, Tag: e.next()}
		p := script.NewPlan()
		thirdGate = make(chan struct{})
		p.Gate = thirdGate
		p.Entered = make(chan struct{})
		s.Ops.SetPlan(c.ID, third.Tag, p)
		_ = c.Send(third)
		select {
		case <-p.Entered:
		case <-time.After(W):
			res.Inconclusive = "c07: third request did not start"
			return
		}
		target.Oldtag = third.Tag
	}
	target.Tag = e.next()
	switch sc.ttag {
	case "ffff":
		target.Tag = 0xFFFF
	case "fffe":
		target.Tag = 0xFFFE
	case "zero":
		target.Tag = 0
	}
	tt := int(target.Tag)
	plan := script.NewPlan()
	var gate chan struct{}
	gated := sc.p == "script" || sc.stage == "multi" || sc.stage == "flushflush" || sc.stage == "gated" || sc.stage == "unknown"
	if gated && sc.kind != "flush" {
		gate = make(chan struct{})
		plan.Gate = gate
		plan.Entered = make(chan struct{})
	}
	s.Ops.SetPlan(c.ID, target.Tag, plan)
	if sc.kind == "auth" {
		s.Ops.SetAuthPlan(target.Aname, plan)
	}
	s.Ops.SetFlushMode(c.ID, target.Tag, sc.mode)
	if third != nil {
		s.Ops.SetFlushMode(c.ID, third.Tag, "ignore")
	}
	flush := &wire.Msg{Type: wire.Tflush, Oldtag: target.Tag, Tag: e.next()}
	tf := int(flush.Tag)
	flushes := []*wire.Msg{flush}
	var preReplies []*Reply
	seq0 := s.Log.Seq()
	feasible := true
	openGate := func() {
		if gate != nil {
			select {
			case <-gate:
			default:
				close(gate)
			}
		}
	}

	fpoint, fwho := sc.f, ""
	if i := strings.Index(sc.f, "@"); i >= 0 {
		fpoint, fwho = sc.f[:i], sc.f[i+1:]
	}
	// (point, tag, goroutine-tag) of the flusher point
	ftag, fg := tf, sched.AnyTag
	if fwho == "t" {
		ftag, fg = tt, tf
	}

	switch sc.stage {
	case "sameseg":
		s.Ctl.Random(uint64(seed)*131+uint64(sc.rep)*977+uint64(len(sc.kind)), 300, 200)
		_ = c.Send(target, flush)
	case "replied":
		if thirdGate != nil {
			// the target is itself a Tflush: it is answered once the request it names is
			close(thirdGate)
			thirdGate = nil
		}
		_ = c.Send(target)
		r0, err := c.WaitTag(target.Tag, W)
		if err != nil || r0.Msg == nil {
			fail("target-unanswered", "the target got no reply although nothing flushed it", nil)
			return
		}
		preReplies = append(preReplies, r0)
		_ = c.Send(flush)
	case "saved":
		// the implementation took the request and returned without answering it (it answers later, from another
		// goroutine): nobody but the implementation can finish it, so a Tflush is only answered after its reply (this
		// implementation's FlushOp, if any, does not cancel requests it is not inside of)
		plan.NoAnswer = true
		seqS := s.Log.Seq()
		_ = c.Send(target)
		parkedOK := waitFor(W, func() bool {
			for _, ev := range s.Log.Snapshot(seqS) {
				if ev.Kind == "exit" && ev.Conn == c.ID && ev.Tag == target.Tag && ev.Info == "noanswer" {
					return true
				}
			}
			return false
		})
		if !parkedOK {
			feasible = false
		}
		_ = c.Send(flush)
		if r, err := c.WaitTag(flush.Tag, 60*time.Millisecond); err == nil {
			preReplies = append(preReplies, r)
			if parkedOK {
				fail("rflush-before-deferred-answer", "the Rflush of a request the implementation had taken over (its callback returned, the answer comes later) was sent before that answer: the request was not cancelled, the implementation still carries it out", nil)
			}
		}
		if req := s.Ops.Pending(c.ID, target.Tag); req != nil {
			req.RespondError(&go9p.Error{Err: "deferred answer", Errornum: 5})
		} else if parkedOK {
			feasible = false
		}
	case "unknown":
		// the flush names a tag that was never used, while the target is held in the implementation
		flush.Oldtag = 0x7777
		_ = c.Send(target)
		if gate != nil {
			<-plan.Entered
		}
		_ = c.Send(flush)
		if r, err := c.WaitTag(flush.Tag, W); err != nil || r.Msg == nil || r.Msg.Type != wire.Rflush {
			fail("unknown-tag-not-immediate", "Tflush of a tag that is not outstanding was not answered while another request was held", nil)
		} else {
			preReplies = append(preReplies, r)
		}
		openGate()
	case "multi", "gated", "flushflush":
		_ = c.Send(target)
		if gate != nil {
			select {
			case <-plan.Entered:
			case <-time.After(W):
				fail("target-not-started", "the target never reached the implementation", nil)
				return
			}
		}
		_ = c.Send(flush)
		if sc.stage == "multi" {
			f2 := &wire.Msg{Type: wire.Tflush, Oldtag: target.Tag, Tag: e.next()}
			f3 := &wire.Msg{Type: wire.Tflush, Oldtag: target.Tag, Tag: e.next()}
			flushes = append(flushes, f2, f3)
			_ = c.Send(f2, f3)
		}
		if sc.stage == "flushflush" {
			f2 := &wire.Msg{Type: wire.Tflush, Oldtag: flush.Tag, Tag: e.next()}
			flushes = append(flushes, f2)
			_ = c.Send(f2)
		}
		s.Ctl.WaitPassed("flush.decided", c.ID, int(flushes[len(flushes)-1].Tag), 1, c07Budget)
		openGate()
	case "pair":
		if sc.dir == "A" {
			// target parked at p until the flusher passed f
			var hT *sched.Hold
			if sc.p != "script" {
				hT = s.Ctl.HoldAt(sc.p, c.ID, tt, sched.AnyTag, 4*c07Budget)
			}
			_ = c.Send(target)
			reached := false
			if sc.p == "script" {
				select {
				case <-plan.Entered:
					reached = true
				case <-time.After(c07Budget):
				}
			} else {
				reached = hT.WaitReached(c07Budget)
			}
			if !reached {
				feasible = false
			}
			_ = c.Send(flush)
			if reached && !s.Ctl.WaitPassedG(fpoint, c.ID, ftag, fg, 1, c07Budget) {
				feasible = false
			}
			if hT != nil {
				hT.Release()
			}
			openGate()
		} else {
			// flusher parked at f until the target passed p; the target is first parked at process.start so that it is alive when the flush arrives
			h0 := s.Ctl.HoldAt("process.start", c.ID, tt, sched.AnyTag, 4*c07Budget)
			hF := s.Ctl.HoldAt(fpoint, c.ID, ftag, fg, 4*c07Budget)
			_ = c.Send(target)
			if !h0.WaitReached(c07Budget) {
				feasible = false
			}
			_ = c.Send(flush)
			reached := hF.WaitReached(c07Budget)
			if !reached {
				feasible = false
			}
			h0.Release()
			if sc.p == "script" {
				select {
				case <-plan.Entered:
				case <-time.After(c07Budget):
					feasible = false
				}
			} else if sc.p != "process.start" {
				if !s.Ctl.WaitPassed(sc.p, c.ID, tt, 1, c07Budget) {
					feasible = false
				}
			}
			hF.Release()
			openGate()
		}
	}
	s.Ctl.ReleaseAll()
	openGate()
	if thirdGate != nil {
		close(thirdGate)
	}

	// ---- barrier: every flush answered (or the watchdog), nothing pending, sentinel through the FIFO writer
	wireOrder := append([]*Reply{}, preReplies...)
	flushSeq := map[uint16]int64{}
	deadline := time.Now().Add(W)
	need := len(flushes)
	isFlush := map[uint16]bool{}
	for _, f := range flushes {
		isFlush[f.Tag] = true
	}
	for _, r := range preReplies {
		if r.Msg != nil && r.Msg.Type == wire.Rflush && isFlush[r.Msg.Tag] {
			if _, dup := flushSeq[r.Msg.Tag]; !dup {
				need--
			}
			flushSeq[r.Msg.Tag] = r.Seq
		}
	}
	for need > 0 {
		r, err := c.Next(time.Until(deadline))
		if err != nil {
			break
		}
		wireOrder = append(wireOrder, r)
		if r.Msg != nil && r.Msg.Type == wire.Rflush && isFlush[r.Msg.Tag] {
			if _, dup := flushSeq[r.Msg.Tag]; !dup {
				need--
			}
			flushSeq[r.Msg.Tag] = r.Seq
		}
	}
	c.Quiesce(W)
	sent := &wire.Msg{Type: wire.Tstat, Fid: e.root, Tag: e.next()}
	_ = c.Send(sent)
	for {
		r, err := c.Next(W)
		if err != nil || (r.Msg != nil && r.Msg.Tag == sent.Tag) {
			break
		}
		wireOrder = append(wireOrder, r)
	}

	// ---- judge
	pos := map[uint16][]int{}
	for i, r := range wireOrder {
		if r.Msg == nil {
			fail("undecodable", "undecodable frame from the server: "+r.Err.Error(), nil)
			continue
		}
		pos[r.Msg.Tag] = append(pos[r.Msg.Tag], i)
	}
	for _, f := range flushes {
		p := pos[f.Tag]
		switch {
		case len(p) == 0:
			fail("rflush-missing", fmt.Sprintf("Tflush tag %d (oldtag %d) was never answered", f.Tag, f.Oldtag), nil)
			continue
		case len(p) > 1:
			fail("rflush-duplicate", fmt.Sprintf("Tflush tag %d answered %d times", f.Tag, len(p)), nil)
		}
		if wireOrder[p[0]].Msg.Type != wire.Rflush {
			fail("rflush-type", fmt.Sprintf("Tflush answered with %s", wireOrder[p[0]].Msg.String()), nil)
		}
		if sc.stage == "unknown" {
			continue
		}
		// a reply to the flushed request, if sent at all, precedes the Rflush
		for _, q := range pos[f.Oldtag] {
			if q > p[0] {
				fail("reply-after-rflush", fmt.Sprintf("reply to tag %d was sent after the Rflush (tag %d) that flushes it", f.Oldtag, f.Tag), nil)
			}
		}
	}
	if len(pos[target.Tag]) > 1 {
		fail("target-duplicate", "the flushed request was answered more than once", nil)
	}
	firstFlush := int64(0)
	for _, f := range flushes {
		if f.Oldtag == target.Tag {
			if sq, ok := flushSeq[f.Tag]; ok && (firstFlush == 0 || sq < firstFlush) {
				firstFlush = sq
			}
		}
	}
	replied := len(pos[target.Tag]) > 0
	if sc.stage != "unknown" && !replied && firstFlush > 0 {
		// cancelled: never handed to the implementation afterwards …
		for _, ev := range s.Log.Snapshot(seq0) {
			if ev.Kind == "op" && ev.Conn == c.ID && ev.Tag == target.Tag && ev.Seq > firstFlush {
				fail("invoked-after-rflush", fmt.Sprintf("cancelled request (tag %d) was handed to the implementation (%s) after its Rflush had been received", target.Tag, ev.Op), nil)
			}
			if ev.Kind == "op" && ev.Conn == c.ID && strings.HasPrefix(ev.Op, "Auth") && ev.Op != "AuthDestroy" && sc.kind == "auth" && ev.Seq > firstFlush {
				fail("invoked-after-rflush", "cancelled Tauth reached AuthInit after its Rflush had been received", nil)
			}
		}
		// … and leaves no fid or other protocol state behind
		c07Probe(e, target, fail)
	}
	if replied && len(pos[target.Tag]) == 1 {
		// answered: the request took effect, completely (a Tflush that came too late changes nothing)
		c07ProbeAnswered(e, target, wireOrder[pos[target.Tag][0]].Msg, fail)
	}
	if sc.stage == "unknown" || sc.stage == "replied" {
		if !replied {
			fail("target-unanswered", "the target got no reply although nothing flushed it", nil)
		}
	}
	if feasible {
		res.Sig(sig)
		res.AddSet("interleavings", s.Ctl.InterleavingID())
	} else {
		res.Count("infeasible_orderings", 1)
	}
	res.Count("schedule_points_passed", int64(s.Ctl.Points()))
	if replied {
		res.Count("target_answered_before_rflush", 1)
	} else {
		res.Count("target_cancelled", 1)
	}
	if res.Evals%97 == 3 {
		res.Sample(map[string]interface{}{"scenario": sc.id(), "feasible": feasible, "target_replied": replied, "wire": c07wire(wireOrder)})
	}
}

func c07wire(rs []*Reply) []string {
	var out []string
	for _, r := range rs {
		if r.Msg != nil {
			out = append(out, fmt.Sprintf("%s/tag%d", wire.TypeName(r.Msg.Type), r.Msg.Tag))
		}
	}
	return out
}

func c07logTail(l *script.Log, n int) []string {
	evs := l.Snapshot(0)
	if len(evs) > n {
		evs = evs[len(evs)-n:]
	}
	var out []string
	for _, e := range evs {
		t := ""
		if e.Kind == "T" || e.Kind == "R" {
			t = wire.TypeName(e.Type)
		}
		out = append(out, fmt.Sprintf("%d %s c%d tag=%d %s%s %s", e.Seq, e.Kind, e.Conn, e.Tag, e.Op, t, e.Info))
	}
	return out
}

// c07Probe checks that a cancelled request left the fid table as it was before it.
// c07ProbeAnswered: the target was answered with success although a Tflush was around; the fid table must show the
// whole effect of the request (new fid present, clunked fid gone, opened fid open).
func c07ProbeAnswered(e *c07env, target, reply *wire.Msg, fail func(string, string, map[string]interface{})) {
	if reply == nil || reply.Type != target.Type+1 {
		return
	}
	const F = 50
	stat := func(fid uint32) *wire.Msg { return e.rpc(&wire.Msg{Type: wire.Tstat, Fid: fid}) }
	mustBeValid := func(fid uint32, what string) {
		if r := stat(fid); r == nil {
			fail("probe-lost", "no reply to a probe after the flush", nil)
		} else if r.Type == wire.Rerror && r.Ename == "unknown fid" {
			fail("effect-missing;"+what, fmt.Sprintf("%s was answered with success, but fid %d is unknown afterwards", what, fid), nil)
		}
	}
	mustBeGone := func(fid uint32, what string) {
		if r := stat(fid); r == nil {
			fail("probe-lost", "no reply to a probe after the flush", nil)
		} else if r.Type != wire.Rerror || r.Ename != "unknown fid" {
			fail("effect-missing;"+what, fmt.Sprintf("%s was answered with success, but fid %d is still valid afterwards (%s)", what, fid, r.String()), nil)
		}
	}
	mustBeOpen := func(what string) {
		r := e.rpc(&wire.Msg{Type: wire.Twalk, Fid: F, Newfid: 92, Wname: []string{}})
		if r == nil {
			fail("probe-lost", "no reply to a probe after the flush", nil)
		} else if r.Type == wire.Rwalk {
			e.rpc(&wire.Msg{Type: wire.Tclunk, Fid: 92})
			fail("effect-missing;"+what, fmt.Sprintf("%s was answered with success, but fid %d is not open afterwards (it can still be cloned)", what, F), nil)
		}
	}
	switch target.Type {
	case wire.Tattach:
		mustBeValid(F, "Tattach")
	case wire.Tauth:
		if r := e.rpc(&wire.Msg{Type: wire.Tclunk, Fid: F}); r == nil {
			fail("probe-lost", "no reply to a probe after the flush", nil)
		} else if r.Type != wire.Rclunk {
			fail("effect-missing;Tauth", "Tauth was answered with success, but its afid cannot be clunked afterwards: "+r.String(), nil)
		}
	case wire.Twalk:
		switch {
		case len(reply.Wqid) == len(target.Wname) && target.Newfid != target.Fid:
			mustBeValid(target.Newfid, "Twalk")
			mustBeValid(F, "Twalk")
		case len(reply.Wqid) == len(target.Wname):
			mustBeValid(F, "Twalk in place")
		}
	case wire.Topen:
		mustBeOpen("Topen")
	case wire.Tcreate:
		mustBeOpen("Tcreate")
	case wire.Tclunk:
		mustBeGone(F, "Tclunk")
	case wire.Tremove:
		mustBeGone(F, "Tremove")
	}
}

func c07Probe(e *c07env, target *wire.Msg, fail func(string, string, map[string]interface{})) {
	const F = 50
	stat := func(fid uint32) *wire.Msg { return e.rpc(&wire.Msg{Type: wire.Tstat, Fid: fid}) }
	unknown := func(fid uint32, what string) {
		r := stat(fid)
		if r == nil {
			fail("probe-lost", "no reply to a probe after the flush", nil)
			return
		}
		if r.Type != wire.Rerror || r.Ename != "unknown fid" {
			fail("state-left-behind;"+what, fmt.Sprintf("cancelled %s left fid %d valid (probe answered %s)", what, fid, r.String()), nil)
		}
	}
	valid := func(fid uint32, what string) bool {
		r := stat(fid)
		if r == nil {
			fail("probe-lost", "no reply to a probe after the flush", nil)
			return false
		}
		if r.Type != wire.Rstat {
			fail("state-left-behind;"+what, fmt.Sprintf("cancelled %s invalidated fid %d (probe answered %s)", what, fid, r.String()), nil)
			return false
		}
		return true
	}
	notOpenStillDir := func(what string, wantDir bool) {
		// a zero-name walk is refused on an open fid; a one-name walk is refused on a non-directory
		r := e.rpc(&wire.Msg{Type: wire.Twalk, Fid: F, Newfid: 90, Wname: []string{}})
		if r == nil {
			fail("probe-lost", "no reply to a probe after the flush", nil)
			return
		}
		if r.Type != wire.Rwalk {
			fail("state-left-behind;"+what, fmt.Sprintf("cancelled %s left fid %d open (clone probe answered %s)", what, F, r.String()), nil)
			return
		}
		e.rpc(&wire.Msg{Type: wire.Tclunk, Fid: 90})
		if wantDir {
			r = e.rpc(&wire.Msg{Type: wire.Twalk, Fid: F, Newfid: 91, Wname: []string{"dprobe"}})
			if r != nil && r.Type != wire.Rwalk {
				fail("state-left-behind;"+what, fmt.Sprintf("cancelled %s changed the type of fid %d (walk probe answered %s)", what, F, r.String()), nil)
			}
		}
	}
	switch target.Type {
	case wire.Tattach:
		unknown(F, "Tattach")
	case wire.Tauth:
		unknown(F, "Tauth")
	case wire.Twalk:
		if target.Newfid != target.Fid {
			unknown(target.Newfid, "Twalk")
			valid(F, "Twalk")
		} else if valid(F, "Twalk") {
			notOpenStillDir("Twalk in place", true)
		}
	case wire.Topen:
		if valid(F, "Topen") {
			notOpenStillDir("Topen", false)
		}
	case wire.Tcreate:
		if valid(F, "Tcreate") {
			notOpenStillDir("Tcreate", true)
		}
	case wire.Tclunk:
		valid(F, "Tclunk")
	case wire.Tremove:
		// left open: remove gives up its fid whatever happens
	}
}

// c07FlushAfterVersion: a request is held in the implementation, the client renegotiates (Tversion: the server forgets
// the session and will not send the old request's reply), then flushes the old tag. The Tflush is answered — at once
// when the implementation cancels the request on FlushOp (req.Flush()), when the request finishes otherwise — and
// afterwards the old tag carries a new request like any other.
func c07FlushAfterVersion(ctx *core.Ctx, maxpend int) core.Result {
	var res core.Result
	for _, mode := range []string{"cancel", "ignore", "noflushop", "kept"} {
		for _, kind := range []uint8{wire.Tstat, wire.Tread, wire.Twalk} {
			if len(res.Violations) > 0 {
				return res
			}
			ctx.Beat()
			s, e, _, ok := c08setup(Config{Dotu: true, Msize: 8192, Maxpend: maxpend, Flush: mode != "noflushop"})
			if !ok {
				res.Inconclusive = "flush-after-tversion: setup failed"
				return res
			}
			c := e.c
			det := map[string]interface{}{"maxpend": maxpend, "flushop": mode, "held": wire.TypeName(kind)}
			old := e.next()
			p := script.NewPlan()
			p.Gate, p.Entered = make(chan struct{}), make(chan struct{})
			if mode == "kept" {
				// the implementation keeps the request (its callback returned) and answers it later, after the flush
				p.Gate = nil
				p.NoAnswer = true
			}
			s.Ops.SetPlan(c.ID, old, p)
			if mode == "cancel" {
				s.Ops.SetFlushMode(c.ID, old, "cancel")
			}
			held := &wire.Msg{Type: kind, Tag: old, Fid: e.root}
			switch kind {
			case wire.Tread:
				if !e.ok(&wire.Msg{Type: wire.Twalk, Fid: e.root, Newfid: 40, Wname: []string{"f1"}}) || !e.ok(&wire.Msg{Type: wire.Topen, Fid: 40, Mode: 0}) {
					res.Inconclusive = "flush-after-tversion: fid setup failed"
					c.Hangup()
					return res
				}
				held.Fid, held.Count = 40, 16
			case wire.Twalk:
				held.Newfid = 41
				held.Wname = []string{"d1"}
			}
			_ = c.Send(held)
			select {
			case <-p.Entered:
			case <-time.After(W):
				res.Inconclusive = "flush-after-tversion: the request never started"
				c.Hangup()
				return res
			}
			if mode == "kept" {
				s.Ctl.WaitPassed("process.done", c.ID, int(old), 1, 2*time.Second)
			}
			if r, err := c.Version(8192, "9P2000.u", W); err != nil || r.Msg == nil || r.Msg.Type != wire.Rversion {
				res.Inconclusive = "flush-after-tversion: second Tversion not answered"
				if p.Gate != nil {
					close(p.Gate)
				}
				c.Hangup()
				return res
			}
			ftag := e.next()
			_ = c.Send(&wire.Msg{Type: wire.Tflush, Tag: ftag, Oldtag: old})
			res.Evals++
			released := false
			if mode == "ignore" || mode == "noflushop" {
				// nothing cancels the request: it has to finish for the flush to be answered
				s.Ctl.WaitPassed("flush.decided", c.ID, int(ftag), 1, 2*time.Second)
				close(p.Gate)
				released = true
			}
			if mode == "kept" {
				s.Ctl.WaitPassed("flush.decided", c.ID, int(ftag), 1, 2*time.Second)
				s.Ops.AnswerPending(c.ID, old)
			}
			rp, err := c.WaitTag(ftag, W)
			if err != nil || rp.Msg == nil || rp.Msg.Type != wire.Rflush {
				res.Violate(fmt.Sprintf("C07;flush-after-tversion;unanswered;%s", mode),
					fmt.Sprintf("a %s is held in the implementation, the client sends Tversion and then Tflush of the old tag (FlushOp: %s): no Rflush", wire.TypeName(kind), mode), det)
			}
			// the old tag again
			if a, err := c.Rpc(&wire.Msg{Type: wire.Tattach, Tag: old, Fid: 77, Afid: wire.NOFID, Uname: "root", Nuname: 0}, W); err != nil || a.Msg == nil || a.Msg.Type != wire.Rattach {
				res.Violate(fmt.Sprintf("C07;flush-after-tversion;old-tag-stuck;%s", mode),
					fmt.Sprintf("after Tversion and the answered (or expected) Rflush a new request under the old tag got %v", a), det)
			}
			if !released && p.Gate != nil {
				close(p.Gate)
			}
			c.Quiesce(W)
			res.Sig(fmt.Sprintf("flush-after-tversion|%s|%s|mp=%d", mode, wire.TypeName(kind), maxpend))
			c.Hangup()
		}
	}
	res.Sample(map[string]interface{}{"scenario": "request held, Tversion, Tflush of the old tag, old tag reused", "maxpend": maxpend})
	return res
}
