package srvlab

import (
	"bytes"
	"fmt"
	"sort"
	"strings"
	"time"

	"verif/core"
	"verif/script"
	"verif/wire"
)

// ExtraC13 lets the client-side lab add its segmentation cases to the C13 engine.
var ExtraC13 []func(tier string, seed int64) []core.Case

func init() {
	core.Register(&core.Engine{
		Property: "C13",
		Level:    "exploration",
		Rule: "server: one fixed request byte stream per msize in {64, 100, 256, 1024, 4096} (server and client msize equal so the 8 x msize receive buffer wraps and is reallocated several times; " +
			"frames from 9 bytes to exactly msize; unique tags plus one shared-tag group) delivered under different cuts into transport reads: all at once, one byte at a time, every single split point " +
			"(small msize) or every split inside and around each size prefix (large msize), and seeded random multi-way splits. Twrite requests are held in the implementation until the whole stream " +
			"has been delivered, then their payload is hashed. Oracle per segmentation: for every frame the independent decoder finds in the stream, exactly one invocation with those arguments, " +
			"payload hash equal to what was sent, reply bytes equal to the recomputed answer; shared-tag order identical. client: see the clntlab cases added to this engine. " +
			"distinct = (msize, segmentation kind, split position class)",
		Assumptions: []string{
			"requests of the measured stream are mutually independent (fids prepared beforehand), so their concurrent execution cannot change the answers",
		},
		Cases:       c13Cases,
		MinDistinct: 100,
		Jobs:        8,
	})
}

func c13Cases(tier string, seed int64) []core.Case {
	var cases []core.Case
	for _, msize := range []uint32{64, 100, 256, 1024, 4096} {
		for _, dotu := range []bool{true, false} {
			msize, dotu := msize, dotu
			if tier == "quick" && !dotu && msize != 64 && msize != 256 {
				continue
			}
			for part := 0; part < 4; part++ {
				part := part
				cases = append(cases, core.Case{ID: fmt.Sprintf("server/msize=%d/dotu=%v/part=%d", msize, dotu, part), Run: func(ctx *core.Ctx) core.Result {
					return c13Server(ctx, msize, dotu, part, 4, tier == "thorough")
				}})
			}
		}
	}
	for _, dotu := range []bool{true, false} {
		dotu := dotu
		cases = append(cases, core.Case{ID: fmt.Sprintf("server/renegotiating-stream/dotu=%v", dotu), Run: func(ctx *core.Ctx) core.Result {
			return c13Renegotiate(ctx, dotu, dotu)
		}})
	}
	// a plain-9P2000 client of a server that also offers 9P2000.u: the Tversion decides how the bytes behind it are read
	cases = append(cases, core.Case{ID: "server/renegotiating-stream/plain-client-of-dotu-server", Run: func(ctx *core.Ctx) core.Result {
		return c13Renegotiate(ctx, false, true)
	}})
	for _, f := range ExtraC13 {
		cases = append(cases, f(tier, seed)...)
	}
	return cases
}

// c13Renegotiate: a stream that itself changes the rules of framing — a Tversion lowering msize, followed by frames
// that are legal under the old limit and oversized under the new one, and by ordinary requests — is delivered in one
// segment, one message per segment, one byte per segment and with cuts inside each message. What the server executes,
// what it answers (the Rversion apart, which may or may not get out before the connection is dropped) and whether it
// keeps the connection must be the same for every segmentation.
func c13Renegotiate(ctx *core.Ctx, dotu, srvDotu bool) core.Result {
	var res core.Result
	ver := "9P2000"
	if dotu {
		ver = "9P2000.u"
	}
	type variant struct {
		srv, neg uint32
		big      int // size of the frame behind the Tversion
		flood    int // > 0: instead, that many small independent requests behind the Tversion (more than 8 x neg bytes)
	}
	variants := []variant{{8192, 256, 330, 0}, {8192, 64, 65, 0}, {4096, 1024, 4096, 0}, {8192, 256, 200, 0}, {1024, 128, 129, 0}, {8192, 4096, 4097, 0},
		{8192, 64, 0, 100}, {1 << 20, 64, 0, 300}, {8192, 128, 0, 150}, {0, 24, 0, 40},
		// the smallest Tattach there is (its size differs between the dialects) behind a Tversion that keeps msize
		{8192, 8192, 1, 0}, {8192, 256, 1, 0}}
	for vi, v := range variants {
		tv := wire.Encode(&wire.Msg{Type: wire.Tversion, Tag: wire.NOTAG, Msize: v.neg, Version: ver}, dotu)
		base := len(wire.Encode(&wire.Msg{Type: wire.Tattach, Tag: 1, Fid: 0, Afid: wire.NOFID, Uname: "root", Nuname: 0, Aname: ""}, dotu))
		pad := v.big - base
		if pad < 0 {
			pad = 0
		}
		uname := "root"
		if v.big == 1 {
			uname = "u" // (with names of fewer than four bytes in all, the plain Tattach is shorter than any 9P2000.u one)
		}
		att := wire.Encode(&wire.Msg{Type: wire.Tattach, Tag: 1, Fid: 0, Afid: wire.NOFID, Uname: uname, Nuname: 0, Aname: strings.Repeat("a", pad)}, dotu)
		// the requests behind it do not depend on one another (they run concurrently): a flush of an unknown tag, a
		// clunk of an unknown fid
		st := wire.Encode(&wire.Msg{Type: wire.Tflush, Tag: 2, Oldtag: 999}, dotu)
		cl := wire.Encode(&wire.Msg{Type: wire.Tclunk, Tag: 3, Fid: 77}, dotu)
		frames := [][]byte{tv, att, st, cl}
		if v.flood > 0 {
			frames = [][]byte{tv}
			for i := 0; i < v.flood; i++ {
				frames = append(frames, wire.Encode(&wire.Msg{Type: wire.Tflush, Tag: uint16(1 + i), Oldtag: 0x7000}, dotu))
			}
			att = frames[1]
		}
		var stream []byte
		var bounds []int
		for _, f := range frames {
			stream = append(stream, f...)
			bounds = append(bounds, len(stream))
		}
		segs := map[string][]int{"one-segment": nil, "per-message": bounds[:len(bounds)-1]}
		var per []int
		for i := 1; i < len(stream); i++ {
			per = append(per, i)
		}
		segs["per-byte"] = per
		segs["cut-inside-tversion"] = []int{len(tv) / 2}
		segs["cut-after-tversion-size-prefix"] = []int{len(tv) + 2}
		segs["cut-inside-second"] = []int{len(tv) + len(att)/2}
		segs["tversion+prefix-of-second"] = []int{len(tv) + 5}
		segs["two-messages-then-rest"] = []int{len(tv) + len(att)}
		names := []string{"per-message", "one-segment", "per-byte", "cut-inside-tversion", "cut-after-tversion-size-prefix", "cut-inside-second", "tversion+prefix-of-second", "two-messages-then-rest"}
		ref := ""
		for _, name := range names {
			ctx.Beat()
			s := NewSess(Config{Dotu: srvDotu, Msize: v.srv})
			c := s.Dial()
			seq0 := s.Log.Seq()
			prev := 0
			for _, cut := range segs[name] {
				_ = c.SendRaw(stream[prev:cut])
				prev = cut
			}
			_ = c.SendRaw(stream[prev:])
			// the outcome is final when the server dropped the connection, or consumed everything and went idle
			waitFor(W, func() bool { return c.Closed() != nil || (c.SrvE.ReaderIdle() && c.Quiesce(time.Millisecond)) })
			closed := c.WaitClosed(50 * time.Millisecond)
			if !closed {
				c.Quiesce(W)
			}
			var tr []string
			for _, r := range c.All() {
				switch {
				case r.Msg == nil:
					tr = append(tr, "undecodable")
				case r.Msg.Type == wire.Rversion:
				default:
					tr = append(tr, fmt.Sprintf("%s/tag%d", wire.TypeName(r.Msg.Type), r.Msg.Tag))
				}
			}
			sort.Strings(tr)
			var ops []string
			for _, e := range s.Log.Snapshot(seq0) {
				if e.Kind == "op" && e.Conn == c.ID {
					ops = append(ops, e.Op)
				}
			}
			sort.Strings(ops)
			got := fmt.Sprintf("executed=%v replies=%v dropped=%v", ops, tr, closed)
			c.Hangup()
			res.Evals++
			res.Sig(fmt.Sprintf("renegotiate|%d|%s|%v|%v", vi, name, dotu, srvDotu))
			if ref == "" {
				ref = got
				if vi == 0 {
					res.Sample(map[string]interface{}{"server_msize": v.srv, "negotiated": v.neg, "frame_behind_tversion": v.big, "outcome": got})
				}
				continue
			}
			if got != ref {
				res.Violate("C13;renegotiating-stream;"+name, fmt.Sprintf("the same byte stream (Tversion to msize %d, then a %d-byte frame, then two requests; server msize %d) gives {%s} delivered %s and {%s} delivered one message per segment", v.neg, v.big, v.srv, got, name, ref),
					map[string]interface{}{"variant": vi, "dotu": dotu})
				break
			}
		}
		if len(res.Violations) > 0 {
			break
		}
	}
	return res
}

type c13frame struct {
	m    *wire.Msg
	raw  []byte
	plan *script.Plan
}

// c13Stream builds the measured stream for a connection prepared with fid 0 (root dir) and fid 1 (file open ORDWR).
func c13Stream(msize uint32, dotu bool, seed int64) []c13frame {
	r := core.NewRand(seed, fmt.Sprintf("c13stream/%d/%v", msize, dotu))
	L := int(msize) - wire.IOHDRSZ
	var fs []c13frame
	tag := uint16(100)
	add := func(m *wire.Msg) {
		tag++
		m.Tag = tag
		fs = append(fs, c13frame{m: m, plan: script.NewPlan()})
	}
	total := 0
	newfid := uint32(1000)
	for total < int(msize)*44 {
		var m *wire.Msg
		switch r.Intn(9) {
		case 0:
			m = &wire.Msg{Type: wire.Tflush, Oldtag: 0x7000} // 9 bytes: the smallest well-formed request
		case 1:
			m = &wire.Msg{Type: wire.Tclunk, Fid: 0x700000 + uint32(tag)} // 11 bytes, unknown fid
		case 2:
			m = &wire.Msg{Type: wire.Tstat, Fid: uint32(r.Intn(2))}
		case 3, 4:
			n := []int{0, 1, L + 1, L, L - 1, r.Intn(L + 1)}[r.Intn(6)] // L+1 data bytes make a frame of exactly msize bytes (refused by count)
			d := r.Bytes(n)
			m = &wire.Msg{Type: wire.Twrite, Fid: 1, Offset: uint64(r.Intn(1 << 20)), Count: uint32(n), Data: d}
		case 5:
			m = &wire.Msg{Type: wire.Tread, Fid: 1, Offset: uint64(r.Intn(1 << 20)), Count: uint32(r.Intn(L + 1))}
		case 6:
			newfid++
			k := r.Intn(3)
			names := make([]string, k)
			for i := range names {
				names[i] = fmt.Sprintf("d%d", r.Intn(100))
			}
			m = &wire.Msg{Type: wire.Twalk, Fid: 0, Newfid: newfid, Wname: names}
		case 7:
			st := wire.Stat{Name: fmt.Sprintf("w%d", tag), Mode: 0o640, Nuid: wire.NOUID, Ngid: wire.NOUID, Nmuid: wire.NOUID}
			if msize < 100 {
				m = &wire.Msg{Type: wire.Tstat, Fid: 1}
			} else {
				m = &wire.Msg{Type: wire.Twstat, Fid: 1, Stat: st}
			}
		case 8:
			m = &wire.Msg{Type: wire.Tread, Fid: 1, Offset: 7, Count: 0}
		}
		if len(wire.Encode(m, dotu)) > int(msize) {
			continue
		}
		add(m)
		total += len(wire.Encode(m, dotu))
	}
	// a group sharing one tag: order matters here
	tag++
	for i := 0; i < 5; i++ {
		fs = append(fs, c13frame{m: &wire.Msg{Type: wire.Tread, Tag: tag, Fid: 1, Offset: uint64(9000 + i), Count: uint32(5 + i)}, plan: script.NewPlan()})
	}
	for i := range fs {
		fs[i].raw = wire.Encode(fs[i].m, dotu)
	}
	return fs
}

// a segmentation is the list of segment lengths (the remainder goes into a last segment).
type c13seg struct {
	name string
	cuts []int  // ascending split offsets
	id   string // distinguishes segmentations of the same class in the distinct count
}

func c13Segmentations(fs []c13frame, msize uint32, seed int64, part, nparts int, thorough bool) []c13seg {
	n := 0
	var bounds []int
	for _, f := range fs {
		bounds = append(bounds, n)
		n += len(f.raw)
	}
	var out []c13seg
	idx := 0
	push := func(s c13seg) {
		if idx%nparts == part {
			out = append(out, s)
		}
		idx++
	}
	push(c13seg{"all-at-once", nil, ""})
	one := make([]int, 0, n)
	for i := 1; i < n; i++ {
		one = append(one, i)
	}
	if n <= 20000 || thorough {
		push(c13seg{"byte-at-a-time", one, ""})
	}
	fb := append([]int{}, bounds[1:]...)
	push(c13seg{"frame-at-a-time", fb, ""})
	if msize <= 100 {
		for i := 1; i < n; i++ {
			push(c13seg{fmt.Sprintf("single-split@%s", posClass(i, bounds)), []int{i}, fmt.Sprint(i)})
		}
	} else {
		for _, b := range bounds {
			for d := -2; d <= 8; d++ {
				if p := b + d; p > 0 && p < n {
					push(c13seg{fmt.Sprintf("single-split@%s", posClass(p, bounds)), []int{p}, fmt.Sprint(p)})
				}
			}
		}
	}
	// split inside every size prefix at once
	for d := 1; d <= 4; d++ {
		var cuts []int
		for _, b := range bounds {
			if b+d < n {
				cuts = append(cuts, b+d)
			}
		}
		push(c13seg{fmt.Sprintf("every-prefix+%d", d), cuts, ""})
	}
	nr := 40
	if thorough {
		nr = 1200
	}
	r := core.NewRand(seed, fmt.Sprintf("c13seg/%d", msize))
	for i := 0; i < nr; i++ {
		k := 1 + r.Intn(60)
		set := map[int]bool{}
		for j := 0; j < k; j++ {
			set[1+r.Intn(n-1)] = true
		}
		var cuts []int
		for p := 1; p < n; p++ {
			if set[p] {
				cuts = append(cuts, p)
			}
		}
		push(c13seg{fmt.Sprintf("random-%dway", k/10*10), cuts, fmt.Sprint(i)})
	}
	return out
}

func posClass(p int, bounds []int) string {
	// position relative to the frame it falls in
	lo := 0
	for _, b := range bounds {
		if b <= p {
			lo = b
		}
	}
	d := p - lo
	switch {
	case d == 0:
		return "boundary"
	case d < 4:
		return fmt.Sprintf("size+%d", d)
	case d < 7:
		return fmt.Sprintf("header+%d", d)
	}
	return "body"
}

func c13Server(ctx *core.Ctx, msize uint32, dotu bool, part, nparts int, thorough bool) core.Result {
	var res core.Result
	fs := c13Stream(msize, dotu, 1) // the stream does not depend on VERIF_SEED: only the random segmentations do
	var stream []byte
	for _, f := range fs {
		stream = append(stream, f.raw...)
	}
	segs := c13Segmentations(fs, msize, ctx.Seed, part, nparts, thorough)
	for si, sg := range segs {
		if len(res.Violations) > 0 {
			break
		}
		if si%50 == 0 {
			ctx.Beat()
		}
		c13One(&res, msize, dotu, fs, stream, sg)
	}
	res.Count("stream_bytes", int64(len(stream)))
	res.Count("stream_frames", int64(len(fs)))
	return res
}

func c13One(res *core.Result, msize uint32, dotu bool, fs []c13frame, stream []byte, sg c13seg) {
	s := NewSess(Config{Dotu: dotu, Msize: msize})
	c := s.Dial()
	defer c.Hangup()
	res.Evals++
	ver := "9P2000"
	if dotu {
		ver = "9P2000.u"
	}
	fail := func(sig, what string, extra interface{}) {
		res.Violate("C13;"+sig+";"+sg.name, fmt.Sprintf("%s [msize %d, dotu %v, segmentation %s with %d cuts]", what, msize, dotu, sg.name, len(sg.cuts)),
			map[string]interface{}{"cuts": headInts(sg.cuts, 40), "extra": extra})
	}
	if r, err := c.Version(msize, ver, W); err != nil || r.Msg == nil || r.Msg.Type != wire.Rversion || r.Msg.Msize != msize {
		res.Inconclusive = "c13: version failed"
		return
	}
	ok := func(m *wire.Msg) bool {
		r, err := c.Rpc(m, W)
		return err == nil && r.Msg != nil && r.Msg.Type == m.Type+1
	}
	if !ok(&wire.Msg{Type: wire.Tattach, Tag: 1, Fid: 0, Afid: wire.NOFID, Uname: "root", Nuname: 0}) ||
		!ok(&wire.Msg{Type: wire.Twalk, Tag: 2, Fid: 0, Newfid: 1, Wname: []string{"f"}}) || !ok(&wire.Msg{Type: wire.Topen, Tag: 3, Fid: 1, Mode: 2}) {
		res.Inconclusive = "c13: setup failed"
		return
	}
	// plans: writes are held until the whole stream has been delivered
	gate := make(chan struct{})
	for i := range fs {
		p := script.NewPlan()
		if fs[i].m.Type == wire.Twrite {
			p.Gate = gate
		}
		fs[i].plan = p
		s.Ops.SetPlan(c.ID, fs[i].m.Tag, p)
	}
	seq0 := s.Log.Seq()
	prev := 0
	for _, cut := range sg.cuts {
		_ = c.SendRaw(stream[prev:cut])
		prev = cut
	}
	_ = c.SendRaw(stream[prev:])
	// the whole stream is with the server once its receive loop has taken the last segment
	if !c.SrvE.WaitDrained(W) {
		close(gate)
		fail("stream-not-consumed", "the server stopped reading the request stream", nil)
		return
	}
	time.Sleep(300 * time.Microsecond)
	close(gate)
	// collect one reply per frame
	replies := map[uint16][]*Reply{}
	deadline := time.Now().Add(W)
	for got := 0; got < len(fs); got++ {
		r, err := c.Next(time.Until(deadline))
		if err != nil {
			fail("replies-missing", fmt.Sprintf("only %d of %d replies arrived (%v)", got, len(fs), err), nil)
			return
		}
		if r.Msg == nil {
			fail("undecodable-reply", "reply does not decode: "+r.Err.Error(), nil)
			return
		}
		replies[r.Msg.Tag] = append(replies[r.Msg.Tag], r)
	}
	c.Quiesce(W)
	ops := map[uint16][]script.Event{}
	late := map[uint16]string{}
	for _, e := range s.Log.Snapshot(seq0) {
		if e.Conn != c.ID {
			continue
		}
		if e.Kind == "op" {
			ops[e.Tag] = append(ops[e.Tag], e)
		}
		if e.Kind == "latehash" {
			late[e.Tag] = e.Args
		}
	}
	tab := map[uint32]uint8{0: 0x80, 1: 0}
	L := msize - wire.IOHDRSZ
	shared := fs[len(fs)-1].m.Tag
	si := 0
	for i := range fs {
		m := fs[i].m
		idx := 0
		if m.Tag == shared {
			idx = si
			si++
		}
		// what the reference decoder says the request is decides the expected treatment
		forwarded := true
		var experr string
		switch m.Type {
		case wire.Tflush:
			forwarded = false
		case wire.Tclunk:
			forwarded, experr = false, "unknown fid"
		case wire.Twrite, wire.Tread:
			if m.Count > L {
				forwarded, experr = false, "i/o count too large"
			}
		}
		rs := replies[m.Tag]
		if len(rs) <= idx {
			fail("reply-missing", fmt.Sprintf("no reply for frame %d (%s)", i, m.String()), nil)
			return
		}
		rep := rs[idx]
		es := ops[m.Tag]
		if !forwarded {
			if len(es) != 0 {
				fail("unexpected-invocation", fmt.Sprintf("frame %d (%s) reached the implementation", i, m.String()), nil)
			}
			if m.Type == wire.Tflush && rep.Msg.Type != wire.Rflush {
				fail("reply-differs", fmt.Sprintf("frame %d (%s) answered %s", i, m.String(), rep.Msg.String()), nil)
			}
			if experr != "" && (rep.Msg.Type != wire.Rerror || rep.Msg.Ename != experr) {
				fail("reply-differs", fmt.Sprintf("frame %d (%s) answered %s, expected error %q", i, m.String(), rep.Msg.String(), experr), nil)
			}
			continue
		}
		if len(es) <= idx {
			fail("invocation-missing", fmt.Sprintf("frame %d (%s) never reached the implementation", i, m.String()), nil)
			return
		}
		e := es[idx]
		op := map[uint8]string{wire.Tstat: "Stat", wire.Twrite: "Write", wire.Tread: "Read", wire.Twalk: "Walk", wire.Twstat: "Wstat"}[m.Type]
		if e.Op != op || e.Args != expectedArgs(op, m, dotu) {
			fail("invocation-differs;"+op, fmt.Sprintf("frame %d: implementation saw %s{%s}, the stream says %s{%s}", i, e.Op, e.Args, op, expectedArgs(op, m, dotu)), nil)
		}
		if m.Type == wire.Twrite && late[m.Tag] != script.HashBytes(m.Data) {
			fail("payload-disturbed", fmt.Sprintf("frame %d: the payload of a Twrite changed while later bytes of the stream arrived (hash %s, sent %s)", i, late[m.Tag], script.HashBytes(m.Data)), nil)
		}
		want := wire.Encode(expectedReply(m, fs[i].plan, e, tab[m.Fid], dotu), dotu)
		if len(want) > int(msize) {
			// the implementation's answer does not fit the negotiated msize: the framework must answer with an error instead
			if rep.Msg.Type != wire.Rerror {
				fail("reply-differs;"+op, fmt.Sprintf("frame %d (%s): an answer of %d bytes cannot be sent with msize %d, got %s", i, m.String(), len(want), msize, rep.Msg.String()), nil)
			}
			continue
		}
		if !bytes.Equal(want, rep.Raw) {
			fail("reply-differs;"+op, fmt.Sprintf("frame %d (%s): reply %s is not the implementation's answer", i, m.String(), rep.Msg.String()),
				map[string]string{"got": hexn(rep.Raw), "want": hexn(want)})
		}
	}
	// shared-tag group: execution order = stream order
	for k, e := range ops[shared] {
		want := fmt.Sprintf("offset=%d count=%d", 9000+k, 5+k)
		if e.Args != want {
			fail("shared-tag-order", fmt.Sprintf("member %d of the shared-tag group executed as {%s}", k, e.Args), nil)
		}
	}
	res.Count("frames_judged", int64(len(fs)))
	res.Sig(fmt.Sprintf("srv|%d|%v|%s|%s", msize, dotu, sg.name, sg.id))
	if sg.name == "every-prefix+2" {
		res.Sample(map[string]interface{}{"msize": msize, "dotu": dotu, "segmentation": sg.name, "cuts": len(sg.cuts), "stream_bytes": len(stream), "frames": len(fs)})
	}
}

func headInts(a []int, n int) []int {
	if len(a) > n {
		return a[:n]
	}
	return a
}
