package srvlab

import (
	"fmt"
	"io"
	"log"
	"net"
	"os"
	"path/filepath"
	"runtime"
	"runtime/debug"
	"strings"
	"sync"
	"syscall"
	"time"

	"github.com/rminnich/go9p"

	"verif/core"
	"verif/script"
	"verif/wire"
)

func init() {
	core.Register(&core.Engine{
		Property: "C06",
		Level:    "exploration",
		Rule: "hostile clients against (a) the framework with a trivial scripted implementation and (b) the bundled Unix file server on a scratch tree, hosted in a crash-isolated worker process " +
			"(the supervisor attributes a process-fatal panic to the session logged last and restarts after it). Workload: structured sessions — every T message type x fid state " +
			"(none, attached dir, walked file, open file, open dir, clunked, NOFID, stale) x boundary field values (counts 0/L/L+1/2^31/2^32-16..2^32-1, offsets 0/mid-record/past end/2^63/2^64-1, " +
			"names '', '.', '..', 'a/b', 255 bytes, 17 and 500 walk elements, all mode/perm bits, msize 24..64 and 8192), R-type and undefined-type frames sent to the server, " +
			"byte-level mutations of recorded valid sessions, raw random bytes and truncated frames followed by disconnect, many short connections. After every hostile session: " +
			"a fresh connection must negotiate and attach, and a bystander connection's open fid must still stat identically. " +
			"distinct = (server, session family, message type, fid state, value class)",
		Assumptions: []string{
			"the worker process is 'the server process'; a panic anywhere in it whose innermost non-runtime frame is in package go9p is a violation",
			"address space limited to 4 GiB so that an allocation bomb is an observable crash",
		},
		Cases:       c06Cases,
		MinDistinct: 200,
		Jobs:        8,
		MemLimitMB:  8192,
	})
}

func c06Cases(tier string, seed int64) []core.Case {
	var cases []core.Case
	nmut, nraw := 150, 150
	if tier == "thorough" {
		nmut, nraw = 6000, 6000
	}
	for _, server := range []string{"script", "ufs"} {
		for _, dotu := range []bool{true, false} {
			server, dotu := server, dotu
			for si := range c06states {
				si := si
				cases = append(cases, core.Case{ID: fmt.Sprintf("structured/%s/dotu=%v/%s", server, dotu, c06states[si]), Run: func(ctx *core.Ctx) core.Result {
					return c06Structured(ctx, server, dotu, c06states[si])
				}})
			}
			for k := 0; k < 4; k++ {
				k := k
				cases = append(cases, core.Case{ID: fmt.Sprintf("mutated/%s/dotu=%v/%d", server, dotu, k), Run: func(ctx *core.Ctx) core.Result {
					return c06Mutated(ctx, server, dotu, k, nmut/4)
				}})
				cases = append(cases, core.Case{ID: fmt.Sprintf("raw/%s/dotu=%v/%d", server, dotu, k), Run: func(ctx *core.Ctx) core.Result {
					return c06Raw(ctx, server, dotu, k, nraw/4)
				}})
			}
			cases = append(cases, core.Case{ID: fmt.Sprintf("tinymsize/%s/dotu=%v", server, dotu), Run: func(ctx *core.Ctx) core.Result {
				return c06TinyMsize(ctx, server, dotu)
			}})
			// the same with every debug facility of the server switched on (messages formatted, printed and kept in
			// the server's log ring): formatting a hostile message must not bring the server down either
			for _, st := range []string{"none", "openfile", "opendir"} {
				st := st
				cases = append(cases, core.Case{ID: fmt.Sprintf("structured/%s/dotu=%v/%s/debug", server, dotu, st), Run: func(ctx *core.Ctx) core.Result {
					debugAll = true
					defer func() { debugAll = false }()
					return c06Structured(ctx, server, dotu, st)
				}})
			}
			cases = append(cases, core.Case{ID: fmt.Sprintf("mutated/%s/dotu=%v/debug", server, dotu), Run: func(ctx *core.Ctx) core.Result {
				debugAll = true
				defer func() { debugAll = false }()
				n := nmut / 4
				if n > 300 {
					n = 300 // every logged message pins its connection (buffers included) in the server's ring
				}
				return c06Mutated(ctx, server, dotu, 4, n)
			}})
			cases = append(cases, core.Case{ID: fmt.Sprintf("tinymsize-akaros-pipelined/%s/dotu=%v", server, dotu), Run: func(ctx *core.Ctx) core.Result {
				old := *go9p.Akaros
				*go9p.Akaros = true
				defer func() { *go9p.Akaros = old }()
				return c06TinyPipelined(ctx, server, dotu)
			}})
			cases = append(cases, core.Case{ID: fmt.Sprintf("tinymsize-pipelined/%s/dotu=%v", server, dotu), Run: func(ctx *core.Ctx) core.Result {
				return c06TinyPipelined(ctx, server, dotu)
			}})
			cases = append(cases, core.Case{ID: fmt.Sprintf("listener/%s/dotu=%v", server, dotu), Run: func(ctx *core.Ctx) core.Result {
				return c06Listener(ctx, server, dotu)
			}})
			cases = append(cases, core.Case{ID: fmt.Sprintf("renegotiate/%s/dotu=%v", server, dotu), Run: func(ctx *core.Ctx) core.Result {
				return c06Renegotiate(ctx, server, dotu)
			}})
			cases = append(cases, core.Case{ID: fmt.Sprintf("fresh-users/%s/dotu=%v", server, dotu), Run: func(ctx *core.Ctx) core.Result {
				return c06FreshUsers(ctx, server, dotu)
			}})
			cases = append(cases, core.Case{ID: fmt.Sprintf("hangup-with-binding-request-in-flight/%s/dotu=%v", server, dotu), Run: func(ctx *core.Ctx) core.Result {
				return c06HangupWhileBinding(ctx, server, dotu, map[string]int{"quick": 1500, "thorough": 4000}[tier])
			}})
			if server == "ufs" {
				cases = append(cases, core.Case{ID: fmt.Sprintf("flush-of-waiting-request/ufs/dotu=%v", dotu), Run: func(ctx *core.Ctx) core.Result {
					return c06UfsFlushWaiting(ctx, dotu)
				}})
			}
			cases = append(cases, core.Case{ID: fmt.Sprintf("cancelled-unstarted/%s/dotu=%v", server, dotu), Run: func(ctx *core.Ctx) core.Result {
				return c06CancelledUnstarted(ctx, server, dotu)
			}})
		}
	}
	return cases
}

var c06states = []string{"none", "dir", "file", "openfile", "opendir", "clunked", "nofid", "created", "authfid", "unlinked-open", "unlinked-dir"}

// hostile is a server under attack plus its bystander connection.
type hostile struct {
	ctx        *core.Ctx
	res        *core.Result
	server     string
	dotu       bool
	s          *Sess
	root       string
	by         *CConn
	byStat     string
	sessions   int
	restoreLog bool
}

func mkTree(dir string) error {
	if err := os.MkdirAll(filepath.Join(dir, "sub", "deep"), 0o755); err != nil {
		return err
	}
	for i := 0; i < 12; i++ {
		name := fmt.Sprintf("file%02d%s", i, strings.Repeat("x", i*3))
		if err := os.WriteFile(filepath.Join(dir, name), []byte(strings.Repeat("0123456789", i*7)), 0o644); err != nil {
			return err
		}
	}
	_ = os.WriteFile(filepath.Join(dir, "sub", "inner.txt"), []byte("inner"), 0o644)
	_ = os.MkdirAll(filepath.Join(dir, "listing"), 0o755)
	for i := 0; i < 9; i++ {
		_ = os.WriteFile(filepath.Join(dir, "listing", fmt.Sprintf("e%d%s", i, strings.Repeat("y", i*5))), []byte("x"), 0o644)
	}
	_ = os.Symlink("file01xxx", filepath.Join(dir, "link"))
	return nil
}

// debugAll: the servers of the running case have Debuglevel = all four facilities (a worker runs one case at a time).
var debugAll bool

func newHostile(ctx *core.Ctx, res *core.Result, server string, dotu bool) *hostile {
	h := &hostile{ctx: ctx, res: res, server: server, dotu: dotu}
	dbg := 0
	if debugAll {
		dbg = go9p.DbgPrintFcalls | go9p.DbgPrintPackets | go9p.DbgLogFcalls | go9p.DbgLogPackets
		log.SetOutput(io.Discard) // the messages are still formatted by the server; only the writing is dropped
		h.restoreLog = true
		res.Count("sessions_with_debug_facilities_on", 0)
	}
	if server == "ufs" {
		h.root = filepath.Join(ctx.Scratch, fmt.Sprintf("c06-%d", ctx.Index))
		_ = os.RemoveAll(h.root)
		if err := mkTree(h.root); err != nil {
			res.Inconclusive = "cannot build scratch tree: " + err.Error()
			return nil
		}
		h.s = NewUfsSess(h.root, dotu, 8192)
		h.s.Srv.Debuglevel = dbg
		if dbg != 0 {
			h.s.Srv.Log = go9p.NewLogger(64)
		}
	} else {
		h.s = NewSess(Config{Dotu: dotu, Msize: 8192, Debug: dbg, Auth: true}) // with authentication operations: auth fids exist
		if dbg != 0 {
			h.s.Srv.Log = go9p.NewLogger(64)
		}
	}
	// the bystander: attached, with an open fid
	h.by = h.s.Dial()
	ok := h.setup(h.by, 8192)
	if !ok {
		res.Inconclusive = "bystander setup failed"
		return nil
	}
	st, good := h.stat(h.by, 1)
	if !good {
		res.Inconclusive = "bystander stat failed"
		return nil
	}
	h.byStat = st
	return h
}

func (h *hostile) done() {
	if h.restoreLog {
		log.SetOutput(os.Stderr)
	}
	if h.root != "" {
		_ = os.RemoveAll(h.root)
	}
}

func (h *hostile) ver() string {
	if h.dotu {
		return "9P2000.u"
	}
	return "9P2000"
}

// setup: version, attach fid 0 (root dir), walk fid 1 to a file and open it.
func (h *hostile) setup(c *CConn, msize uint32) bool {
	r, err := c.Version(msize, h.ver(), W)
	if err != nil || r.Msg == nil || r.Msg.Type != wire.Rversion {
		return false
	}
	if !h.okRpc(c, &wire.Msg{Type: wire.Tattach, Tag: 1, Fid: 0, Afid: wire.NOFID, Uname: "root", Nuname: 0}) {
		return false
	}
	if !h.okRpc(c, &wire.Msg{Type: wire.Twalk, Tag: 2, Fid: 0, Newfid: 1, Wname: []string{"file03xxxxxxxxx"}}) {
		return false
	}
	return h.okRpc(c, &wire.Msg{Type: wire.Topen, Tag: 3, Fid: 1, Mode: 0})
}

func (h *hostile) okRpc(c *CConn, m *wire.Msg) bool {
	r, err := c.Rpc(m, W)
	return err == nil && r.Msg != nil && r.Msg.Type == m.Type+1
}

func (h *hostile) stat(c *CConn, fid uint32) (string, bool) {
	r, err := c.Rpc(&wire.Msg{Type: wire.Tstat, Tag: 900, Fid: fid}, W)
	if err != nil || r.Msg == nil || r.Msg.Type != wire.Rstat {
		return "", false
	}
	s := r.Msg.Stat
	return fmt.Sprintf("%s/%d/%d/%x", s.Name, s.Length, s.Qid.Path, s.Mode), true
}

// after every hostile session: other and later connections keep being served.
func (h *hostile) check(what string, sig string) {
	h.sessions++
	h.res.Evals++
	st, ok := h.stat(h.by, 1)
	if h.server == "ufs" && !ok {
		// clients of the Unix file server share the tree: a hostile but legal rename/chmod may change what the
		// bystander sees; it must still be served (any reply), identical content is required of the scripted server only
		r, err := h.by.Rpc(&wire.Msg{Type: wire.Tstat, Tag: 901, Fid: 1}, W)
		if err == nil && r.Msg != nil {
			ok, st = true, h.byStat
		}
	}
	if h.server == "ufs" && ok {
		st = h.byStat
	}
	if !ok {
		// not served within the watchdog: a verdict needs more than a slow machine — ask once more and wait long
		if r, err := h.by.Rpc(&wire.Msg{Type: wire.Tstat, Tag: 902, Fid: 1}, 6*W); err == nil && r.Msg != nil && r.Msg.Type == wire.Rstat {
			h.res.Count("bystander_probes_answered_late", 1)
			ok = true
			st = h.byStat
			if h.server != "ufs" {
				q := r.Msg.Stat
				st = fmt.Sprintf("%s/%d/%d/%x", q.Name, q.Length, q.Qid.Path, q.Mode)
			}
		}
	}
	if !ok || st != h.byStat {
		h.res.Violate("C06;bystander-disturbed;"+h.server+";"+sig, fmt.Sprintf("after hostile session {%s} the bystander connection's open fid answers %q (before: %q)", what, st, h.byStat), nil)
		// get a new bystander so that the run can go on
		h.by = h.s.Dial()
		if h.setup(h.by, 8192) {
			h.byStat, _ = h.stat(h.by, 1)
		}
	}
	if h.sessions%8 == 0 {
		c := h.s.Dial()
		good := h.setup(c, 8192)
		c.Hangup()
		if !good {
			// once more, on a new connection (every step has the watchdog's time again)
			c = h.s.Dial()
			good = h.setup(c, 8192)
			c.Hangup()
			if good {
				h.res.Count("later_connections_served_at_second_attempt", 1)
			}
		}
		if !good {
			h.res.Violate("C06;later-connection-refused;"+h.server+";"+sig, fmt.Sprintf("after hostile session {%s} a fresh connection cannot negotiate/attach/walk/open", what), nil)
		}
	}
}

// repair puts back what hostile but legal requests of earlier sessions took away from the scratch tree (a rename
// or remove of the directory and files the states are built on): every session starts from the same tree.
func (h *hostile) repair() {
	if h.root == "" {
		return
	}
	for _, p := range []string{"sub", "sub/deep", "sub/inner.txt", "listing", "file05xxxxxxxxxxxxxxx", "file03xxxxxxxxx", "file01xxx"} {
		if fi, err := os.Lstat(filepath.Join(h.root, p)); err != nil || (strings.HasPrefix(p, "file") && fi.IsDir()) || (!strings.Contains(p, ".") && !strings.HasPrefix(p, "file") && !fi.IsDir()) {
			_ = os.RemoveAll(filepath.Join(h.root, p))
			_ = os.Chmod(h.root, 0o755)
			_ = mkTree(h.root)
			h.res.Count("scratch_tree_repairs", 1)
			break
		}
	}
	_ = os.Chmod(filepath.Join(h.root, "sub"), 0o755)
	_ = os.Chmod(filepath.Join(h.root, "listing"), 0o755)
	_ = os.Chmod(filepath.Join(h.root, "file05xxxxxxxxxxxxxxx"), 0o644)
	_ = os.Chmod(filepath.Join(h.root, "file03xxxxxxxxx"), 0o644)
}

// prepare brings fid 5 of a fresh hostile connection into the named state; returns the fid number to attack.
func (h *hostile) prepare(c *CConn, state string, msize uint32) (uint32, bool) {
	h.repair()
	r, err := c.Version(msize, h.ver(), W)
	if err != nil || r.Msg == nil || r.Msg.Type != wire.Rversion {
		return 0, false
	}
	att := &wire.Msg{Type: wire.Tattach, Tag: 1, Fid: 0, Afid: wire.NOFID, Uname: "root", Nuname: 0}
	switch state {
	case "authfid":
		// fid 5 is an authentication fid (servers without authentication refuse the Tauth: nothing to attack then)
		return 5, h.okRpc(c, &wire.Msg{Type: wire.Tauth, Tag: 1, Afid: 5, Uname: "root", Nuname: 0, Aname: "x"})
	case "none":
		return 5, true
	case "nofid":
		h.okRpc(c, att)
		return wire.NOFID, true
	}
	if !h.okRpc(c, att) {
		return 0, false
	}
	switch state {
	case "dir":
		return 5, h.okRpc(c, &wire.Msg{Type: wire.Twalk, Tag: 2, Fid: 0, Newfid: 5, Wname: []string{"sub"}})
	case "file":
		return 5, h.okRpc(c, &wire.Msg{Type: wire.Twalk, Tag: 2, Fid: 0, Newfid: 5, Wname: []string{"file05xxxxxxxxxxxxxxx"}})
	case "openfile":
		return 5, h.okRpc(c, &wire.Msg{Type: wire.Twalk, Tag: 2, Fid: 0, Newfid: 5, Wname: []string{"file05xxxxxxxxxxxxxxx"}}) &&
			h.okRpc(c, &wire.Msg{Type: wire.Topen, Tag: 3, Fid: 5, Mode: 2})
	case "opendir":
		return 5, h.okRpc(c, &wire.Msg{Type: wire.Twalk, Tag: 2, Fid: 0, Newfid: 5, Wname: []string{"listing"}}) &&
			h.okRpc(c, &wire.Msg{Type: wire.Topen, Tag: 3, Fid: 5, Mode: 0})
	case "clunked":
		return 5, h.okRpc(c, &wire.Msg{Type: wire.Twalk, Tag: 2, Fid: 0, Newfid: 5, Wname: []string{"sub"}}) &&
			h.okRpc(c, &wire.Msg{Type: wire.Tclunk, Tag: 3, Fid: 5})
	case "unlinked-open":
		// fid 5 is open on a file that another fid has removed meanwhile (for the Unix file server: an open
		// descriptor whose name is gone)
		name := fmt.Sprintf("gone%d", h.sessions)
		return 5, h.okRpc(c, &wire.Msg{Type: wire.Twalk, Tag: 2, Fid: 0, Newfid: 5, Wname: []string{"sub"}}) &&
			h.okRpc(c, &wire.Msg{Type: wire.Tcreate, Tag: 3, Fid: 5, Name: name, Perm: 0o644, Mode: 2}) &&
			h.okRpc(c, &wire.Msg{Type: wire.Twrite, Tag: 4, Fid: 5, Offset: 0, Count: 5, Data: []byte("hello")}) &&
			h.okRpc(c, &wire.Msg{Type: wire.Twalk, Tag: 5, Fid: 0, Newfid: 7, Wname: []string{"sub", name}}) &&
			h.okRpc(c, &wire.Msg{Type: wire.Tremove, Tag: 6, Fid: 7})
	case "unlinked-dir":
		name := fmt.Sprintf("gonedir%d", h.sessions)
		return 5, h.okRpc(c, &wire.Msg{Type: wire.Twalk, Tag: 2, Fid: 0, Newfid: 5, Wname: []string{"sub"}}) &&
			h.okRpc(c, &wire.Msg{Type: wire.Tcreate, Tag: 3, Fid: 5, Name: name, Perm: 0x80000000 | 0o755, Mode: 0}) &&
			h.okRpc(c, &wire.Msg{Type: wire.Twalk, Tag: 5, Fid: 0, Newfid: 7, Wname: []string{"sub", name}}) &&
			h.okRpc(c, &wire.Msg{Type: wire.Tremove, Tag: 6, Fid: 7})
	case "created":
		return 5, h.okRpc(c, &wire.Msg{Type: wire.Twalk, Tag: 2, Fid: 0, Newfid: 5, Wname: []string{"sub"}}) &&
			h.okRpc(c, &wire.Msg{Type: wire.Tcreate, Tag: 3, Fid: 5, Name: fmt.Sprintf("cr%d", h.sessions), Perm: 0o644, Mode: 2})
	}
	return 5, true
}

type attack struct {
	name string
	m    *wire.Msg
}

// attacks enumerates every T type with boundary field values aimed at fid f.
func attacks(f uint32, L uint32, dotu bool) []attack {
	var as []attack
	add := func(name string, m *wire.Msg) { as = append(as, attack{name, m}) }
	long255 := strings.Repeat("n", 255)
	names := []string{"", ".", "..", "a/b", "/", "../..", long255, "file01xxx", "sub", "\x00", strings.Repeat("é", 100)}
	counts := []uint32{0, 1, L - 1, L, L + 1, 1 << 31, 0xFFFFFFF0, 0xFFFFFFE8, 0xFFFFFFE7, 0xFFFFFFFF}
	offsets := []uint64{0, 1, 17, 60, 61, 1000, 1 << 20, 1 << 63, 0xFFFFFFFFFFFFFFFF, 0xFFFFFFFFFFFFFFFF - 100}
	for i, c := range counts {
		for j, o := range offsets {
			if (i+j)%3 == 0 || i < 2 || j < 2 {
				add(fmt.Sprintf("Tread/c%d/o%d", i, j), &wire.Msg{Type: wire.Tread, Fid: f, Offset: o, Count: c})
			}
		}
	}
	for j, o := range offsets {
		add(fmt.Sprintf("Twrite/o%d", j), &wire.Msg{Type: wire.Twrite, Fid: f, Offset: o, Count: 4, Data: []byte("data")})
	}
	add("Twrite/empty", &wire.Msg{Type: wire.Twrite, Fid: f, Offset: 0, Count: 0, Data: nil})
	add("Twrite/big", &wire.Msg{Type: wire.Twrite, Fid: f, Offset: 5, Count: L, Data: make([]byte, L)})
	add("Twrite/toobig", &wire.Msg{Type: wire.Twrite, Fid: f, Offset: 5, Count: L + 1, Data: make([]byte, L+1)})
	for i, n := range names {
		add(fmt.Sprintf("Twalk/1/%d", i), &wire.Msg{Type: wire.Twalk, Fid: f, Newfid: 6, Wname: []string{n}})
		add(fmt.Sprintf("Twalk/inplace/%d", i), &wire.Msg{Type: wire.Twalk, Fid: f, Newfid: f, Wname: []string{n, n}})
		add(fmt.Sprintf("Tcreate/%d", i), &wire.Msg{Type: wire.Tcreate, Fid: f, Name: n, Perm: 0o644, Mode: 1})
		add(fmt.Sprintf("Tcreate/dir/%d", i), &wire.Msg{Type: wire.Tcreate, Fid: f, Name: n, Perm: 0x80000000 | 0o755, Mode: 0})
		add(fmt.Sprintf("Twstat/name/%d", i), &wire.Msg{Type: wire.Twstat, Fid: f, Stat: dontTouch(n)})
		add(fmt.Sprintf("Tattach/aname/%d", i), &wire.Msg{Type: wire.Tattach, Fid: 8, Afid: wire.NOFID, Uname: "root", Aname: n})
	}
	for _, k := range []int{0, 16, 17, 500} {
		w := make([]string, k)
		for i := range w {
			w[i] = "sub"
		}
		add(fmt.Sprintf("Twalk/n%d", k), &wire.Msg{Type: wire.Twalk, Fid: f, Newfid: 6, Wname: w})
	}
	// long walks whose every element resolves (a server-side limit of 16 elements is the server's to enforce)
	for _, k := range []int{16, 17, 18, 64, 500} {
		dots := make([]string, k)
		updown := make([]string, k)
		for i := range dots {
			dots[i] = "."
			updown[i] = []string{"sub", ".."}[i%2]
		}
		add(fmt.Sprintf("Twalk/dots%d", k), &wire.Msg{Type: wire.Twalk, Fid: f, Newfid: 6, Wname: dots})
		add(fmt.Sprintf("Twalk/updown%d", k), &wire.Msg{Type: wire.Twalk, Fid: f, Newfid: 6, Wname: updown})
		add(fmt.Sprintf("Twalk/dots%d/inplace", k), &wire.Msg{Type: wire.Twalk, Fid: f, Newfid: f, Wname: dots})
	}
	add("Twalk/to-self-occupied", &wire.Msg{Type: wire.Twalk, Fid: f, Newfid: 0, Wname: []string{}})
	add("Twalk/newfid-nofid", &wire.Msg{Type: wire.Twalk, Fid: f, Newfid: wire.NOFID, Wname: []string{}})
	for _, mode := range []uint8{0, 1, 2, 3, 16, 17, 64, 0x80, 0xFF} {
		add(fmt.Sprintf("Topen/%d", mode), &wire.Msg{Type: wire.Topen, Fid: f, Mode: mode})
	}
	for i, perm := range []uint32{0, 0xFFFFFFFF, 0x80000000, 0x02000000, 0x01000000, 0x00800000, 0x00200000, 0x00100000, 0x000C0000 | 0o777} {
		for _, ext := range []string{"", "target", "5", "99999999999999999999", "b 1 2", "../../x"} {
			add(fmt.Sprintf("Tcreate/perm%d/%s", i, ext), &wire.Msg{Type: wire.Tcreate, Fid: f, Name: fmt.Sprintf("sp%d", i), Perm: perm, Mode: 0, Ext: ext})
		}
	}
	add("Tclunk", &wire.Msg{Type: wire.Tclunk, Fid: f})
	add("Tremove", &wire.Msg{Type: wire.Tremove, Fid: f})
	add("Tstat", &wire.Msg{Type: wire.Tstat, Fid: f})
	st := wire.Stat{Type: 1, Dev: 2, Mode: 0, Atime: 0, Mtime: 0, Length: 0, Name: "zero", Uid: "nobody-such-user", Gid: "nogroup-such", Muid: "x", Nuid: 0, Ngid: 0, Nmuid: 0}
	add("Twstat/zeros", &wire.Msg{Type: wire.Twstat, Fid: f, Stat: st})
	// owner and group changes: by name (resolved by the server in the plain dialect), by number (.u), known and unknown
	owners := []string{"", "root", "nobody", "no-such-user-c06", "0", strings.Repeat("u", 300)}
	for i, u := range owners {
		for j, g := range owners {
			if i > 2 && j > 2 && i != j {
				continue
			}
			so := dontTouch("")
			so.Uid, so.Gid = u, g
			add(fmt.Sprintf("Twstat/owner/%d/%d", i, j), &wire.Msg{Type: wire.Twstat, Fid: f, Stat: so})
		}
	}
	for i, n := range []uint32{0, 65534, 0x7FFFFFFF, 0xFFFFFFFE} {
		so := dontTouch("")
		so.Nuid, so.Ngid = n, wire.NOUID
		add(fmt.Sprintf("Twstat/nuid/%d", i), &wire.Msg{Type: wire.Twstat, Fid: f, Stat: so})
		so.Nuid, so.Ngid = wire.NOUID, n
		add(fmt.Sprintf("Twstat/ngid/%d", i), &wire.Msg{Type: wire.Twstat, Fid: f, Stat: so})
	}
	st2 := dontTouch("")
	st2.Length = 1 << 62
	add("Twstat/hugelen", &wire.Msg{Type: wire.Twstat, Fid: f, Stat: st2})
	st3 := dontTouch("")
	st3.Mode = 0xFFFFFFFE
	st3.Mtime = 0x7FFFFFFF
	add("Twstat/modes", &wire.Msg{Type: wire.Twstat, Fid: f, Stat: st3})
	add("Tflush/self", &wire.Msg{Type: wire.Tflush, Oldtag: 77})
	add("Tflush/unknown", &wire.Msg{Type: wire.Tflush, Oldtag: 12345})
	add("Tflush/notag", &wire.Msg{Type: wire.Tflush, Oldtag: wire.NOTAG})
	add("Tauth", &wire.Msg{Type: wire.Tauth, Afid: f, Uname: "root", Aname: "x"})
	add("Tauth/nofid", &wire.Msg{Type: wire.Tauth, Afid: wire.NOFID, Uname: "", Aname: ""})
	add("Tattach/afid-unknown", &wire.Msg{Type: wire.Tattach, Fid: 9, Afid: 4242, Uname: "root"})
	add("Tattach/afid-self", &wire.Msg{Type: wire.Tattach, Fid: 9, Afid: 9, Uname: "root"})
	add("Tattach/fid-nofid", &wire.Msg{Type: wire.Tattach, Fid: wire.NOFID, Afid: wire.NOFID, Uname: "root"})
	add("Tattach/nouser", &wire.Msg{Type: wire.Tattach, Fid: 9, Afid: wire.NOFID, Uname: "", Nuname: wire.NOUID})
	add("Tattach/afid-is-file", &wire.Msg{Type: wire.Tattach, Fid: 9, Afid: f, Uname: "root"})
	add("Tversion/mid", &wire.Msg{Type: wire.Tversion, Msize: 100, Version: "9P2000"})
	add("Tversion/small", &wire.Msg{Type: wire.Tversion, Msize: 23, Version: "9P2000.u"})
	add("Tversion/zero", &wire.Msg{Type: wire.Tversion, Msize: 0, Version: ""})
	add("Tversion/huge", &wire.Msg{Type: wire.Tversion, Msize: 0xFFFFFFFF, Version: strings.Repeat("v", 300)})
	// R-messages and an undefined type sent to a server
	for _, t := range []uint8{wire.Rversion, wire.Rattach, wire.Rerror, wire.Rflush, wire.Rwalk, wire.Rread, wire.Rstat, wire.Rclunk, wire.Rwstat} {
		add("R-to-server/"+wire.TypeName(t), &wire.Msg{Type: t, Ename: "e", Data: []byte("abc"), Count: 3})
	}
	return as
}

func dontTouch(name string) wire.Stat {
	return wire.Stat{Type: 0xFFFF, Dev: 0xFFFFFFFF, Qid: wire.Qid{Type: 0xFF, Version: 0xFFFFFFFF, Path: 0xFFFFFFFFFFFFFFFF}, Mode: 0xFFFFFFFF,
		Atime: 0xFFFFFFFF, Mtime: 0xFFFFFFFF, Length: 0xFFFFFFFFFFFFFFFF, Name: name, Nuid: wire.NOUID, Ngid: wire.NOUID, Nmuid: wire.NOUID}
}

func c06Structured(ctx *core.Ctx, server string, dotu bool, state string) core.Result {
	var res core.Result
	h := newHostile(ctx, &res, server, dotu)
	if h == nil {
		return res
	}
	defer h.done()
	msize := uint32(8192)
	L := msize - wire.IOHDRSZ
	list := attacks(5, L, dotu)
	for i, a := range list {
		c := h.s.Dial()
		f, ok := h.prepare(c, state, msize)
		if !ok {
			c.Hangup()
			continue
		}
		// retarget the attack at the prepared fid number
		m := *a.m
		if m.Fid == 5 {
			m.Fid = f
		}
		if m.Afid == 5 {
			m.Afid = f
		}
		m.Tag = 77
		what := fmt.Sprintf("%s dotu=%v state=%s attack=%s", server, dotu, state, a.name)
		ctx.Note([]byte(what))
		fmt.Fprintln(os.Stderr, "--- session:", what)
		_ = c.Send(&m)
		// whatever comes back; then a couple of follow-ups in the same connection
		c.WaitTag(77, 300*time.Millisecond)
		_ = c.Send(&wire.Msg{Type: wire.Tread, Tag: 78, Fid: f, Offset: 0, Count: 100}, &wire.Msg{Type: wire.Tclunk, Tag: 79, Fid: f}, &wire.Msg{Type: wire.Tstat, Tag: 80, Fid: f})
		c.WaitTag(80, 100*time.Millisecond)
		c.Hangup()
		res.Sig(fmt.Sprintf("%s|%v|%s|%s", server, dotu, state, a.name))
		if i == 3 {
			res.Sample(map[string]interface{}{"server": server, "dotu": dotu, "fid_state": state, "attack": a.name, "frame_hex": hexn(wire.Encode(&m, dotu))})
		}
		h.check(what, "structured;"+strings.SplitN(a.name, "/", 2)[0])
	}
	// directory reads at arbitrary offsets (the Unix file server computes windows into a snapshot)
	if state == "opendir" {
		for _, cnt := range []uint32{0, 1, 50, 61, 62, 70, 100, 200, L} {
			for off := uint64(0); off < 900; off += 13 {
				c := h.s.Dial()
				f, ok := h.prepare(c, state, msize)
				if !ok {
					c.Hangup()
					continue
				}
				what := fmt.Sprintf("%s dotu=%v dirread first=0 then offset=%d count=%d", server, dotu, off, cnt)
				ctx.Note([]byte(what))
				fmt.Fprintln(os.Stderr, "--- session:", what)
				c.Rpc(&wire.Msg{Type: wire.Tread, Tag: 10, Fid: f, Offset: 0, Count: 300}, 300*time.Millisecond)
				c.Rpc(&wire.Msg{Type: wire.Tread, Tag: 11, Fid: f, Offset: off, Count: cnt}, 300*time.Millisecond)
				c.Rpc(&wire.Msg{Type: wire.Tread, Tag: 12, Fid: f, Offset: off + uint64(cnt), Count: cnt}, 100*time.Millisecond)
				c.Hangup()
				res.Sig(fmt.Sprintf("%s|%v|dirread|%d|%d", server, dotu, off, cnt))
				h.check(what, "dirread")
			}
		}
	}
	return res
}

// record a valid session as a list of frames.
func validSession(dotu bool, k int) [][]byte {
	ver := "9P2000"
	if dotu {
		ver = "9P2000.u"
	}
	ms := []*wire.Msg{
		{Type: wire.Tversion, Tag: wire.NOTAG, Msize: 8192, Version: ver},
		{Type: wire.Tattach, Tag: 1, Fid: 0, Afid: wire.NOFID, Uname: "root", Nuname: 0},
		{Type: wire.Twalk, Tag: 2, Fid: 0, Newfid: 1, Wname: []string{"sub"}},
		{Type: wire.Topen, Tag: 3, Fid: 1, Mode: 0},
		{Type: wire.Tread, Tag: 4, Fid: 1, Offset: 0, Count: 500},
		{Type: wire.Twalk, Tag: 5, Fid: 0, Newfid: 2, Wname: []string{"sub", "inner.txt"}},
		{Type: wire.Tstat, Tag: 6, Fid: 2},
		{Type: wire.Topen, Tag: 7, Fid: 2, Mode: 2},
		{Type: wire.Twrite, Tag: 8, Fid: 2, Offset: 2, Count: 3, Data: []byte("abc")},
		{Type: wire.Tread, Tag: 9, Fid: 2, Offset: 0, Count: 10},
		{Type: wire.Twalk, Tag: 10, Fid: 0, Newfid: 3, Wname: []string{"sub"}},
		{Type: wire.Tcreate, Tag: 11, Fid: 3, Name: fmt.Sprintf("m%d", k), Perm: 0o644, Mode: 1},
		{Type: wire.Twstat, Tag: 12, Fid: 3, Stat: dontTouch("")},
		{Type: wire.Tflush, Tag: 13, Oldtag: 12},
		{Type: wire.Tremove, Tag: 14, Fid: 3},
		{Type: wire.Tclunk, Tag: 15, Fid: 2},
		{Type: wire.Tclunk, Tag: 16, Fid: 1},
	}
	var out [][]byte
	for _, m := range ms {
		out = append(out, wire.Encode(m, dotu))
	}
	return out
}

func c06Mutated(ctx *core.Ctx, server string, dotu bool, k, n int) core.Result {
	var res core.Result
	h := newHostile(ctx, &res, server, dotu)
	if h == nil {
		return res
	}
	defer h.done()
	r := core.NewRand(ctx.Seed, fmt.Sprintf("c06mut/%s/%v/%d", server, dotu, k))
	for i := 0; i < n; i++ {
		frames := validSession(dotu, i)
		// mutate one frame (sometimes two) of the session
		nm := 1 + r.Intn(2)
		var desc []string
		for j := 0; j < nm; j++ {
			fi := 1 + r.Intn(len(frames)-1)
			f := append([]byte{}, frames[fi]...)
			if len(f) < 8 {
				continue // already cut to almost nothing by the first mutation
			}
			switch r.Intn(6) {
			case 0: // byte substitution
				o := r.Intn(len(f))
				f[o] = []byte{0, 1, 0x7F, 0x80, 0xFF, f[o] + 1, f[o] - 1}[r.Intn(7)]
				desc = append(desc, fmt.Sprintf("frame%d byte@%d", fi, o))
			case 1: // 16-bit overwrite
				if len(f) > 9 {
					o := 7 + r.Intn(len(f)-8)
					v := []int{0, 1, 0xFFFF, len(f) - o - 2, len(f) - o - 1, 0x7FFF}[r.Intn(6)]
					f[o], f[o+1] = byte(v), byte(v>>8)
					desc = append(desc, fmt.Sprintf("frame%d u16@%d=%d", fi, o, v))
				}
			case 2: // 32-bit overwrite
				if len(f) > 11 {
					o := 7 + r.Intn(len(f)-10)
					v := []uint32{0, 0xFFFFFFFF, 1 << 31, 0xFFFFFFF0, uint32(len(f))}[r.Intn(5)]
					f[o], f[o+1], f[o+2], f[o+3] = byte(v), byte(v>>8), byte(v>>16), byte(v>>24)
					desc = append(desc, fmt.Sprintf("frame%d u32@%d=%#x", fi, o, v))
				}
			case 3: // truncate, size prefix kept
				f = f[:r.Intn(len(f))]
				desc = append(desc, fmt.Sprintf("frame%d truncated to %d", fi, len(f)))
			case 4: // truncate and fix the size prefix
				nl := 4 + r.Intn(len(f)-3)
				f = f[:nl]
				f[0], f[1], f[2], f[3] = byte(nl), byte(nl>>8), 0, 0
				desc = append(desc, fmt.Sprintf("frame%d cut to %d with matching size", fi, nl))
			case 5: // size prefix lies
				v := []uint32{0, 4, 6, 7, uint32(len(f)) - 1, uint32(len(f)) + 1, 8193, 1 << 24, 0xFFFFFFFF}[r.Intn(9)]
				f[0], f[1], f[2], f[3] = byte(v), byte(v>>8), byte(v>>16), byte(v>>24)
				desc = append(desc, fmt.Sprintf("frame%d size=%d", fi, v))
			}
			frames[fi] = f
		}
		what := fmt.Sprintf("%s dotu=%v mutated session: %s", server, dotu, strings.Join(desc, ", "))
		var all []byte
		for _, f := range frames {
			all = append(all, f...)
		}
		ctx.Note(append([]byte(what+"\n"), all...))
		fmt.Fprintln(os.Stderr, "--- session:", what)
		c := h.s.Dial()
		if r.Bool() {
			_ = c.SendRaw(all)
		} else {
			for _, f := range frames {
				if c.SendRaw(f) != nil {
					break
				}
				if r.Intn(3) == 0 {
					c.Next(2 * time.Millisecond)
				}
			}
		}
		c.WaitTag(16, 30*time.Millisecond)
		c.Hangup()
		res.Sig(fmt.Sprintf("%s|%v|mut|%s", server, dotu, strings.Join(desc, ",")))
		if i == 2 {
			res.Sample(map[string]interface{}{"server": server, "dotu": dotu, "mutation": desc})
		}
		h.check(what, "mutated")
	}
	return res
}

func c06Raw(ctx *core.Ctx, server string, dotu bool, k, n int) core.Result {
	var res core.Result
	h := newHostile(ctx, &res, server, dotu)
	if h == nil {
		return res
	}
	defer h.done()
	r := core.NewRand(ctx.Seed, fmt.Sprintf("c06raw/%s/%v/%d", server, dotu, k))
	for i := 0; i < n; i++ {
		c := h.s.Dial()
		pre := r.Intn(3) // 0: nothing, 1: version, 2: version+attach
		if pre >= 1 {
			c.Version(8192, h.ver(), W)
		}
		if pre >= 2 {
			c.Rpc(&wire.Msg{Type: wire.Tattach, Tag: 1, Fid: 0, Afid: wire.NOFID, Uname: "root", Nuname: 0}, W)
		}
		var b []byte
		kind := r.Intn(5)
		switch kind {
		case 0:
			b = r.Bytes(r.Intn(300))
		case 1: // plausible header, random body
			l := 7 + r.Intn(120)
			b = r.Bytes(l)
			b[0], b[1], b[2], b[3] = byte(l), 0, 0, 0
			b[4] = byte(100 + r.Intn(28))
		case 2: // many tiny frames
			for j := 0; j < 50; j++ {
				b = append(b, 7, 0, 0, 0, byte(100+r.Intn(30)), byte(j), 0)
			}
		case 3: // a valid frame cut short, then disconnect
			f := validSession(dotu, i)[2+r.Intn(10)]
			b = f[:r.Intn(len(f))]
		case 4: // header only, then garbage size
			b = []byte{byte(r.Intn(256)), byte(r.Intn(256)), byte(r.Intn(3)), 0, byte(100 + r.Intn(28))}
		}
		what := fmt.Sprintf("%s dotu=%v raw kind=%d pre=%d %d bytes", server, dotu, kind, pre, len(b))
		ctx.Note(append([]byte(what+"\n"), b...))
		fmt.Fprintln(os.Stderr, "--- session:", what)
		_ = c.SendRaw(b)
		c.Next(3 * time.Millisecond)
		c.Hangup()
		res.Sig(fmt.Sprintf("%s|%v|raw|%d|%d|%d", server, dotu, kind, pre, len(b)))
		h.check(what, fmt.Sprintf("raw%d", kind))
	}
	// many short connections
	for i := 0; i < 100; i++ {
		c := h.s.Dial()
		if i%2 == 0 {
			c.Version(8192, h.ver(), W)
		}
		c.Hangup()
	}
	h.check("100 short connections", "short")
	return res
}

// tiny negotiated msize: replies (errors above all) that do not fit.
func c06TinyMsize(ctx *core.Ctx, server string, dotu bool) core.Result {
	var res core.Result
	h := newHostile(ctx, &res, server, dotu)
	if h == nil {
		return res
	}
	defer h.done()
	for msize := uint32(24); msize <= 64; msize++ {
		ms := []*wire.Msg{
			{Type: wire.Tattach, Tag: 1, Fid: 0, Afid: wire.NOFID, Uname: "root", Nuname: 0},
			{Type: wire.Tstat, Tag: 2, Fid: 0},
			{Type: wire.Tstat, Tag: 3, Fid: 99},
			{Type: wire.Twalk, Tag: 4, Fid: 0, Newfid: 1, Wname: []string{"nonexistent-name"}},
			{Type: wire.Twalk, Tag: 5, Fid: 0, Newfid: 1, Wname: []string{"sub"}},
			{Type: wire.Topen, Tag: 6, Fid: 0, Mode: 0},
			{Type: wire.Tread, Tag: 7, Fid: 0, Offset: 0, Count: msize - 24},
			{Type: wire.Tread, Tag: 8, Fid: 0, Offset: 0, Count: 1},
			{Type: wire.Topen, Tag: 9, Fid: 0, Mode: 1},
			{Type: wire.Tclunk, Tag: 10, Fid: 77},
			{Type: wire.Tauth, Tag: 11, Afid: 3, Uname: "root", Aname: ""},
		}
		c := h.s.Dial()
		what := fmt.Sprintf("%s dotu=%v msize=%d session", server, dotu, msize)
		ctx.Note([]byte(what))
		fmt.Fprintln(os.Stderr, "--- session:", what)
		c.Version(msize, h.ver(), W)
		for _, m := range ms {
			if len(wire.Encode(m, c.Dotu())) > int(msize) {
				continue
			}
			c.Rpc(m, 200*time.Millisecond)
		}
		c.Hangup()
		res.Sig(fmt.Sprintf("%s|%v|tiny|%d", server, dotu, msize))
		h.check(what, "tinymsize")
	}
	return res
}

// several Tversions on one connection, asking for smaller and then larger sizes, with pipelined traffic in between
// (so reply buffers sized for one negotiation are in circulation during the next) and reads whose counts are at
// the limits of the size asked for and of the size granted.
func c06Renegotiate(ctx *core.Ctx, server string, dotu bool) core.Result {
	var res core.Result
	h := newHostile(ctx, &res, server, dotu)
	if h == nil {
		return res
	}
	defer h.done()
	seqs := [][]uint32{{64, 8192}, {128, 4096}, {8192, 256, 8192}, {24, 8192}, {300, 8192, 100, 8192}, {64, 65535}, {4096, 8192, 70000},
		{40, 80, 160, 320, 640, 8192}, {8192, 64, 64, 8192}}
	for si, seq := range seqs {
		for _, pipelined := range []int{0, 8, 40} {
			c := h.s.Dial()
			what := fmt.Sprintf("%s dotu=%v renegotiate msizes=%v pipelined=%d", server, dotu, seq, pipelined)
			ctx.Note([]byte(what))
			fmt.Fprintln(os.Stderr, "--- session:", what)
			tag := uint16(0)
			send := func(rm uint32, m *wire.Msg) *wire.Msg {
				tag++
				m.Tag = tag
				if len(wire.Encode(m, c.Dotu())) > int(rm) {
					return nil
				}
				r, err := c.Rpc(m, 2*time.Second)
				if err != nil || r.Msg == nil {
					return nil
				}
				return r.Msg
			}
			for _, asked := range seq {
				r, err := c.Version(asked, h.ver(), 2*time.Second)
				if err != nil || r.Msg == nil || r.Msg.Type != wire.Rversion {
					break
				}
				rm := r.Msg.Msize
				send(rm, &wire.Msg{Type: wire.Tattach, Fid: 0, Afid: wire.NOFID, Uname: "root", Nuname: 0})
				send(rm, &wire.Msg{Type: wire.Twalk, Fid: 0, Newfid: 5, Wname: []string{"listing"}})
				send(rm, &wire.Msg{Type: wire.Topen, Fid: 5, Mode: 0})
				send(rm, &wire.Msg{Type: wire.Twalk, Fid: 0, Newfid: 6, Wname: []string{"file11" + strings.Repeat("x", 33)}})
				send(rm, &wire.Msg{Type: wire.Topen, Fid: 6, Mode: 0})
				// buffers of this negotiation go into circulation
				var burst []*wire.Msg
				for i := 0; i < pipelined; i++ {
					tag++
					burst = append(burst, &wire.Msg{Type: wire.Twalk, Tag: tag, Fid: 0, Newfid: 100 + uint32(i)})
				}
				if len(burst) > 0 {
					_ = c.Send(burst...)
					for _, m := range burst {
						if _, err := c.WaitTag(m.Tag, 2*time.Second); err != nil {
							break
						}
					}
				}
				for _, cnt := range []uint32{asked - 24, rm - 24, asked, 4096, rm - 23, 1} {
					if cnt > 1<<30 {
						continue
					}
					send(rm, &wire.Msg{Type: wire.Tread, Fid: 5, Offset: 0, Count: cnt})
					send(rm, &wire.Msg{Type: wire.Tread, Fid: 6, Offset: 0, Count: cnt})
					send(rm, &wire.Msg{Type: wire.Tstat, Fid: 6})
					res.Count("reads_after_renegotiation", 2)
				}
			}
			c.Hangup()
			res.Sig(fmt.Sprintf("%s|%v|renegotiate|%d|%d", server, dotu, si, pipelined))
			h.check(what, "renegotiate")
		}
	}
	return res
}

// c06Listener: the server's own accept loop (Srv.StartListener on a unix socket) under connections that are dropped
// at once, send garbage, stop mid-frame or never say anything; a well-behaved client must be served after each.
func c06Listener(ctx *core.Ctx, server string, dotu bool) core.Result {
	var res core.Result
	h := newHostile(ctx, &res, server, dotu)
	if h == nil {
		return res
	}
	defer h.done()
	sock := filepath.Join(ctx.Scratch, fmt.Sprintf("c06-%d.sock", ctx.Index))
	_ = os.Remove(sock)
	defer os.Remove(sock)
	served := make(chan error, 1)
	var l net.Listener
	if dotu {
		var err error
		l, err = net.Listen("unix", sock)
		if err != nil {
			res.Inconclusive = "c06: cannot listen on a unix socket: " + err.Error()
			return res
		}
		go func() { served <- h.s.Srv.StartListener(l) }()
	} else {
		// the one-call form: the server opens the listening socket itself
		go func() { served <- h.s.Srv.StartNetListener("unix", sock) }()
		for i := 0; i < 2000; i++ {
			if c, err := net.Dial("unix", sock); err == nil {
				c.Close()
				break
			}
			time.Sleep(time.Millisecond)
		}
	}
	good := func() string {
		c, err := net.DialTimeout("unix", sock, 5*time.Second)
		if err != nil {
			return "dial: " + err.Error()
		}
		defer c.Close()
		_ = c.SetDeadline(time.Now().Add(W))
		if _, err := c.Write(wire.Encode(&wire.Msg{Type: wire.Tversion, Tag: wire.NOTAG, Msize: 8192, Version: h.ver()}, dotu)); err != nil {
			return "write: " + err.Error()
		}
		var buf []byte
		tmp := make([]byte, 4096)
		for {
			n, err := c.Read(tmp)
			buf = append(buf, tmp[:n]...)
			if frames, _ := wire.Split(buf); len(frames) > 0 {
				if m, _, derr := wire.Decode(frames[0], dotu); derr == nil && m.Type == wire.Rversion {
					return ""
				}
				return "the answer to Tversion is not an Rversion"
			}
			if err != nil {
				return "read: " + err.Error()
			}
		}
	}
	if e := good(); e != "" {
		res.Inconclusive = "c06: the listener does not serve a plain client: " + e
		return res
	}
	r := core.NewRand(ctx.Seed, "c06/listener/"+server)
	kinds := []string{"drop-at-once", "garbage", "half-header", "oversize-header", "silent-then-drop", "version-then-drop", "burst-of-drops"}
	for i := 0; i < 70 && len(res.Violations) == 0; i++ {
		kind := kinds[i%len(kinds)]
		what := fmt.Sprintf("%s dotu=%v listener session %s #%d", server, dotu, kind, i)
		ctx.Note([]byte(what))
		fmt.Fprintln(os.Stderr, "--- session:", what)
		n := 1
		if kind == "burst-of-drops" {
			n = 20
		}
		for k := 0; k < n; k++ {
			c, err := net.DialTimeout("unix", sock, 5*time.Second)
			if err != nil {
				res.Violate("C06;listener-refuses;"+server+";"+kind, "the listening server does not accept connections any more: "+err.Error(), nil)
				break
			}
			switch kind {
			case "garbage":
				_, _ = c.Write(r.Bytes(1 + r.Intn(300)))
			case "half-header":
				_, _ = c.Write([]byte{19, 0, 0})
			case "oversize-header":
				_, _ = c.Write([]byte{0xFF, 0xFF, 0xFF, 0x7F, wire.Tversion, 0xFF, 0xFF})
			case "silent-then-drop":
				time.Sleep(time.Millisecond)
			case "version-then-drop":
				_, _ = c.Write(wire.Encode(&wire.Msg{Type: wire.Tversion, Tag: wire.NOTAG, Msize: 8192, Version: h.ver()}, dotu))
			}
			_ = c.Close()
		}
		res.Evals++
		if e := good(); e != "" {
			res.Violate("C06;listener-stops-serving;"+server+";"+kind, fmt.Sprintf("after %s the listening server does not serve a new client: %s", kind, e), nil)
		}
		if i%7 == 3 {
			// … nor the library's own client, which dials, negotiates and attaches (go9p.Mount)
			mounted := make(chan error, 1)
			go func() {
				cl, err := go9p.Mount("unix", sock, "", 8192, go9p.OsUsers.Uid2User(0))
				if err == nil {
					_, err = cl.Stat(cl.Root)
					cl.Unmount()
				}
				mounted <- err
			}()
			select {
			case err := <-mounted:
				if err != nil {
					res.Violate("C06;listener-stops-serving;"+server+";mount", fmt.Sprintf("after %s the library's client cannot mount the listening server: %v", kind, err), nil)
				}
				res.Count("library_client_mounts_of_the_listener", 1)
			case <-time.After(6 * W):
				res.Inconclusive = "c06: go9p.Mount of the listener did not return"
				return res
			}
		}
		select {
		case err := <-served:
			res.Violate("C06;listener-exited;"+server+";"+kind, fmt.Sprintf("the accept loop returned (%v) after %s", err, kind), nil)
		default:
		}
		res.Sig(fmt.Sprintf("%s|%v|listener|%s", server, dotu, kind))
	}
	h.check("listener sessions", "listener")
	if l != nil {
		_ = l.Close()
	}
	return res
}

// c06TinyPipelined: tiny negotiated msize and several failing requests in flight together (each gets a reply buffer
// of its own, not the one the Rversion went out in): their error replies have to be cut to fit; with the akaros
// switch on the replies carry an extra prefix.
func c06TinyPipelined(ctx *core.Ctx, server string, dotu bool) core.Result {
	var res core.Result
	h := newHostile(ctx, &res, server, dotu)
	if h == nil {
		return res
	}
	defer h.done()
	for msize := uint32(24); msize <= 72; msize += 1 {
		c := h.s.Dial()
		what := fmt.Sprintf("%s dotu=%v akaros=%v msize=%d pipelined failing requests", server, dotu, *go9p.Akaros, msize)
		ctx.Note([]byte(what))
		fmt.Fprintln(os.Stderr, "--- session:", what)
		c.Version(msize, h.ver(), W)
		var ms []*wire.Msg
		for i := 0; i < 6; i++ {
			m := &wire.Msg{Type: wire.Tclunk, Tag: uint16(10 + i), Fid: uint32(900 + i)}
			if i%2 == 1 {
				m = &wire.Msg{Type: wire.Tstat, Tag: uint16(10 + i), Fid: uint32(900 + i)}
			}
			ms = append(ms, m)
		}
		_ = c.Send(ms...)
		for _, m := range ms {
			if _, err := c.WaitTag(m.Tag, 300*time.Millisecond); err != nil {
				break
			}
		}
		c.Hangup()
		res.Sig(fmt.Sprintf("%s|%v|tiny-pipelined|%d|%v", server, dotu, msize, *go9p.Akaros))
		h.check(what, "tinymsize-pipelined")
	}
	return res
}

// c06CancelledUnstarted: requests that are cancelled before any goroutine has worked on them — queued behind an
// executing request with the same tag when a Tflush of that tag, or a Tversion, arrives. Their reply buffers are
// recycled ones that still look like the replies they carried last (the pool is warmed with overlapping requests of
// one kind first), their fids were never looked up: taking them off the connection must not touch either.
func c06CancelledUnstarted(ctx *core.Ctx, server string, dotu bool) core.Result {
	var res core.Result
	h := newHostile(ctx, &res, server, dotu)
	if h == nil {
		return res
	}
	defer h.done()
	warmKinds := []string{"Tread", "Tattach", "Tauth", "Twalk", "Tstat", "Topen"}
	for wi, warm := range warmKinds {
		for _, canceller := range []string{"tflush", "tversion", "tflush-twice", "tflush-before-later-members", "tflush-between-members"} {
			for _, victims := range []string{"Tread", "Tstat", "Tattach"} {
				reps := 1
				if server == "ufs" {
					reps = 6 // nothing can be held inside the Unix file server: the overlap is a matter of pipelining
				}
				for rep := 0; rep < reps; rep++ {
					c := h.s.Dial()
					what := fmt.Sprintf("%s dotu=%v cancelled-unstarted warm=%s canceller=%s victims=%s", server, dotu, warm, canceller, victims)
					ctx.Note([]byte(what))
					fmt.Fprintln(os.Stderr, "--- session:", what)
					if !h.setup(c, 8192) {
						c.Hangup()
						continue
					}
					mk := func(kind string, tag uint16, i int) *wire.Msg {
						switch kind {
						case "Tread":
							return &wire.Msg{Type: wire.Tread, Tag: tag, Fid: 1, Offset: 0, Count: 16}
						case "Tattach":
							return &wire.Msg{Type: wire.Tattach, Tag: tag, Fid: uint32(2000 + int(tag)*10 + i), Afid: wire.NOFID, Uname: "root", Nuname: 0}
						case "Tauth":
							return &wire.Msg{Type: wire.Tauth, Tag: tag, Afid: uint32(3000 + int(tag)*10 + i), Uname: "root", Nuname: 0, Aname: "x"}
						case "Twalk":
							return &wire.Msg{Type: wire.Twalk, Tag: tag, Fid: 0, Newfid: uint32(4000 + int(tag)*10 + i)}
						case "Topen":
							return &wire.Msg{Type: wire.Topen, Tag: tag, Fid: uint32(4000 + int(tag)*10 + i), Mode: 0}
						}
						return &wire.Msg{Type: wire.Tstat, Tag: tag, Fid: 1}
					}
					// warm the pool: 8 overlapping requests of one kind
					var gate chan struct{}
					var plans []*script.Plan
					var burst []*wire.Msg
					for i := 0; i < 8; i++ {
						m := mk(warm, uint16(100+i), 0)
						if warm == "Topen" {
							m = mk("Twalk", uint16(100+i), 0) // (opened in the second burst below)
						}
						burst = append(burst, m)
						if server == "script" {
							if gate == nil {
								gate = make(chan struct{})
							}
							p := script.NewPlan()
							p.Gate, p.Entered = gate, make(chan struct{})
							plans = append(plans, p)
							h.s.Ops.SetPlan(c.ID, m.Tag, p)
						}
					}
					_ = c.Send(burst...)
					overlap := time.After(300 * time.Millisecond) // (not every kind reaches the implementation)
				waitWarm:
					for _, p := range plans {
						select {
						case <-p.Entered:
						case <-overlap:
							break waitWarm
						}
					}
					if gate != nil {
						close(gate)
					}
					for _, m := range burst {
						c.WaitTag(m.Tag, 2*time.Second)
					}
					if warm == "Topen" {
						var b2 []*wire.Msg
						for i := 0; i < 8; i++ {
							b2 = append(b2, mk("Topen", uint16(100+i), 0))
						}
						_ = c.Send(b2...)
						for _, m := range b2 {
							c.WaitTag(m.Tag, 2*time.Second)
						}
					}
					// the group: one request executing, three queued behind it under the same tag, then the canceller
					const T = 500
					var group []*wire.Msg
					for i := 0; i < 4; i++ {
						group = append(group, mk(victims, T, i))
					}
					var hold *script.Plan
					if server == "script" {
						hold = script.NewPlan()
						hold.Gate, hold.Entered = make(chan struct{}), make(chan struct{})
						h.s.Ops.SetPlan(c.ID, T, hold)
					}
					var cancel []*wire.Msg
					switch canceller {
					case "tflush":
						cancel = []*wire.Msg{{Type: wire.Tflush, Tag: 600, Oldtag: T}}
					case "tflush-before-later-members", "tflush-between-members":
						cancel = []*wire.Msg{{Type: wire.Tflush, Tag: 600, Oldtag: T}}
					case "tflush-twice":
						cancel = []*wire.Msg{{Type: wire.Tflush, Tag: 600, Oldtag: T}, {Type: wire.Tflush, Tag: 601, Oldtag: T}}
					case "tversion":
						cancel = []*wire.Msg{{Type: wire.Tversion, Tag: wire.NOTAG, Msize: 8192, Version: h.ver()}}
					}
					if hold != nil {
						_ = c.Send(group[0])
						select {
						case <-hold.Entered:
						case <-time.After(2 * time.Second):
						}
						switch canceller {
						case "tflush-before-later-members":
							// the flush finds only the executing member; the others arrive under its tag afterwards
							_ = c.Send(cancel...)
							time.Sleep(2 * time.Millisecond)
							_ = c.Send(group[1:]...)
						case "tflush-between-members":
							_ = c.Send(group[1], cancel[0], group[2], group[3])
						default:
							_ = c.Send(append(group[1:], cancel...)...)
						}
						if canceller == "tversion" {
							c.WaitTag(wire.NOTAG, 2*time.Second)
						} else {
							time.Sleep(3 * time.Millisecond)
						}
						close(hold.Gate)
					} else {
						switch canceller {
						case "tflush-before-later-members":
							_ = c.Send(append(append([]*wire.Msg{group[0]}, cancel...), group[1:]...)...)
						case "tflush-between-members":
							_ = c.Send(group[0], group[1], cancel[0], group[2], group[3])
						default:
							_ = c.Send(append(group, cancel...)...)
						}
					}
					for _, m := range cancel {
						if hold != nil && m.Type == wire.Tversion {
							continue // (waited for above)
						}
						c.WaitTag(m.Tag, 2*time.Second)
					}
					c.Quiesce(2 * time.Second)
					// the connection itself is still served (after a Tversion: from scratch)
					if canceller == "tversion" {
						c.Rpc(&wire.Msg{Type: wire.Tattach, Tag: 700, Fid: 0, Afid: wire.NOFID, Uname: "root", Nuname: 0}, 2*time.Second)
					}
					c.Rpc(&wire.Msg{Type: wire.Tstat, Tag: 701, Fid: 0}, 2*time.Second)
					c.Hangup()
					res.Sig(fmt.Sprintf("%s|%v|cancelled-unstarted|%d|%s|%s", server, dotu, wi, canceller, victims))
					h.check(what, "cancelled-unstarted")
				}
			}
		}
	}
	return res
}

// c06FreshUsers: many connections at once introduce user and group numbers the server has never seen (Tattach and
// Tauth carry a 32-bit n_uname straight to the user pool; a stat of a file with an unusual owner does the same):
// with the bundled user pool behind the Unix file server and behind the scripted implementation.
func c06FreshUsers(ctx *core.Ctx, server string, dotu bool) core.Result {
	var res core.Result
	h := newHostile(ctx, &res, server, dotu)
	if h == nil {
		return res
	}
	defer h.done()
	if server == "script" {
		h.s.Srv.Upool = go9p.OsUsers // the library's own pool instead of the harness's
	}
	const conns, per = 12, 150
	for round := 0; round < 3 && len(res.Violations) == 0; round++ {
		what := fmt.Sprintf("%s dotu=%v fresh-users round %d: %d connections x %d attaches with new user numbers", server, dotu, round, conns, per)
		ctx.Note([]byte(what))
		fmt.Fprintln(os.Stderr, "--- session:", what)
		var wg sync.WaitGroup
		dialled := make([]*CConn, conns) // (the session's Dial is not for concurrent use)
		for ci := range dialled {
			dialled[ci] = h.s.Dial()
		}
		for ci := 0; ci < conns; ci++ {
			wg.Add(1)
			go func(ci int) {
				defer wg.Done()
				c := dialled[ci]
				defer c.Hangup()
				if r, err := c.Version(8192, h.ver(), W); err != nil || r.Msg == nil {
					return
				}
				tag := uint16(0)
				for i := 0; i < per; i++ {
					uid := uint32(100000 + round*1000000 + ci*10000 + i)
					var ms []*wire.Msg
					for k := 0; k < 4; k++ {
						tag++
						ms = append(ms, &wire.Msg{Type: wire.Tattach, Tag: tag, Fid: uint32(10 + k), Afid: wire.NOFID, Uname: fmt.Sprintf("u%d", uid+uint32(k)*250), Nuname: uid + uint32(k)*250})
					}
					tag++
					ms = append(ms, &wire.Msg{Type: wire.Tauth, Tag: tag, Afid: 20, Uname: "x", Nuname: uid + 7, Aname: "a"})
					_ = c.Send(ms...)
					for _, m := range ms {
						if _, err := c.WaitTag(m.Tag, 5*time.Second); err != nil {
							return
						}
					}
					ms = nil
					for k := 0; k < 4; k++ {
						tag++
						ms = append(ms, &wire.Msg{Type: wire.Tclunk, Tag: tag, Fid: uint32(10 + k)})
					}
					tag++
					ms = append(ms, &wire.Msg{Type: wire.Tclunk, Tag: tag, Fid: 20})
					_ = c.Send(ms...)
					for _, m := range ms {
						c.WaitTag(m.Tag, 5*time.Second)
					}
				}
			}(ci)
		}
		done := make(chan struct{})
		go func() { wg.Wait(); close(done) }()
		for waiting := true; waiting; {
			select {
			case <-done:
				waiting = false
			case <-time.After(5 * time.Second):
				ctx.Beat()
			}
		}
		res.Sig(fmt.Sprintf("%s|%v|fresh-users|%d", server, dotu, round))
		h.check(what, "fresh-users")
	}
	return res
}

// c06UfsFlushWaiting: the Unix file server has requests that take as long as the host lets them: an open of a named
// pipe waits for the other end and keeps its fid busy; every other request on that fid waits behind it. A client
// flushes such a waiting (or blocked) request, then lets the pipe's other end appear. Whatever the server answers,
// it survives and keeps serving the bystander and new connections.
func c06UfsFlushWaiting(ctx *core.Ctx, dotu bool) core.Result {
	var res core.Result
	h := newHostile(ctx, &res, "ufs", dotu)
	if h == nil {
		return res
	}
	defer h.done()
	kinds := []string{"walk-clone", "walk-name", "walk-inplace", "read", "stat", "open", "wstat", "clunk", "remove", "create", "the-open-itself",
		"create;then-clunk-of-its-directory-fid", "create;then-remove-of-its-directory-fid", "create;then-hangup"}
	for round, kind := range kinds {
		ctx.Beat()
		h.repair()
		fifo := filepath.Join(h.root, fmt.Sprintf("pipe-%d", round))
		_ = os.Remove(fifo)
		if err := syscall.Mkfifo(fifo, 0o600); err != nil {
			res.Inconclusive = "c06 flush: mkfifo: " + err.Error()
			return res
		}
		c := h.s.Dial()
		if !h.setup(c, 8192) {
			res.Inconclusive = "c06 flush: setup failed"
			return res
		}
		target := []string{filepath.Base(fifo)}
		if kind == "read" || kind == "create" {
			// the fid of the blocked open is a directory for these: a directory listing, a create in it — the busy fid is
			// then the pipe's, reached through a create of a hard link that names it
			target = []string{filepath.Base(fifo)}
		}
		if !h.okRpc(c, &wire.Msg{Type: wire.Twalk, Tag: 10, Fid: 0, Newfid: 40, Wname: target}) {
			res.Inconclusive = "c06 flush: walk to the pipe failed"
			return res
		}
		_ = c.Send(&wire.Msg{Type: wire.Topen, Tag: 11, Fid: 40, Mode: 0})
		stackBuf := make([]byte, 2<<20)
		inOpen := waitFor(W, func() bool {
			n := runtime.Stack(stackBuf, true)
			for _, g := range strings.Split(string(stackBuf[:n]), "\n\n") {
				if strings.Contains(g, "(*Ufs).Open") && strings.Contains(g, "syscall.") {
					return true
				}
			}
			return false
		})
		if !inOpen {
			res.Count("open_blocked_not_arranged", 1)
		}
		var m *wire.Msg
		switch kind {
		case "walk-clone":
			m = &wire.Msg{Type: wire.Twalk, Fid: 40, Newfid: 41}
		case "walk-name":
			m = &wire.Msg{Type: wire.Twalk, Fid: 40, Newfid: 41, Wname: []string{"x"}}
		case "walk-inplace":
			m = &wire.Msg{Type: wire.Twalk, Fid: 40, Newfid: 40}
		case "read":
			m = &wire.Msg{Type: wire.Tread, Fid: 40, Offset: 0, Count: 100}
		case "stat":
			m = &wire.Msg{Type: wire.Tstat, Fid: 40}
		case "open":
			m = &wire.Msg{Type: wire.Topen, Fid: 40, Mode: 0}
		case "wstat":
			st := wire.Stat{Type: 0xFFFF, Dev: 0xFFFFFFFF, Mode: 0o600, Atime: 0xFFFFFFFF, Mtime: 0xFFFFFFFF, Length: 0xFFFFFFFFFFFFFFFF, Nuid: wire.NOUID, Ngid: wire.NOUID, Nmuid: wire.NOUID}
			m = &wire.Msg{Type: wire.Twstat, Fid: 40, Stat: st}
		case "clunk":
			m = &wire.Msg{Type: wire.Tclunk, Fid: 40}
		case "remove":
			m = &wire.Msg{Type: wire.Tremove, Fid: 40}
		case "create", "create;then-clunk-of-its-directory-fid", "create;then-remove-of-its-directory-fid", "create;then-hangup":
			// a hard link to the busy fid, made in the root directory through a clone of it
			if !h.okRpc(c, &wire.Msg{Type: wire.Twalk, Tag: 12, Fid: 0, Newfid: 42}) {
				res.Inconclusive = "c06 flush: clone failed"
				return res
			}
			m = &wire.Msg{Type: wire.Tcreate, Fid: 42, Name: fmt.Sprintf("lnk-%d", round), Perm: 0x01000000 | 0o644, Mode: 0, Ext: "40"}
		case "the-open-itself":
			m = nil
		}
		flushed := uint16(11)
		if m != nil {
			m.Tag = 20
			flushed = 20
			_ = c.Send(m)
			h.s.Ctl.WaitPassed("process.marked", 0, 20, 1, 2*time.Second)
			time.Sleep(2 * time.Millisecond)
		}
		switch kind {
		case "create;then-clunk-of-its-directory-fid":
			// (instead of the flush) the fid the waiting create was sent on is given up meanwhile
			_ = c.Send(&wire.Msg{Type: wire.Tclunk, Tag: 22, Fid: 42})
			c.WaitTag(22, 2*time.Second)
		case "create;then-remove-of-its-directory-fid":
			_ = os.Mkdir(filepath.Join(h.root, fmt.Sprintf("gone-%d", round)), 0o755)
			_ = c.Send(&wire.Msg{Type: wire.Tclunk, Tag: 22, Fid: 42})
			c.WaitTag(22, 2*time.Second)
		case "create;then-hangup":
			c.Hangup()
			time.Sleep(3 * time.Millisecond)
		}
		_ = c.Send(&wire.Msg{Type: wire.Tflush, Tag: 21, Oldtag: flushed})
		// the flush is taken up (answered at once by a server that cancels, when the request is done otherwise)
		h.s.Ctl.WaitPassed("flush.decided", 0, 21, 1, 2*time.Second)
		time.Sleep(2 * time.Millisecond)
		// the other end of the pipe
		var wr *os.File
		waitFor(W, func() bool {
			f, err := os.OpenFile(fifo, os.O_WRONLY|syscall.O_NONBLOCK, 0)
			wr = f
			return err == nil
		})
		// (the writing end stays open until the connection is quiet: a second open of the pipe would wait for it again)
		if _, err := c.WaitTag(21, W); err != nil {
			res.Count("rflush_not_seen", 1)
		}
		c.Quiesce(W)
		if wr != nil {
			_ = wr.Close()
		}
		// a few more requests on the connection whose request was cancelled, then it goes
		_, _ = c.Rpc(&wire.Msg{Type: wire.Tstat, Tag: 30, Fid: 0}, W)
		_, _ = c.Rpc(&wire.Msg{Type: wire.Tstat, Tag: 31, Fid: 40}, W)
		_, _ = c.Rpc(&wire.Msg{Type: wire.Tclunk, Tag: 32, Fid: 41}, W)
		c.Hangup()
		_ = os.Remove(fifo)
		_ = os.Remove(filepath.Join(h.root, fmt.Sprintf("lnk-%d", round)))
		h.check(fmt.Sprintf("Topen of a named pipe blocked, %s behind it on the same fid, Tflush of tag %d, then the pipe's other end opens", kind, flushed), "ufs-flush-waiting;"+kind)
		res.Sig(fmt.Sprintf("ufs-flush-waiting|%v|%s|%v", dotu, kind, inOpen))
		if len(res.Violations) > 0 {
			break
		}
	}
	res.Sample(map[string]interface{}{"scenario": "Tflush of a request waiting behind (or blocked in) an open of a named pipe, Unix file server", "dotu": dotu})
	return res
}

// c06HangupWhileBinding: many short connections that send a request binding a new fid (Twalk to a new fid, Tattach,
// Tauth) and hang up without waiting: the request is executing, or about to, while the server tears the connection
// down (defect d393b8f was a crash in exactly this window; it needs the two to meet within a few instructions, so
// this case is exploration by repetition).
func c06HangupWhileBinding(ctx *core.Ctx, server string, dotu bool, rounds int) core.Result {
	var res core.Result
	// a fresh server every 1 000 connections: the scripted implementation and the session keep a record of every
	// connection they have seen, and the worker's address space is limited
	for done := 0; done < rounds && len(res.Violations) == 0 && res.Inconclusive == ""; done += 1000 {
		n := rounds - done
		if n > 1000 {
			n = 1000
		}
		c06HangupChunk(ctx, &res, server, dotu, n)
		runtime.GC()
		debug.FreeOSMemory()
	}
	res.Evals += rounds
	res.Count("hangups_with_a_binding_request_in_flight", int64(rounds))
	res.Sig(fmt.Sprintf("hangup-while-binding|%s|%v", server, dotu))
	res.Sample(map[string]interface{}{"scenario": "Twalk to a new fid / Tattach, immediate hang-up", "server": server, "rounds": rounds})
	return res
}

func c06HangupChunk(ctx *core.Ctx, out *core.Result, server string, dotu bool, rounds int) {
	res := out
	h := newHostile(ctx, res, server, dotu)
	if h == nil {
		return
	}
	defer h.done()
	for round := 0; round < rounds && len(res.Violations) == 0; round++ {
		if round%100 == 0 {
			ctx.Beat()
			h.repair()
		}
		c := h.s.Dial()
		r, err := c.Version(8192, h.ver(), W)
		if err != nil || r.Msg == nil || !h.okRpc(c, &wire.Msg{Type: wire.Tattach, Tag: 1, Fid: 0, Afid: wire.NOFID, Uname: "root", Nuname: 0}) {
			res.Inconclusive = "c06 hangup: setup failed"
			return
		}
		var ms []*wire.Msg
		switch round % 4 {
		case 0:
			ms = []*wire.Msg{{Type: wire.Twalk, Tag: 2, Fid: 0, Newfid: 5, Wname: []string{"sub"}}}
		case 1:
			ms = []*wire.Msg{{Type: wire.Twalk, Tag: 2, Fid: 0, Newfid: 5}, {Type: wire.Twalk, Tag: 3, Fid: 0, Newfid: 6, Wname: []string{"sub", "inner.txt"}}}
		case 2:
			ms = []*wire.Msg{{Type: wire.Tattach, Tag: 2, Fid: 7, Afid: wire.NOFID, Uname: "root", Nuname: 0}}
		case 3:
			ms = []*wire.Msg{{Type: wire.Twalk, Tag: 2, Fid: 0, Newfid: 5, Wname: []string{"sub"}}, {Type: wire.Tstat, Tag: 3, Fid: 5}, {Type: wire.Topen, Tag: 4, Fid: 5, Mode: 0}}
		}
		_ = c.Send(ms...)
		c.Hangup()
		if round%20 == 19 {
			// the torn-down connections' goroutines end before more are piled on top (the worker has an address-space
			// limit, and the point here is the moment of the hang-up, not a flood)
			for t0 := time.Now(); runtime.NumGoroutine() > 150 && time.Since(t0) < 2*time.Second; {
				time.Sleep(200 * time.Microsecond)
			}
		}
		if round%50 == 49 {
			h.check("a request binding a new fid, then an immediate hang-up", "hangup-while-binding")
		}
	}
	h.check("a request binding a new fid, then an immediate hang-up", "hangup-while-binding")
}
