package srvlab

import (
	"fmt"
	"sort"
	"strings"
	"time"

	"github.com/rminnich/go9p"

	"verif/core"
	"verif/model"
	"verif/sched"
	"verif/script"
	"verif/wire"
)

// Step is one request of a sequential history.
type Step struct {
	Conn       int // index into Hist.Conns
	Msg        *wire.Msg
	Plan       *script.Plan
	AuthReject string // Tattach with AuthOps: the planned AuthCheck rejection ("" = accept)
	Uid        int    // Tauth/Tattach: the user the request names
	LateFlush  bool   // a Tflush of this request is decided while its answer is inside Respond (after the claim)
	Probe      bool
}

// Hist runs sequential histories against a session and judges every step with the fid-table model.
type Hist struct {
	S        *Sess
	Conns    []*CConn
	Tabs     []*model.FidTable
	Res      *core.Result
	Prop     string // C04 or C05: which class of violations this run reports
	nextTag  uint16
	nauth    int
	shown    map[int64]bool  // fid tokens the implementation was shown
	dead     map[int64]int64 // token -> seq of its destroy event
	Trace    []string
	Steps    int
	Fatal    bool // the session is unusable (no reply, connection lost)
	Pairs    map[string]bool
	Alphabet []uint32
	inflight []inflightReq
}

func NewHist(cfg Config, nconn int, res *core.Result, prop string) *Hist {
	h := &Hist{S: NewSess(cfg), Res: res, Prop: prop, shown: map[int64]bool{}, dead: map[int64]int64{}, Pairs: map[string]bool{},
		Alphabet: []uint32{0, 1, 2}}
	for i := 0; i < nconn; i++ {
		c := h.S.Dial()
		h.Conns = append(h.Conns, c)
		h.Tabs = append(h.Tabs, model.NewFidTable(cfg.Dotu, h.S.Srv.Msize, cfg.Auth))
	}
	return h
}

// Negotiate sends Tversion on every connection.
func (h *Hist) Negotiate(msize uint32) bool {
	ver := "9P2000"
	if h.S.Cfg.Dotu {
		ver = "9P2000.u"
	}
	for i, c := range h.Conns {
		r, err := c.Version(msize, ver, W)
		if err != nil || r.Msg == nil || r.Msg.Type != wire.Rversion {
			h.Res.Inconclusive = fmt.Sprintf("version negotiation failed: %v", err)
			h.Fatal = true
			return false
		}
		h.Tabs[i].Msize = r.Msg.Msize
		h.Tabs[i].Dotu = r.Msg.Version == "9P2000.u"
	}
	return true
}

func (h *Hist) viol(class, sig, what string, st *Step) {
	// class: "C04" (fid validity, identity, destruction) or "C05" (rules, forwarding, auth gate)
	if class != h.Prop {
		h.Res.Count("other_property_anomalies", 1)
		return
	}
	tr := h.Trace
	if len(tr) > 30 {
		tr = tr[len(tr)-30:]
	}
	h.Res.Violate(sig, what, map[string]interface{}{"history_tail": tr, "config": fmt.Sprintf("%+v", h.S.Cfg)})
}

func kindOf(m *wire.Msg) string { return wire.TypeName(m.Type) }

func toDir(s *wire.Stat) *go9p.Dir {
	d := &go9p.Dir{Type: s.Type, Dev: s.Dev, Mode: s.Mode, Atime: s.Atime, Mtime: s.Mtime, Length: s.Length,
		Name: s.Name, Uid: s.Uid, Gid: s.Gid, Muid: s.Muid, Ext: s.Ext, Uidnum: s.Nuid, Gidnum: s.Ngid, Muidnum: s.Nmuid}
	d.Qid = go9p.Qid{Type: s.Qid.Type, Version: s.Qid.Version, Path: s.Qid.Path}
	return d
}

// expectedArgs renders the arguments exactly as the scripted implementation logs them.
func expectedArgs(op string, m *wire.Msg, dotu bool) string {
	switch op {
	case "Attach":
		return fmt.Sprintf("aname=%q uname=%q", m.Aname, m.Uname)
	case "Walk":
		w := m.Wname
		if w == nil {
			w = []string{}
		}
		return fmt.Sprintf("names=%q", w)
	case "Open":
		return fmt.Sprintf("mode=%d", m.Mode)
	case "Create":
		ext := ""
		if dotu {
			ext = m.Ext
		}
		return fmt.Sprintf("name=%q perm=%#x mode=%d ext=%q", m.Name, m.Perm, m.Mode, ext)
	case "Read", "AuthRead":
		return fmt.Sprintf("offset=%d count=%d", m.Offset, m.Count)
	case "Write", "AuthWrite":
		return fmt.Sprintf("offset=%d count=%d data=%s", m.Offset, m.Count, script.HashBytes(m.Data))
	case "Wstat":
		st := m.Stat
		d := toDir(&st)
		// the decoder reports the record's own size field and NOUID for the numeric ids in 9P2000; neither is logged
		if !dotu {
			d.Uidnum, d.Gidnum, d.Muidnum = go9p.NOUID, go9p.NOUID, go9p.NOUID
		}
		return script.WstatDigest(d, dotu)
	case "AuthInit":
		return fmt.Sprintf("aname=%q", m.Aname)
	}
	return ""
}

func isAuthOp(op string) bool { return strings.HasPrefix(op, "Auth") }

// Do sends one request, waits for its reply and judges it. It returns the reply (nil if none).
func (h *Hist) Do(st *Step) *wire.Msg {
	if h.Fatal {
		return nil
	}
	c := h.Conns[st.Conn]
	tab := h.Tabs[st.Conn]
	m := st.Msg
	h.nextTag++
	if h.nextTag == wire.NOTAG {
		h.nextTag = 1
	}
	m.Tag = h.nextTag
	plan := st.Plan
	if plan == nil {
		plan = script.NewPlan()
	}
	if m.Type == wire.Tauth || m.Type == wire.Tattach {
		h.nauth++
		if m.Aname == "" {
			m.Aname = fmt.Sprintf("a%d", h.nauth)
		}
		ap := *plan
		ap.AuthReject = st.AuthReject
		h.S.Ops.SetAuthPlan(m.Aname, &ap)
	}
	if uint32(len(wire.Encode(m, tab.Dotu))) > tab.Msize {
		// a frame larger than the negotiated msize makes the server drop the connection (C12): not a step of this history
		h.Res.Count("requests_skipped_larger_than_msize", 1)
		return nil
	}
	h.S.Ops.SetPlan(c.ID, m.Tag, plan)
	v := tab.Expect(m, st.AuthReject != "")
	before := tab.StateKey(h.Alphabet)
	pairKey := fmt.Sprintf("%s/%s/%s", before, kindOf(m), v.Exp)
	h.Pairs[pairKey] = true
	desc := fmt.Sprintf("c%d %s fid=%d newfid=%d afid=%d names=%q mode=%d perm=%#x count=%d planErr=%q walkN=%d authReject=%q  [model: %s %s %s] state=%s",
		c.ID, kindOf(m), int64(int32(m.Fid)), int64(int32(m.Newfid)), int64(int32(m.Afid)), m.Wname, m.Mode, m.Perm, m.Count, plan.Err, plan.WalkN, st.AuthReject, v.Exp, v.Op, v.Why, before)
	h.Trace = append(h.Trace, desc)
	h.Steps++
	h.Res.Count("requests_sent", 1)

	seq0 := h.S.Log.Seq()
	var rep *Reply
	var err error
	if !st.LateFlush {
		rep, err = c.Rpc(m, W)
	} else {
		// a Tflush that comes too late: the answer has been claimed inside Respond when the flush is decided; the
		// request is answered and its whole effect on the fid table stands
		hold := h.S.Ctl.HoldAt("respond.claimed", c.ID, int(m.Tag), sched.AnyTag, 20*time.Second)
		_ = c.Send(m)
		if hold.WaitReached(W) {
			h.nextTag++
			if h.nextTag == wire.NOTAG {
				h.nextTag = 1
			}
			fl := &wire.Msg{Type: wire.Tflush, Oldtag: m.Tag, Tag: h.nextTag}
			_ = c.Send(fl)
			if h.S.Ctl.WaitPassed("flush.decided", c.ID, int(fl.Tag), 1, 2*time.Second) {
				h.Res.Count("late_flushes_during_respond", 1)
			}
			hold.Release()
			rep, err = c.WaitTag(m.Tag, W)
			if _, ferr := c.WaitTag(fl.Tag, W); ferr != nil {
				h.Res.Count("late_flush_unanswered", 1)
			}
		} else {
			hold.Release()
			rep, err = c.WaitTag(m.Tag, W)
		}
	}
	if err != nil || rep == nil || rep.Msg == nil {
		// no reply: not this engine's property to judge (C03/C06), but nothing more can be learnt
		h.Res.Count("sessions_lost", 1)
		h.Trace = append(h.Trace, fmt.Sprintf("  -> NO REPLY (%v)", err))
		if h.Prop == "C04" || h.Prop == "C05" {
			h.Res.Violate(h.Prop+";no-reply;"+kindOf(m)+";"+v.Exp.String(), "request got no decodable reply (connection lost or server stuck): "+desc,
				map[string]interface{}{"history_tail": h.tail(), "error": fmt.Sprint(err)})
		}
		h.Fatal = true
		return nil
	}
	r := rep.Msg
	h.Trace = append(h.Trace, "  -> "+r.String())
	evs := h.S.Log.Snapshot(seq0)
	var ops []script.Event
	var authcheck []script.Event
	for _, e := range evs {
		if e.Seq > rep.Seq {
			break
		}
		if e.Kind == "destroy" {
			if _, dup := h.dead[e.Fid]; dup && e.Fid != 0 {
				h.viol("C04", "C04;destroy-twice;"+kindOf(m), "a fid object was reported destroyed twice: "+desc, st)
			}
			h.dead[e.Fid] = e.Seq
			continue
		}
		if e.Kind != "op" || e.Conn != c.ID {
			continue
		}
		if e.Op == "AuthCheck" {
			authcheck = append(authcheck, e)
			continue
		}
		if isAuthOp(e.Op) || e.Tag == m.Tag {
			ops = append(ops, e)
		}
	}
	isErr := r.Type == wire.Rerror
	okReply := r.Type == m.Type+1
	if !isErr && !okReply {
		h.viol(h.Prop, h.Prop+";reply-type;"+kindOf(m), fmt.Sprintf("reply type %s to %s", wire.TypeName(r.Type), kindOf(m)), st)
	}
	fid := tab.Fids[m.Fid]
	stateSig := func() string {
		if m.Type == wire.Tattach || m.Type == wire.Tauth {
			return "bind"
		}
		if fid == nil {
			return "absent"
		}
		s := "file"
		if fid.Dir() {
			s = "dir"
		} else if fid.Auth() {
			s = "auth"
		}
		if fid.Open {
			s += fmt.Sprintf("+open%d", fid.Omode&3)
		}
		return s
	}()
	class := "C05"
	if v.Text == model.EUnknownFid || v.Text == model.EInUse {
		class = "C04"
	}
	switch v.Exp {
	case model.Refuse:
		if len(ops) > 0 {
			h.viol(class, fmt.Sprintf("%s;forwarded-but-must-refuse;%s;%s;%s", class, stateSig, kindOf(m), v.Why),
				fmt.Sprintf("request that must be refused (%s) reached the implementation (%s): %s", v.Why, ops[0].Op, desc), st)
		}
		if !isErr {
			h.viol(class, fmt.Sprintf("%s;accepted-but-must-refuse;%s;%s;%s", class, stateSig, kindOf(m), v.Why),
				fmt.Sprintf("request that must be refused (%s) was answered %s: %s", v.Why, wire.TypeName(r.Type), desc), st)
		} else if v.Text != "" && r.Ename != v.Text {
			h.viol(class, fmt.Sprintf("%s;wrong-error;%s;%s;%s", class, stateSig, kindOf(m), v.Why),
				fmt.Sprintf("expected error %q, got %q: %s", v.Text, r.Ename, desc), st)
		}
	case model.Forward, model.Either:
		if v.Exp == model.Forward && len(ops) != 1 {
			h.viol("C05", fmt.Sprintf("C05;forward-count;%s;%s;n=%d", stateSig, kindOf(m), len(ops)),
				fmt.Sprintf("legal request reached the implementation %d times (expected once), reply %s: %s", len(ops), r.String(), desc), st)
		}
		if len(ops) > 1 {
			h.viol("C05", fmt.Sprintf("C05;forward-count;%s;%s;n=%d", stateSig, kindOf(m), len(ops)), "request forwarded more than once: "+desc, st)
		}
		if len(ops) == 1 {
			e := ops[0]
			if v.Op != "" && e.Op != v.Op {
				h.viol("C05", fmt.Sprintf("C05;wrong-op;%s;%s", kindOf(m), e.Op), fmt.Sprintf("forwarded to %s, expected %s: %s", e.Op, v.Op, desc), st)
			}
			// identity and user of the fid the implementation saw
			if fid != nil && !isAuthOp(e.Op) {
				if fid.Tok != 0 && e.Fid != fid.Tok {
					h.viol("C04", "C04;fid-identity;"+kindOf(m), fmt.Sprintf("implementation saw fid object %d, the fid number designates object %d: %s", e.Fid, fid.Tok, desc), st)
				}
				if e.User != fid.User {
					h.viol("C04", "C04;fid-user;"+kindOf(m), fmt.Sprintf("implementation saw user %d, fid is bound to %d: %s", e.User, fid.User, desc), st)
				}
			}
			if fid != nil && isAuthOp(e.Op) && e.Op != "AuthInit" {
				if fid.Tok != 0 && e.Afid != fid.Tok {
					h.viol("C04", "C04;fid-identity;"+kindOf(m), "auth operation saw a different fid object: "+desc, st)
				}
			}
			if m.Type == wire.Tattach && e.User != st.Uid {
				h.viol("C05", fmt.Sprintf("C05;attach-user;dotu=%v", tab.Dotu), fmt.Sprintf("Attach saw user %d, the client named user %d (%q): %s", e.User, st.Uid, m.Uname, desc), st)
			}
			if want := expectedArgs(e.Op, m, tab.Dotu); want != "" && e.Op == v.Op && e.Args != want {
				h.viol("C05", "C05;arguments;"+e.Op, fmt.Sprintf("implementation saw arguments {%s}, the client sent {%s}: %s", e.Args, want, desc), st)
			}
			h.shown[e.Fid] = true
			if e.Newfid != 0 {
				h.shown[e.Newfid] = true
			}
			if e.Afid != 0 {
				h.shown[e.Afid] = true
			}
			// reply class follows the plan
			if !isAuthOp(e.Op) {
				if plan.Err != "" {
					if !isErr || r.Ename != plan.Err || (tab.Dotu && r.Ecode != plan.Errnum) {
						h.viol("C05", "C05;reply-not-forwarded;"+kindOf(m), fmt.Sprintf("implementation answered error %q/%d, client got %s: %s", plan.Err, plan.Errnum, r.String(), desc), st)
					}
				} else if m.Type == wire.Twalk {
					if _, ok := script.WalkAnswer(m.Wname, plan); ok != okReply {
						h.viol("C05", "C05;reply-not-forwarded;Twalk", "walk answer class differs from what the implementation produced: "+desc, st)
					}
				} else if !okReply && !(m.Type == wire.Tstat && uint32(wire.StatLen(&wire.Stat{Name: script.StatName(e.Fid, e.User), Uid: "u", Gid: "g", Muid: "m"}, tab.Dotu)+9) > tab.Msize) {
					// (an Rstat that cannot fit the negotiated msize is legitimately replaced by an error)
					h.viol("C05", "C05;reply-not-forwarded;"+kindOf(m), fmt.Sprintf("implementation answered success, client got %s: %s", r.String(), desc), st)
				}
			}
		}
		if m.Type == wire.Tattach && tab.HasAuth {
			// the auth gate: Attach only after an accepting AuthCheck
			for _, e := range ops {
				if e.Op == "Attach" {
					good := false
					for _, a := range authcheck {
						if a.Seq < e.Seq && a.Info == "" {
							good = true
						}
					}
					if !good {
						h.viol("C05", "C05;auth-gate", "Attach reached the implementation without an accepting authentication check: "+desc, st)
					}
				}
			}
		}
	}
	if m.Type == wire.Tattach && st.AuthReject != "" && tab.HasAuth {
		for _, e := range ops {
			if e.Op == "Attach" {
				h.viol("C05", "C05;auth-gate", "Attach reached the implementation although the authentication check rejected it: "+desc, st)
			}
		}
	}

	// ---- update the model and learn object identities
	var oldTok int64
	if fid != nil {
		oldTok = fid.Tok
	}
	wasValid := fid != nil
	tab.Apply(m, r, st.Uid)
	for _, e := range ops {
		switch e.Op {
		case "Attach":
			if f := tab.Fids[m.Fid]; f != nil && okReply && f.Tok == 0 {
				f.Tok = e.Fid
			}
		case "Walk":
			if f := tab.Fids[m.Newfid]; f != nil && okReply && m.Newfid != m.Fid && f.Tok == 0 {
				f.Tok = e.Newfid
			}
		case "AuthInit":
			if f := tab.Fids[m.Afid]; f != nil && okReply && f.Tok == 0 {
				f.Tok = e.Afid
			}
		}
	}
	// ---- destruction no later than the invalidating reply
	if wasValid && tab.Fids[m.Fid] == nil && (m.Type == wire.Tclunk || m.Type == wire.Tremove) && oldTok != 0 {
		if seq, ok := h.dead[oldTok]; !ok || seq > rep.Seq {
			h.viol("C04", "C04;destroy-late;"+kindOf(m), "the reply that invalidates the fid arrived before the implementation was told of its destruction: "+desc, st)
		}
	}
	after := tab.StateKey(h.Alphabet)
	h.Res.AddSet("model_transitions", pairKey+"->"+after)
	h.Res.AddSet("model_states", after)
	return r
}

func (h *Hist) tail() []string {
	if len(h.Trace) > 30 {
		return h.Trace[len(h.Trace)-30:]
	}
	return h.Trace
}

// Probe checks, with a Tstat on every fid number of the alphabet on every connection, that the
// set of valid fids, their identity and their user are what the model says.
func (h *Hist) Probe() {
	for ci := range h.Conns {
		for _, n := range h.Alphabet {
			if h.Fatal {
				return
			}
			f := h.Tabs[ci].Fids[n]
			st := &Step{Conn: ci, Msg: &wire.Msg{Type: wire.Tstat, Fid: n}, Probe: true}
			h.Res.Count("probes", 1)
			r := h.Do(st)
			if r == nil {
				return
			}
			if f != nil && !f.Auth() && r.Type == wire.Rstat {
				want := script.StatName(f.Tok, f.User)
				if f.Tok != 0 && r.Stat.Name != want {
					h.viol("C04", "C04;probe-identity", fmt.Sprintf("probe of fid %d answered %q, expected %q (object or user changed)", n, r.Stat.Name, want), st)
				}
			}
		}
	}
}

// HoldInflight sends, on every connection, requests naming fids that are valid (a Tstat each, and one clone walk
// to a new fid), all held inside the implementation; Finish then disconnects under them and lets them finish only
// after the connection's close processing: the destruction accounting must still come out at exactly once.
func (h *Hist) HoldInflight(max int) {
	if h.Fatal {
		return
	}
	for ci, c := range h.Conns {
		var nums []uint32
		for n, f := range h.Tabs[ci].Fids {
			if !f.Auth() {
				nums = append(nums, n)
			}
		}
		sort.Slice(nums, func(i, j int) bool { return nums[i] < nums[j] })
		if len(nums) > max {
			nums = nums[:max]
		}
		for i, n := range nums {
			h.nextTag++
			if h.nextTag == wire.NOTAG {
				h.nextTag = 1
			}
			m := &wire.Msg{Type: wire.Tstat, Fid: n, Tag: h.nextTag}
			if i == 0 {
				m = &wire.Msg{Type: wire.Twalk, Fid: n, Newfid: 7000 + uint32(ci), Tag: h.nextTag}
			}
			if h.Tabs[ci].Expect(m, false).Exp != model.Forward {
				m = &wire.Msg{Type: wire.Tstat, Fid: n, Tag: h.nextTag}
			}
			p := script.NewPlan()
			p.Gate = make(chan struct{})
			p.Entered = make(chan struct{})
			h.S.Ops.SetPlan(c.ID, m.Tag, p)
			_ = c.Send(m)
			select {
			case <-p.Entered:
				h.inflight = append(h.inflight, inflightReq{c.ID, m.Tag, p})
				h.Res.Count("requests_executing_at_disconnect", 1)
			case <-time.After(W):
				close(p.Gate)
				h.Res.Count("inflight_not_entered", 1)
			}
		}
	}
}

type inflightReq struct {
	conn int
	tag  uint16
	plan *script.Plan
}

// Finish disconnects every connection and checks the destruction accounting.
func (h *Hist) Finish() {
	seqIn := h.S.Log.Seq()
	_ = seqIn
	for _, c := range h.Conns {
		c.Hangup()
	}
	for _, c := range h.Conns {
		c.WaitClosed(W)
	}
	// the connection's close processing (ConnClosed, FidDestroy of the remaining fids) ends at close.exit
	for _, c := range h.Conns {
		if !h.S.Ctl.WaitPassed("close.exit", c.ID, sched.AnyTag, 1, W) {
			h.Res.Count("close_not_finished", 1)
		}
	}
	if len(h.inflight) > 0 {
		for _, q := range h.inflight {
			close(q.plan.Gate)
		}
		left := map[[2]int]bool{}
		for _, q := range h.inflight {
			left[[2]int{q.conn, int(q.tag)}] = true
		}
		for t0 := time.Now(); len(left) > 0 && time.Since(t0) < W; {
			for _, e := range h.S.Log.Snapshot(0) {
				if e.Kind == "exit" {
					delete(left, [2]int{e.Conn, int(e.Tag)})
				}
				if e.Kind == "op" && left[[2]int{e.Conn, int(e.Tag)}] {
					for _, tok := range []int64{e.Fid, e.Newfid} {
						if tok != 0 {
							h.shown[tok] = true
						}
					}
				}
			}
			if len(left) > 0 {
				time.Sleep(200 * time.Microsecond)
			}
		}
		// the requests have left the implementation; the framework's own post-processing of them is over when
		// nothing is outstanding any more
		for _, c := range h.Conns {
			c.Quiesce(W)
		}
	}
	if h.Fatal {
		return
	}
	counts := map[int64]int{}
	for _, e := range h.S.Log.Snapshot(0) {
		if e.Kind == "destroy" && e.Fid != 0 {
			counts[e.Fid]++
		}
	}
	for tok := range h.shown {
		if tok == 0 {
			continue
		}
		switch n := counts[tok]; {
		case n == 0:
			h.viol("C04", "C04;never-destroyed", fmt.Sprintf("fid object %d was shown to the implementation and never reported destroyed", tok), nil)
		case n > 1:
			h.viol("C04", "C04;destroy-twice;end", fmt.Sprintf("fid object %d reported destroyed %d times", tok, n), nil)
		}
	}
	h.Res.Count("fid_objects_tracked", int64(len(h.shown)))
}
