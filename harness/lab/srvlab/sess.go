// Package srvlab holds the engines that run the real go9p server framework
// in-process with the scripted implementation (package script), talk to it
// over scripted in-memory connections through the independent codec and judge
// the recorded event log: C03 C04 C05 C07 C08 C11 C12 C13.
package srvlab

import (
	"errors"
	"fmt"
	"io"
	"log"
	"os"
	"sync"
	"time"

	"github.com/rminnich/go9p"

	"verif/memconn"
	"verif/sched"
	"verif/script"
	"verif/wire"
)

func init() {
	// the library logs "invalid packet" with the whole receive buffer; keep workers quiet
	log.SetOutput(io.Discard)
	if os.Getenv("VERIF_WORKER") != "" {
		// the Unix file server prints rename diagnostics on stdout
		if f, err := os.OpenFile(os.DevNull, os.O_WRONLY, 0); err == nil {
			os.Stdout = f
		}
	}
}

type Config struct {
	Dotu        bool
	Msize       uint32
	Maxpend     int
	Auth        bool
	Flush       bool
	Debug       int
	TracePoints bool // record schedule points in the event log
	ProcOps     bool // the implementation also implements SrvReqProcessOps
	// Ifaces restricts the optional interfaces the implementation provides: "" = ConnOps + SrvFidOps (+ the ones
	// selected above), "conn-only" = ConnOps only, "fid-only" = SrvFidOps only, "req-only" = none
	Ifaces string
}

type Sess struct {
	Cfg   Config
	Srv   *go9p.Srv
	Ufs   *go9p.Ufs // set instead of Ops when the implementation is the bundled Unix file server
	Ops   *script.Ops
	Log   *script.Log
	Ctl   *sched.Ctl
	mu    sync.Mutex
	conns []*CConn
}

func NewSess(cfg Config) *Sess {
	s := &Sess{Cfg: cfg, Log: &script.Log{}}
	s.Ops = script.New(s.Log)
	s.Srv = &go9p.Srv{}
	s.Srv.Dotu = cfg.Dotu
	s.Srv.Msize = cfg.Msize
	s.Srv.Maxpend = cfg.Maxpend
	s.Srv.Upool = script.Users{}
	s.Srv.Debuglevel = cfg.Debug
	s.Srv.Id = "verif"
	var ops interface{}
	switch {
	case cfg.Ifaces == "conn-only":
		ops = script.ConnOnly(s.Ops)
	case cfg.Ifaces == "fid-only":
		ops = script.FidOnly(s.Ops)
	case cfg.Ifaces == "req-only":
		ops = script.ReqOnly(s.Ops)
	case cfg.ProcOps && cfg.Auth && cfg.Flush:
		ops = script.WithProcAuthFlush{WithAuthFlush: script.WithAuthFlush{Ops: s.Ops}}
	case cfg.ProcOps && cfg.Auth:
		ops = script.WithProcAuth{WithAuth: script.WithAuth{Ops: s.Ops}}
	case cfg.ProcOps && cfg.Flush:
		ops = script.WithProcFlush{WithFlush: script.WithFlush{Ops: s.Ops}}
	case cfg.ProcOps:
		ops = script.WithProc{Ops: s.Ops}
	case cfg.Auth && cfg.Flush:
		ops = script.WithAuthFlush{Ops: s.Ops}
	case cfg.Auth:
		ops = script.WithAuth{Ops: s.Ops}
	case cfg.Flush:
		ops = script.WithFlush{Ops: s.Ops}
	default:
		ops = s.Ops
	}
	if !s.Srv.Start(ops) {
		panic("srvlab: Srv.Start refused the scripted implementation")
	}
	s.Ctl = sched.New(s.Log, s.Ops.KnownConn)
	s.Ctl.Trace = cfg.TracePoints
	sched.Install(s.Ctl)
	return s
}

// NewUfsSess starts the bundled Unix file server on root (in-process, scripted connections).
func NewUfsSess(root string, dotu bool, msize uint32) *Sess {
	s := &Sess{Cfg: Config{Dotu: dotu, Msize: msize}, Log: &script.Log{}}
	u := new(go9p.Ufs)
	u.Dotu = dotu
	u.Msize = msize
	u.Id = "ufs"
	u.Root = root
	if !u.Start(u) {
		panic("srvlab: Ufs.Start failed")
	}
	s.Ufs = u
	s.Srv = &u.Srv
	s.Ctl = sched.New(s.Log, nil)
	s.Ctl.Trace = false
	sched.Install(s.Ctl)
	return s
}

// Reply is one frame received from the server.
type Reply struct {
	Msg *wire.Msg
	Seq int64
	Raw []byte
	Err error // the frame does not decode in the negotiated dialect
}

// CConn is the client side of one connection to the server under test.
type CConn struct {
	ID   int
	S    *Sess
	Cli  *memconn.End
	SrvE *memconn.End
	GC   *go9p.Conn

	mu     sync.Mutex
	cond   *sync.Cond
	dotu   bool
	inbox  []*Reply
	all    []*Reply
	paused bool  // the client does not read replies (its receive buffer fills up)
	rerr   error // transport error seen by the reader (EOF = server closed)
	nbytes int64
	msize  uint32
}

// Dial opens a new connection to the server (Srv.NewConn on the server side).
func (s *Sess) Dial() *CConn {
	s.mu.Lock()
	id := len(s.conns) + 1
	s.mu.Unlock()
	cli, srv := memconn.Pipe(fmt.Sprintf("client%d", id), fmt.Sprintf("server%d", id))
	c := &CConn{ID: id, S: s, Cli: cli, SrvE: srv, dotu: s.Cfg.Dotu, msize: s.Srv.Msize}
	c.cond = sync.NewCond(&c.mu)
	if s.Ops == nil {
		s.Srv.NewConn(srv)
	} else if s.Cfg.Ifaces == "fid-only" || s.Cfg.Ifaces == "req-only" {
		// no ConnOpened: the implementation numbers the connection when it sees its first request (connections of
		// such a session are dialled and used one after the other)
		s.Srv.NewConn(srv)
		c.ID = s.Ops.NConn() + 1
	} else {
		before := s.Ops.NConn()
		s.Srv.NewConn(srv)
		if s.Ops.NConn() != before+1 {
			panic("srvlab: ConnOpened was not called synchronously")
		}
		// ConnOpened numbered the connection in order of arrival
		c.ID = s.Ops.NConn()
		c.GC = s.Ops.ConnByID(c.ID)
	}
	s.mu.Lock()
	s.conns = append(s.conns, c)
	s.mu.Unlock()
	go c.reader()
	return c
}

var readChunk = 1 << 16

func (c *CConn) reader() {
	buf := make([]byte, 0, 1<<16)
	tmp := make([]byte, readChunk) // (on the heap: a variable size; 64 KB on every reader's stack cost 256 KB of stack each)
	for {
		c.mu.Lock()
		for c.paused {
			c.cond.Wait()
		}
		c.mu.Unlock()
		n, err := c.Cli.Read(tmp)
		if n > 0 {
			buf = append(buf, tmp[:n]...)
			c.mu.Lock()
			c.nbytes += int64(n)
			c.mu.Unlock()
			for len(buf) >= 4 {
				sz := int(wire.PeekSize(buf))
				if sz < 7 {
					c.push(&Reply{Raw: append([]byte{}, buf...), Err: fmt.Errorf("server sent a frame with size %d", sz)})
					buf = nil
					break
				}
				if sz > len(buf) {
					break
				}
				frame := append([]byte{}, buf[:sz]...)
				buf = buf[sz:]
				c.mu.Lock()
				dotu := c.dotu
				c.mu.Unlock()
				m, _, derr := wire.Decode(frame, dotu)
				r := &Reply{Msg: m, Raw: frame, Err: derr}
				if m != nil && m.Type == wire.Rversion {
					c.mu.Lock()
					c.dotu = m.Version == "9P2000.u"
					c.msize = m.Msize
					c.mu.Unlock()
				}
				c.push(r)
			}
		}
		if err != nil {
			c.mu.Lock()
			c.rerr = err
			c.cond.Broadcast()
			c.mu.Unlock()
			c.S.Log.Add(script.Event{Kind: "eof", Conn: c.ID, Info: err.Error()})
			return
		}
	}
}

func (c *CConn) push(r *Reply) {
	ev := script.Event{Kind: "R", Conn: c.ID}
	if r.Msg != nil {
		ev.Tag, ev.Type = r.Msg.Tag, r.Msg.Type
	} else {
		ev.Info = "undecodable: " + r.Err.Error()
	}
	r.Seq = c.S.Log.Add(ev)
	c.mu.Lock()
	c.inbox = append(c.inbox, r)
	c.all = append(c.all, r)
	c.cond.Broadcast()
	c.mu.Unlock()
}

// PauseReads makes the client stop reading replies (true) or resume (false); with Cli.Cap set the server's
// writer then blocks in its transport write, as on a socket whose peer does not drain it.
func (c *CConn) PauseReads(on bool) {
	c.mu.Lock()
	c.paused = on
	c.cond.Broadcast()
	c.mu.Unlock()
}

// Dotu reports the dialect the connection currently speaks.
func (c *CConn) Dotu() bool {
	c.mu.Lock()
	defer c.mu.Unlock()
	return c.dotu
}

// Msize reports the msize of the last Rversion (the server's own before that).
func (c *CConn) Msize() uint32 {
	c.mu.Lock()
	defer c.mu.Unlock()
	return c.msize
}

// Send writes the messages as ONE transport segment (the server sees them in one read
// if its buffer allows) and logs them.
func (c *CConn) Send(msgs ...*wire.Msg) error {
	var b []byte
	dotu := c.Dotu()
	for _, m := range msgs {
		c.S.Log.Add(script.Event{Kind: "T", Conn: c.ID, Tag: m.Tag, Type: m.Type})
		b = append(b, wire.Encode(m, dotu)...)
	}
	_, err := c.Cli.Write(b)
	return err
}

// SendRaw writes bytes as one segment.
func (c *CConn) SendRaw(b []byte) error {
	_, err := c.Cli.Write(b)
	return err
}

var ErrTimeout = errors.New("srvlab: timeout")

func (c *CConn) wait(d time.Duration, pred func() bool) bool {
	// called with c.mu held
	timedOut := false
	t := time.AfterFunc(d, func() {
		c.mu.Lock()
		timedOut = true
		c.cond.Broadcast()
		c.mu.Unlock()
	})
	defer t.Stop()
	for !pred() {
		if timedOut || d <= 0 {
			return false
		}
		c.cond.Wait()
	}
	return true
}

// Next returns the next reply in arrival order.
func (c *CConn) Next(d time.Duration) (*Reply, error) {
	c.mu.Lock()
	defer c.mu.Unlock()
	ok := c.wait(d, func() bool { return len(c.inbox) > 0 || c.rerr != nil })
	if len(c.inbox) > 0 {
		r := c.inbox[0]
		c.inbox = c.inbox[1:]
		return r, nil
	}
	if !ok {
		return nil, ErrTimeout
	}
	return nil, c.rerr
}

// WaitTag returns the first not yet consumed reply carrying tag.
func (c *CConn) WaitTag(tag uint16, d time.Duration) (*Reply, error) {
	c.mu.Lock()
	defer c.mu.Unlock()
	find := func() int {
		for i, r := range c.inbox {
			if r.Msg != nil && r.Msg.Tag == tag {
				return i
			}
			if r.Msg == nil {
				return i // an undecodable frame ends every wait
			}
		}
		return -1
	}
	ok := c.wait(d, func() bool { return find() >= 0 || c.rerr != nil })
	if i := find(); i >= 0 {
		r := c.inbox[i]
		c.inbox = append(c.inbox[:i:i], c.inbox[i+1:]...)
		return r, nil
	}
	if !ok {
		return nil, ErrTimeout
	}
	return nil, c.rerr
}

// Rpc sends one request and waits for the reply with its tag.
func (c *CConn) Rpc(m *wire.Msg, d time.Duration) (*Reply, error) {
	if err := c.Send(m); err != nil {
		return nil, err
	}
	return c.WaitTag(m.Tag, d)
}

// Pending returns the replies received and not consumed.
func (c *CConn) Pending() []*Reply {
	c.mu.Lock()
	defer c.mu.Unlock()
	return append([]*Reply{}, c.inbox...)
}

// All returns every frame received so far, in wire order.
func (c *CConn) All() []*Reply {
	c.mu.Lock()
	defer c.mu.Unlock()
	return append([]*Reply{}, c.all...)
}

// Closed reports the transport error seen by the reader (nil while the server keeps the connection).
func (c *CConn) Closed() error {
	c.mu.Lock()
	defer c.mu.Unlock()
	return c.rerr
}

// WaitClosed waits until the server closed its side.
func (c *CConn) WaitClosed(d time.Duration) bool {
	c.mu.Lock()
	defer c.mu.Unlock()
	return c.wait(d, func() bool { return c.rerr != nil })
}

// Version negotiates and returns the Rversion (or Rerror) reply.
func (c *CConn) Version(msize uint32, version string, d time.Duration) (*Reply, error) {
	return c.Rpc(&wire.Msg{Type: wire.Tversion, Tag: wire.NOTAG, Msize: msize, Version: version}, d)
}

// Hangup closes the client side (the server reads EOF).
func (c *CConn) Hangup() { c.Cli.Close() }

const W = 15 * time.Second // watchdog for events that normally take microseconds

// Quiesce waits until the server holds no pending request on the connection.
func (c *CConn) Quiesce(d time.Duration) bool {
	// the counters are read under the connection's own lock: a server that deadlocked holding it must not take the
	// monitor with it
	done := make(chan bool, 1)
	go func() { done <- c.quiesce(d) }()
	select {
	case r := <-done:
		return r
	case <-time.After(d + time.Second):
		return false
	}
}

func (c *CConn) quiesce(d time.Duration) bool {
	deadline := time.Now().Add(d)
	for c.GC != nil {
		// the server's reader has consumed everything sent and is back in Read (a request is linked into the
		// connection before the reader loops), and nothing is outstanding
		idle := c.SrvE.ReaderIdle() || c.SrvE.Closed() || c.SrvE.PeerGone()
		p, _ := c.GC.VerifCounts()
		if idle && p == 0 && (c.SrvE.ReaderIdle() || c.SrvE.Closed() || c.SrvE.PeerGone()) {
			return true
		}
		if time.Now().After(deadline) {
			return false
		}
		time.Sleep(100 * time.Microsecond)
	}
	return true
}
