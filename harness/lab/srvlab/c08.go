package srvlab

import (
	"bytes"
	"fmt"
	"strings"
	"time"

	"github.com/rminnich/go9p"

	"verif/core"
	"verif/memconn"
	"verif/script"
	"verif/wire"
)

func init() {
	core.Register(&core.Engine{
		Property: "C08",
		Level:    "exploration",
		Rule: "(a) 6 requests of mixed types on one connection plus one on a second connection; every non-empty subset S of the 6 is held blocked inside the scripted implementation " +
			"(S issued before or after the others), every other request must be answered while S is still held; S is then released in every order (|S| <= 4) or a seeded random order; " +
			"Maxpend in {0, 1, 4}; with and without random delays at the schedule points. (b) groups of 2..8 requests deliberately sharing one tag, mixed with other tags: each member is held in turn " +
			"and the next must not start before the previous answered; starts and replies must be in arrival order (distinct payloads identify members). " +
			"A reply that arrives only after the blockers were released is the witness of dependence; a reply that never arrives is inconclusive here. " +
			"distinct = (subset, issue order, release order class, Maxpend) / (group size, position held)",
		Assumptions: []string{
			"Tversion is excepted (handled synchronously by design)",
			"bounded progress: 'never delays' is decided as 'answered while the blockers are still held', with a generous watchdog that is never itself the verdict",
		},
		Cases:       c08Cases,
		MinDistinct: 100,
		Jobs:        8,
	})
}

func c08Cases(tier string, seed int64) []core.Case {
	var cases []core.Case
	maxpends := []int{0, 1, 4}
	for _, mp := range maxpends {
		for first := 0; first < 2; first++ {
			for _, delays := range []bool{false, true} {
				if tier == "quick" && delays && mp != 0 {
					continue
				}
				mp, first, delays := mp, first, delays
				cases = append(cases, core.Case{ID: fmt.Sprintf("subsets/maxpend=%d/blockersfirst=%d/delays=%v", mp, first, delays), Run: func(ctx *core.Ctx) core.Result {
					return c08Subsets(ctx.Seed, mp, first == 1, delays)
				}})
			}
		}
	}
	for _, mp := range []int{0, 4} {
		mp := mp
		cases = append(cases, core.Case{ID: fmt.Sprintf("slow-flushop/maxpend=%d", mp), Run: func(ctx *core.Ctx) core.Result { return c08SlowFlush(ctx.Seed, mp) }})
		// (ConnOpened of a connection being set up and a client that stops reading are not "requests inside the
		// implementation": the scenarios exist below but are not part of this property's cases)
		for _, cb := range []string{"AuthInit", "AuthCheck", "AuthRead", "AuthWrite", "AuthDestroy", "SrvReqProcess", "SrvReqRespond"} {
			cb := cb
			cases = append(cases, core.Case{ID: fmt.Sprintf("slow-callback/%s/maxpend=%d", cb, mp), Run: func(ctx *core.Ctx) core.Result { return c08SlowCallback(ctx.Seed, mp, cb) }})
		}
		cases = append(cases, core.Case{ID: fmt.Sprintf("same-fid/maxpend=%d", mp), Run: func(ctx *core.Ctx) core.Result { return c08SameFid(ctx.Seed, mp) }})
		cases = append(cases, core.Case{ID: fmt.Sprintf("client-tag-interface/maxpend=%d", mp), Run: func(ctx *core.Ctx) core.Result { return c08ClientTag(ctx.Seed, mp) }})
		_ = c08StalledClient
		cases = append(cases, core.Case{ID: fmt.Sprintf("slow-fiddestroy/maxpend=%d", mp), Run: func(ctx *core.Ctx) core.Result { return c08SlowDestroy(ctx.Seed, mp) }})
	}
	reps := 2
	if tier == "thorough" {
		reps = 40
	}
	for k := 2; k <= 8; k++ {
		for _, mp := range []int{0, 4} {
			k, mp := k, mp
			cases = append(cases, core.Case{ID: fmt.Sprintf("sharedtag/k=%d/maxpend=%d", k, mp), Run: func(ctx *core.Ctx) core.Result {
				return c08Shared(ctx.Seed, k, mp, reps)
			}})
		}
	}
	for _, mp := range []int{0, 4} {
		for _, oldFirst := range []bool{true, false} {
			mp, oldFirst := mp, oldFirst
			cases = append(cases, core.Case{ID: fmt.Sprintf("tag-reused-after-tversion/maxpend=%d/old-released-first=%v", mp, oldFirst), Run: func(ctx *core.Ctx) core.Result {
				return c08TagAfterVersion(ctx, mp, oldFirst)
			}})
		}
	}
	for _, mp := range []int{0, 4} {
		mp := mp
		if mp == 0 {
			cases = append(cases, c08FsrvCases()...)
			// a connection closes while the implementation is slow in the callbacks of its close processing (a
			// FidDestroy that waits for the operation still using the fid, a slow ConnClosed): requests of the other
			// connections are answered meanwhile
			for _, where := range []string{"fiddestroy", "connclosed"} {
				where := where
				cases = append(cases, core.Case{ID: "slow-teardown-of-another-connection/" + where, Run: func(ctx *core.Ctx) core.Result { return slowTeardown(ctx, "C08", where) }})
			}
		}
		cases = append(cases, core.Case{ID: fmt.Sprintf("event-loop-answers/maxpend=%d", mp), Run: func(ctx *core.Ctx) core.Result { return c08EventLoop(ctx, mp) }})
		cases = append(cases, core.Case{ID: fmt.Sprintf("tflush-as-group-member/maxpend=%d", mp), Run: func(ctx *core.Ctx) core.Result { return c08FlushAsMember(ctx, mp) }})
	}
	cases = append(cases, sharedFlushCases("C08", tier)...)
	return cases
}

func c08setup(cfg Config) (*Sess, *c07env, *c07env, bool) {
	s := NewSess(cfg)
	mk := func() *c07env {
		c := s.Dial()
		e := &c07env{s: s, c: c, uid: uidFor(cfg.Dotu, 1001), root: 1}
		ver := "9P2000"
		if cfg.Dotu {
			ver = "9P2000.u"
		}
		if r, err := c.Version(8192, ver, W); err != nil || r.Msg == nil || r.Msg.Type != wire.Rversion {
			return nil
		}
		if !e.ok(&wire.Msg{Type: wire.Tattach, Fid: e.root, Afid: wire.NOFID, Uname: uname(e.uid), Nuname: uint32(e.uid), Aname: "root"}) {
			return nil
		}
		return e
	}
	a, b := mk(), mk()
	return s, a, b, a != nil && b != nil
}

// c08Subsets: property (a).
func c08Subsets(seed int64, maxpend int, blockersFirst, delays bool) core.Result {
	var res core.Result
	s, e, other, ok := c08setup(Config{Dotu: true, Msize: 8192, Maxpend: maxpend})
	if !ok {
		res.Inconclusive = "c08: setup failed"
		return res
	}
	c := e.c
	if delays {
		s.Ctl.Random(uint64(seed)*31+uint64(maxpend), 200, 200)
	}
	r := core.NewRand(seed, fmt.Sprintf("c08/%d/%v/%v", maxpend, blockersFirst, delays))
	const N = 6
	fid := uint32(100)
	for mask := 1; mask < 1<<N; mask++ {
		if len(res.Violations) > 0 {
			break
		}
		// six requests on six fresh fids
		reqs := make([]*wire.Msg, N)
		plans := make([]*script.Plan, N)
		setupOK := true
		for i := 0; i < N; i++ {
			f := fid
			fid += 2
			name := "f"
			if i%3 == 2 {
				name = "d"
			}
			if !e.ok(&wire.Msg{Type: wire.Twalk, Fid: e.root, Newfid: f, Wname: []string{fmt.Sprintf("%s%d", name, i)}}) {
				setupOK = false
				break
			}
			switch i % 6 {
			case 0:
				setupOK = setupOK && e.ok(&wire.Msg{Type: wire.Topen, Fid: f, Mode: 2})
				reqs[i] = &wire.Msg{Type: wire.Tread, Fid: f, Offset: uint64(mask), Count: 64}
			case 1:
				reqs[i] = &wire.Msg{Type: wire.Tstat, Fid: f}
			case 2:
				reqs[i] = &wire.Msg{Type: wire.Twalk, Fid: f, Newfid: f + 1, Wname: []string{"d1"}}
			case 3:
				setupOK = setupOK && e.ok(&wire.Msg{Type: wire.Topen, Fid: f, Mode: 1})
				reqs[i] = &wire.Msg{Type: wire.Twrite, Fid: f, Offset: 3, Count: 5, Data: []byte("hello")}
			case 4:
				reqs[i] = &wire.Msg{Type: wire.Topen, Fid: f, Mode: 0}
			case 5:
				reqs[i] = &wire.Msg{Type: wire.Tclunk, Fid: f}
			}
			reqs[i].Tag = e.next()
			plans[i] = script.NewPlan()
			if mask&(1<<i) != 0 {
				plans[i].Gate = make(chan struct{})
				plans[i].Entered = make(chan struct{})
			}
			s.Ops.SetPlan(c.ID, reqs[i].Tag, plans[i])
		}
		if !setupOK {
			res.Inconclusive = "c08: fid setup failed"
			break
		}
		var blockers, free []int
		for i := 0; i < N; i++ {
			if mask&(1<<i) != 0 {
				blockers = append(blockers, i)
			} else {
				free = append(free, i)
			}
		}
		send := func(idx []int) {
			var ms []*wire.Msg
			for _, i := range idx {
				ms = append(ms, reqs[i])
			}
			if len(ms) > 0 {
				_ = c.Send(ms...)
			}
		}
		res.Evals++
		held := true
		release := func(order []int) {
			for _, k := range order {
				close(plans[blockers[k]].Gate)
			}
			held = false
		}
		if blockersFirst {
			send(blockers)
			for _, i := range blockers {
				select {
				case <-plans[i].Entered:
				case <-time.After(W):
					res.Violate(fmt.Sprintf("C08;blocker-not-started;maxpend=%d", maxpend), "a request did not reach the implementation while other requests were blocked in it", map[string]interface{}{"mask": mask})
				}
			}
			send(free)
		} else {
			send(free)
			send(blockers)
		}
		// a request on another connection, too
		om := &wire.Msg{Type: wire.Tstat, Fid: other.root, Tag: other.next()}
		_ = other.c.Send(om)
		det := func(i int) map[string]interface{} {
			return map[string]interface{}{"held_subset_mask": mask, "maxpend": maxpend, "blockers_first": blockersFirst, "request": reqs[i].String()}
		}
		// every free request must be answered while S is held
		late := map[int]bool{}
		deadline := time.Now().Add(W) // one shared watchdog for all of them
		for _, i := range free {
			rep, err := c.WaitTag(reqs[i].Tag, time.Until(deadline))
			if err != nil || rep.Msg == nil {
				late[i] = true
			}
		}
		_, oerr := other.c.WaitTag(om.Tag, time.Until(deadline))
		// release order
		var order []int
		if len(blockers) <= 4 {
			perms := permutations(len(blockers))
			order = perms[(mask*7+int(seed))%len(perms)]
		} else {
			order = r.Perm(len(blockers))
		}
		release(order)
		_ = held
		for i := range late {
			rep, err := c.WaitTag(reqs[i].Tag, W)
			if err == nil && rep.Msg != nil {
				res.Violate(fmt.Sprintf("C08;head-of-line;same-conn;maxpend=%d", maxpend),
					fmt.Sprintf("%s was answered only after the blocked requests %v were released", reqs[i].String(), blockers), det(i))
			} else {
				res.Inconclusive = "c08: a free request was never answered (not this property's verdict)"
			}
		}
		if oerr != nil {
			if rep, err := other.c.WaitTag(om.Tag, W); err == nil && rep.Msg != nil {
				res.Violate(fmt.Sprintf("C08;head-of-line;other-conn;maxpend=%d", maxpend), "a request on another connection was answered only after the blocked requests were released", det(0))
			} else {
				res.Inconclusive = "c08: request on the other connection never answered"
			}
		}
		for _, i := range blockers {
			if rep, err := c.WaitTag(reqs[i].Tag, W); err != nil || rep.Msg == nil {
				res.Inconclusive = "c08: a released request was never answered"
			}
		}
		res.Count("replies_while_blocked", int64(len(free)+1-len(late)))
		res.Sig(fmt.Sprintf("mask=%d|first=%v|mp=%d|delays=%v|order=%v", mask, blockersFirst, maxpend, delays, order))
		if mask == 21 {
			res.Sample(map[string]interface{}{"held_subset_mask": mask, "maxpend": maxpend, "blockers_first": blockersFirst, "release_order": order, "free_answered_while_held": len(free) - len(late)})
		}
	}
	e.c.Hangup()
	other.c.Hangup()
	return res
}

// c08Shared: property (b), groups sharing one tag.
func c08Shared(seed int64, k, maxpend, reps int) core.Result {
	var res core.Result
	s, e, _, ok := c08setup(Config{Dotu: true, Msize: 8192, Maxpend: maxpend})
	if !ok {
		res.Inconclusive = "c08: setup failed"
		return res
	}
	c := e.c
	r := core.NewRand(seed, fmt.Sprintf("c08s/%d/%d", k, maxpend))
	f := uint32(60)
	if !e.ok(&wire.Msg{Type: wire.Twalk, Fid: e.root, Newfid: f, Wname: []string{"f"}}) || !e.ok(&wire.Msg{Type: wire.Topen, Fid: f, Mode: 2}) {
		res.Inconclusive = "c08: fid setup failed"
		return res
	}
	for rep := 0; rep < reps*(k+1) && len(res.Violations) == 0; rep++ { // (a connection that lost a reply does not settle: stop at the first violation)
		holdAt := rep % (k + 1) // member held in the implementation (k = none)
		if rep >= k+1 && r.Intn(3) == 0 {
			s.Ctl.Random(uint64(seed)+uint64(rep), 250, 150)
		}
		tag := e.next()
		seq0 := s.Log.Seq()
		group := make([]*wire.Msg, k)
		plans := make([]*script.Plan, k)
		var single []*wire.Msg
		for i := 0; i < k; i++ {
			group[i] = &wire.Msg{Type: wire.Tread, Tag: tag, Fid: f, Offset: uint64(1000*rep + i), Count: uint32(8 + i)}
			plans[i] = script.NewPlan()
			if i == holdAt {
				plans[i].Gate = make(chan struct{})
				plans[i].Entered = make(chan struct{})
			}
			s.Ops.SetPlan(c.ID, tag, plans[i])
		}
		// singleton tags mixed in
		var all []*wire.Msg
		for i := 0; i < k; i++ {
			all = append(all, group[i])
			if i%2 == 0 {
				m := &wire.Msg{Type: wire.Tstat, Fid: e.root, Tag: e.next()}
				single = append(single, m)
				all = append(all, m)
			}
		}
		res.Evals++
		if rep%2 == 0 {
			_ = c.Send(all...)
		} else {
			for _, m := range all {
				_ = c.Send(m)
			}
		}
		det := map[string]interface{}{"group_size": k, "held_member": holdAt, "maxpend": maxpend, "tag": tag}
		if holdAt < k {
			select {
			case <-plans[holdAt].Entered:
			case <-time.After(W):
				res.Inconclusive = "c08: held member never started"
			}
			// while member holdAt is inside the implementation no later member may start; singletons must complete
			for _, m := range single {
				if rp, err := c.WaitTag(m.Tag, W); err != nil || rp.Msg == nil {
					res.Violate("C08;head-of-line;shared-tag-blocks-others", "a request with another tag was not answered while a member of a shared-tag group was held", det)
					c.Hangup()
					return res
				}
			}
			time.Sleep(2 * time.Millisecond)
			for _, ev := range s.Log.Snapshot(seq0) {
				if ev.Kind == "op" && ev.Tag == tag && ev.Args != fmt.Sprintf("offset=%d count=%d", group[holdAt].Offset, group[holdAt].Count) {
					idx := int(0)
					fmt.Sscanf(ev.Args, "offset=%d", &idx)
					if idx-1000*rep > holdAt {
						res.Violate("C08;shared-tag-not-serial", fmt.Sprintf("member %d of a shared-tag group was started while member %d was still executing", idx-1000*rep, holdAt), det)
					}
				}
			}
			close(plans[holdAt].Gate)
		}
		// collect the k replies of the group in wire order
		var got []*Reply
		for len(got) < k {
			rp, err := c.WaitTag(tag, W)
			if err != nil || rp.Msg == nil {
				res.Violate("C08;shared-tag-reply-missing", fmt.Sprintf("only %d of %d replies for a shared-tag group", len(got), k), det)
				c.Hangup()
				return res
			}
			got = append(got, rp)
		}
		if holdAt == k {
			for _, m := range single {
				c.WaitTag(m.Tag, W)
			}
		}
		c.Quiesce(W)
		// starts in arrival order, one at a time; replies in that order
		var ops, answers []script.Event
		for _, ev := range s.Log.Snapshot(seq0) {
			if ev.Tag == tag && ev.Kind == "op" {
				ops = append(ops, ev)
			}
			if ev.Tag == tag && ev.Kind == "answer" {
				answers = append(answers, ev)
			}
		}
		if len(ops) == k && len(answers) == k {
			var tok int64
			for i := 0; i < k; i++ {
				want := fmt.Sprintf("offset=%d count=%d", group[i].Offset, group[i].Count)
				if ops[i].Args != want {
					res.Violate("C08;shared-tag-order;start", fmt.Sprintf("start %d of the group was {%s}, arrival order says {%s}", i, ops[i].Args, want), det)
					break
				}
				if i > 0 && ops[i].Seq < answers[i-1].Seq {
					res.Violate("C08;shared-tag-not-serial", fmt.Sprintf("member %d started before member %d had answered", i, i-1), det)
				}
				tok = ops[i].Fid
			}
			for i := 0; i < len(got) && i < k; i++ {
				want := script.Pattern(tag, tok, group[i].Offset, int(group[i].Count))
				if got[i].Msg.Type != wire.Rread || !bytes.Equal(got[i].Msg.Data, want) {
					res.Violate("C08;shared-tag-order;reply", fmt.Sprintf("reply %d of the group is not the answer to member %d", i, i), det)
					break
				}
			}
		} else if len(res.Violations) == 0 {
			res.Violate("C08;shared-tag-count", fmt.Sprintf("group of %d: %d starts, %d answers", k, len(ops), len(answers)), det)
		}
		res.Sig(fmt.Sprintf("shared|k=%d|hold=%d|mp=%d|seg=%d", k, holdAt, maxpend, rep%2))
		if rep == 1 {
			res.Sample(det)
		}
	}
	c.Hangup()
	return res
}

// c08SlowFlush: a Tflush whose FlushOp call is slow inside the implementation is a blocked request like any other:
// requests with other tags, on the same and on another connection, must be answered meanwhile.
func c08SlowFlush(seed int64, maxpend int) core.Result {
	var res core.Result
	s, e, other, ok := c08setup(Config{Dotu: true, Msize: 8192, Maxpend: maxpend, Flush: true})
	if !ok {
		res.Inconclusive = "c08: setup failed"
		return res
	}
	c := e.c
	for round := 0; round < 12 && len(res.Violations) == 0; round++ {
		f := uint32(300 + 2*round)
		if !e.ok(&wire.Msg{Type: wire.Twalk, Fid: e.root, Newfid: f, Wname: []string{"f"}}) {
			res.Inconclusive = "c08: setup walk failed"
			break
		}
		target := &wire.Msg{Type: wire.Tstat, Fid: f, Tag: e.next()}
		tp := script.NewPlan()
		tp.Gate = make(chan struct{})
		tp.Entered = make(chan struct{})
		s.Ops.SetPlan(c.ID, target.Tag, tp)
		s.Ops.SetFlushMode(c.ID, target.Tag, "ignore")
		fgate := make(chan struct{})
		s.Ops.SetFlushGate(c.ID, target.Tag, fgate)
		_ = c.Send(target)
		select {
		case <-tp.Entered:
		case <-time.After(W):
			res.Inconclusive = "c08: target never started"
			return res
		}
		flush := &wire.Msg{Type: wire.Tflush, Oldtag: target.Tag, Tag: e.next()}
		seq0 := s.Log.Seq()
		_ = c.Send(flush)
		// wait until the implementation's Flush has been called (it then blocks on the gate)
		waitFor(W, func() bool {
			for _, ev := range s.Log.Snapshot(seq0) {
				if ev.Kind == "flushcb" {
					return true
				}
			}
			return false
		})
		res.Evals++
		var free []*wire.Msg
		for i := 0; i < 1+round%4; i++ {
			free = append(free, &wire.Msg{Type: wire.Tstat, Fid: e.root, Tag: e.next()})
		}
		_ = c.Send(free...)
		om := &wire.Msg{Type: wire.Tstat, Fid: other.root, Tag: other.next()}
		_ = other.c.Send(om)
		late := false
		deadline := time.Now().Add(W)
		for _, m := range free {
			if rp, err := c.WaitTag(m.Tag, time.Until(deadline)); err != nil || rp.Msg == nil {
				late = true
			}
		}
		_, oerr := other.c.WaitTag(om.Tag, time.Until(deadline))
		close(fgate)
		close(tp.Gate)
		det := map[string]interface{}{"maxpend": maxpend, "round": round}
		if late {
			ok := true
			for _, m := range free {
				if rp, err := c.WaitTag(m.Tag, W); err != nil || rp.Msg == nil {
					ok = false
				}
			}
			if ok {
				res.Violate(fmt.Sprintf("C08;head-of-line;slow-flushop;maxpend=%d", maxpend), "requests with other tags were answered only after a Tflush blocked in the implementation's FlushOp was released", det)
			} else {
				res.Inconclusive = "c08: requests never answered"
			}
		}
		if oerr != nil {
			if rp, err := other.c.WaitTag(om.Tag, W); err == nil && rp.Msg != nil {
				res.Violate(fmt.Sprintf("C08;head-of-line;slow-flushop;other-conn;maxpend=%d", maxpend), "a request on another connection waited for a Tflush blocked in the FlushOp", det)
			}
		}
		c.WaitTag(target.Tag, W)
		c.WaitTag(flush.Tag, W)
		c.Quiesce(W)
		res.Sig(fmt.Sprintf("slowflush|mp=%d|free=%d|round=%d", maxpend, len(free), round))
	}
	res.Sample(map[string]interface{}{"scenario": "Tflush blocked inside FlushOp while other requests must progress", "maxpend": maxpend})
	e.c.Hangup()
	other.c.Hangup()
	return res
}

// c08SlowDestroy: a request whose completion makes the framework report a fid destroyed (Tclunk, Tremove, a failed
// Twalk giving up its new fid) is slow inside the implementation's FidDestroy; requests with other tags on the same
// and on another connection must be answered meanwhile.
func c08SlowDestroy(seed int64, maxpend int) core.Result {
	var res core.Result
	s, e, other, ok := c08setup(Config{Dotu: true, Msize: 8192, Maxpend: maxpend})
	if !ok {
		res.Inconclusive = "c08: setup failed"
		return res
	}
	c := e.c
	kinds := []string{"clunk", "remove", "failed-walk"}
	for round := 0; round < 12 && len(res.Violations) == 0; round++ {
		kind := kinds[round%len(kinds)]
		f := uint32(500 + 4*round)
		seq0 := s.Log.Seq()
		if !e.ok(&wire.Msg{Type: wire.Twalk, Fid: e.root, Newfid: f, Wname: []string{"f"}}) || !e.ok(&wire.Msg{Type: wire.Tstat, Fid: f}) {
			res.Inconclusive = "c08: setup walk failed"
			break
		}
		var slow *wire.Msg
		gate := make(chan struct{})
		switch kind {
		case "clunk", "remove":
			var tok int64
			for _, ev := range s.Log.Snapshot(seq0) {
				if ev.Kind == "op" && ev.Op == "Stat" && ev.Conn == c.ID {
					tok = ev.Fid
				}
			}
			if tok == 0 {
				res.Inconclusive = "c08: fid token not learned"
				return res
			}
			s.Ops.SetDestroyGate(tok, gate)
			slow = &wire.Msg{Type: wire.Tclunk, Fid: f, Tag: e.next()}
			if kind == "remove" {
				slow.Type = wire.Tremove
			}
		case "failed-walk":
			// the new fid of a walk the implementation fails is given up by the framework: its token is only known
			// once the implementation has seen it, so the walk is held in the implementation while the gate is armed
			slow = &wire.Msg{Type: wire.Twalk, Fid: e.root, Newfid: f + 1, Wname: []string{"x"}, Tag: e.next()}
			p := script.NewPlan()
			p.Err, p.Errnum = "no such name", 2
			p.Gate = make(chan struct{})
			p.Entered = make(chan struct{})
			s.Ops.SetPlan(c.ID, slow.Tag, p)
			seq1 := s.Log.Seq()
			_ = c.Send(slow)
			select {
			case <-p.Entered:
			case <-time.After(W):
				res.Inconclusive = "c08: walk never started"
				return res
			}
			for _, ev := range s.Log.Snapshot(seq1) {
				if ev.Kind == "op" && ev.Op == "Walk" && ev.Conn == c.ID && ev.Tag == slow.Tag && ev.Newfid != 0 {
					s.Ops.SetDestroyGate(ev.Newfid, gate)
				}
			}
			close(p.Gate)
		}
		seq2 := s.Log.Seq()
		if kind != "failed-walk" {
			_ = c.Send(slow)
		}
		inDestroy := waitFor(W, func() bool {
			for _, ev := range s.Log.Snapshot(seq2 - 1) {
				if ev.Kind == "destroy" {
					return true
				}
			}
			return false
		})
		if !inDestroy {
			close(gate)
			res.Inconclusive = "c08: FidDestroy was not reached for " + kind
			return res
		}
		res.Evals++
		var flushOfSlow *wire.Msg
		if round%2 == 1 {
			// a Tflush naming the request that sits in FidDestroy: the flush may have to wait for it, nobody else does
			flushOfSlow = &wire.Msg{Type: wire.Tflush, Oldtag: slow.Tag, Tag: e.next()}
			_ = c.Send(flushOfSlow)
			s.Ctl.WaitPassed("flush.enter", c.ID, int(flushOfSlow.Tag), 1, 500*time.Millisecond)
			time.Sleep(time.Millisecond)
		}
		var free []*wire.Msg
		for i := 0; i < 1+round%4; i++ {
			free = append(free, &wire.Msg{Type: wire.Tstat, Fid: e.root, Tag: e.next()})
		}
		free = append(free, &wire.Msg{Type: wire.Twalk, Fid: e.root, Newfid: f + 2, Tag: e.next()}, &wire.Msg{Type: wire.Tclunk, Fid: f + 2, Tag: e.next()})
		for _, m := range free {
			_ = c.Send(m)
			if m.Type == wire.Twalk {
				c.WaitTag(m.Tag, W) // the clunk names the fid this walk creates
			}
		}
		om := &wire.Msg{Type: wire.Tstat, Fid: other.root, Tag: other.next()}
		_ = other.c.Send(om)
		late := false
		deadline := time.Now().Add(W)
		for _, m := range free {
			if m.Type == wire.Twalk {
				continue
			}
			if rp, err := c.WaitTag(m.Tag, time.Until(deadline)); err != nil || rp.Msg == nil {
				late = true
			}
		}
		_, oerr := other.c.WaitTag(om.Tag, time.Until(deadline))
		close(gate)
		det := map[string]interface{}{"maxpend": maxpend, "round": round, "slow_request": slow.String(), "blocked_in": "FidDestroy"}
		if late {
			ok := true
			for _, m := range free {
				if m.Type == wire.Twalk {
					continue
				}
				if rp, err := c.WaitTag(m.Tag, W); err != nil || rp.Msg == nil {
					ok = false
				}
			}
			if ok {
				res.Violate(fmt.Sprintf("C08;head-of-line;slow-fiddestroy;%s;maxpend=%d", kind, maxpend), "requests with other tags were answered only after a request blocked in the implementation's FidDestroy was released", det)
			} else {
				res.Inconclusive = "c08: requests never answered"
			}
		}
		if oerr != nil {
			if rp, err := other.c.WaitTag(om.Tag, W); err == nil && rp.Msg != nil {
				res.Violate(fmt.Sprintf("C08;head-of-line;slow-fiddestroy;other-conn;%s;maxpend=%d", kind, maxpend), "a request on another connection waited for a request blocked in FidDestroy", det)
			}
		}
		c.WaitTag(slow.Tag, W)
		if flushOfSlow != nil {
			if rp, err := c.WaitTag(flushOfSlow.Tag, W); err != nil || rp.Msg == nil || rp.Msg.Type != wire.Rflush {
				res.Violate("C08;slow-fiddestroy;flush-of-the-slow-request-unanswered", "the Tflush naming a request blocked in FidDestroy was not answered after the request was released", det)
			}
			res.Count("flushes_of_a_request_blocked_in_fiddestroy", 1)
		}
		c.Quiesce(W)
		res.Count("requests_blocked_in_fiddestroy", 1)
		res.Sig(fmt.Sprintf("slowdestroy|mp=%d|%s|free=%d|flushed=%v", maxpend, kind, len(free), flushOfSlow != nil))
	}
	res.Sample(map[string]interface{}{"scenario": "Tclunk/Tremove/failed Twalk blocked inside FidDestroy while other requests must progress", "maxpend": maxpend})
	e.c.Hangup()
	other.c.Hangup()
	return res
}

// c08SlowCallback: a request is slow inside one of the implementation's *other* callbacks — the authentication
// operations, ConnOpened of a connection being set up, the SrvReqProcess / SrvReqRespond hooks of an implementation
// that takes over request processing — while requests with other tags on the same and on another connection must be
// answered.
func c08SlowCallback(seed int64, maxpend int, cb string) core.Result {
	var res core.Result
	cfg := Config{Dotu: true, Msize: 8192, Maxpend: maxpend}
	switch {
	case strings.HasPrefix(cb, "Auth"):
		cfg.Auth = true
	case strings.HasPrefix(cb, "SrvReq"):
		cfg.ProcOps = true
	}
	s, e, other, ok := c08setup(cfg)
	if !ok {
		res.Inconclusive = "c08: setup failed"
		return res
	}
	c := e.c
	for round := 0; round < 6 && len(res.Violations) == 0; round++ {
		afid := uint32(700 + 3*round)
		gate := make(chan struct{})
		seq0 := s.Log.Seq()
		var slow *wire.Msg
		auth := &wire.Msg{Type: wire.Tauth, Afid: afid, Uname: uname(e.uid), Nuname: uint32(e.uid), Aname: "a"}
		switch cb {
		case "AuthInit":
			slow = auth
		case "AuthCheck", "AuthRead", "AuthWrite", "AuthDestroy":
			if !e.ok(auth) {
				res.Inconclusive = "c08: Tauth failed"
				return res
			}
			switch cb {
			case "AuthCheck":
				slow = &wire.Msg{Type: wire.Tattach, Fid: afid + 1, Afid: afid, Uname: uname(e.uid), Nuname: uint32(e.uid), Aname: "a"}
			case "AuthRead":
				slow = &wire.Msg{Type: wire.Tread, Fid: afid, Offset: 0, Count: 16}
			case "AuthWrite":
				slow = &wire.Msg{Type: wire.Twrite, Fid: afid, Offset: 0, Count: 4, Data: []byte("abcd")}
			case "AuthDestroy":
				slow = &wire.Msg{Type: wire.Tclunk, Fid: afid}
			}
		case "SrvReqProcess", "SrvReqRespond":
			slow = &wire.Msg{Type: wire.Tstat, Fid: e.root}
			if round%2 == 1 {
				slow.Fid = 9999 // a request the framework itself refuses ("unknown fid") also goes through the respond hook
			}
		}
		s.Ops.SetCallbackGate(cb, gate)
		dialed := make(chan *CConn, 1)
		if cb == "ConnOpened" {
			go func() { dialed <- s.Dial() }()
		} else {
			slow.Tag = e.next()
			_ = c.Send(slow)
		}
		blocked := waitFor(W, func() bool {
			for _, ev := range s.Log.Snapshot(seq0) {
				if ev.Kind == "blocked" && ev.Op == cb {
					return true
				}
			}
			return false
		})
		if !blocked {
			close(gate)
			res.Inconclusive = "c08: the request never reached " + cb
			return res
		}
		res.Evals++
		var free []*wire.Msg
		for i := 0; i < 1+round%3; i++ {
			free = append(free, &wire.Msg{Type: wire.Tstat, Fid: e.root, Tag: e.next()})
		}
		// … and one that names the very fid the slow request is working on (another tag all the same)
		switch cb {
		case "AuthRead":
			free = append(free, &wire.Msg{Type: wire.Twrite, Fid: afid, Offset: 0, Count: 2, Data: []byte("pw"), Tag: e.next()})
		case "AuthWrite":
			free = append(free, &wire.Msg{Type: wire.Tread, Fid: afid, Offset: 0, Count: 8, Tag: e.next()})
		case "SrvReqProcess", "SrvReqRespond":
			if slow.Fid == e.root {
				free = append(free, &wire.Msg{Type: wire.Twalk, Fid: e.root, Newfid: 900 + uint32(round), Tag: e.next()})
			}
		}
		_ = c.Send(free...)
		om := &wire.Msg{Type: wire.Tstat, Fid: other.root, Tag: other.next()}
		_ = other.c.Send(om)
		late := false
		deadline := time.Now().Add(W)
		for _, m := range free {
			if rp, err := c.WaitTag(m.Tag, time.Until(deadline)); err != nil || rp.Msg == nil {
				late = true
			}
		}
		_, oerr := other.c.WaitTag(om.Tag, time.Until(deadline))
		close(gate)
		what := "a connection being set up"
		if slow != nil {
			what = slow.String()
		}
		det := map[string]interface{}{"maxpend": maxpend, "round": round, "slow": what, "blocked_in": cb}
		if late {
			ok := true
			for _, m := range free {
				if rp, err := c.WaitTag(m.Tag, W); err != nil || rp.Msg == nil {
					ok = false
				}
			}
			if ok {
				res.Violate(fmt.Sprintf("C08;head-of-line;slow-callback;%s;maxpend=%d", cb, maxpend), "requests with other tags were answered only after a request blocked in the implementation's "+cb+" was released", det)
			} else {
				res.Inconclusive = "c08: requests never answered"
			}
		}
		if oerr != nil {
			if rp, err := other.c.WaitTag(om.Tag, W); err == nil && rp.Msg != nil {
				res.Violate(fmt.Sprintf("C08;head-of-line;slow-callback;other-conn;%s;maxpend=%d", cb, maxpend), "a request on another connection waited for a request blocked in "+cb, det)
			}
		}
		if cb == "ConnOpened" {
			select {
			case nc := <-dialed:
				nc.Hangup()
			case <-time.After(W):
			}
		} else {
			c.WaitTag(slow.Tag, W)
		}
		c.Quiesce(W)
		res.Count("requests_blocked_in_other_callbacks", 1)
		res.Sig(fmt.Sprintf("slowcallback|%s|mp=%d|free=%d", cb, maxpend, len(free)))
	}
	res.Sample(map[string]interface{}{"scenario": "request blocked inside " + cb + " while other requests must progress", "maxpend": maxpend})
	e.c.Hangup()
	other.c.Hangup()
	return res
}

// c08StalledClient: one connection's client stops reading its replies while it keeps sending requests (some of them
// refused by the framework itself), so that the answers of that connection pile up behind its writer; requests on
// another connection must still be answered.
func c08StalledClient(seed int64, maxpend int) core.Result {
	var res core.Result
	s, e, other, ok := c08setup(Config{Dotu: true, Msize: 8192, Maxpend: maxpend})
	if !ok {
		res.Inconclusive = "c08: setup failed"
		return res
	}
	_ = s
	c := e.c
	c.Cli.Cap = 64 // a small receive buffer on the client side
	c.PauseReads(true)
	n := maxpend + 6
	for i := 0; i < n; i++ {
		fid := e.root
		if i%2 == 1 {
			fid = 9000 + uint32(i) // unknown fid: refused by the framework
		}
		_ = c.Send(&wire.Msg{Type: wire.Tstat, Fid: fid, Tag: e.next()})
	}
	// the requests are with the server once its reader is idle again (or blocked handing out work)
	waitFor(2*time.Second, func() bool { return c.SrvE.ReaderIdle() })
	res.Evals++
	late := 0
	for i := 0; i < 5 && late == 0; i++ {
		for _, m := range []*wire.Msg{{Type: wire.Tstat, Fid: other.root}, {Type: wire.Tstat, Fid: 7777}, {Type: wire.Twalk, Fid: other.root, Newfid: 40}, {Type: wire.Tclunk, Fid: 40}} {
			m.Tag = other.next()
			if rp, err := other.c.Rpc(m, W); err != nil || rp.Msg == nil {
				late++
				break
			}
		}
	}
	c.PauseReads(false)
	if late > 0 {
		if rp, err := other.c.Rpc(&wire.Msg{Type: wire.Tstat, Fid: other.root, Tag: other.next()}, W); err == nil && rp.Msg != nil {
			res.Violate(fmt.Sprintf("C08;head-of-line;stalled-client;other-conn;maxpend=%d", maxpend), fmt.Sprintf("%d requests on another connection were answered only after a client that had stopped reading its replies resumed", late), nil)
		} else {
			res.Inconclusive = "c08: other connection dead"
		}
	}
	res.Count("requests_behind_a_stalled_client", int64(n))
	res.Sig(fmt.Sprintf("stalled-client|mp=%d", maxpend))
	e.c.Hangup()
	other.c.Hangup()
	return res
}

// c08ClientTag: the shared-tag contract end to end — go9p's own client issues a group of requests under one tag
// through its pipelined Tag interface while the first of them is held in the implementation; the server executes
// them one at a time in arrival order, and the client hands each answer to the request it belongs to, in that order.
func c08ClientTag(seed int64, maxpend int) core.Result {
	var res core.Result
	s := NewSess(Config{Dotu: true, Msize: 8192, Maxpend: maxpend})
	cli, srv := memconn.Pipe("tagclient", "server")
	s.Srv.NewConn(srv)
	connID := s.Ops.NConn()
	clnt, err := go9p.Connect(cli, 8192, true)
	if err != nil {
		res.Inconclusive = "c08: client connect: " + err.Error()
		return res
	}
	defer clnt.Unmount()
	root, err := clnt.Attach(nil, script.Users{}.Uid2User(0), "x")
	if err != nil {
		res.Inconclusive = "c08: client attach: " + err.Error()
		return res
	}
	clnt.Root = root
	f, err := clnt.FOpen("f", go9p.ORDWR)
	if err != nil {
		res.Inconclusive = "c08: client open: " + err.Error()
		return res
	}
	for round := 0; round < 10 && len(res.Violations) == 0; round++ {
		k := 2 + round%5
		reqchan := make(chan *go9p.Req, 32)
		tag := clnt.TagAlloc(reqchan)
		seq0 := s.Log.Seq()
		// all requests of the group carry the tag's number: their plans queue up under it; the first one is held
		gate := make(chan struct{})
		entered := make(chan struct{})
		var tagNo uint16
		var tok int64
		first := script.NewPlan()
		first.Gate, first.Entered = gate, entered
		offs := make([]uint64, k)
		for i := range offs {
			offs[i] = uint64(1000*round + 100*(i+1))
		}
		// the tag number is only visible on the wire: learn it from the first request's op event
		// (plans are keyed by connection and tag, and the tag's number is only visible on the wire: the first request
		// picks up a one-shot catch-all plan)
		s.Ops.SetDefaultPlan(connID, first)
		if err := tag.Read(f.Fid, offs[0], 10); err != nil {
			res.Inconclusive = "c08: tag.Read: " + err.Error()
			return res
		}
		select {
		case <-entered:
		case <-time.After(W):
			res.Inconclusive = "c08: first request of the group never reached the implementation"
			close(gate)
			return res
		}
		s.Ops.SetDefaultPlan(connID, nil)
		for _, ev := range s.Log.Snapshot(seq0) {
			if ev.Kind == "op" && ev.Conn == connID && ev.Op == "Read" {
				tagNo, tok = ev.Tag, ev.Fid
			}
		}
		for i := 1; i < k; i++ {
			if err := tag.Read(f.Fid, offs[i], 10); err != nil {
				res.Inconclusive = "c08: tag.Read: " + err.Error()
				close(gate)
				return res
			}
		}
		// the followers are with the server but must not have started
		time.Sleep(2 * time.Millisecond)
		started := 0
		for _, ev := range s.Log.Snapshot(seq0) {
			if ev.Kind == "op" && ev.Conn == connID && ev.Op == "Read" {
				started++
			}
		}
		close(gate)
		res.Evals++
		det := map[string]interface{}{"group": k, "tag": tagNo, "maxpend": maxpend}
		if started > 1 {
			res.Violate("C08;client-tag;not-serial", fmt.Sprintf("%d requests of one tag group were executing at the same time", started), det)
		}
		for i := 0; i < k; i++ {
			select {
			case r := <-reqchan:
				if r.Tc == nil || r.Rc == nil || r.Rc.Type != go9p.Rread {
					res.Violate("C08;client-tag;bad-completion", fmt.Sprintf("completion %d of the group is not an answered read", i), det)
					continue
				}
				if r.Tc.Offset != offs[i] {
					res.Violate("C08;client-tag;completion-order", fmt.Sprintf("completion %d belongs to the request for offset %d, the request issued at that position asked for %d", i, r.Tc.Offset, offs[i]), det)
				}
				if want := script.Pattern(tagNo, tok, r.Tc.Offset, len(r.Rc.Data)); len(r.Rc.Data) != 10 || !bytes.Equal(want, r.Rc.Data) {
					res.Violate("C08;client-tag;foreign-answer", fmt.Sprintf("the request for offset %d was completed with the answer to another request of its tag group", r.Tc.Offset), det)
				}
			case <-time.After(W):
				res.Violate("C08;client-tag;completion-missing", fmt.Sprintf("only %d of %d requests of the tag group were completed", i, k), det)
				i = k
			}
		}
		clnt.TagFree(tag)
		res.Sig(fmt.Sprintf("client-tag|k=%d|mp=%d", k, maxpend))
	}
	res.Sample(map[string]interface{}{"scenario": "go9p client Tag interface against the go9p server, first request of the group held", "maxpend": maxpend})
	return res
}

// c08SameFid: the blocked request and the requests that must not wait for it name the SAME fid (different tags): a
// read blocked in the implementation does not delay a stat, a write, another read or a clone of that fid.
func c08SameFid(seed int64, maxpend int) core.Result {
	var res core.Result
	s, e, other, ok := c08setup(Config{Dotu: true, Msize: 8192, Maxpend: maxpend})
	if !ok {
		res.Inconclusive = "c08: setup failed"
		return res
	}
	c := e.c
	blockers := []func(f uint32) *wire.Msg{
		func(f uint32) *wire.Msg { return &wire.Msg{Type: wire.Tread, Fid: f, Offset: 0, Count: 32} },
		func(f uint32) *wire.Msg { return &wire.Msg{Type: wire.Tstat, Fid: f} },
		func(f uint32) *wire.Msg {
			return &wire.Msg{Type: wire.Twrite, Fid: f, Offset: 0, Count: 3, Data: []byte("abc")}
		},
		func(f uint32) *wire.Msg {
			return &wire.Msg{Type: wire.Twstat, Fid: f, Stat: wire.Stat{Name: "n", Mode: 0o644, Nuid: wire.NOUID, Ngid: wire.NOUID, Nmuid: wire.NOUID}}
		},
	}
	for round := 0; round < 8 && len(res.Violations) == 0; round++ {
		f := uint32(1200 + 4*round)
		if !e.ok(&wire.Msg{Type: wire.Twalk, Fid: e.root, Newfid: f, Wname: []string{"f"}}) || !e.ok(&wire.Msg{Type: wire.Topen, Fid: f, Mode: 2}) {
			res.Inconclusive = "c08: setup walk/open failed"
			break
		}
		slow := blockers[round%len(blockers)](f)
		slow.Tag = e.next()
		p := script.NewPlan()
		p.Gate = make(chan struct{})
		p.Entered = make(chan struct{})
		s.Ops.SetPlan(c.ID, slow.Tag, p)
		_ = c.Send(slow)
		select {
		case <-p.Entered:
		case <-time.After(W):
			res.Inconclusive = "c08: blocker never started"
			close(p.Gate)
			return res
		}
		res.Evals++
		free := []*wire.Msg{
			{Type: wire.Tstat, Fid: f, Tag: e.next()},
			{Type: wire.Tread, Fid: f, Offset: 100, Count: 16, Tag: e.next()},
			{Type: wire.Twrite, Fid: f, Offset: 50, Count: 2, Data: []byte("zz"), Tag: e.next()},
			{Type: wire.Tstat, Fid: e.root, Tag: e.next()},
		}
		_ = c.Send(free...)
		om := &wire.Msg{Type: wire.Tstat, Fid: other.root, Tag: other.next()}
		_ = other.c.Send(om)
		late := false
		deadline := time.Now().Add(W)
		for _, m := range free {
			if rp, err := c.WaitTag(m.Tag, time.Until(deadline)); err != nil || rp.Msg == nil {
				late = true
			}
		}
		_, oerr := other.c.WaitTag(om.Tag, time.Until(deadline))
		close(p.Gate)
		det := map[string]interface{}{"maxpend": maxpend, "blocked": slow.String(), "same_fid": f}
		if late {
			answered := true
			for _, m := range free {
				if rp, err := c.WaitTag(m.Tag, W); err != nil || rp.Msg == nil {
					answered = false
				}
			}
			if answered {
				res.Violate(fmt.Sprintf("C08;head-of-line;same-fid;%s;maxpend=%d", wire.TypeName(slow.Type), maxpend), "requests with other tags naming the same fid were answered only after the request blocked in the implementation was released", det)
			} else {
				res.Inconclusive = "c08: requests never answered"
			}
		}
		if oerr != nil {
			if rp, err := other.c.WaitTag(om.Tag, W); err == nil && rp.Msg != nil {
				res.Violate(fmt.Sprintf("C08;head-of-line;same-fid;other-conn;maxpend=%d", maxpend), "a request on another connection waited for a blocked request", det)
			}
		}
		c.WaitTag(slow.Tag, W)
		c.Quiesce(W)
		e.ok(&wire.Msg{Type: wire.Tclunk, Fid: f})
		res.Sig(fmt.Sprintf("samefid|%s|mp=%d", wire.TypeName(slow.Type), maxpend))
	}
	res.Sample(map[string]interface{}{"scenario": "blocked request and free requests name the same fid", "maxpend": maxpend})
	e.c.Hangup()
	other.c.Hangup()
	return res
}
