package srvlab

import (
	"bytes"
	"fmt"
	"io"
	"log"
	"os"
	"runtime"
	"strings"
	"time"

	"github.com/rminnich/go9p"

	"verif/core"
	"verif/sched"
	"verif/script"
	"verif/wire"
)

func init() {
	core.Register(&core.Engine{
		Property: "C03",
		Level:    "exploration",
		Rule: "rounds of N in {1,2,3,4,5,8,16,33,64,66,100,200} simultaneously outstanding requests of mixed types (read, write, stat, walk, open, create, clunk, remove, wstat, attach) " +
			"with per-request payloads, each held in the scripted implementation and finished in a chosen order: every permutation for N <= 5, seeded random orders beyond; " +
			"run free, with seeded random delays at the server's schedule points, and with a congested transport (short writes, delays between them) so recycled reply buffers are re-packed while " +
			"older replies are still being written; some requests are answered twice or with errors. After a quiescence barrier (no pending request, sentinel answered) the wire is judged: " +
			"exactly one reply per tag, byte-identical to the recomputed answer of the implementation, no reply for a tag that is not outstanding. " +
			"distinct = (N, completion order class, variant, request kinds); interleavings = hash of the schedule-point order",
		Assumptions: []string{
			"sessions use unique tags and never send Tversion with requests outstanding (shared tags: C08, flushes: C07)",
			"a second Respond by the implementation is a bare req.Respond(): re-packing an already queued reply buffer is outside the statement",
		},
		Cases:       c03Cases,
		MinDistinct: 100,
		Jobs:        8,
	})
}

// permutations of 0..n-1 in lexicographic order.
func permutations(n int) [][]int {
	var out [][]int
	p := make([]int, n)
	for i := range p {
		p[i] = i
	}
	var rec func(k int)
	rec = func(k int) {
		if k == n {
			out = append(out, append([]int{}, p...))
			return
		}
		for i := k; i < n; i++ {
			p[k], p[i] = p[i], p[k]
			rec(k + 1)
			p[k], p[i] = p[i], p[k]
		}
	}
	rec(0)
	return out
}

type c03variant struct {
	name     string
	gated    bool
	delays   bool
	slowWire bool
	maxpend  int
	procOps  bool
	async    bool // the implementation's callbacks return at once; the answers are given later, from another goroutine
	debug    bool // every debug facility of the server on
}

var c03variants = []c03variant{
	{"gated", true, false, false, 0, false, false, false},
	{"free", false, false, false, 0, false, false, false},
	{"gated+delays", true, true, false, 0, false, false, false},
	{"free+delays+slowwire", false, true, true, 0, false, false, false},
	{"gated+slowwire+maxpend4", true, false, true, 4, false, false, false},
	{"gated+delays+procops", true, true, false, 0, true, false, false},
	{"async", false, false, false, 0, false, true, false},
	{"async+delays+maxpend4", false, true, false, 4, false, true, false},
	{"gated+debug", true, false, false, 0, false, false, true},
}

func c03Cases(tier string, seed int64) []core.Case {
	var cases []core.Case
	nrandom := 6
	if tier == "thorough" {
		nrandom = 200
	}
	for _, dotu := range []bool{true, false} {
		for vi, v := range c03variants {
			dotu, v, vi := dotu, v, vi
			if tier == "quick" && !dotu && vi > 1 {
				continue
			}
			// all permutations for N<=5 in one session per (N, variant)
			for n := 1; n <= 5; n++ {
				n := n
				cases = append(cases, core.Case{ID: fmt.Sprintf("perm/n=%d/%s/dotu=%v", n, v.name, dotu), Run: func(ctx *core.Ctx) core.Result {
					return c03Run(ctx.Seed, n, permutations(n), v, dotu)
				}})
			}
			// (the statement's "no matter how many": also more than the 64 reply buffers the connection keeps)
			for _, n := range []int{8, 16, 33, 64, 66, 100, 200} {
				n := n
				if n > 64 && vi > 1 {
					continue
				}
				cases = append(cases, core.Case{ID: fmt.Sprintf("rand/n=%d/%s/dotu=%v", n, v.name, dotu), Run: func(ctx *core.Ctx) core.Result {
					r := core.NewRand(ctx.Seed, fmt.Sprintf("c03/%d/%s/%v", n, v.name, dotu))
					var orders [][]int
					no := nrandom
					if n > 64 && no > 12 {
						no = 12 // (a session's tags are not reused: 65 535 are enough for twelve rounds of 200)
					}
					for i := 0; i < no; i++ {
						orders = append(orders, r.Perm(n))
					}
					return c03Run(ctx.Seed, n, orders, v, dotu)
				}})
			}
		}
	}
	// a second answer that OVERLAPS the first one (a watchdog goroutine of the implementation answering while the
	// worker's own answer is still inside Respond): the first responder is parked at a point inside Respond
	for _, pt := range []string{"respond.claimed", "respond.posted", "respond.queued"} {
		for _, dotu := range []bool{true, false} {
			pt, dotu := pt, dotu
			cases = append(cases, core.Case{ID: fmt.Sprintf("overlapping-answers/%s/dotu=%v", pt, dotu), Run: func(ctx *core.Ctx) core.Result {
				return c03Overlap(ctx, pt, dotu)
			}})
		}
	}
	// the implementation cancels a request through FlushOp (req.Flush()) while its worker still holds it; the worker
	// answers late, while newer requests have replies packed but not yet written: those replies must be untouched
	for _, dotu := range []bool{true, false} {
		dotu := dotu
		cases = append(cases, core.Case{ID: fmt.Sprintf("late-answer-after-cancel/dotu=%v", dotu), Run: func(ctx *core.Ctx) core.Result {
			return c03LateAfterCancel(ctx, dotu)
		}})
	}
	// the whole answer given twice while the first one is still waiting for the connection's writer
	for _, dotu := range []bool{true, false} {
		dotu := dotu
		cases = append(cases, core.Case{ID: fmt.Sprintf("second-full-answer-while-queued/dotu=%v", dotu), Run: func(ctx *core.Ctx) core.Result {
			return c03SecondFullAnswer(ctx, dotu)
		}})
	}
	// a Tflush is a request too: it gets exactly one reply wherever it meets the request it names
	for _, dotu := range []bool{true, false} {
		for _, flushop := range []bool{false, true} {
			dotu, flushop := dotu, flushop
			cases = append(cases, core.Case{ID: fmt.Sprintf("tflush-meets-finishing-request/flushop=%v/dotu=%v", flushop, dotu), Run: func(ctx *core.Ctx) core.Result {
				return c03FlushMeets(ctx, dotu, flushop)
			}})
		}
	}
	for _, dotu := range []bool{true, false} {
		dotu := dotu
		cases = append(cases, core.Case{ID: fmt.Sprintf("renegotiated/dotu=%v", dotu), Run: func(ctx *core.Ctx) core.Result { return c03Renegotiated(ctx, dotu) }})
	}
	for _, dotu := range []bool{true, false} {
		dotu := dotu
		cases = append(cases, core.Case{ID: fmt.Sprintf("tag-reused-while-finishing/dotu=%v", dotu), Run: func(ctx *core.Ctx) core.Result { return c03TagReusedWhileFinishing(ctx, dotu) }})
	}
	for _, ms := range []uint32{256, 1024, 8192} {
		ms := ms
		cases = append(cases, core.Case{ID: fmt.Sprintf("held-payload/msize=%d", ms), Run: func(ctx *core.Ctx) core.Result {
			return c03HeldPayload(ctx, "C03", ms != 1024, ms)
		}})
	}
	for _, dotu := range []bool{true, false} {
		dotu := dotu
		cases = append(cases, core.Case{ID: fmt.Sprintf("second-answer-differs/dotu=%v", dotu), Run: func(ctx *core.Ctx) core.Result { return c03SecondAnswerDiffers(ctx, dotu) }})
	}
	for _, dotu := range []bool{true, false} {
		dotu := dotu
		cases = append(cases, core.Case{ID: fmt.Sprintf("error-texts-around-msize/dotu=%v", dotu), Run: func(ctx *core.Ctx) core.Result { return c03LongErrors(ctx, dotu) }})
	}
	for _, dotu := range []bool{true, false} {
		dotu := dotu
		cases = append(cases, core.Case{ID: fmt.Sprintf("tversion-under-an-ordinary-tag/dotu=%v", dotu), Run: func(ctx *core.Ctx) core.Result { return c03VersionTagged(ctx, dotu) }})
	}
	for _, dotu := range []bool{true, false} {
		dotu := dotu
		cases = append(cases, core.Case{ID: fmt.Sprintf("largest-requests/dotu=%v", dotu), Run: func(ctx *core.Ctx) core.Result { return c03LargestRequests(ctx, dotu) }})
	}
	cases = append(cases, sharedFlushCases("C03", tier)...)
	return cases
}

// c03SecondAnswerDiffers: the extra answer of a confused implementation is a *different* one (it answers, then reports
// an error for the same request). (a) While the first answer still waits for the connection's writer: the one reply
// that goes out is the first answer. (b) Long after the first answer went out, while another request's reply — packed
// into the buffer the first one used — waits for the writer: that other reply goes out as its own implementation call
// produced it.
func c03SecondAnswerDiffers(ctx *core.Ctx, dotu bool) core.Result {
	var res core.Result
	s := NewSess(Config{Dotu: dotu, Msize: 8192, Maxpend: 8})
	c := s.Dial()
	defer func() {
		s.Ctl.ReleaseAll()
		c.Hangup()
	}()
	ver := "9P2000"
	if dotu {
		ver = "9P2000.u"
	}
	if r, err := c.Version(8192, ver, W); err != nil || r.Msg == nil {
		res.Inconclusive = "c03: version failed"
		return res
	}
	tag := uint16(0)
	rpc := func(m *wire.Msg) *wire.Msg {
		tag++
		m.Tag = tag
		r, err := c.Rpc(m, W)
		if err != nil || r.Msg == nil {
			return nil
		}
		return r.Msg
	}
	if a := rpc(&wire.Msg{Type: wire.Tattach, Fid: 1, Afid: wire.NOFID, Uname: "root", Nuname: 0}); a == nil || a.Type != wire.Rattach {
		res.Inconclusive = "c03: attach failed"
		return res
	}
	rpc(&wire.Msg{Type: wire.Twalk, Fid: 1, Newfid: 2, Wname: []string{"f"}})
	rpc(&wire.Msg{Type: wire.Topen, Fid: 2, Mode: 2})
	for round := 0; round < 12 && len(res.Violations) == 0; round++ {
		ctx.Beat()
		// (a) the writer is kept busy with an earlier reply; the request under test is answered, then "answered" with an error
		tag++
		first := &wire.Msg{Type: wire.Tstat, Fid: 1, Tag: tag}
		hold := s.Ctl.HoldAt("send.dequeued", c.ID, int(first.Tag), sched.AnyTag, 20*time.Second)
		s.Ops.SetPlan(c.ID, first.Tag, script.NewPlan())
		_ = c.Send(first)
		if !hold.WaitReached(W) {
			res.Inconclusive = "c03: the writer never took the first reply"
			hold.Release()
			return res
		}
		tag++
		m := []*wire.Msg{{Type: wire.Tstat, Fid: 2}, {Type: wire.Tread, Fid: 2, Offset: uint64(round), Count: 40}, {Type: wire.Twrite, Fid: 2, Offset: 1, Count: 3, Data: []byte("xyz")}}[round%3]
		m.Tag = tag
		plan := script.NewPlan()
		plan.ThenError = fmt.Sprintf("second thoughts %d", round)
		s.Ops.SetPlan(c.ID, m.Tag, plan)
		seq0 := s.Log.Seq()
		_ = c.Send(m)
		waitFor(W, func() bool {
			for _, ev := range s.Log.Snapshot(seq0) {
				if ev.Kind == "exit" && ev.Conn == c.ID && ev.Tag == m.Tag {
					return true
				}
			}
			return false
		})
		hold.Release()
		res.Evals++
		c.WaitTag(first.Tag, W)
		rp, err := c.WaitTag(m.Tag, W)
		det := map[string]interface{}{"request": m.String(), "dotu": dotu, "round": round}
		switch {
		case err != nil || rp.Msg == nil:
			res.Violate("C03;second-answer-differs;no-reply", "a request answered, and then answered with an error while the first answer was still queued, got no reply", det)
		case rp.Msg.Type != m.Type+1:
			res.Violate("C03;second-answer-differs;queued;reply-is-the-extra-answer", fmt.Sprintf("the implementation answered %s and then, extra, an error: the one reply is %s", wire.TypeName(m.Type+1), rp.Msg.String()), det)
		}
		c.Quiesce(W)
		if extra := c.Pending(); len(extra) > 0 {
			res.Violate("C03;second-answer-differs;surplus-reply", fmt.Sprintf("%d surplus replies", len(extra)), det)
		}
		// (b) an old request gives its extra answer while a newer request's reply waits in the buffer it used
		tag++
		old := &wire.Msg{Type: wire.Tstat, Fid: 1, Tag: tag}
		s.Ops.SetPlan(c.ID, old.Tag, script.NewPlan())
		if r := rpc2(c, old); r == nil || r.Type != wire.Rstat {
			res.Inconclusive = "c03: old request failed"
			return res
		}
		oldReq := s.Ops.Request(c.ID, old.Tag)
		c.Quiesce(W)
		tag++
		newer := &wire.Msg{Type: wire.Tread, Fid: 2, Offset: uint64(100 + round), Count: 60, Tag: tag}
		hold2 := s.Ctl.HoldAt("send.dequeued", c.ID, int(newer.Tag), sched.AnyTag, 20*time.Second)
		s.Ops.SetPlan(c.ID, newer.Tag, script.NewPlan())
		_ = c.Send(newer)
		if !hold2.WaitReached(W) {
			res.Inconclusive = "c03: the writer never took the newer reply"
			hold2.Release()
			return res
		}
		if oldReq != nil {
			oldReq.RespondError(&go9p.Error{Err: fmt.Sprintf("late second thoughts %d", round), Errornum: 98})
		}
		hold2.Release()
		res.Evals++
		rp2, err2 := c.WaitTag(newer.Tag, W)
		switch {
		case err2 != nil || rp2.Msg == nil:
			res.Violate("C03;second-answer-differs;late;no-reply", "a request whose reply was waiting for the writer while an older, answered request gave an extra answer got no reply", det)
		case rp2.Msg.Type != wire.Rread || len(rp2.Msg.Data) != 60:
			res.Violate("C03;second-answer-differs;late;other-reply-overwritten", fmt.Sprintf("an older request, answered long ago, was answered once more with an error; the reply of the request then waiting for the writer arrived as %s", rp2.Msg.String()), det)
		}
		c.Quiesce(W)
		if extra := c.Pending(); len(extra) > 0 {
			res.Violate("C03;second-answer-differs;late;surplus-reply", fmt.Sprintf("%d surplus replies", len(extra)), det)
		}
		res.Sig(fmt.Sprintf("second-answer-differs|%v|%d", dotu, round%3))
	}
	res.Sample(map[string]interface{}{"scenario": "an answer followed by a different (error) answer: while the first is queued; long after it, into a recycled buffer", "dotu": dotu})
	return res
}

func rpc2(c *CConn, m *wire.Msg) *wire.Msg {
	r, err := c.Rpc(m, W)
	if err != nil || r.Msg == nil {
		return nil
	}
	return r.Msg
}

// c03LongErrors: the implementation answers with error texts one byte shorter than, exactly as long as, and longer than
// what an Rerror of the negotiated msize can carry, between ordinary answers with distinct contents (so that the reply
// buffers are recycled ones). Every request gets its own reply: the Rerror carries the text the implementation gave,
// cut to fit at most, never the contents of an earlier reply.
func c03LongErrors(ctx *core.Ctx, dotu bool) core.Result {
	var res core.Result
	ver := "9P2000"
	if dotu {
		ver = "9P2000.u"
	}
	for _, ask := range []uint32{256, 1024, 8192, 1 << 17} {
		ctx.Beat()
		s := NewSess(Config{Dotu: dotu, Msize: 1 << 17})
		c := s.Dial()
		rv, err := c.Version(ask, ver, W)
		if err != nil || rv.Msg == nil || rv.Msg.Type != wire.Rversion {
			res.Inconclusive = "c03 errors: version failed"
			c.Hangup()
			return res
		}
		msize := int(rv.Msg.Msize)
		budget := msize - (4 + 1 + 2 + 2)
		if dotu {
			budget -= 4
		}
		if budget > 65535 {
			budget = 65535 // (a string of the protocol has a 16-bit length)
		}
		tag := uint16(0)
		if a, err := c.Rpc(&wire.Msg{Type: wire.Tattach, Tag: 900, Fid: 1, Afid: wire.NOFID, Uname: "root", Nuname: 0}, W); err != nil || a.Msg == nil || a.Msg.Type != wire.Rattach {
			res.Inconclusive = "c03 errors: attach failed"
			c.Hangup()
			return res
		}
		lens := []int{budget - 1, budget, budget + 1, budget, 3 * msize, budget - 2, 1, budget}
		if msize > 70000 {
			lens = []int{65534, 65535, 65536, 70000, 65535 + 4096, 1}
		}
		for round, n := range lens {
			// an ordinary answer first: its buffer is the one the error is packed into next
			tag++
			if st, err := c.Rpc(&wire.Msg{Type: wire.Tstat, Tag: tag, Fid: 1}, W); err != nil || st.Msg == nil || st.Msg.Type != wire.Rstat {
				res.Inconclusive = "c03 errors: plain stat failed"
				c.Hangup()
				return res
			}
			tag++
			text := fmt.Sprintf("E%d-%d:", round, n) + strings.Repeat(string(rune('a'+round)), n)
			text = text[:n]
			p := script.NewPlan()
			p.Err, p.Errnum = text, uint32(70+round)
			s.Ops.SetPlan(c.ID, tag, p)
			rp, err := c.Rpc(&wire.Msg{Type: wire.Tstat, Tag: tag, Fid: 1}, W)
			res.Evals++
			det := map[string]interface{}{"msize": msize, "error_text_bytes": n, "largest_text_that_fits": budget, "dotu": dotu}
			switch {
			case err != nil || rp.Msg == nil:
				res.Violate("C03;long-error;no-reply", fmt.Sprintf("an answer with an error text of %d bytes (an Rerror of msize %d carries %d) got no reply", n, msize, budget), det)
			case rp.Msg.Type != wire.Rerror:
				res.Violate("C03;long-error;not-the-answer", fmt.Sprintf("the implementation answered with an error text of %d bytes (an Rerror of msize %d carries %d); the reply is %s", n, msize, budget, rp.Msg.String()), det)
			case !strings.HasPrefix(text, rp.Msg.Ename) || (len(rp.Msg.Ename) < n && len(rp.Msg.Ename) < budget-8):
				res.Violate("C03;long-error;text", fmt.Sprintf("error text of %d bytes arrived as %d bytes %q…", n, len(rp.Msg.Ename), head(rp.Msg.Ename)), det)
			case len(rp.Raw) > msize:
				res.Violate("C03;long-error;oversize", fmt.Sprintf("the Rerror is %d bytes long, msize is %d", len(rp.Raw), msize), det)
			}
			res.Sig(fmt.Sprintf("long-error|%v|%d|%d", dotu, msize, n-budget))
			if len(res.Violations) > 0 {
				break
			}
		}
		c.Hangup()
		if len(res.Violations) > 0 {
			break
		}
	}
	res.Sample(map[string]interface{}{"scenario": "error texts of budget-1, budget, budget+1, 3*msize bytes between ordinary answers", "dotu": dotu})
	return res
}

func head(s string) string {
	if len(s) > 24 {
		return s[:24]
	}
	return s
}

// c03VersionTagged: a Tversion is a request like any other as far as replies go: sent under an ordinary tag (clients
// are told they should use NOTAG, the message is well-formed either way) it gets exactly one Rversion carrying that
// tag — at the start of a connection, and later with other requests outstanding (which the renegotiation cancels:
// they get no reply, and no reply of theirs may come afterwards).
func c03VersionTagged(ctx *core.Ctx, dotu bool) core.Result {
	var res core.Result
	ver := "9P2000"
	if dotu {
		ver = "9P2000.u"
	}
	for round, vtag := range []uint16{5, 0, 0xFFFE, wire.NOTAG, 77} {
		ctx.Beat()
		s := NewSess(Config{Dotu: dotu, Msize: 8192, Maxpend: []int{0, 4}[round%2]})
		c := s.Dial()
		det := map[string]interface{}{"tag": vtag, "dotu": dotu}
		// at the start of the connection
		_ = c.Send(&wire.Msg{Type: wire.Tversion, Tag: vtag, Msize: 8192, Version: ver})
		res.Evals++
		rp, err := c.WaitTag(vtag, W)
		if err != nil || rp.Msg == nil || rp.Msg.Type != wire.Rversion {
			res.Violate("C03;tversion-tagged;no-reply;first", fmt.Sprintf("a Tversion sent under tag %d as the first message of a connection got %v", vtag, rp), det)
			c.Hangup()
			continue
		}
		// later, with two requests held in the implementation
		if a, err := c.Rpc(&wire.Msg{Type: wire.Tattach, Tag: 1, Fid: 1, Afid: wire.NOFID, Uname: "root", Nuname: 0}, W); err != nil || a.Msg == nil || a.Msg.Type != wire.Rattach {
			res.Inconclusive = "c03 version: attach failed"
			c.Hangup()
			return res
		}
		var gates []chan struct{}
		for i := 0; i < 2; i++ {
			p := script.NewPlan()
			p.Gate, p.Entered = make(chan struct{}), make(chan struct{})
			gates = append(gates, p.Gate)
			s.Ops.SetPlan(c.ID, uint16(200+i), p)
			_ = c.Send(&wire.Msg{Type: wire.Tstat, Tag: uint16(200 + i), Fid: 1})
			select {
			case <-p.Entered:
			case <-time.After(W):
				res.Inconclusive = "c03 version: held request never started"
				c.Hangup()
				return res
			}
		}
		_ = c.Send(&wire.Msg{Type: wire.Tversion, Tag: vtag, Msize: 4096, Version: ver})
		res.Evals++
		rp, err = c.WaitTag(vtag, W)
		if err != nil || rp.Msg == nil || rp.Msg.Type != wire.Rversion {
			res.Violate("C03;tversion-tagged;no-reply;mid-session", fmt.Sprintf("a Tversion sent under tag %d with two requests outstanding got %v", vtag, rp), det)
		}
		for _, g := range gates {
			close(g)
		}
		c.Quiesce(W)
		time.Sleep(2 * time.Millisecond)
		for _, extra := range c.Pending() {
			if extra.Msg != nil {
				res.Violate("C03;tversion-tagged;surplus-reply", fmt.Sprintf("after the Tversion under tag %d: surplus reply %s", vtag, extra.Msg.String()), det)
				break
			}
		}
		res.Sig(fmt.Sprintf("tversion-tagged|%v|%d", dotu, vtag))
		c.Hangup()
	}
	res.Sample(map[string]interface{}{"scenario": "Tversion under tags 5, 0, 0xFFFE, NOTAG, 77: first message and mid-session", "dotu": dotu})
	return res
}

// c03LargestRequests: requests whose strings pad them to exactly the negotiated msize (the largest message the
// protocol allows), and to one and two bytes less, sent while reads are held in the implementation: each gets
// exactly one reply carrying its tag, and so does everything that was outstanding.
func c03LargestRequests(ctx *core.Ctx, dotu bool) core.Result {
	var res core.Result
	ver := "9P2000"
	if dotu {
		ver = "9P2000.u"
	}
	for _, ask := range []uint32{256, 1024, 8192} {
		ctx.Beat()
		s := NewSess(Config{Dotu: dotu, Msize: 8192})
		c := s.Dial()
		rv, err := c.Version(ask, ver, W)
		if err != nil || rv.Msg == nil || rv.Msg.Type != wire.Rversion {
			res.Inconclusive = "c03 largest: version failed"
			c.Hangup()
			return res
		}
		msize := int(rv.Msg.Msize)
		tag := uint16(0)
		rpc := func(m *wire.Msg) *wire.Msg {
			tag++
			m.Tag = tag
			r, err := c.Rpc(m, W)
			if err != nil || r.Msg == nil {
				return nil
			}
			return r.Msg
		}
		if a := rpc(&wire.Msg{Type: wire.Tattach, Fid: 1, Afid: wire.NOFID, Uname: "root", Nuname: 0}); a == nil || a.Type != wire.Rattach {
			res.Inconclusive = "c03 largest: attach failed"
			c.Hangup()
			return res
		}
		rpc(&wire.Msg{Type: wire.Twalk, Fid: 1, Newfid: 2, Wname: []string{"f"}})
		rpc(&wire.Msg{Type: wire.Topen, Fid: 2, Mode: 2})
		// pad builds the request with a string of n bytes and returns it together with its encoded length
		kinds := []func(n int) *wire.Msg{
			func(n int) *wire.Msg {
				return &wire.Msg{Type: wire.Twalk, Fid: 1, Newfid: 30, Wname: []string{strings.Repeat("w", n)}}
			},
			func(n int) *wire.Msg {
				return &wire.Msg{Type: wire.Tattach, Fid: 31, Afid: wire.NOFID, Uname: "root", Nuname: 0, Aname: strings.Repeat("a", n)}
			},
			func(n int) *wire.Msg {
				return &wire.Msg{Type: wire.Twstat, Fid: 1, Stat: wire.Stat{Type: 0xFFFF, Dev: 0xFFFFFFFF, Mode: 0xFFFFFFFF, Atime: 0xFFFFFFFF, Mtime: 0xFFFFFFFF,
					Length: 0xFFFFFFFFFFFFFFFF, Name: strings.Repeat("n", n), Nuid: wire.NOUID, Ngid: wire.NOUID, Nmuid: wire.NOUID}}
			},
			func(n int) *wire.Msg {
				return &wire.Msg{Type: wire.Tcreate, Fid: 1, Name: strings.Repeat("c", n), Perm: 0o644, Mode: 1}
			},
		}
		for ki, mk := range kinds {
			base := len(wire.Encode(mk(0), dotu))
			for _, short := range []int{0, 1, 2} {
				n := msize - short - base
				if n < 0 || len(res.Violations) > 0 {
					continue
				}
				// three reads held in the implementation while the large request arrives
				var held []*script.Plan
				var heldTags []uint16
				for i := 0; i < 3; i++ {
					tag++
					p := script.NewPlan()
					p.Gate, p.Entered = make(chan struct{}), make(chan struct{})
					s.Ops.SetPlan(c.ID, tag, p)
					held = append(held, p)
					heldTags = append(heldTags, tag)
					_ = c.Send(&wire.Msg{Type: wire.Tread, Tag: tag, Fid: 2, Offset: uint64(i), Count: 8})
				}
				for _, p := range held {
					select {
					case <-p.Entered:
					case <-time.After(W):
						res.Inconclusive = "c03 largest: a held read never started"
						c.Hangup()
						return res
					}
				}
				m := mk(n)
				tag++
				m.Tag = tag
				raw := wire.Encode(m, dotu)
				if len(raw) != msize-short {
					res.Inconclusive = fmt.Sprintf("c03 largest: built %d bytes, wanted %d", len(raw), msize-short)
					c.Hangup()
					return res
				}
				det := map[string]interface{}{"msize": msize, "request": wire.TypeName(m.Type), "bytes": len(raw), "dotu": dotu}
				_ = c.SendRaw(raw)
				res.Evals++
				rp, err := c.WaitTag(m.Tag, W)
				for _, p := range held {
					close(p.Gate)
				}
				if err != nil || rp == nil || rp.Msg == nil {
					res.Violate(fmt.Sprintf("C03;largest-request;no-reply;short=%d", short), fmt.Sprintf("a %s of %d bytes on a connection with msize %d got no reply", wire.TypeName(m.Type), len(raw), msize), det)
					break
				}
				for _, ht := range heldTags {
					if hr, err := c.WaitTag(ht, W); err != nil || hr.Msg == nil || hr.Msg.Type != wire.Rread {
						res.Violate(fmt.Sprintf("C03;largest-request;outstanding-lost;short=%d", short), fmt.Sprintf("a read outstanding while a %s of %d bytes (msize %d) arrived got no reply", wire.TypeName(m.Type), len(raw), msize), det)
						break
					}
				}
				c.Quiesce(W)
				if extra := c.Pending(); len(extra) > 0 {
					res.Violate("C03;largest-request;surplus-reply", fmt.Sprintf("%d surplus replies after a %s of %d bytes", len(extra), wire.TypeName(m.Type), len(raw)), det)
				}
				// leave no fid behind for the next round
				if rp.Msg.Type == wire.Rwalk {
					rpc(&wire.Msg{Type: wire.Tclunk, Fid: 30})
				}
				if rp.Msg.Type == wire.Rattach {
					rpc(&wire.Msg{Type: wire.Tclunk, Fid: 31})
				}
				if rp.Msg.Type == wire.Rcreate {
					rpc(&wire.Msg{Type: wire.Tclunk, Fid: 1})
					if a := rpc(&wire.Msg{Type: wire.Tattach, Fid: 1, Afid: wire.NOFID, Uname: "root", Nuname: 0}); a == nil || a.Type != wire.Rattach {
						res.Inconclusive = "c03 largest: re-attach failed"
						c.Hangup()
						return res
					}
				}
				res.Sig(fmt.Sprintf("largest|%v|%d|%d|short=%d", dotu, msize, ki, short))
			}
		}
		c.Hangup()
	}
	res.Sample(map[string]interface{}{"scenario": "Twalk/Tattach/Twstat/Tcreate padded to msize, msize-1, msize-2 with three reads held", "dotu": dotu})
	return res
}

// c03SecondFullAnswer: the connection's writer is parked on an earlier reply, so the answers of the following requests
// wait in its queue (Maxpend > 0); the implementation answers one of them twice, each time in full (RespondRxxx packs
// the message again before the framework finds out that the request was answered already). Exactly one reply with the
// request's tag and the produced content may reach the wire.
func c03SecondFullAnswer(ctx *core.Ctx, dotu bool) core.Result {
	var res core.Result
	s := NewSess(Config{Dotu: dotu, Msize: 8192, Maxpend: 8})
	c := s.Dial()
	defer func() {
		s.Ctl.ReleaseAll()
		c.Hangup()
	}()
	ver := "9P2000"
	if dotu {
		ver = "9P2000.u"
	}
	if r, err := c.Version(8192, ver, W); err != nil || r.Msg == nil {
		res.Inconclusive = "c03: version failed"
		return res
	}
	tag := uint16(0)
	rpc := func(m *wire.Msg) *wire.Msg {
		tag++
		m.Tag = tag
		r, err := c.Rpc(m, W)
		if err != nil || r.Msg == nil {
			return nil
		}
		return r.Msg
	}
	if a := rpc(&wire.Msg{Type: wire.Tattach, Fid: 1, Afid: wire.NOFID, Uname: "root", Nuname: 0}); a == nil || a.Type != wire.Rattach {
		res.Inconclusive = "c03: attach failed"
		return res
	}
	if w := rpc(&wire.Msg{Type: wire.Twalk, Fid: 1, Newfid: 2, Wname: []string{"f"}}); w == nil || w.Type != wire.Rwalk {
		res.Inconclusive = "c03: walk failed"
		return res
	}
	rpc(&wire.Msg{Type: wire.Topen, Fid: 2, Mode: 2})
	kinds := []string{"stat", "read", "error", "walk", "write", "attach"}
	for round := 0; round < 18 && len(res.Violations) < 3; round++ {
		ctx.Beat()
		kind := kinds[round%len(kinds)]
		// the reply that keeps the writer busy
		tag++
		first := &wire.Msg{Type: wire.Tstat, Fid: 1, Tag: tag}
		hold := s.Ctl.HoldAt("send.dequeued", c.ID, int(first.Tag), sched.AnyTag, 20*time.Second)
		s.Ops.SetPlan(c.ID, first.Tag, script.NewPlan())
		_ = c.Send(first)
		if !hold.WaitReached(W) {
			res.Inconclusive = "c03: the writer never took the first reply"
			hold.Release()
			return res
		}
		tag++
		var m *wire.Msg
		plan := script.NewPlan()
		plan.TwiceFull = true
		switch kind {
		case "stat":
			m = &wire.Msg{Type: wire.Tstat, Fid: 2}
		case "read":
			m = &wire.Msg{Type: wire.Tread, Fid: 2, Offset: uint64(round), Count: uint32(50 + round)}
		case "error":
			m = &wire.Msg{Type: wire.Tstat, Fid: 2}
			plan.Err, plan.Errnum = fmt.Sprintf("planned error %d", round), 5
		case "walk":
			m = &wire.Msg{Type: wire.Twalk, Fid: 1, Newfid: uint32(300 + round), Wname: []string{"d", "e"}}
		case "write":
			m = &wire.Msg{Type: wire.Twrite, Fid: 2, Offset: 3, Count: 6, Data: []byte("abcdef")}
		case "attach":
			m = &wire.Msg{Type: wire.Tattach, Fid: uint32(400 + round), Afid: wire.NOFID, Uname: "root", Nuname: 0, Aname: "again"}
		}
		m.Tag = tag
		s.Ops.SetPlan(c.ID, m.Tag, plan)
		seq0 := s.Log.Seq()
		_ = c.Send(m)
		// both answers have been given when the callback has returned
		exited := waitFor(W, func() bool {
			for _, ev := range s.Log.Snapshot(seq0) {
				if ev.Kind == "exit" && ev.Conn == c.ID && ev.Tag == m.Tag {
					return true
				}
			}
			return false
		})
		hold.Release()
		res.Evals++
		det := map[string]interface{}{"request": m.String(), "answered_twice_in_full": true, "first_answer_still_queued": exited, "dotu": dotu}
		c.WaitTag(first.Tag, W)
		var got []*Reply
		deadline := time.Now().Add(W)
		for {
			r, err := c.WaitTag(m.Tag, time.Until(deadline))
			if err != nil {
				break
			}
			got = append(got, r)
			deadline = time.Now().Add(30 * time.Millisecond)
		}
		c.Quiesce(W)
		var e script.Event
		for _, ev := range s.Log.Snapshot(seq0) {
			if ev.Kind == "op" && ev.Tag == m.Tag {
				e = ev
			}
		}
		switch {
		case len(got) == 0:
			res.Violate("C03;missing-reply;second-full-answer;"+kind, "a request answered twice in full while its first answer was queued got no reply carrying its tag", det)
		case len(got) > 1:
			res.Violate("C03;duplicate-reply;second-full-answer;"+kind, fmt.Sprintf("%d replies for a request answered twice in full", len(got)), det)
		default:
			ft := uint8(0)
			if m.Fid == 1 {
				ft = go9p.QTDIR
			}
			want := wire.Encode(expectedReply(m, plan, e, ft, dotu), dotu)
			if !bytes.Equal(want, got[0].Raw) {
				wm, _, _ := wire.Decode(want, dotu)
				det["want"] = fmt.Sprintf("%#v", wm.Stat)
				det["got"] = fmt.Sprintf("%#v", got[0].Msg.Stat)
				res.Violate("C03;wrong-content;second-full-answer;"+kind, "reply is not what the implementation produced: "+got[0].Msg.String(), det)
			}
		}
		for _, r := range c.Pending() {
			what := "undecodable frame"
			if r.Msg != nil {
				what = r.Msg.String()
			}
			res.Violate("C03;unsolicited-reply;second-full-answer;"+kind, "a frame for a tag with no outstanding request: "+what, det)
		}
		for {
			if _, err := c.Next(time.Millisecond); err != nil {
				break
			}
		}
		if exited {
			res.Count("full_second_answers_while_the_first_was_queued", 1)
			res.Sig(fmt.Sprintf("second-full|%s|%v", kind, dotu))
		}
	}
	return res
}

// c03FlushMeets: the worker of a Tflush is parked at each point of Srv.flush while the request it names is answered
// and passes each point of Respond; both requests must end up with exactly one reply each (the flushed one is
// answered here, it is not cancelled: its answer is already on its way), and nothing else may appear on the wire.
func c03FlushMeets(ctx *core.Ctx, dotu, flushop bool) core.Result {
	var res core.Result
	s := NewSess(Config{Dotu: dotu, Msize: 8192, Flush: flushop, TracePoints: true})
	c := s.Dial()
	defer func() {
		s.Ctl.ReleaseAll()
		c.Hangup()
	}()
	ver := "9P2000"
	if dotu {
		ver = "9P2000.u"
	}
	if r, err := c.Version(8192, ver, W); err != nil || r.Msg == nil {
		res.Inconclusive = "c03: version failed"
		return res
	}
	tag := uint16(0)
	rpc := func(m *wire.Msg) *wire.Msg {
		tag++
		m.Tag = tag
		r, err := c.Rpc(m, W)
		if err != nil || r.Msg == nil {
			return nil
		}
		return r.Msg
	}
	if a := rpc(&wire.Msg{Type: wire.Tattach, Fid: 1, Afid: wire.NOFID, Uname: "root", Nuname: 0}); a == nil || a.Type != wire.Rattach {
		res.Inconclusive = "c03: attach failed"
		return res
	}
	fpoints := []string{"process.start", "process.marked", "flush.enter", "flush.chained", "flush.decided"}
	tpoints := []string{"respond.enter", "respond.claimed", "respond.posted", "respond.queued", "respond.unlinked", "respond.exit", "process.done", "send.written"}
	for _, fp := range fpoints {
		for _, tp := range tpoints {
			if len(res.Violations) >= 3 {
				return res
			}
			ctx.Beat()
			tag++
			target := &wire.Msg{Type: wire.Tstat, Fid: 1, Tag: tag}
			plan := script.NewPlan()
			plan.Gate = make(chan struct{})
			plan.Entered = make(chan struct{})
			s.Ops.SetPlan(c.ID, target.Tag, plan)
			s.Ops.SetFlushMode(c.ID, target.Tag, "ignore")
			seq0 := s.Log.Seq()
			_ = c.Send(target)
			select {
			case <-plan.Entered:
			case <-time.After(W):
				res.Inconclusive = "c03: target never started"
				close(plan.Gate)
				return res
			}
			tag++
			flush := &wire.Msg{Type: wire.Tflush, Oldtag: target.Tag, Tag: tag}
			hF := s.Ctl.HoldAt(fp, c.ID, int(flush.Tag), sched.AnyTag, 20*time.Second)
			_ = c.Send(flush)
			parked := hF.WaitReached(2 * time.Second)
			close(plan.Gate)
			passed := parked && s.Ctl.WaitPassed(tp, c.ID, int(target.Tag), 1, 2*time.Second)
			hF.Release()
			res.Evals++
			det := map[string]interface{}{"flusher_parked_at": fp, "until_target_passed": tp, "flushop": flushop, "dotu": dotu}
			if parked && passed {
				res.Sig(fmt.Sprintf("flush-meets|%s|%s|%v|%v", fp, tp, flushop, dotu))
				res.Count("flush_orderings_arranged", 1)
			} else {
				res.Count("flush_orderings_infeasible", 1)
			}
			var e script.Event
			for _, ev := range s.Log.Snapshot(seq0) {
				if ev.Kind == "op" && ev.Tag == target.Tag {
					e = ev
				}
			}
			rt, err := c.WaitTag(target.Tag, W)
			if err != nil || rt.Msg == nil {
				res.Violate("C03;missing-reply;flush-meets;target;"+fp+";"+tp, "the request named by a Tflush was answered by the implementation before the flush took effect and its reply never arrived", det)
			} else if want := wire.Encode(expectedReply(target, plan, e, go9p.QTDIR, dotu), dotu); !bytes.Equal(want, rt.Raw) {
				res.Violate("C03;wrong-content;flush-meets;"+fp+";"+tp, "reply to a request that met a Tflush is not what the implementation produced: "+rt.Msg.String(), det)
			}
			rf, err := c.WaitTag(flush.Tag, W)
			if err != nil || rf.Msg == nil {
				res.Violate("C03;missing-reply;flush-meets;tflush;"+fp+";"+tp, fmt.Sprintf("Tflush (tag %d) got no reply", flush.Tag), det)
			} else if rf.Msg.Type != wire.Rflush {
				res.Violate("C03;wrong-type;flush-meets;"+fp+";"+tp, "Tflush answered with "+rf.Msg.String(), det)
			}
			c.Quiesce(W)
			for _, r := range c.Pending() {
				what := "undecodable frame"
				if r.Msg != nil {
					what = r.Msg.String()
				}
				res.Violate("C03;extra-reply;flush-meets;"+fp+";"+tp, "a frame nobody is waiting for: "+what, det)
			}
			for {
				if _, err := c.Next(time.Millisecond); err != nil {
					break
				}
			}
		}
	}
	// the other way round: the answer of the named request is parked inside Respond while the Tflush runs as far as it
	// can; until its Rflush has been sent the flushed tag is outstanding, afterwards it is not: the reply to the
	// request may not follow the Rflush
	for _, tp := range []string{"respond.enter", "respond.claimed", "respond.posted"} {
		for rep := 0; rep < 3 && len(res.Violations) < 3; rep++ {
			ctx.Beat()
			tag++
			target := &wire.Msg{Type: wire.Tstat, Fid: 1, Tag: tag}
			plan := script.NewPlan()
			s.Ops.SetPlan(c.ID, target.Tag, plan)
			s.Ops.SetFlushMode(c.ID, target.Tag, "ignore")
			hT := s.Ctl.HoldAt(tp, c.ID, int(target.Tag), sched.AnyTag, 20*time.Second)
			n0 := len(c.All())
			_ = c.Send(target)
			if !hT.WaitReached(2 * time.Second) {
				hT.Release()
				c.WaitTag(target.Tag, W)
				continue
			}
			tag++
			flush := &wire.Msg{Type: wire.Tflush, Oldtag: target.Tag, Tag: tag}
			_ = c.Send(flush)
			s.Ctl.WaitPassed("flush.decided", c.ID, int(flush.Tag), 1, 300*time.Millisecond)
			time.Sleep(time.Millisecond)
			hT.Release()
			res.Evals++
			_, e1 := c.WaitTag(target.Tag, W)
			_, e2 := c.WaitTag(flush.Tag, W)
			c.Quiesce(W)
			det := map[string]interface{}{"target_parked_at": tp, "flushop": flushop, "dotu": dotu}
			if e1 != nil || e2 != nil {
				res.Violate("C03;missing-reply;flush-meets;target-parked;"+tp, "a request whose answer was inside Respond when a Tflush of it arrived, or that Tflush, got no reply", det)
				continue
			}
			posT, posF := -1, -1
			for i, r := range c.All()[n0:] {
				if r.Msg == nil {
					continue
				}
				if r.Msg.Tag == target.Tag && posT < 0 {
					posT = i
				}
				if r.Msg.Tag == flush.Tag && posF < 0 {
					posF = i
				}
			}
			if posT > posF {
				res.Violate("C03;reply-for-tag-no-longer-outstanding;"+tp, fmt.Sprintf("the reply to tag %d was sent after the Rflush that ended that tag", target.Tag), det)
			}
			res.Sig(fmt.Sprintf("flush-meets-parked-target|%s|%v|%v", tp, flushop, dotu))
		}
	}
	res.Sample(map[string]interface{}{"scenario": "Tflush parked at a point of Srv.flush while the request it names is answered", "flusher_points": fpoints, "target_points": tpoints})
	return res
}

// c03LateAfterCancel: request A is cancelled by the implementation's FlushOp calling req.Flush() while A's worker
// is still inside the implementation; the writer is then parked so that the replies of a burst of newer requests are
// packed but unsent; A's worker answers late (RespondRread / RespondError on a request already answered). Every
// newer request must still get exactly the reply the implementation produced for it, and nothing else may appear.
func c03LateAfterCancel(ctx *core.Ctx, dotu bool) core.Result { return lateAfterCancel(ctx, "C03", dotu) }

func lateAfterCancel(ctx *core.Ctx, prop string, dotu bool) core.Result {
	var res core.Result
	s := NewSess(Config{Dotu: dotu, Msize: 8192, Flush: true})
	c := s.Dial()
	defer func() {
		s.Ctl.ReleaseAll()
		c.Hangup()
	}()
	ver := "9P2000"
	if dotu {
		ver = "9P2000.u"
	}
	if r, err := c.Version(8192, ver, W); err != nil || r.Msg == nil {
		res.Inconclusive = "c03: version failed"
		return res
	}
	tag := uint16(0)
	rpc := func(m *wire.Msg) *wire.Msg {
		tag++
		m.Tag = tag
		r, err := c.Rpc(m, W)
		if err != nil || r.Msg == nil {
			return nil
		}
		return r.Msg
	}
	if a := rpc(&wire.Msg{Type: wire.Tattach, Fid: 1, Afid: wire.NOFID, Uname: "root", Nuname: 0}); a == nil || a.Type != wire.Rattach {
		res.Inconclusive = "c03: attach failed"
		return res
	}
	rounds := 12
	if ctx.Tier == "thorough" {
		rounds = 60
	}
	for round := 0; round < rounds && len(res.Violations) < 3; round++ {
		ctx.Beat()
		f := uint32(100 + round)
		if w := rpc(&wire.Msg{Type: wire.Twalk, Fid: 1, Newfid: f, Wname: []string{fmt.Sprintf("f%d", round)}}); w == nil || w.Type != wire.Rwalk {
			res.Inconclusive = "c03: setup walk failed"
			return res
		}
		if o := rpc(&wire.Msg{Type: wire.Topen, Fid: f, Mode: 2}); o == nil || o.Type != wire.Ropen {
			res.Inconclusive = "c03: setup open failed"
			return res
		}
		// A: held in the implementation, cancelled through FlushOp
		tag++
		A := &wire.Msg{Type: wire.Tread, Fid: f, Offset: uint64(round) * 7, Count: uint32(200 + 100*(round%5)), Tag: tag}
		pa := script.NewPlan()
		pa.Gate = make(chan struct{})
		pa.Entered = make(chan struct{})
		if round%3 == 2 {
			pa.Err = "late error text that is long enough to overwrite a header and more"
			pa.Errnum = 5
		}
		s.Ops.SetPlan(c.ID, A.Tag, pa)
		s.Ops.SetFlushMode(c.ID, A.Tag, "cancel")
		seq0 := s.Log.Seq()
		_ = c.Send(A)
		select {
		case <-pa.Entered:
		case <-time.After(W):
			res.Inconclusive = "c03: request never reached the implementation"
			close(pa.Gate)
			return res
		}
		if fl := rpc(&wire.Msg{Type: wire.Tflush, Oldtag: A.Tag}); fl == nil || fl.Type != wire.Rflush {
			res.Inconclusive = "c03: Tflush not answered"
			close(pa.Gate)
			return res
		}
		// B…: a burst whose replies stay packed behind a parked writer
		nB := 4 + 6*(round%4)
		var bs []*wire.Msg
		plans := map[uint16]*script.Plan{}
		for i := 0; i < nB; i++ {
			tag++
			var m *wire.Msg
			if i%2 == 0 {
				m = &wire.Msg{Type: wire.Tread, Fid: f, Offset: uint64(1000*round + i), Count: uint32(30 + 11*i), Tag: tag}
			} else {
				m = &wire.Msg{Type: wire.Tstat, Fid: f, Tag: tag}
			}
			pl := script.NewPlan()
			plans[m.Tag] = pl
			s.Ops.SetPlan(c.ID, m.Tag, pl)
			bs = append(bs, m)
		}
		hold := s.Ctl.HoldAt("send.dequeued", c.ID, int(bs[0].Tag), sched.AnyTag, 20*time.Second)
		_ = c.Send(bs...)
		parked := hold.WaitReached(W)
		packed := 0
		for _, m := range bs[1:] {
			if s.Ctl.WaitPassed("respond.enter", c.ID, int(m.Tag), 1, W) {
				packed++
			}
		}
		close(pa.Gate) // the late answer
		exited := false
		for t0 := time.Now(); time.Since(t0) < W && !exited; {
			for _, ev := range s.Log.Snapshot(seq0) {
				if ev.Kind == "exit" && ev.Conn == c.ID && ev.Tag == A.Tag {
					exited = true
				}
			}
			if !exited {
				time.Sleep(200 * time.Microsecond)
			}
		}
		hold.Release()
		res.Evals++
		if !parked || !exited {
			res.Count("late_answer_not_arranged", 1)
		} else {
			res.Count("late_answers_with_packed_unsent_replies", 1)
			res.Count("replies_packed_during_late_answer", int64(packed))
			res.Sig(fmt.Sprintf("late-after-cancel|nB=%d|err=%v|%v", nB, pa.Err != "", dotu))
		}
		ops := map[uint16]script.Event{}
		det := map[string]interface{}{"round": round, "cancelled": A.String(), "burst": nB, "dotu": dotu}
		want := map[uint16]bool{}
		for _, m := range bs {
			want[m.Tag] = true
			r, err := c.WaitTag(m.Tag, W)
			if err != nil || r.Msg == nil {
				res.Violate(prop+";missing-reply;late-after-cancel", fmt.Sprintf("no reply for %s sent after an implementation-cancelled request", m.String()), det)
				continue
			}
			if len(ops) == 0 {
				for _, ev := range s.Log.Snapshot(seq0) {
					if ev.Kind == "op" && ev.Conn == c.ID {
						ops[ev.Tag] = ev
					}
				}
			}
			exp := wire.Encode(expectedReply(m, plans[m.Tag], ops[m.Tag], 0, dotu), dotu)
			if !bytes.Equal(exp, r.Raw) {
				res.Violate(prop+";wrong-content;late-after-cancel", fmt.Sprintf("reply to %s is not what the implementation produced for it: %s", m.String(), r.Msg.String()), det)
			}
		}
		c.Quiesce(W)
		for _, r := range c.Pending() {
			if r.Msg == nil {
				res.Violate(prop+";undecodable;late-after-cancel", "undecodable frame after a late answer to a cancelled request", det)
			} else {
				res.Violate(prop+";unsolicited-reply;late-after-cancel", "reply for a tag with no outstanding request: "+r.Msg.String(), det)
			}
		}
		// drain whatever was reported so that the next round starts clean
		for {
			if _, err := c.Next(time.Millisecond); err != nil {
				break
			}
		}
		if round == 1 {
			res.Sample(det)
		}
	}
	return res
}

// c03Overlap: while the implementation's answer to a request is parked inside Respond, a second goroutine of the
// implementation answers the same request again; exactly one reply may reach the wire, with the right content.
func c03Overlap(ctx *core.Ctx, point string, dotu bool) core.Result {
	var res core.Result
	s := NewSess(Config{Dotu: dotu, Msize: 8192})
	c := s.Dial()
	defer c.Hangup()
	ver := "9P2000"
	if dotu {
		ver = "9P2000.u"
	}
	if r, err := c.Version(8192, ver, W); err != nil || r.Msg == nil {
		res.Inconclusive = "c03: version failed"
		return res
	}
	tag := uint16(0)
	rpc := func(m *wire.Msg) *wire.Msg {
		tag++
		m.Tag = tag
		r, err := c.Rpc(m, W)
		if err != nil || r.Msg == nil {
			return nil
		}
		return r.Msg
	}
	if a := rpc(&wire.Msg{Type: wire.Tattach, Fid: 1, Afid: wire.NOFID, Uname: "root", Nuname: 0}); a == nil || a.Type != wire.Rattach {
		res.Inconclusive = "c03: attach failed"
		return res
	}
	for i := 0; i < 70; i++ {
		rpc(&wire.Msg{Type: wire.Tstat, Fid: 1})
	}
	kinds := []string{"stat", "read", "walk", "clunk", "open", "stat"}
	for i := 0; i < 24 && len(res.Violations) < 3; i++ {
		kind := kinds[i%len(kinds)]
		f := uint32(100 + 2*i)
		if w := rpc(&wire.Msg{Type: wire.Twalk, Fid: 1, Newfid: f, Wname: []string{fmt.Sprintf("d%d", i)}}); w == nil || w.Type != wire.Rwalk {
			res.Inconclusive = "c03: setup walk failed"
			return res
		}
		var m *wire.Msg
		switch kind {
		case "stat":
			m = &wire.Msg{Type: wire.Tstat, Fid: f}
		case "read":
			m = &wire.Msg{Type: wire.Tread, Fid: f, Offset: uint64(i), Count: 40}
		case "walk":
			m = &wire.Msg{Type: wire.Twalk, Fid: f, Newfid: f + 1, Wname: []string{"d1"}}
		case "clunk":
			m = &wire.Msg{Type: wire.Tclunk, Fid: f}
		case "open":
			m = &wire.Msg{Type: wire.Topen, Fid: f, Mode: 0}
		}
		tag++
		m.Tag = tag
		plan := script.NewPlan()
		s.Ops.SetPlan(c.ID, m.Tag, plan)
		hold := s.Ctl.HoldAt(point, c.ID, int(m.Tag), -1, 2*time.Second)
		seq0 := s.Log.Seq()
		_ = c.Send(m)
		res.Evals++
		if !hold.WaitReached(W) {
			res.Inconclusive = "c03: the answer never reached " + point
			hold.Release()
			return res
		}
		// the overlapping second answer; it must not block and must not produce anything
		req := s.Ops.Request(c.ID, m.Tag)
		second := make(chan struct{})
		go func() {
			if req != nil {
				req.Respond()
			}
			close(second)
		}()
		select {
		case <-second:
		case <-time.After(300 * time.Millisecond):
			// still inside: it may legitimately wait for the first responder; let that one go on
		}
		hold.Release()
		<-second
		var got []*Reply
		deadline := time.Now().Add(W)
		for {
			r, err := c.WaitTag(m.Tag, time.Until(deadline))
			if err != nil {
				break
			}
			got = append(got, r)
			deadline = time.Now().Add(30 * time.Millisecond) // a duplicate, if any, follows at once
		}
		c.Quiesce(W)
		det := map[string]interface{}{"request": m.String(), "first_responder_parked_at": point, "dotu": dotu}
		var e script.Event
		for _, ev := range s.Log.Snapshot(seq0) {
			if ev.Kind == "op" && ev.Tag == m.Tag {
				e = ev
			}
		}
		switch {
		case len(got) == 0:
			res.Violate("C03;missing-reply;overlap;"+point, "no reply for a request that was answered twice by overlapping calls", det)
		case len(got) > 1:
			res.Violate("C03;duplicate-reply;overlap;"+point, fmt.Sprintf("%d replies for one request answered twice by overlapping calls", len(got)), det)
		default:
			ft := uint8(go9p.QTDIR)
			want := wire.Encode(expectedReply(m, plan, e, ft, dotu), dotu)
			if !bytes.Equal(want, got[0].Raw) {
				res.Violate("C03;wrong-content;overlap;"+point, "reply is not what the implementation produced: "+got[0].Msg.String(), det)
			}
		}
		// the connection still works and the fid bookkeeping was done once (a clunked fid is gone, others answer)
		st := rpc(&wire.Msg{Type: wire.Tstat, Fid: f})
		if kind == "clunk" {
			if st == nil || st.Type != wire.Rerror {
				res.Violate("C03;overlap;bookkeeping", "a fid clunked by a doubly answered Tclunk still answers", det)
			}
		} else if st == nil || st.Type != wire.Rstat {
			res.Violate("C03;overlap;bookkeeping", fmt.Sprintf("after a doubly answered %s the fid answers %v", kind, st), det)
		}
		res.Sig(fmt.Sprintf("overlap|%s|%s|%v", point, kind, dotu))
		if i == 2 {
			res.Sample(det)
		}
	}
	return res
}

type c03req struct {
	kind  string
	m     *wire.Msg
	plan  *script.Plan
	gate  chan struct{}
	twice bool
	user  int
}

func stat2wire(d *go9p.Dir, dotu bool) wire.Stat {
	s := wire.Stat{Type: d.Type, Dev: d.Dev, Qid: wire.Qid{Type: d.Qid.Type, Version: d.Qid.Version, Path: d.Qid.Path}, Mode: d.Mode,
		Atime: d.Atime, Mtime: d.Mtime, Length: d.Length, Name: d.Name, Uid: d.Uid, Gid: d.Gid, Muid: d.Muid}
	if dotu {
		s.Ext, s.Nuid, s.Ngid, s.Nmuid = d.Ext, d.Uidnum, d.Gidnum, d.Muidnum
	}
	return s
}

func q2w(q go9p.Qid) wire.Qid { return wire.Qid{Type: q.Type, Version: q.Version, Path: q.Path} }

// expectedReply recomputes what the scripted implementation produced for request m (seen as event e).
func expectedReply(m *wire.Msg, plan *script.Plan, e script.Event, fidType uint8, dotu bool) *wire.Msg {
	r := &wire.Msg{Tag: m.Tag}
	if plan.Err != "" {
		r.Type, r.Ename = wire.Rerror, plan.Err
		if dotu {
			r.Ecode = plan.Errnum
		}
		return r
	}
	r.Type = m.Type + 1
	switch m.Type {
	case wire.Tattach:
		typ := plan.QidType
		if typ == 0 && plan.Text != "fileroot" {
			typ = go9p.QTDIR
		}
		r.Qid = q2w(script.QidFor(e.Fid, typ))
	case wire.Twalk:
		qs, ok := script.WalkAnswer(m.Wname, plan)
		if !ok {
			r.Type, r.Ename = wire.Rerror, "file not found"
			if dotu {
				r.Ecode = go9p.ENOENT
			}
			return r
		}
		r.Wqid = []wire.Qid{}
		for _, q := range qs {
			r.Wqid = append(r.Wqid, q2w(q))
		}
	case wire.Topen:
		r.Qid = q2w(script.QidFor(e.Fid, fidType))
	case wire.Tcreate:
		typ := plan.QidType
		if m.Perm&go9p.DMDIR != 0 {
			typ |= go9p.QTDIR
		}
		r.Qid = q2w(script.QidFor(e.Fid+1000000, typ))
	case wire.Tread:
		n := int(m.Count)
		if plan.ReadN >= 0 && plan.ReadN < n {
			n = plan.ReadN
		}
		r.Data = script.Pattern(m.Tag, e.Fid, m.Offset, n)
		r.Count = uint32(n)
	case wire.Twrite:
		r.Count = uint32(len(m.Data))
	case wire.Tstat:
		r.Stat = stat2wire(script.StatDir(e.Fid, e.User, fidType, plan.Text), dotu)
	}
	return r
}

func c03Run(seed int64, n int, orders [][]int, v c03variant, dotu bool) core.Result {
	var res core.Result
	cfg := Config{Dotu: dotu, Msize: 8192, Maxpend: v.maxpend, TracePoints: false, ProcOps: v.procOps}
	if v.debug {
		cfg.Debug = go9p.DbgPrintFcalls | go9p.DbgPrintPackets | go9p.DbgLogFcalls | go9p.DbgLogPackets
		log.SetOutput(io.Discard)
		defer log.SetOutput(os.Stderr)
	}
	s := NewSess(cfg)
	c := s.Dial()
	r := core.NewRand(seed, fmt.Sprintf("c03run/%d/%s/%v", n, v.name, dotu))
	if v.delays {
		s.Ctl.Random(uint64(seed)*7919+uint64(n), 150, 300)
	}
	if v.slowWire {
		cnt := 0
		c.SrvE.MaxWrite = 5
		c.SrvE.BeforeWrite = func(int) {
			cnt++
			if cnt%3 == 0 {
				runtime.Gosched()
			}
			if cnt%17 == 0 {
				time.Sleep(20 * time.Microsecond)
			}
		}
	}
	fail := func(sig, what string, detail interface{}) {
		res.Violate("C03;"+sig, what, detail)
	}
	if rep, err := c.Version(4096, map[bool]string{true: "9P2000.u", false: "9P2000"}[dotu], W); err != nil || rep.Msg == nil || rep.Msg.Type != wire.Rversion {
		res.Inconclusive = fmt.Sprintf("version failed: %v", err)
		return res
	}
	tag := uint16(0)
	next := func() uint16 { tag++; return tag }
	rpc := func(m *wire.Msg) *wire.Msg {
		m.Tag = next()
		rep, err := c.Rpc(m, W)
		if err != nil || rep.Msg == nil {
			return nil
		}
		return rep.Msg
	}
	uid := uidFor(dotu, 1001)
	root := uint32(1)
	if a := rpc(&wire.Msg{Type: wire.Tattach, Fid: root, Afid: wire.NOFID, Uname: map[int]string{0: "root", 1001: "alice"}[uid], Nuname: uint32(uid), Aname: "c03"}); a == nil || a.Type != wire.Rattach {
		res.Inconclusive = "setup attach failed"
		return res
	}
	// warm the reply pool: more than its 64 slots, so later replies really are packed into recycled buffers
	for i := 0; i < 70; i++ {
		if rpc(&wire.Msg{Type: wire.Tstat, Fid: root}) == nil {
			res.Inconclusive = "warm-up failed"
			return res
		}
	}
	nextFid := uint32(100)
	kinds := []string{"read", "write", "stat", "walk", "open", "create", "clunk", "remove", "wstat", "attach", "readerr", "walkpartial"}

	for round, order := range orders {
		if len(res.Violations) > 5 {
			break
		}
		// ---- prepare the fids sequentially
		reqs := make([]*c03req, n)
		fidTypes := map[uint16]uint8{}
		okSetup := true
		for i := 0; i < n; i++ {
			kind := kinds[(i+round+r.Intn(3))%len(kinds)]
			f := nextFid
			nextFid += 2
			q := &c03req{kind: kind, plan: script.NewPlan()}
			needDir := kind == "walk" || kind == "create" || kind == "walkpartial"
			name := "f"
			if needDir {
				name = "d"
			}
			if kind != "attach" {
				w := rpc(&wire.Msg{Type: wire.Twalk, Fid: root, Newfid: f, Wname: []string{fmt.Sprintf("%s%d", name, i)}})
				if w == nil || w.Type != wire.Rwalk {
					okSetup = false
					break
				}
				if kind == "read" || kind == "write" || kind == "readerr" {
					if o := rpc(&wire.Msg{Type: wire.Topen, Fid: f, Mode: 2}); o == nil || o.Type != wire.Ropen {
						okSetup = false
						break
					}
				}
			}
			ft := uint8(0)
			if needDir {
				ft = go9p.QTDIR
			}
			switch kind {
			case "read":
				q.m = &wire.Msg{Type: wire.Tread, Fid: f, Offset: uint64(r.Intn(100000)), Count: uint32(r.Intn(3000))}
			case "readerr":
				q.m = &wire.Msg{Type: wire.Tread, Fid: f, Offset: 1, Count: 10}
				q.plan.Err, q.plan.Errnum = fmt.Sprintf("read error for request %d of round %d", i, round), uint32(5+i)
			case "write":
				d := r.Bytes(r.Intn(2000))
				q.m = &wire.Msg{Type: wire.Twrite, Fid: f, Offset: uint64(r.Intn(100000)), Count: uint32(len(d)), Data: d}
			case "stat":
				q.m = &wire.Msg{Type: wire.Tstat, Fid: f}
			case "walk":
				q.m = &wire.Msg{Type: wire.Twalk, Fid: f, Newfid: f + 1, Wname: []string{fmt.Sprintf("d%d", round), fmt.Sprintf("f%d", i)}}
			case "walkpartial":
				q.m = &wire.Msg{Type: wire.Twalk, Fid: f, Newfid: f + 1, Wname: []string{"d1", "d2", "gone"}}
				q.plan.WalkN = 2
			case "open":
				q.m = &wire.Msg{Type: wire.Topen, Fid: f, Mode: uint8(r.Intn(3))}
			case "create":
				q.m = &wire.Msg{Type: wire.Tcreate, Fid: f, Name: fmt.Sprintf("new%d-%d", round, i), Perm: 0o644, Mode: 1}
			case "clunk":
				q.m = &wire.Msg{Type: wire.Tclunk, Fid: f}
			case "remove":
				q.m = &wire.Msg{Type: wire.Tremove, Fid: f}
			case "wstat":
				q.m = &wire.Msg{Type: wire.Twstat, Fid: f, Stat: wire.Stat{Name: fmt.Sprintf("w%d", i), Mode: 0o600, Nuid: wire.NOUID, Ngid: wire.NOUID, Nmuid: wire.NOUID}}
			case "attach":
				q.m = &wire.Msg{Type: wire.Tattach, Fid: f, Afid: wire.NOFID, Uname: map[int]string{0: "root", 1001: "alice"}[uid], Nuname: uint32(uid), Aname: fmt.Sprintf("r%d-%d", round, i)}
				ft = go9p.QTDIR
			}
			q.m.Tag = next()
			fidTypes[q.m.Tag] = ft
			if r.Intn(7) == 0 {
				q.plan.Twice = true
			}
			if v.gated {
				q.gate = make(chan struct{})
				q.plan.Gate = q.gate
				q.plan.Entered = make(chan struct{})
			}
			if v.async {
				q.plan.NoAnswer = true
			}
			s.Ops.SetPlan(c.ID, q.m.Tag, q.plan)
			reqs[i] = q
		}
		if !okSetup {
			res.Inconclusive = "fid setup failed"
			break
		}
		// ---- issue all N (some rounds in one transport segment), then finish them in the chosen order
		seq0 := s.Log.Seq()
		s.Ctl.ResetOrder()
		outstanding := map[uint16]*c03req{}
		var msgs []*wire.Msg
		for _, q := range reqs {
			outstanding[q.m.Tag] = q
			msgs = append(msgs, q.m)
		}
		if round%2 == 0 {
			_ = c.Send(msgs...)
		} else {
			for _, m := range msgs {
				_ = c.Send(m)
			}
		}
		if v.gated {
			stuck := false
			for _, q := range reqs {
				select {
				case <-q.plan.Entered:
				case <-time.After(W):
					stuck = true
				}
			}
			if stuck {
				fail(fmt.Sprintf("not-dispatched;n=%d;%s", n, v.name), "a request did not reach the implementation while the others were held (head-of-line blocking?)", nil)
				for _, q := range reqs {
					close(q.gate)
				}
				break
			}
			for _, i := range order {
				close(reqs[i].gate)
				// wait until the implementation has finished this one before releasing the next
				t := reqs[i].m.Tag
				waitFor(W, func() bool {
					for _, e := range s.Log.Snapshot(seq0) {
						if e.Kind == "exit" && e.Tag == t {
							return true
						}
					}
					return false
				})
			}
		}
		if v.async {
			// every callback has returned without an answer; the answers come now, in the chosen order, from here
			parked := waitFor(W, func() bool {
				n := 0
				for _, e := range s.Log.Snapshot(seq0) {
					if e.Kind == "exit" && e.Info == "noanswer" {
						n++
					}
				}
				return n >= len(reqs)
			})
			if !parked {
				fail(fmt.Sprintf("not-dispatched;n=%d;%s", n, v.name), "a request did not reach the implementation although no callback was blocking", nil)
				break
			}
			for _, i := range order {
				s.Ops.AnswerPending(c.ID, reqs[i].m.Tag)
			}
		}
		// ---- barrier: nothing pending, sentinel through the single FIFO writer
		got := map[uint16][]*Reply{}
		deadline := time.Now().Add(W)
		for len(got) < n && time.Now().Before(deadline) {
			rep, err := c.Next(time.Until(deadline))
			if err != nil {
				break
			}
			if rep.Msg == nil {
				fail("undecodable-reply;"+v.name, "the server sent a frame that does not decode: "+rep.Err.Error(), map[string]interface{}{"raw": fmt.Sprintf("%x", rep.Raw)})
				continue
			}
			got[rep.Msg.Tag] = append(got[rep.Msg.Tag], rep)
		}
		c.Quiesce(W)
		sent := &wire.Msg{Type: wire.Tstat, Fid: root, Tag: next()}
		_ = c.Send(sent)
		for {
			rep, err := c.Next(W)
			if err != nil {
				fail(fmt.Sprintf("sentinel-lost;n=%d;%s", n, v.name), "the sentinel request after the round was not answered", nil)
				break
			}
			if rep.Msg != nil && rep.Msg.Tag == sent.Tag {
				break
			}
			if rep.Msg != nil {
				got[rep.Msg.Tag] = append(got[rep.Msg.Tag], rep)
			}
		}
		// ---- judge
		res.Evals++
		evs := s.Log.Snapshot(seq0)
		opOf := map[uint16]script.Event{}
		for _, e := range evs {
			if e.Kind == "op" {
				if _, dup := opOf[e.Tag]; dup {
					fail("invoked-twice;"+e.Op, fmt.Sprintf("request tag %d reached the implementation twice", e.Tag), nil)
				}
				opOf[e.Tag] = e
			}
		}
		kindsig := ""
		for _, q := range reqs {
			kindsig += q.kind[:2]
		}
		det := func(q *c03req) map[string]interface{} {
			return map[string]interface{}{"n": n, "variant": v.name, "dotu": dotu, "order": fmt.Sprint(order), "kinds": kindsig, "request": q.m.String(), "round": round}
		}
		for t, reps := range got {
			q := outstanding[t]
			if q == nil {
				fail("reply-without-request;"+v.name, fmt.Sprintf("reply %s carries tag %d which has no outstanding request", reps[0].Msg.String(), t), map[string]interface{}{"n": n, "round": round})
				continue
			}
			if len(reps) > 1 {
				fail(fmt.Sprintf("duplicate-reply;%s;twice=%v", q.kind, q.plan.Twice), fmt.Sprintf("%d replies for tag %d (%s)", len(reps), t, q.kind), det(q))
			}
		}
		for _, q := range reqs {
			reps := got[q.m.Tag]
			if len(reps) == 0 {
				fail(fmt.Sprintf("missing-reply;%s;%s", q.kind, v.name), fmt.Sprintf("no reply for tag %d (%s) after the barrier", q.m.Tag, q.kind), det(q))
				continue
			}
			e, ok := opOf[q.m.Tag]
			if !ok {
				fail("not-forwarded;"+q.kind, "a legal request never reached the implementation", det(q))
				continue
			}
			want := wire.Encode(expectedReply(q.m, q.plan, e, fidTypes[q.m.Tag], dotu), dotu)
			if !bytes.Equal(want, reps[0].Raw) {
				fail(fmt.Sprintf("wrong-content;%s;%s", q.kind, v.name),
					fmt.Sprintf("reply to tag %d (%s) is not what the implementation produced: got %s", q.m.Tag, q.kind, reps[0].Msg.String()),
					map[string]interface{}{"ctx": det(q), "got_hex": hexn(reps[0].Raw), "want_hex": hexn(want)})
			}
			res.Count("replies_compared", 1)
		}
		class := "sorted"
		for i := range order {
			if order[i] != i {
				class = "mixed"
			}
		}
		rev := true
		for i := range order {
			if order[i] != len(order)-1-i {
				rev = false
			}
		}
		if rev && n > 1 {
			class = "reversed"
		}
		if n <= 5 {
			class = fmt.Sprint(order)
		}
		res.Sig(fmt.Sprintf("n=%d|%s|%s|dotu=%v|%s", n, class, v.name, dotu, kindsig))
		res.AddSet("interleavings", s.Ctl.InterleavingID())
		if round == 1 || (round == 0 && len(orders) == 1) {
			res.Sample(map[string]interface{}{"n": n, "variant": v.name, "dotu": dotu, "completion_order": order, "kinds": kindsig})
		}
	}
	res.Count("schedule_points_passed", int64(s.Ctl.Points()))
	c.Hangup()
	c.WaitClosed(W)
	return res
}

func hexn(b []byte) string {
	if len(b) > 300 {
		return fmt.Sprintf("%x…(+%d)", b[:300], len(b)-300)
	}
	return fmt.Sprintf("%x", b)
}

// c03HeldPayload: a request that carries data stays with the implementation while the connection goes on working —
// many times the server's receive buffer passes by, each request a whole segment of its own, so that the buffer runs
// out on message boundaries — and is answered at last: what the implementation then finds in its request is still the
// payload that was sent under that tag, and every filler got its own answer.
func c03HeldPayload(ctx *core.Ctx, prop string, dotu bool, msize uint32) core.Result {
	var res core.Result
	s := NewSess(Config{Dotu: dotu, Msize: msize})
	c := s.Dial()
	defer c.Hangup()
	ver := "9P2000"
	if dotu {
		ver = "9P2000.u"
	}
	if r, err := c.Version(msize, ver, W); err != nil || r.Msg == nil || r.Msg.Msize != msize {
		res.Inconclusive = "c03: version failed"
		return res
	}
	tag := uint16(0)
	rpc := func(m *wire.Msg) *wire.Msg {
		tag++
		m.Tag = tag
		r, err := c.Rpc(m, W)
		if err != nil || r.Msg == nil {
			return nil
		}
		return r.Msg
	}
	if a := rpc(&wire.Msg{Type: wire.Tattach, Fid: 1, Afid: wire.NOFID, Uname: "root", Nuname: 0}); a == nil || a.Type != wire.Rattach {
		res.Inconclusive = "c03: attach failed"
		return res
	}
	if w := rpc(&wire.Msg{Type: wire.Twalk, Fid: 1, Newfid: 2, Wname: []string{"f"}}); w == nil || w.Type != wire.Rwalk {
		res.Inconclusive = "c03: walk failed"
		return res
	}
	if o := rpc(&wire.Msg{Type: wire.Topen, Fid: 2, Mode: 2}); o == nil || o.Type != wire.Ropen {
		res.Inconclusive = "c03: open failed"
		return res
	}
	r := core.NewRand(ctx.Seed, fmt.Sprintf("c03held/%v/%d", dotu, msize))
	L := int(msize) - wire.IOHDRSZ
	for round := 0; round < 6 && len(res.Violations) == 0; round++ {
		ctx.Beat()
		seq0 := s.Log.Seq()
		nheld := 1 + round%3
		type held struct {
			m    *wire.Msg
			plan *script.Plan
		}
		var hs []held
		for i := 0; i < nheld; i++ {
			tag++
			data := r.Bytes(1 + r.Intn(L))
			for j := range data {
				data[j] = data[j]&0x1F | byte(0xA0+0x20*(i%3)) // recognisably a held payload
			}
			m := &wire.Msg{Type: wire.Twrite, Tag: tag, Fid: 2, Offset: uint64(round*100 + i), Count: uint32(len(data)), Data: data}
			p := script.NewPlan()
			p.Gate, p.Entered = make(chan struct{}), make(chan struct{})
			s.Ops.SetPlan(c.ID, m.Tag, p)
			_ = c.Send(m)
			select {
			case <-p.Entered:
			case <-time.After(W):
				res.Inconclusive = "c03: held write never started"
				return res
			}
			hs = append(hs, held{m, p})
		}
		// the fillers: more than nine receive buffers' worth (the buffer is 8 x msize), one request per segment
		sent := 0
		fill := 0
		for sent < 9*8*int(msize)/(1+round%2*3) {
			n := L - r.Intn(1+L/8)
			if round%3 == 2 {
				n = 1 + r.Intn(L)
			}
			data := r.Bytes(n)
			for j := range data {
				data[j] &= 0x1F // a filler's bytes
			}
			rp := rpc(&wire.Msg{Type: wire.Twrite, Fid: 2, Offset: uint64(fill), Count: uint32(n), Data: data})
			res.Evals++
			fill++
			if rp == nil || rp.Type != wire.Rwrite || rp.Count != uint32(n) {
				res.Violate(prop+";held-payload;filler-answer", fmt.Sprintf("filler write %d of %d bytes behind %d held writes was answered %v", fill, n, nheld, rp), nil)
				break
			}
			sent += n + 23
		}
		for i := len(hs) - 1; i >= 0; i-- {
			close(hs[i].plan.Gate)
		}
		for _, h := range hs {
			rp, err := c.WaitTag(h.m.Tag, W)
			if err != nil || rp.Msg == nil || rp.Msg.Type != wire.Rwrite || rp.Msg.Count != h.m.Count {
				res.Violate(prop+";held-payload;reply", fmt.Sprintf("a write held while %d bytes of other requests passed was answered %v", sent, rp), nil)
			}
		}
		c.Quiesce(W)
		late := map[uint16]string{}
		for _, e := range s.Log.Snapshot(seq0) {
			if e.Conn == c.ID && e.Kind == "latehash" {
				late[e.Tag] = e.Args
			}
		}
		for i, h := range hs {
			want := script.HashBytes(h.m.Data)
			if got, ok := late[h.m.Tag]; ok && got != want {
				res.Violate(prop+";held-payload;payload-changed", fmt.Sprintf("held write %d of %d (msize %d): when the implementation answered, after %d bytes of later requests, its request no longer carried the %d bytes sent under its tag (digest %s, sent %s)", i, nheld, msize, sent, len(h.m.Data), got, want), map[string]interface{}{"msize": msize, "dotu": dotu, "round": round})
			}
		}
		res.Sig(fmt.Sprintf("held-payload|%v|%d|%d|%d", dotu, msize, nheld, round%3))
	}
	res.Sample(map[string]interface{}{"scenario": "writes held while the receive buffer is used up many times", "msize": msize, "dotu": dotu})
	return res
}

// c03TagReusedWhileFinishing: the client has the reply and uses the tag again while the goroutine that answered is
// still between handing the reply to the writer and taking the request off the connection's table (parked there).
// The new request is a request like any other: executed and answered exactly once, with its own content.
func c03TagReusedWhileFinishing(ctx *core.Ctx, dotu bool) core.Result {
	var res core.Result
	s := NewSess(Config{Dotu: dotu, Msize: 8192, TracePoints: true})
	c := s.Dial()
	defer func() {
		s.Ctl.ReleaseAll()
		c.Hangup()
	}()
	ver := "9P2000"
	if dotu {
		ver = "9P2000.u"
	}
	if r, err := c.Version(8192, ver, W); err != nil || r.Msg == nil {
		res.Inconclusive = "c03: version failed"
		return res
	}
	if r, err := c.Rpc(&wire.Msg{Type: wire.Tattach, Tag: 1, Fid: 1, Afid: wire.NOFID, Uname: "root", Nuname: 0}, W); err != nil || r.Msg == nil || r.Msg.Type != wire.Rattach {
		res.Inconclusive = "c03: attach failed"
		return res
	}
	tag := uint16(10)
	for _, pt := range []string{"respond.queued", "respond.posted", "respond.claimed", "respond.enter"} {
		for rep := 0; rep < 3 && len(res.Violations) == 0; rep++ {
			ctx.Beat()
			tag++
			first := &wire.Msg{Type: wire.Tstat, Fid: 1, Tag: tag}
			h := s.Ctl.HoldAt(pt, c.ID, int(tag), sched.AnyTag, 20*time.Second)
			_ = c.Send(first)
			parked := h.WaitReached(2 * time.Second)
			// the reply is on the wire only from respond.queued on; at the earlier points the tag is still
			// outstanding for the client and it must not reuse it: there the second request simply waits its turn
			gotFirst := false
			if pt == "respond.queued" {
				if r1, err := c.WaitTag(tag, 2*time.Second); err == nil && r1.Msg != nil {
					gotFirst = true
				}
			}
			det := map[string]interface{}{"parked_at": pt, "dotu": dotu, "first_reply_seen_before_reuse": gotFirst}
			res.Evals++
			if !parked || (pt == "respond.queued" && !gotFirst) {
				res.Count("tag_reuse_orderings_infeasible", 1)
				h.Release()
				c.WaitTag(tag, W)
				c.Quiesce(W)
				continue
			}
			if pt != "respond.queued" {
				// not a legal client behaviour here: nothing to judge at this point
				h.Release()
				c.WaitTag(tag, W)
				c.Quiesce(W)
				continue
			}
			second := &wire.Msg{Type: wire.Twalk, Fid: 1, Newfid: uint32(100 + int(tag)), Tag: tag}
			seq0 := s.Log.Seq()
			_ = c.Send(second)
			s.Ctl.WaitPassed("recv.dispatch", c.ID, int(tag), 2, 2*time.Second)
			time.Sleep(300 * time.Microsecond)
			h.Release()
			r2, err := c.WaitTag(tag, W)
			if err != nil || r2.Msg == nil {
				res.Violate("C03;missing-reply;tag-reused-while-finishing", "a request whose tag had just been answered (the reply was on the wire, the server still finishing its bookkeeping) was never executed or answered", det)
				return res
			}
			if r2.Msg.Type != wire.Rwalk {
				res.Violate("C03;wrong-type;tag-reused-while-finishing", "the second request under the tag was answered with "+r2.Msg.String(), det)
			}
			c.Quiesce(W)
			n := 0
			for _, ev := range s.Log.Snapshot(seq0) {
				if ev.Kind == "op" && ev.Conn == c.ID && ev.Tag == tag {
					n++
				}
			}
			if n != 1 {
				res.Violate("C03;invocations;tag-reused-while-finishing", fmt.Sprintf("the second request under the tag was handed to the implementation %d times", n), det)
			}
			if extra, err := c.WaitTag(tag, 5*time.Millisecond); err == nil && extra != nil && extra.Msg != nil {
				res.Violate("C03;extra-reply;tag-reused-while-finishing", "a third frame under the tag: "+extra.Msg.String(), det)
			}
			c.Rpc(&wire.Msg{Type: wire.Tclunk, Tag: tag + 1000, Fid: second.Newfid}, W)
			res.Sig(fmt.Sprintf("tag-reused-while-finishing|%s|%v", pt, dotu))
			res.Count("tag_reuse_orderings_arranged", 1)
		}
	}
	return res
}

// c03Renegotiated: a connection that negotiates several times (small, then larger; larger, then small, then larger).
// After every Rversion the session uses the msize that was announced: bursts of pipelined reads of every size up to
// msize-24 (so that reply buffers of every earlier negotiation come round) are answered with exactly what the
// implementation produced.
func c03Renegotiated(ctx *core.Ctx, dotu bool) core.Result {
	var res core.Result
	ver := "9P2000"
	if dotu {
		ver = "9P2000.u"
	}
	for si, seq := range [][]uint32{{1024, 8192}, {256, 4096, 8192}, {8192, 300, 8192}, {512, 512, 8192}, {8192, 8192}} {
		s := NewSess(Config{Dotu: dotu, Msize: 8192})
		c := s.Dial()
		tag := uint16(0)
		for step, ask := range seq {
			ctx.Beat()
			rv, err := c.Version(ask, ver, W)
			if err != nil || rv.Msg == nil || rv.Msg.Type != wire.Rversion {
				res.Inconclusive = "c03: version failed"
				c.Hangup()
				return res
			}
			msize := rv.Msg.Msize
			L := int(msize) - wire.IOHDRSZ
			rpc := func(m *wire.Msg) *wire.Msg {
				tag++
				m.Tag = tag
				r, err := c.Rpc(m, W)
				if err != nil || r.Msg == nil {
					return nil
				}
				return r.Msg
			}
			root, f := uint32(10*step+1), uint32(10*step+2)
			if a := rpc(&wire.Msg{Type: wire.Tattach, Fid: root, Afid: wire.NOFID, Uname: "root", Nuname: 0}); a == nil || a.Type != wire.Rattach {
				res.Inconclusive = "c03: attach failed"
				c.Hangup()
				return res
			}
			rpc(&wire.Msg{Type: wire.Twalk, Fid: root, Newfid: f, Wname: []string{"f"}})
			rpc(&wire.Msg{Type: wire.Topen, Fid: f, Mode: 2})
			det := map[string]interface{}{"msizes_asked_in_turn": seq, "step": step, "announced_msize": msize, "dotu": dotu}
			for burst := 0; burst < 3 && len(res.Violations) == 0; burst++ {
				seq0 := s.Log.Seq()
				var ms []*wire.Msg
				for i, cnt := range []int{L, 1, L / 2, L, L - 1, L, 7, L} {
					if cnt < 1 {
						cnt = 1
					}
					tag++
					ms = append(ms, &wire.Msg{Type: wire.Tread, Tag: tag, Fid: f, Offset: uint64(1000*burst + i), Count: uint32(cnt)})
				}
				_ = c.Send(ms...)
				replies := map[uint16]*Reply{}
				for _, m := range ms {
					rp, err := c.WaitTag(m.Tag, W)
					if err != nil || rp.Msg == nil {
						res.Violate("C03;renegotiated;missing-reply", fmt.Sprintf("a read of %d bytes got no reply after the connection negotiated %v in turn", m.Count, seq[:step+1]), det)
						break
					}
					replies[m.Tag] = rp
				}
				c.Quiesce(W)
				var tok int64
				for _, ev := range s.Log.Snapshot(seq0) {
					if ev.Kind == "op" && ev.Conn == c.ID && ev.Op == "Read" {
						tok = ev.Fid
					}
				}
				for _, m := range ms {
					rp := replies[m.Tag]
					if rp == nil {
						continue
					}
					res.Evals++
					want := script.Pattern(m.Tag, tok, m.Offset, int(m.Count))
					if rp.Msg.Type != wire.Rread || !bytes.Equal(rp.Msg.Data, want) {
						res.Violate(fmt.Sprintf("C03;renegotiated;wrong-content;%s", map[bool]string{true: "full-size", false: "small"}[int(m.Count) == L]),
							fmt.Sprintf("Tread count %d (announced msize %d, after negotiating %v in turn) was answered %s, the implementation produced an Rread of %d bytes", m.Count, msize, seq[:step+1], rp.Msg.String(), len(want)), det)
						break
					}
				}
			}
			res.Sig(fmt.Sprintf("renegotiated|%v|%d|%d|%d", dotu, si, step, msize))
		}
		c.Hangup()
		if len(res.Violations) > 0 {
			break
		}
	}
	return res
}
