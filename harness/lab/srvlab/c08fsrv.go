package srvlab

// C08 on the bundled synthetic-tree server (Fsrv): the implementation here is the set of per-file operations
// (FStatOp, FReadOp, FWriteOp, FWstatOp, FOpenOp, FClunkOp, FRemoveOp) a user of Fsrv hangs on the nodes of the tree.
// One of them is held blocked; requests with other tags — on the same connection and on another one — that pass
// through or next to the node (walks, stats, directory reads, opens and reads of siblings) must be answered while it
// is held.

import (
	"fmt"
	"sync"
	"time"

	"github.com/rminnich/go9p"
	"verif/core"
	"verif/sched"
	"verif/script"
	"verif/wire"
)

// newOf makes a value of the type p points to (the node type of Fsrv is not exported; its methods are).
func newOf[T any](p *T) *T { return new(T) }

// fsrvGate holds at most one operation: the first call of <node>/<op> after arm() blocks until release().
type fsrvGate struct {
	mu      sync.Mutex
	want    string
	entered chan struct{}
	gate    chan struct{}
}

func (g *fsrvGate) arm(key string) {
	g.mu.Lock()
	g.want = key
	g.entered = make(chan struct{})
	g.gate = make(chan struct{})
	g.mu.Unlock()
}

func (g *fsrvGate) pass(key string) {
	g.mu.Lock()
	hit := g.want == key
	var e, w chan struct{}
	if hit {
		g.want = ""
		e, w = g.entered, g.gate
	}
	g.mu.Unlock()
	if hit {
		close(e)
		<-w
	}
}

type fsrvNodeOps struct {
	g    *fsrvGate
	node string
	mu   sync.Mutex
	data []byte
}

func (o *fsrvNodeOps) Stat(fid *go9p.FFid) error { o.g.pass(o.node + "/stat"); return nil }
func (o *fsrvNodeOps) Wstat(fid *go9p.FFid, d *go9p.Dir) error {
	o.g.pass(o.node + "/wstat")
	return nil
}
func (o *fsrvNodeOps) Open(fid *go9p.FFid, mode uint8) error { o.g.pass(o.node + "/open"); return nil }
func (o *fsrvNodeOps) Clunk(fid *go9p.FFid) error            { o.g.pass(o.node + "/clunk"); return nil }
func (o *fsrvNodeOps) Remove(fid *go9p.FFid) error           { o.g.pass(o.node + "/remove"); return nil }
func (o *fsrvNodeOps) Read(fid *go9p.FFid, buf []byte, offset uint64) (int, error) {
	o.g.pass(o.node + "/read")
	o.mu.Lock()
	defer o.mu.Unlock()
	if offset >= uint64(len(o.data)) {
		return 0, nil
	}
	return copy(buf, o.data[offset:]), nil
}
func (o *fsrvNodeOps) Write(fid *go9p.FFid, data []byte, offset uint64) (int, error) {
	o.g.pass(o.node + "/write")
	return len(data), nil
}

func newFsrvSess(g *fsrvGate) *Sess {
	s := &Sess{Cfg: Config{Dotu: true, Msize: 8192}, Log: &script.Log{}}
	var probe go9p.Fsrv
	user := script.Users{}.Uid2User(0)
	root := newOf(probe.Root)
	ops := func(n string) *fsrvNodeOps { return &fsrvNodeOps{g: g, node: n, data: []byte("contents of " + n)} }
	_ = root.Add(nil, "/", user, nil, go9p.DMDIR|0777, ops("root"))
	data := newOf(probe.Root)
	_ = data.Add(root, "data", user, nil, go9p.DMDIR|0777, ops("data"))
	for _, n := range []string{"a", "b", "c"} {
		f := newOf(probe.Root)
		_ = f.Add(data, n, user, nil, 0666, ops(n))
	}
	top := newOf(probe.Root)
	_ = top.Add(root, "top", user, nil, 0666, ops("top"))
	fs := go9p.NewsrvFileSrv(root)
	fs.Dotu = true
	fs.Msize = 8192
	fs.Id = "fsrv"
	fs.Upool = script.Users{}
	if !fs.Start(fs) {
		panic("srvlab: Fsrv.Start failed")
	}
	s.Srv = &fs.Srv
	s.Ctl = sched.New(s.Log, nil)
	sched.Install(s.Ctl)
	return s
}

func c08FsrvCases() []core.Case {
	return []core.Case{{ID: "fsrv-held-node-operation", Run: c08Fsrv}}
}

func c08Fsrv(ctx *core.Ctx) core.Result {
	var res core.Result
	type hold struct {
		key  string
		path []string // node the held request works on
		open int      // open mode needed before the held request (-1: none)
		msg  func(fid uint32) *wire.Msg
	}
	holds := []hold{
		{"root/stat", nil, -1, func(f uint32) *wire.Msg { return &wire.Msg{Type: wire.Tstat, Fid: f} }},
		{"data/stat", []string{"data"}, -1, func(f uint32) *wire.Msg { return &wire.Msg{Type: wire.Tstat, Fid: f} }},
		{"a/stat", []string{"data", "a"}, -1, func(f uint32) *wire.Msg { return &wire.Msg{Type: wire.Tstat, Fid: f} }},
		{"a/read", []string{"data", "a"}, 0, func(f uint32) *wire.Msg { return &wire.Msg{Type: wire.Tread, Fid: f, Count: 64} }},
		{"a/write", []string{"data", "a"}, 1, func(f uint32) *wire.Msg {
			return &wire.Msg{Type: wire.Twrite, Fid: f, Count: 3, Data: []byte("abc")}
		}},
		{"a/open", []string{"data", "a"}, -1, func(f uint32) *wire.Msg { return &wire.Msg{Type: wire.Topen, Fid: f, Mode: 0} }},
		{"data/open", []string{"data"}, -1, func(f uint32) *wire.Msg { return &wire.Msg{Type: wire.Topen, Fid: f, Mode: 0} }},
		{"a/clunk", []string{"data", "a"}, 0, func(f uint32) *wire.Msg { return &wire.Msg{Type: wire.Tclunk, Fid: f} }},
		{"a/wstat", []string{"data", "a"}, -1, func(f uint32) *wire.Msg {
			return &wire.Msg{Type: wire.Twstat, Fid: f, Stat: wire.Stat{Type: 0xFFFF, Dev: 0xFFFFFFFF, Mode: 0xFFFFFFFF, Atime: 0xFFFFFFFF,
				Mtime: 0xFFFFFFFF, Length: 0xFFFFFFFFFFFFFFFF, Nuid: wire.NOUID, Ngid: wire.NOUID, Nmuid: wire.NOUID}}
		}},
		{"top/stat", []string{"top"}, -1, func(f uint32) *wire.Msg { return &wire.Msg{Type: wire.Tstat, Fid: f} }},
	}
	for hi, h := range holds {
		if len(res.Violations) > 1 {
			break
		}
		ctx.Beat()
		g := &fsrvGate{}
		s := newFsrvSess(g)
		conns := []*CConn{s.Dial(), s.Dial()}
		tags := []uint16{0, 0}
		rpc := func(ci int, m *wire.Msg) *wire.Msg {
			tags[ci]++
			m.Tag = tags[ci]
			r, err := conns[ci].Rpc(m, W)
			if err != nil || r.Msg == nil {
				return nil
			}
			return r.Msg
		}
		okSetup := true
		for ci, c := range conns {
			if r, err := c.Version(8192, "9P2000.u", W); err != nil || r.Msg == nil || r.Msg.Type != wire.Rversion {
				okSetup = false
				break
			}
			if a := rpc(ci, &wire.Msg{Type: wire.Tattach, Fid: 0, Afid: wire.NOFID, Uname: "root", Nuname: 0}); a == nil || a.Type != wire.Rattach {
				okSetup = false
			}
		}
		if !okSetup {
			res.Inconclusive = "c08 fsrv: setup failed"
			return res
		}
		// the fid of the request to be held
		if w := rpc(0, &wire.Msg{Type: wire.Twalk, Fid: 0, Newfid: 50, Wname: h.path}); w == nil || w.Type != wire.Rwalk {
			res.Inconclusive = fmt.Sprintf("c08 fsrv: walk to %v failed: %v", h.path, w)
			return res
		}
		if h.open >= 0 {
			if o := rpc(0, &wire.Msg{Type: wire.Topen, Fid: 50, Mode: uint8(h.open)}); o == nil || o.Type != wire.Ropen {
				res.Inconclusive = fmt.Sprintf("c08 fsrv: open for %s failed: %v", h.key, o)
				return res
			}
		}
		g.arm(h.key)
		hm := h.msg(50)
		tags[0]++
		hm.Tag = tags[0]
		_ = conns[0].Send(hm)
		select {
		case <-g.entered:
		case <-time.After(W):
			res.Inconclusive = fmt.Sprintf("c08 fsrv: the request for %s never reached the node operation", h.key)
			return res
		}
		// probes: every one under its own tag, all outstanding at once, on both connections
		type probe struct {
			ci   int
			what string
			msg  *wire.Msg
		}
		var probes []probe
		for ci := range conns {
			base := uint32(100 + 20*ci)
			probes = append(probes,
				probe{ci, "walk to data", &wire.Msg{Type: wire.Twalk, Fid: 0, Newfid: base, Wname: []string{"data"}}},
				probe{ci, "walk to data/b", &wire.Msg{Type: wire.Twalk, Fid: 0, Newfid: base + 1, Wname: []string{"data", "b"}}},
				probe{ci, "walk to data/a", &wire.Msg{Type: wire.Twalk, Fid: 0, Newfid: base + 2, Wname: []string{"data", "a"}}},
				probe{ci, "walk to top", &wire.Msg{Type: wire.Twalk, Fid: 0, Newfid: base + 3, Wname: []string{"top"}}},
				probe{ci, "walk data/..", &wire.Msg{Type: wire.Twalk, Fid: 0, Newfid: base + 4, Wname: []string{"data", ".."}}},
				probe{ci, "clone of the root", &wire.Msg{Type: wire.Twalk, Fid: 0, Newfid: base + 5}},
				probe{ci, "walk to a missing name", &wire.Msg{Type: wire.Twalk, Fid: 0, Newfid: base + 6, Wname: []string{"data", "nope"}}},
			)
		}
		send := func(ps []probe) {
			for i := range ps {
				tags[ps[i].ci]++
				ps[i].msg.Tag = tags[ps[i].ci]
				_ = conns[ps[i].ci].Send(ps[i].msg)
			}
		}
		late := 0
		collect := func(ps []probe, stage string) bool {
			deadline := time.Now().Add(W)
			var lateIdx []int
			for i, p := range ps {
				rep, err := conns[p.ci].WaitTag(p.msg.Tag, time.Until(deadline))
				if err != nil || rep.Msg == nil {
					lateIdx = append(lateIdx, i)
				}
			}
			res.Evals += len(ps)
			res.Count("fsrv_probes_answered_while_held", int64(len(ps)-len(lateIdx)))
			if len(lateIdx) == 0 {
				return true
			}
			late += len(lateIdx)
			close(g.gate)
			for _, i := range lateIdx {
				p := ps[i]
				rep, err := conns[p.ci].WaitTag(p.msg.Tag, W)
				conn := "same-conn"
				if p.ci != 0 {
					conn = "other-conn"
				}
				if err == nil && rep.Msg != nil {
					res.Violate(fmt.Sprintf("C08;fsrv;head-of-line;%s;held=%s", conn, h.key),
						fmt.Sprintf("Fsrv: %s (%s, %s) was answered only after the node operation %s, blocked in the implementation, was released", p.what, stage, conn, h.key),
						map[string]interface{}{"held": h.key, "probe": p.msg.String()})
				} else {
					res.Inconclusive = "c08 fsrv: a probe was never answered (not this property's verdict)"
				}
			}
			return false
		}
		send(probes)
		if collect(probes, "walks") {
			// second stage on the fids just walked: stats, a directory read, open + read of a sibling
			var second []probe
			for ci := range conns {
				base := uint32(100 + 20*ci)
				second = append(second,
					probe{ci, "stat of data", &wire.Msg{Type: wire.Tstat, Fid: base}},
					probe{ci, "stat of data/b", &wire.Msg{Type: wire.Tstat, Fid: base + 1}},
					probe{ci, "stat of data/a", &wire.Msg{Type: wire.Tstat, Fid: base + 2}},
					probe{ci, "stat of top", &wire.Msg{Type: wire.Tstat, Fid: base + 3}},
					probe{ci, "stat of the root", &wire.Msg{Type: wire.Tstat, Fid: base + 5}},
				)
			}
			send(second)
			if collect(second, "stats") {
				var third []probe
				for ci := range conns {
					base := uint32(100 + 20*ci)
					third = append(third,
						probe{ci, "open of data", &wire.Msg{Type: wire.Topen, Fid: base, Mode: 0}},
						probe{ci, "open of data/b", &wire.Msg{Type: wire.Topen, Fid: base + 1, Mode: 0}},
						probe{ci, "open of the root", &wire.Msg{Type: wire.Topen, Fid: base + 5, Mode: 0}},
						probe{ci, "clunk of the fid on data/a", &wire.Msg{Type: wire.Tclunk, Fid: base + 2}},
					)
				}
				send(third)
				if collect(third, "opens") {
					var fourth []probe
					for ci := range conns {
						base := uint32(100 + 20*ci)
						fourth = append(fourth,
							probe{ci, "directory read of data", &wire.Msg{Type: wire.Tread, Fid: base, Offset: 0, Count: 4096}},
							probe{ci, "directory read of the root", &wire.Msg{Type: wire.Tread, Fid: base + 5, Offset: 0, Count: 4096}},
							probe{ci, "read of data/b", &wire.Msg{Type: wire.Tread, Fid: base + 1, Offset: 0, Count: 64}},
						)
					}
					send(fourth)
					if collect(fourth, "reads") {
						close(g.gate)
					}
				}
			}
		}
		if rep, err := conns[0].WaitTag(hm.Tag, W); err != nil || rep.Msg == nil {
			res.Inconclusive = "c08 fsrv: the released request was never answered"
		}
		res.Sig(fmt.Sprintf("fsrv|held=%s|late=%d", h.key, late))
		if hi == 0 {
			res.Sample(map[string]interface{}{"scenario": "Fsrv: node operation held, probes on two connections", "held": h.key, "late": late})
		}
		for _, c := range conns {
			c.Hangup()
		}
	}
	return res
}
