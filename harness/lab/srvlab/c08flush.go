package srvlab

import (
	"bytes"
	"fmt"
	"strings"
	"time"

	"verif/core"
	"verif/script"
	"verif/wire"
)

// sharedFlushPatterns: arrival orders of the members (R) of one shared-tag group and of Tflushes (F) naming that tag.
// The first member is held inside the implementation until everything has arrived and every flush is chained.
var sharedFlushPatterns = []string{
	"RF", "RFF", "RRF", "RFR", "RFRF", "RFFRF", "RFRFF", "RRFRF", "RFRFRF", "RFRRF", "RFFRFFRF", "RRRFRRF", "RFRFRFRF",
}

// sharedFlush: flushes meeting a shared-tag group (the per-tag queue hands waiting flushes on from member to member).
// Judged for prop (each engine reports only its own signatures):
//
//	C07  every Tflush gets exactly one Rflush; a member is answered before an Rflush that was sent after it, or not at all
//	C08  members start one at a time in arrival order and are answered in that order
//	C03  a member that no Tflush sent after it could have cancelled gets exactly one reply with its own content
func sharedFlush(ctx *core.Ctx, prop string, maxpend int, pattern string, mode string) core.Result {
	seed := ctx.Seed
	withFlushOp := mode != "none"
	var res core.Result
	s, e, _, ok := c08setup(Config{Dotu: true, Msize: 8192, Maxpend: maxpend, Flush: withFlushOp})
	if !ok {
		res.Inconclusive = "sharedflush: setup failed"
		return res
	}
	c := e.c
	defer c.Hangup()
	f := uint32(60)
	if !e.ok(&wire.Msg{Type: wire.Twalk, Fid: e.root, Newfid: f, Wname: []string{"f"}}) || !e.ok(&wire.Msg{Type: wire.Topen, Fid: f, Mode: 2}) {
		res.Inconclusive = "sharedflush: fid setup failed"
		return res
	}
	violate := func(sig, what string, det interface{}) {
		if strings.HasPrefix(sig, prop+";") {
			res.Violate(sig, what, det)
		}
	}
	for rep := 0; rep < 3 && len(res.Violations) == 0; rep++ {
		if rep > 0 {
			s.Ctl.Random(uint64(seed)+uint64(rep), 250, 150)
		}
		tag := e.next()
		seq0 := s.Log.Seq()
		if mode == "cancel" {
			s.Ops.SetFlushMode(c.ID, tag, "cancel")
		}
		det := map[string]interface{}{"pattern": pattern, "maxpend": maxpend, "flushop": mode, "tag": tag, "rep": rep}
		type item struct {
			m    *wire.Msg
			plan *script.Plan
		}
		var items []item
		var members, flushes []*wire.Msg
		for i, ch := range pattern {
			if ch == 'R' {
				m := &wire.Msg{Type: wire.Tread, Tag: tag, Fid: f, Offset: uint64(100000*rep + 1000 + i), Count: uint32(8 + i)}
				p := script.NewPlan()
				if len(members) == 0 {
					p.Gate = make(chan struct{})
					p.Entered = make(chan struct{})
				}
				s.Ops.SetPlan(c.ID, tag, p)
				members = append(members, m)
				items = append(items, item{m, p})
			} else {
				m := &wire.Msg{Type: wire.Tflush, Tag: e.next(), Oldtag: tag}
				flushes = append(flushes, m)
				items = append(items, item{m, nil})
			}
		}
		res.Evals++
		stuck := false
		for i, it := range items {
			_ = c.Send(it.m)
			if i == 0 {
				select {
				case <-it.plan.Entered:
				case <-time.After(W):
					res.Inconclusive = "sharedflush: first member never started"
					return res
				}
			}
			if it.m.Type == wire.Tflush {
				// the chain order is the arrival order
				if !s.Ctl.WaitPassed("flush.chained", c.ID, int(it.m.Tag), 1, 5*time.Second) { // (not a feasibility probe: generous)
					stuck = true
				}
			}
		}
		if stuck {
			res.Inconclusive = "sharedflush: a flush was never taken up by the server"
			return res
		}
		close(items[0].plan.Gate)
		// collect: one Rflush per Tflush (bounded wait each), then whatever arrived for the group tag
		rflushAt := map[uint16]int64{}
		for _, fm := range flushes {
			ctx.Beat()
			rp, err := c.WaitTag(fm.Tag, W)
			if err != nil || rp.Msg == nil {
				violate("C07;shared-tag-flush;rflush-missing", fmt.Sprintf("a Tflush naming a tag that carries a shared-tag group was never answered (pattern %s)", pattern), det)
				violate("C03;shared-tag-flush;tflush-unanswered", fmt.Sprintf("a Tflush (a request like any other) got no reply (pattern %s)", pattern), det)
				return res // the connection is not going to settle: stop here
			}
			if rp.Msg.Type != wire.Rflush {
				violate("C07;shared-tag-flush;rflush-wrong-type", fmt.Sprintf("Tflush answered by type %d", rp.Msg.Type), det)
			}
			rflushAt[fm.Tag] = rp.Seq
		}
		ctx.Beat()
		c.Quiesce(W)
		var got []*Reply
		for {
			rp, err := c.WaitTag(tag, 20*time.Millisecond)
			if err != nil || rp == nil || rp.Msg == nil {
				break
			}
			got = append(got, rp)
		}
		for _, fm := range flushes {
			if rp, err := c.WaitTag(fm.Tag, 5*time.Millisecond); err == nil && rp != nil && rp.Msg != nil {
				violate("C07;shared-tag-flush;rflush-duplicate", "a Tflush was answered twice", det)
			}
		}
		// implementation log of the group
		var ops, answers []script.Event
		for _, ev := range s.Log.Snapshot(seq0) {
			if ev.Conn == c.ID && ev.Tag == tag && ev.Kind == "op" {
				ops = append(ops, ev)
			}
			if ev.Conn == c.ID && ev.Tag == tag && ev.Kind == "answer" {
				answers = append(answers, ev)
			}
		}
		// which member does a reply belong to? (payload pattern identifies it)
		var tok int64
		if len(ops) > 0 {
			tok = ops[0].Fid
		}
		replyOf := map[int]*Reply{}
		for _, rp := range got {
			found := -1
			for i, m := range members {
				if rp.Msg.Type == wire.Rread && bytes.Equal(rp.Msg.Data, script.Pattern(tag, tok, m.Offset, int(m.Count))) {
					found = i
				}
			}
			if found < 0 {
				violate("C03;shared-tag-flush;reply-of-nobody", fmt.Sprintf("a reply on the group's tag is not the answer to any member (pattern %s)", pattern), det)
				continue
			}
			if replyOf[found] != nil {
				violate("C03;shared-tag-flush;second-reply", fmt.Sprintf("member %d was answered twice", found), det)
			}
			replyOf[found] = rp
		}
		// position of each member / flush in the arrival order
		pos := map[*wire.Msg]int{}
		for i, it := range items {
			pos[it.m] = i
		}
		lastOrder := int64(-1)
		for i, m := range members {
			rp := replyOf[i]
			laterFlush := false
			for _, fm := range flushes {
				if pos[fm] > pos[m] {
					laterFlush = true
					if at, ok := rflushAt[fm.Tag]; ok && rp != nil && rp.Seq > at {
						violate("C07;shared-tag-flush;reply-after-rflush", fmt.Sprintf("member %d was answered after the Rflush of a Tflush sent after it", i), det)
					}
				}
			}
			if rp == nil {
				if !laterFlush {
					violate("C03;shared-tag-flush;member-unanswered", fmt.Sprintf("member %d of a shared-tag group got no reply although no Tflush was sent after it (pattern %s)", i, pattern), det)
					violate("C08;shared-tag-flush;member-lost", fmt.Sprintf("member %d of a shared-tag group was never executed and answered (pattern %s)", i, pattern), det)
				}
				continue
			}
			if rp.Seq < lastOrder {
				violate("C08;shared-tag-flush;reply-order", fmt.Sprintf("member %d answered before an earlier member", i), det)
			}
			lastOrder = rp.Seq
		}
		// starts in arrival order, one at a time
		mi := 0
		for k, ev := range ops {
			for mi < len(members) && ev.Args != fmt.Sprintf("offset=%d count=%d", members[mi].Offset, members[mi].Count) {
				mi++ // cancelled members never start
			}
			if mi == len(members) {
				violate("C08;shared-tag-flush;start-order", fmt.Sprintf("start %d {%s} is out of arrival order or repeated", k, ev.Args), det)
				break
			}
			mi++
		}
		// one at a time: between two starts the earlier one has answered (a member the implementation itself
		// cancelled through its FlushOp is over for the server although the scripted callback is still parked)
		open := -1
		nstart := 0
		for _, ev := range s.Log.Snapshot(seq0) {
			if ev.Conn != c.ID || ev.Tag != tag {
				continue
			}
			switch ev.Kind {
			case "op":
				if open >= 0 && !(mode == "cancel" && open == 0) {
					violate("C08;shared-tag-flush;not-serial", fmt.Sprintf("start %d before start %d had answered", nstart, open), det)
				}
				open = nstart
				nstart++
			case "answer":
				open = -1
			}
		}
		// a member that was started is never "cancelled": every start has its reply unless a later flush took it
		res.Sig(fmt.Sprintf("sharedflush|%s|mp=%d|fo=%s|starts=%d|replies=%d", pattern, maxpend, mode, len(ops), len(got)))
		if rep == 0 {
			res.Sample(det)
		}
	}
	return res
}

func sharedFlushCases(prop, tier string) []core.Case {
	var cases []core.Case
	for _, mp := range []int{0, 4} {
		for _, fo := range []bool{false, true} {
			mp, fo := mp, fo
			cases = append(cases, core.Case{ID: fmt.Sprintf("self-flush/maxpend=%d/flushop=%v", mp, fo), Run: func(ctx *core.Ctx) core.Result { return selfFlush(ctx, prop, mp, fo) }})
		}
	}
	pats := append([]string{}, sharedFlushPatterns...)
	if tier == "thorough" {
		// every arrival order of up to 7 members and flushes that starts with a member and holds at least one flush
		// would be 2^6 per length: a fixed pseudo-random selection of 60 of lengths 3..10
		r := core.NewRand(7, "sharedflush-patterns")
		seen := map[string]bool{}
		for _, p := range pats {
			seen[p] = true
		}
		for len(pats) < len(sharedFlushPatterns)+60 {
			n := 3 + r.Intn(8)
			b := []byte{'R'}
			for len(b) < n {
				b = append(b, "RF"[r.Intn(2)])
			}
			p := string(b)
			if !seen[p] && strings.Contains(p, "F") {
				seen[p] = true
				pats = append(pats, p)
			}
		}
	}
	for _, pat := range pats {
		for _, mp := range []int{0, 4} {
			for _, fo := range []string{"none", "ignore", "cancel"} {
				if tier == "quick" && mp == 4 && fo == "ignore" {
					continue
				}
				pat, mp, fo := pat, mp, fo
				cases = append(cases, core.Case{ID: fmt.Sprintf("shared-tag-flush/%s/maxpend=%d/flushop=%s", pat, mp, fo), Run: func(ctx *core.Ctx) core.Result {
					return sharedFlush(ctx, prop, mp, pat, fo)
				}})
			}
		}
	}
	return cases
}

// c08TagAfterVersion: a tag still carried by a request of the previous session (aborted by a Tversion, but still
// executing) is used again in the new session by two requests: they run one at a time in arrival order, whenever the
// old request gets round to finishing.
func c08TagAfterVersion(ctx *core.Ctx, maxpend int, releaseOldFirst bool) core.Result {
	var res core.Result
	s, e, _, ok := c08setup(Config{Dotu: true, Msize: 8192, Maxpend: maxpend})
	if !ok {
		res.Inconclusive = "c08: setup failed"
		return res
	}
	c := e.c
	defer c.Hangup()
	f := uint32(60)
	if !e.ok(&wire.Msg{Type: wire.Twalk, Fid: e.root, Newfid: f, Wname: []string{"f"}}) || !e.ok(&wire.Msg{Type: wire.Topen, Fid: f, Mode: 2}) {
		res.Inconclusive = "c08: fid setup failed"
		return res
	}
	for rep := 0; rep < 4 && len(res.Violations) == 0; rep++ {
		ctx.Beat()
		tag := e.next()
		seq0 := s.Log.Seq()
		det := map[string]interface{}{"maxpend": maxpend, "old_released_first": releaseOldFirst, "rep": rep, "tag": tag}
		mk := func(i int) (*wire.Msg, *script.Plan) {
			m := &wire.Msg{Type: wire.Tread, Tag: tag, Fid: f, Offset: uint64(1000*rep + i), Count: uint32(8 + i)}
			p := script.NewPlan()
			p.Gate, p.Entered = make(chan struct{}), make(chan struct{})
			s.Ops.SetPlan(c.ID, tag, p)
			return m, p
		}
		a, pa := mk(0)
		_ = c.Send(a)
		select {
		case <-pa.Entered:
		case <-time.After(W):
			res.Inconclusive = "c08: request of the old session never started"
			return res
		}
		if r, err := c.Version(8192, "9P2000.u", W); err != nil || r.Msg == nil || r.Msg.Type != wire.Rversion {
			res.Inconclusive = "c08: second Tversion not answered"
			close(pa.Gate)
			return res
		}
		res.Evals++
		b, pb := mk(1)
		cm, pc := mk(2)
		close(pc.Gate) // the third is never held by the harness
		_ = c.Send(b)
		if releaseOldFirst {
			close(pa.Gate)
		}
		entered := func(p *script.Plan, d time.Duration) bool {
			select {
			case <-p.Entered:
				return true
			case <-time.After(d):
				return false
			}
		}
		bStarted := entered(pb, 300*time.Millisecond)
		if !bStarted && !releaseOldFirst {
			// queued behind the old request: it starts once that one is through
			close(pa.Gate)
			bStarted = entered(pb, W)
		} else if !releaseOldFirst {
			close(pa.Gate)
			time.Sleep(3 * time.Millisecond) // the old request finishes while the new one executes
		}
		if !bStarted {
			res.Violate("C08;tag-after-version;never-started", "a request of the new session under a tag the old session still used was never executed", det)
			close(pb.Gate)
			return res
		}
		_ = c.Send(cm)
		time.Sleep(5 * time.Millisecond)
		for _, ev := range s.Log.Snapshot(seq0) {
			if ev.Conn == c.ID && ev.Kind == "op" && ev.Tag == tag && ev.Args == fmt.Sprintf("offset=%d count=%d", cm.Offset, cm.Count) {
				res.Violate("C08;tag-after-version;not-serial", "after a Tversion, a request was started while an earlier request with the same tag was still executing", det)
			}
		}
		close(pb.Gate)
		var got []*Reply
		for len(got) < 2 {
			rp, err := c.WaitTag(tag, W)
			if err != nil || rp.Msg == nil {
				res.Violate("C08;tag-after-version;reply-missing", fmt.Sprintf("%d of 2 replies for the two requests of the new session", len(got)), det)
				return res
			}
			got = append(got, rp)
		}
		c.Quiesce(W)
		var tok int64
		for _, ev := range s.Log.Snapshot(seq0) {
			if ev.Conn == c.ID && ev.Kind == "op" && ev.Tag == tag {
				tok = ev.Fid
			}
		}
		for i, m := range []*wire.Msg{b, cm} {
			if got[i].Msg.Type != wire.Rread || !bytes.Equal(got[i].Msg.Data, script.Pattern(tag, tok, m.Offset, int(m.Count))) {
				res.Violate("C08;tag-after-version;reply-order", fmt.Sprintf("reply %d under the reused tag is not the answer to request %d of the new session", i, i), det)
				break
			}
		}
		if rp, err := c.WaitTag(tag, 20*time.Millisecond); err == nil && rp != nil && rp.Msg != nil {
			res.Violate("C08;tag-after-version;extra-reply", "a third reply under the tag (the aborted request of the old session was answered)", det)
		}
		res.Sig(fmt.Sprintf("tag-after-version|mp=%d|oldfirst=%v|queued=%v", maxpend, releaseOldFirst, !bStarted))
	}
	return res
}

// c08FlushAsMember: a Tflush is a request like any other as far as its own tag goes: issued under a tag that older
// requests still carry, it takes its turn in that tag's queue — answered after them, before the ones that came later.
func c08FlushAsMember(ctx *core.Ctx, maxpend int) core.Result {
	var res core.Result
	s, e, _, ok := c08setup(Config{Dotu: true, Msize: 8192, Maxpend: maxpend})
	if !ok {
		res.Inconclusive = "c08: setup failed"
		return res
	}
	c := e.c
	defer c.Hangup()
	for rep := 0; rep < 6 && len(res.Violations) == 0; rep++ {
		ctx.Beat()
		tag := e.next()
		seq0 := s.Log.Seq()
		det := map[string]interface{}{"maxpend": maxpend, "rep": rep, "tag": tag}
		first := &wire.Msg{Type: wire.Tstat, Tag: tag, Fid: e.root}
		p1 := script.NewPlan()
		p1.Gate, p1.Entered = make(chan struct{}), make(chan struct{})
		s.Ops.SetPlan(c.ID, tag, p1)
		_ = c.Send(first)
		select {
		case <-p1.Entered:
		case <-time.After(W):
			res.Inconclusive = "c08: first member never started"
			return res
		}
		// the flush names a tag that is not outstanding (rep even) or another, held request's tag (rep odd)
		old := uint16(0x7777)
		var otherGate chan struct{}
		if rep%2 == 1 {
			o := &wire.Msg{Type: wire.Tstat, Tag: e.next(), Fid: e.root}
			po := script.NewPlan()
			po.Gate, po.Entered = make(chan struct{}), make(chan struct{})
			otherGate = po.Gate
			s.Ops.SetPlan(c.ID, o.Tag, po)
			_ = c.Send(o)
			select {
			case <-po.Entered:
			case <-time.After(W):
			}
			old = o.Tag
		}
		fl := &wire.Msg{Type: wire.Tflush, Tag: tag, Oldtag: old}
		third := &wire.Msg{Type: wire.Twalk, Tag: tag, Fid: e.root, Newfid: uint32(700 + rep)}
		_ = c.Send(fl, third)
		s.Ctl.WaitPassed("recv.dispatch", c.ID, int(tag), 3, 2*time.Second)
		time.Sleep(3 * time.Millisecond)
		res.Evals++
		if rp, err := c.WaitTag(tag, 10*time.Millisecond); err == nil && rp != nil && rp.Msg != nil {
			res.Violate("C08;flush-as-member;answered-out-of-turn", fmt.Sprintf("a %s under the shared tag was sent while the first request of the tag was still executing", wire.TypeName(rp.Msg.Type)), det)
			close(p1.Gate)
			if otherGate != nil {
				close(otherGate)
			}
			return res
		}
		for _, ev := range s.Log.Snapshot(seq0) {
			if ev.Kind == "op" && ev.Conn == c.ID && ev.Tag == tag && ev.Op == "Walk" {
				res.Violate("C08;flush-as-member;not-serial", "a later request of the tag was started while the first was still executing (a Tflush under the same tag sat between them)", det)
			}
		}
		close(p1.Gate)
		if otherGate != nil {
			time.Sleep(time.Millisecond)
			close(otherGate)
		}
		var types []uint8
		for len(types) < 3 {
			rp, err := c.WaitTag(tag, W)
			if err != nil || rp.Msg == nil {
				res.Violate("C08;flush-as-member;reply-missing", fmt.Sprintf("%d of 3 replies under the shared tag", len(types)), det)
				return res
			}
			types = append(types, rp.Msg.Type)
		}
		if types[0] != wire.Rstat || types[1] != wire.Rflush || types[2] != wire.Rwalk {
			res.Violate("C08;flush-as-member;reply-order", fmt.Sprintf("replies under the shared tag came as %s, %s, %s; issued were Tstat, Tflush, Twalk", wire.TypeName(types[0]), wire.TypeName(types[1]), wire.TypeName(types[2])), det)
		}
		c.Quiesce(W)
		e.ok(&wire.Msg{Type: wire.Tclunk, Fid: uint32(700 + rep)})
		res.Sig(fmt.Sprintf("flush-as-member|mp=%d|old=%v", maxpend, rep%2 == 1))
	}
	return res
}

// selfFlush: a Tflush whose old tag is the tag it carries itself. Alone on its tag there is nothing older under that
// tag: it is answered at once. Issued behind older requests of that tag it means them, takes its turn after them (they
// are through by then) and is answered; the requests behind it run afterwards.
func selfFlush(ctx *core.Ctx, prop string, maxpend int, withFlushOp bool) core.Result {
	var res core.Result
	s, e, _, ok := c08setup(Config{Dotu: true, Msize: 8192, Maxpend: maxpend, Flush: withFlushOp})
	if !ok {
		res.Inconclusive = "selfflush: setup failed"
		return res
	}
	c := e.c
	defer c.Hangup()
	violate := func(sig, what string, det interface{}) {
		if strings.HasPrefix(sig, prop+";") {
			res.Violate(sig, what, det)
		}
	}
	for rep := 0; rep < 4 && len(res.Violations) == 0; rep++ {
		ctx.Beat()
		det := map[string]interface{}{"maxpend": maxpend, "flushop": withFlushOp, "rep": rep}
		// alone
		tag := e.next()
		_ = c.Send(&wire.Msg{Type: wire.Tflush, Tag: tag, Oldtag: tag})
		res.Evals++
		if rp, err := c.WaitTag(tag, W); err != nil || rp.Msg == nil || rp.Msg.Type != wire.Rflush {
			violate("C07;self-flush;unanswered", "a Tflush naming its own tag (nothing older is outstanding under it) was not answered by an Rflush", det)
			violate("C03;self-flush;unanswered", "a Tflush naming its own tag got no reply", det)
			return res
		}
		// behind an executing request of the same tag, with another request behind it
		tag = e.next()
		seq0 := s.Log.Seq()
		p1 := script.NewPlan()
		p1.Gate, p1.Entered = make(chan struct{}), make(chan struct{})
		s.Ops.SetPlan(c.ID, tag, p1)
		_ = c.Send(&wire.Msg{Type: wire.Tstat, Tag: tag, Fid: e.root})
		select {
		case <-p1.Entered:
		case <-time.After(W):
			res.Inconclusive = "selfflush: first member never started"
			return res
		}
		_ = c.Send(&wire.Msg{Type: wire.Tflush, Tag: tag, Oldtag: tag}, &wire.Msg{Type: wire.Twalk, Tag: tag, Fid: e.root, Newfid: uint32(800 + rep)})
		s.Ctl.WaitPassed("recv.dispatch", c.ID, int(tag), 3, 2*time.Second)
		time.Sleep(2 * time.Millisecond)
		close(p1.Gate)
		res.Evals++
		var types []uint8
		for len(types) < 3 {
			rp, err := c.WaitTag(tag, W)
			if err != nil || rp.Msg == nil {
				break
			}
			types = append(types, rp.Msg.Type)
		}
		// the request the flush names was executing: it is answered (or, with a cancelling FlushOp, not) before the
		// Rflush; the request behind the flush is answered after it
		var names []string
		for _, t := range types {
			names = append(names, wire.TypeName(t))
		}
		seen := strings.Join(names, ",")
		if !strings.Contains(seen, "Rflush") {
			violate("C07;self-flush;unanswered;in-group", fmt.Sprintf("Tstat, Tflush (naming the tag they share) and Twalk under one tag: replies %q, no Rflush", seen), det)
			violate("C03;self-flush;unanswered;in-group", fmt.Sprintf("replies %q for three requests under one tag", seen), det)
			return res
		}
		if !strings.HasSuffix(seen, "Rflush,Rwalk") {
			violate("C08;self-flush;order", fmt.Sprintf("Tstat, Tflush and Twalk under one tag were answered %q", seen), det)
			violate("C07;self-flush;order", fmt.Sprintf("Tstat, Tflush (naming their tag) and Twalk were answered %q: the request behind the flush is not among those it names", seen), det)
		}
		nwalk := 0
		for _, ev := range s.Log.Snapshot(seq0) {
			if ev.Kind == "op" && ev.Conn == c.ID && ev.Tag == tag && ev.Op == "Walk" {
				nwalk++
			}
		}
		if nwalk != 1 {
			violate("C08;self-flush;member-lost", fmt.Sprintf("the request behind the flush was executed %d times", nwalk), det)
		}
		c.Quiesce(W)
		e.ok(&wire.Msg{Type: wire.Tclunk, Fid: uint32(800 + rep)})
		res.Sig(fmt.Sprintf("self-flush|mp=%d|fo=%v", maxpend, withFlushOp))
	}
	return res
}

// c08EventLoop: an implementation that keeps requests and answers them later, all from one goroutine of its own (an
// event loop). The request at the head of a shared-tag group is such a kept request; the one queued behind it blocks
// inside the implementation when it is started. Answering the first is all the event loop does for that tag: it goes
// on answering kept requests of other tags, on this and on another connection, while the second is still blocked.
func c08EventLoop(ctx *core.Ctx, maxpend int) core.Result {
	var res core.Result
	s, e, other, ok := c08setup(Config{Dotu: true, Msize: 8192, Maxpend: maxpend})
	if !ok {
		res.Inconclusive = "c08: setup failed"
		return res
	}
	c := e.c
	defer c.Hangup()
	defer other.c.Hangup()
	for rep := 0; rep < 4 && len(res.Violations) == 0; rep++ {
		ctx.Beat()
		det := map[string]interface{}{"maxpend": maxpend, "rep": rep}
		keep := func(en *c07env, m *wire.Msg) *wire.Msg {
			p := script.NewPlan()
			p.NoAnswer = true
			p.Entered = make(chan struct{})
			s.Ops.SetPlan(en.c.ID, m.Tag, p)
			_ = en.c.Send(m)
			select {
			case <-p.Entered:
			case <-time.After(W):
			}
			return m
		}
		T := e.next()
		a := keep(e, &wire.Msg{Type: wire.Tstat, Tag: T, Fid: e.root})
		// the second request of the tag: parked in the implementation when it gets its turn
		pb := script.NewPlan()
		pb.Gate, pb.Entered = make(chan struct{}), make(chan struct{})
		s.Ops.SetPlan(c.ID, T, pb)
		_ = c.Send(&wire.Msg{Type: wire.Twalk, Tag: T, Fid: e.root, Newfid: uint32(900 + rep)})
		cm := keep(e, &wire.Msg{Type: wire.Tstat, Tag: e.next(), Fid: e.root})
		dm := keep(other, &wire.Msg{Type: wire.Tstat, Tag: other.next(), Fid: other.root})
		if !s.Ctl.WaitPassed("process.done", c.ID, int(a.Tag), 1, 2*time.Second) {
			// (the head of the group has to be back from the implementation, "kept", before it is answered)
			time.Sleep(5 * time.Millisecond)
		}
		time.Sleep(2 * time.Millisecond)
		// the event loop
		loopDone := make(chan struct{})
		go func() {
			s.Ops.AnswerPending(c.ID, a.Tag)
			s.Ops.AnswerPending(c.ID, cm.Tag)
			s.Ops.AnswerPending(other.c.ID, dm.Tag)
			close(loopDone)
		}()
		res.Evals++
		late := ""
		if rp, err := c.WaitTag(cm.Tag, W); err != nil || rp.Msg == nil {
			late = "a kept request with another tag on the same connection"
		} else if rp, err := other.c.WaitTag(dm.Tag, W); err != nil || rp.Msg == nil {
			late = "a kept request on another connection"
		}
		select {
		case <-pb.Entered:
		case <-time.After(2 * time.Second):
		}
		close(pb.Gate)
		if late != "" {
			// answered once the blocked request is released?
			c.WaitTag(cm.Tag, W)
			other.c.WaitTag(dm.Tag, W)
			res.Violate("C08;event-loop;answers-wait-for-a-blocked-successor", late+" was answered by the implementation's event loop right after the head of a shared-tag group, and the answer did not go out while the next request of that group was blocked in the implementation", det)
		}
		select {
		case <-loopDone:
		case <-time.After(W):
			res.Inconclusive = "c08: event loop never finished"
			return res
		}
		// replies under the shared tag: the kept Tstat, then the Twalk
		for i, want := range []uint8{wire.Rstat, wire.Rwalk} {
			if rp, err := c.WaitTag(T, W); err != nil || rp.Msg == nil || rp.Msg.Type != want {
				res.Violate("C08;event-loop;group-replies", fmt.Sprintf("reply %d under the shared tag is not a %s", i, wire.TypeName(want)), det)
				break
			}
		}
		c.Quiesce(W)
		e.ok(&wire.Msg{Type: wire.Tclunk, Fid: uint32(900 + rep)})
		res.Sig(fmt.Sprintf("event-loop|mp=%d", maxpend))
	}
	return res
}
