package srvlab

import (
	"fmt"
	"strings"
	"time"

	"github.com/rminnich/go9p"

	"verif/core"
	"verif/script"
	"verif/wire"
)

func init() {
	core.Register(&core.Engine{
		Property: "C12",
		Level:    "exploration",
		Rule: "grid: server msize {24, 25, 64, 100, 4096, 8192, 65536, default} x client msize {0, 23, 24, 25, 63, 64, 65, s-1, s, s+1, 2^31, 2^32-1} x server dialect x requested version " +
			"{9P2000, 9P2000.u, 9P2000.L, 9P1999, '', 9P2000.u.1, 300 bytes}; the Rversion is judged (msize = min, refusal below IOHDRSZ, .u only if both asked); then, on the negotiated connection and " +
			"through recycled reply buffers allocated before the negotiation: Tattach, Tstat with stat sizes straddling msize, Twalk with 0..16 qids, Tread with counts 0..L, implementation errors with texts " +
			"of 0..500 bytes — every frame must be <= msize, Rread count <= Tread count, Rstat/Rerror must decode in the negotiated dialect and not in the other; finally announced frame sizes " +
			"0..6, msize (accepted), msize+1, 2^16, 2^31, 2^32-1 must drop that connection without any invocation while another connection keeps working; the same reply battery after traffic that preceded the Tversion and after a second and third, lower, negotiation " +
			"(reply buffers allocated under the larger limit). Same with the Unix file server for real stat replies. " +
			"distinct = (server msize, client msize, dialects, version string class) and (msize, reply kind, size class)",
		Assumptions: []string{
			"a Tversion is only sent with no request outstanding; a later Tversion may only lower the msize (the statement defines msize as a minimum)",
			"the size of frames the client library sends is not judged (the statement bounds what the server sends and accepts)",
		},
		Cases:       c12Cases,
		MinDistinct: 150,
		Jobs:        8,
	})
}

const defaultMsize = 1048576 + 24

// ExtraC12 lets the client-side lab add its negotiation cases to the C12 engine.
var ExtraC12 []func(tier string, seed int64) []core.Case

func c12Cases(tier string, seed int64) []core.Case {
	var cases []core.Case
	smsizes := []uint32{24, 25, 64, 100, 4096, 8192, 65536, 0}
	for _, sm := range smsizes {
		for _, sdotu := range []bool{false, true} {
			sm, sdotu := sm, sdotu
			cases = append(cases, core.Case{ID: fmt.Sprintf("grid/srvmsize=%d/srvdotu=%v", sm, sdotu), Run: func(ctx *core.Ctx) core.Result {
				return c12Grid(ctx, sm, sdotu, tier == "thorough")
			}})
		}
	}
	cases = append(cases, core.Case{ID: "announced-is-enforced-after-renegotiation", Run: c12AnnouncedEnforced})
	cases = append(cases, core.Case{ID: "lower-msize-with-requests-executing", Run: c12LowerWhileExecuting})
	// the library's "akaros" switch changes the text of every Rerror (error number in hex in front): replies must
	// obey msize all the same
	for _, sdotu := range []bool{true, false} {
		sdotu := sdotu
		cases = append(cases, core.Case{ID: fmt.Sprintf("grid/srvmsize=8192/srvdotu=%v/akaros", sdotu), Run: func(ctx *core.Ctx) core.Result {
			old := *go9p.Akaros
			*go9p.Akaros = true
			defer func() { *go9p.Akaros = old }()
			return c12Grid(ctx, 8192, sdotu, false)
		}})
	}
	for _, dotu := range []bool{false, true} {
		dotu := dotu
		cases = append(cases, core.Case{ID: fmt.Sprintf("ufs/dotu=%v", dotu), Run: func(ctx *core.Ctx) core.Result { return c12Ufs(ctx, dotu) }})
	}
	cases = append(cases, core.Case{ID: "ufs/server-dotu/plain-client", Run: func(ctx *core.Ctx) core.Result { return c12Ufs(ctx, true, false) }})
	for _, f := range ExtraC12 {
		cases = append(cases, f(tier, seed)...)
	}
	return cases
}

func c12Grid(ctx *core.Ctx, smsize uint32, sdotu bool, thorough bool) core.Result {
	var res core.Result
	eff := smsize
	if eff < 24 {
		eff = defaultMsize
	}
	cms := []uint32{0, 23, 24, 25, 63, 64, 65, eff - 1, eff, eff + 1, 1 << 31, 0xFFFFFFFF, 100, 256}
	versions := []string{"9P2000", "9P2000.u", "9P2000.L", "9P1999", "", "9P2000.u.1", strings.Repeat("9", 300), "9p2000.u", "9P2000.U"}
	s := NewSess(Config{Dotu: sdotu, Msize: smsize})
	other := s.Dial() // a connection that must keep working throughout
	if r, err := other.Version(8192, "9P2000", W); err != nil || r.Msg == nil {
		res.Inconclusive = "c12: control connection failed"
		return res
	}
	otherOK := func(what string) {
		r, err := other.Rpc(&wire.Msg{Type: wire.Tattach, Tag: 7, Fid: uint32(res.Evals + 1000), Afid: wire.NOFID, Uname: "root", Nuname: 0}, W)
		if err != nil || r.Msg == nil || r.Msg.Type != wire.Rattach {
			res.Violate("C12;other-connection-disturbed", "another connection stopped working after "+what, nil)
		}
	}
	seen := map[uint32]bool{}
	for _, cm := range cms {
		for vi, ver := range versions {
			if len(res.Violations) >= 1 {
				return res
			}
			if eff > 100000 && vi > 2 && !thorough {
				continue // 8 x msize receive buffers per connection: keep the quick tier light for the default msize
			}
			res.Evals++
			ctx.Beat()
			c := s.Dial()
			det := map[string]interface{}{"server_msize": eff, "server_dotu": sdotu, "client_msize": cm, "version": short(ver)}
			vclass := ver
			if len(ver) > 20 {
				vclass = "long"
			}
			rep, err := c.Version(cm, ver, W)
			if 13+len(ver) > int(eff) {
				// the Tversion itself is larger than the server's msize: the only acceptable outcomes are a dropped connection or a reply that obeys the limits
				if err == nil && rep.Msg != nil && len(rep.Raw) > int(eff) {
					res.Violate("C12;oversize-frame;Rversion", "reply to an oversize Tversion exceeds the server msize", det)
				}
				c.Hangup()
				continue
			}
			if err != nil || rep.Msg == nil {
				res.Violate(fmt.Sprintf("C12;version-no-reply;cm=%s", mclass(cm, eff)), fmt.Sprintf("Tversion msize=%d %q got no reply: %v", cm, short(ver), err), det)
				continue
			}
			r := rep.Msg
			res.Sig(fmt.Sprintf("neg|%d|%v|%s|%s", eff, sdotu, mclass(cm, eff), vclass))
			if cm < 24 {
				if r.Type != wire.Rerror {
					res.Violate("C12;small-msize-accepted", fmt.Sprintf("client msize %d (< IOHDRSZ) was answered %s msize=%d", cm, wire.TypeName(r.Type), r.Msize), det)
				}
				c.Hangup()
				continue
			}
			if r.Type != wire.Rversion {
				res.Violate("C12;version-refused", fmt.Sprintf("Tversion msize=%d %q answered %s", cm, short(ver), r.String()), det)
				c.Hangup()
				continue
			}
			want := cm
			if eff < want {
				want = eff
			}
			if r.Msize != want {
				res.Violate(fmt.Sprintf("C12;msize-not-min;%s", mclass(cm, eff)), fmt.Sprintf("Rversion msize=%d, min(client %d, server %d)=%d", r.Msize, cm, eff, want), det)
			}
			wantVer := "9P2000"
			if ver == "9P2000.u" && sdotu {
				wantVer = "9P2000.u"
			}
			if r.Version != wantVer {
				res.Violate(fmt.Sprintf("C12;dialect;asked=%s;srvdotu=%v", vclass, sdotu), fmt.Sprintf("Rversion version %q, expected %q", r.Version, wantVer), det)
			}
			if len(rep.Raw) > int(want) {
				res.Violate("C12;oversize-frame;Rversion", fmt.Sprintf("Rversion frame of %d bytes exceeds the negotiated msize %d", len(rep.Raw), want), det)
			}
			if vi <= 1 || thorough || !seen[cm] {
				c12Session(ctx, &res, s, c, want, r.Version == "9P2000.u", det)
			}
			seen[cm] = true
			c12BadSizes(&res, s, want, r.Version == "9P2000.u", cm, ver, det)
			otherOK(fmt.Sprintf("sessions with msize %d", want))
			c.Hangup()
		}
	}
	// reply buffers allocated before the limit was lowered: by requests that precede the (first) Tversion, by an
	// earlier, larger negotiation, pipelined so that several buffers exist
	if eff >= 256 {
		for _, small := range []uint32{64, 100, 128} {
			if small >= eff {
				continue
			}
			for _, how := range []string{"traffic-before-version", "renegotiate-lower", "renegotiate-twice"} {
				ver := "9P2000"
				if sdotu {
					ver = "9P2000.u"
				}
				c := s.Dial()
				res.Evals++
				det := map[string]interface{}{"server_msize": eff, "server_dotu": sdotu, "client_msize": small, "version": ver, "scenario": how}
				pipelined := func(n int, base uint16) {
					var ms []*wire.Msg
					for i := 0; i < n; i++ {
						ms = append(ms, &wire.Msg{Type: wire.Tattach, Tag: base + uint16(i), Fid: uint32(500 + int(base) + i), Afid: wire.NOFID, Uname: "root", Nuname: 0, Aname: "pre"})
					}
					_ = c.Send(ms...)
					for _, m := range ms {
						c.WaitTag(m.Tag, W)
					}
				}
				switch how {
				case "traffic-before-version":
					pipelined(12, 100)
				case "renegotiate-lower":
					c.Version(eff, ver, W)
					pipelined(12, 100)
				case "renegotiate-twice":
					c.Version(eff, ver, W)
					pipelined(6, 100)
					c.Version(eff/2+30, ver, W)
					pipelined(6, 200)
				}
				rep, err := c.Version(small, ver, W)
				if err != nil || rep.Msg == nil || rep.Msg.Type != wire.Rversion {
					res.Violate("C12;version-no-reply;"+how, fmt.Sprintf("Tversion msize=%d (%s) got %v / %v", small, how, rep, err), det)
					c.Hangup()
					continue
				}
				if rep.Msg.Msize != small {
					res.Violate("C12;msize-not-min;"+how, fmt.Sprintf("Rversion msize=%d after %s, expected %d", rep.Msg.Msize, how, small), det)
				}
				// several sessions' worth of replies so that every pooled buffer comes round
				for k := 0; k < 3; k++ {
					c12Session(ctx, &res, s, c, small, rep.Msg.Version == "9P2000.u", det)
				}
				res.Sig(fmt.Sprintf("stale|%d|%v|%d|%s", eff, sdotu, small, how))
				c.Hangup()
			}
		}
	}
	// the dialect is decided by each Tversion on its own: what an earlier Tversion on the connection asked for does
	// not stick (a client that probes with one version string and settles on another)
	if eff >= 256 {
		asks := []string{"9P2000", "9P2000.u", "9P1999", "9P2000.L"}
		var seqs [][]string
		for _, a := range asks {
			for _, b := range asks {
				seqs = append(seqs, []string{a, b})
				if a != b {
					seqs = append(seqs, []string{a, b, a}, []string{a, a, b})
				}
			}
		}
		for _, seq := range seqs {
			c := s.Dial()
			res.Evals++
			det := map[string]interface{}{"server_msize": eff, "server_dotu": sdotu, "versions_in_turn": seq}
			for i, ask := range seq {
				rep, err := c.Version(eff, ask, W)
				if err != nil || rep.Msg == nil || rep.Msg.Type != wire.Rversion {
					res.Violate("C12;renegotiated-dialect;no-rversion", fmt.Sprintf("Tversion %q (number %d on the connection, after %v) got %v / %v", ask, i+1, seq[:i], rep, err), det)
					break
				}
				want := "9P2000"
				if ask == "9P2000.u" && sdotu {
					want = "9P2000.u"
				}
				if rep.Msg.Version != want {
					res.Violate(fmt.Sprintf("C12;renegotiated-dialect;version;asked=%s;got=%s", ask, rep.Msg.Version), fmt.Sprintf("Tversion %q after %v on the same connection was answered %q; a server that offers .u=%v answers %q", ask, seq[:i], rep.Msg.Version, sdotu, want), det)
					break
				}
				if i == len(seq)-1 || i == 0 {
					c12Session(ctx, &res, s, c, eff, want == "9P2000.u", det)
				}
			}
			res.Sig(fmt.Sprintf("redialect|%d|%v|%s", eff, sdotu, strings.Join(seq, ">")))
			c.Hangup()
		}
	}
	res.Sample(map[string]interface{}{"server_msize": eff, "server_dotu": sdotu, "client_msizes": cms, "versions": len(versions)})
	return res
}

func short(s string) string {
	if len(s) > 24 {
		return s[:24] + "…"
	}
	return s
}

func mclass(cm, eff uint32) string {
	switch {
	case cm < 24:
		return fmt.Sprintf("%d", cm)
	case cm == eff-1:
		return "s-1"
	case cm == eff:
		return "s"
	case cm == eff+1:
		return "s+1"
	case cm > eff:
		return "big"
	}
	return fmt.Sprintf("%d", cm)
}

// c12Session: after the negotiation every reply obeys msize and dialect.
func c12Session(ctx *core.Ctx, res *core.Result, s *Sess, c *CConn, msize uint32, dotu bool, det map[string]interface{}) {
	tag := uint16(10)
	L := msize - wire.IOHDRSZ
	check := func(kind string, m *wire.Msg, plan *script.Plan, sizeClass string) *wire.Msg {
		tag++
		m.Tag = tag
		if plan == nil {
			plan = script.NewPlan()
		}
		if uint32(len(wire.Encode(m, dotu))) > msize {
			return nil
		}
		s.Ops.SetPlan(c.ID, m.Tag, plan)
		rep, err := c.Rpc(m, W)
		res.Count("negotiated_replies_checked", 1)
		d := map[string]interface{}{"negotiation": det, "request": m.String(), "kind": kind}
		if err != nil || rep == nil {
			res.Violate("C12;no-reply;"+kind, fmt.Sprintf("%s on a connection negotiated to msize %d got no reply: %v", m.String(), msize, err), d)
			return nil
		}
		res.Sig(fmt.Sprintf("reply|%d|%v|%s|%s", msize, dotu, kind, sizeClass))
		if len(rep.Raw) > int(msize) {
			res.Violate("C12;oversize-frame;"+kind, fmt.Sprintf("reply frame of %d bytes exceeds the negotiated msize %d (%s)", len(rep.Raw), msize, kind), d)
		}
		if rep.Msg == nil {
			res.Violate("C12;wrong-dialect;"+kind, fmt.Sprintf("reply does not decode in the negotiated dialect (.u=%v): %v", dotu, rep.Err), d)
			return nil
		}
		if rep.Msg.Type == wire.Rerror || rep.Msg.Type == wire.Rstat {
			if _, _, e2 := wire.Decode(rep.Raw, !dotu); e2 == nil {
				res.Violate("C12;wrong-dialect;"+kind, fmt.Sprintf("%s also decodes in the dialect that was not negotiated", wire.TypeName(rep.Msg.Type)), d)
			}
		}
		if kind == "error" && plan.Err != "" {
			// the implementation answered with an error: the reply is that error, its text cut to fit if it must be
			text := plan.Err
			if *go9p.Akaros {
				text = fmt.Sprintf("%04X %v", plan.Errnum, plan.Err)
			}
			switch {
			case rep.Msg.Type != wire.Rerror:
				res.Violate("C12;error-reply-replaced;"+sizeClass, fmt.Sprintf("the implementation answered with an error of %d bytes (errnum %#x); the client received %s", len(plan.Err), plan.Errnum, rep.Msg.String()), d)
			case !strings.HasPrefix(text, rep.Msg.Ename) || (dotu && rep.Msg.Ecode != plan.Errnum):
				res.Violate("C12;error-reply-garbled;"+sizeClass, fmt.Sprintf("Rerror %q/%d is not (a prefix of) the error the implementation gave (errnum %#x, %d bytes)", short(rep.Msg.Ename), rep.Msg.Ecode, plan.Errnum, len(plan.Err)), d)
			}
		}
		if m.Type == wire.Tread && rep.Msg.Type == wire.Rread && rep.Msg.Count > m.Count {
			res.Violate("C12;read-more-than-asked", fmt.Sprintf("Rread count %d for Tread count %d", rep.Msg.Count, m.Count), d)
		}
		return rep.Msg
	}
	uidn := uint32(0)
	a := check("attach", &wire.Msg{Type: wire.Tattach, Fid: 1, Afid: wire.NOFID, Uname: "root", Nuname: uidn, Aname: "x"}, nil, "-")
	if a == nil || a.Type != wire.Rattach {
		return
	}
	// Rstat whose size straddles msize
	base := wire.StatLen(&wire.Stat{Uid: "u", Gid: "g", Muid: "m"}, dotu) + 9
	for _, d := range []int{-60, -2, -1, 0, 1, 2, 40, 300} {
		n := int(msize) - base + d
		if n < 0 || n > 60000 {
			continue
		}
		p := script.NewPlan()
		p.Text = strings.Repeat("n", n)
		check("stat", &wire.Msg{Type: wire.Tstat, Fid: 1}, p, fmt.Sprintf("msize%+d", d))
	}
	check("stat", &wire.Msg{Type: wire.Tstat, Fid: 1}, nil, "small")
	// Rwalk with 0..16 qids
	for _, k := range []int{0, 1, 2, 4, 7, 8, 16} {
		names := make([]string, k)
		for i := range names {
			names[i] = "d"
		}
		if r := check("walk", &wire.Msg{Type: wire.Twalk, Fid: 1, Newfid: uint32(100 + k), Wname: names}, nil, fmt.Sprint(k)); r != nil && r.Type == wire.Rwalk {
			check("clunk", &wire.Msg{Type: wire.Tclunk, Fid: uint32(100 + k)}, nil, "-")
		}
	}
	// reads with counts up to the limit (an unopened fid is forwarded by the framework; the implementation answers)
	for _, cnt := range []uint32{0, 1, L / 2, L - 1, L, L + 1} {
		if L == 0 && cnt > 1 {
			continue
		}
		check("read", &wire.Msg{Type: wire.Tread, Fid: 1, Offset: 9, Count: cnt}, nil, fmt.Sprintf("L%+d", int64(cnt)-int64(L)))
	}
	// implementation errors with long texts
	for _, n := range []int{0, 1, int(msize) - 14, int(msize) - 9, int(msize) - 8, int(msize), 500} {
		if n < 0 || n > 60000 {
			continue // an error text must itself be representable as a 9P string
		}
		for _, en := range []uint32{77, 0xFFFF, 0x10000, 0xFFFFFFFF} {
			p := script.NewPlan()
			p.Err, p.Errnum = strings.Repeat("e", n), en
			check("error", &wire.Msg{Type: wire.Tstat, Fid: 1}, p, fmt.Sprintf("len%d;errnum%#x", n-int(msize), en))
		}
	}
	// framework errors
	check("fwerror", &wire.Msg{Type: wire.Tstat, Fid: 4242}, nil, "unknownfid")
	// more requests in flight at once than reply buffers were recycled so far (each of them gets a buffer of its own),
	// with answers that only the buffer bounds: stat records around and above msize, walks of 16 elements
	for burst := 0; burst < 2; burst++ {
		gate := make(chan struct{})
		var ms []*wire.Msg
		var entered []chan struct{}
		for i := 0; i < 12; i++ {
			tag++
			p := script.NewPlan()
			p.Gate = gate
			p.Entered = make(chan struct{})
			var m *wire.Msg
			if i%3 == 2 {
				names := make([]string, 16)
				for k := range names {
					names[k] = "d"
				}
				m = &wire.Msg{Type: wire.Twalk, Tag: tag, Fid: 1, Newfid: uint32(500 + 20*burst + i), Wname: names}
			} else {
				n := int(msize) - 40 + 25*i
				if n < 0 {
					n = i
				}
				if n > 60000 {
					n = 60000
				}
				p.Text = strings.Repeat("n", n)
				m = &wire.Msg{Type: wire.Tstat, Tag: tag, Fid: 1}
			}
			if uint32(len(wire.Encode(m, dotu))) > msize {
				continue
			}
			s.Ops.SetPlan(c.ID, m.Tag, p)
			ms = append(ms, m)
			entered = append(entered, p.Entered)
		}
		_ = c.Send(ms...)
		for _, e := range entered {
			select {
			case <-e:
			case <-time.After(W):
			}
		}
		close(gate)
		for _, m := range ms {
			rep, err := c.WaitTag(m.Tag, W)
			res.Count("negotiated_replies_checked", 1)
			d := map[string]interface{}{"negotiation": det, "request": m.String(), "kind": "concurrent-burst"}
			if err != nil || rep == nil {
				res.Violate("C12;no-reply;burst", fmt.Sprintf("%s (one of %d concurrent requests) got no reply", m.String(), len(ms)), d)
				break
			}
			if len(rep.Raw) > int(msize) {
				res.Violate("C12;oversize-frame;burst;"+wire.TypeName(rep.Raw[4]), fmt.Sprintf("reply frame of %d bytes exceeds the negotiated msize %d (one of %d requests in flight together)", len(rep.Raw), msize, len(ms)), d)
			}
			if rep.Msg == nil {
				res.Violate("C12;wrong-dialect;burst", fmt.Sprintf("reply does not decode in the negotiated dialect: %v", rep.Err), d)
			}
		}
		for _, m := range ms {
			if m.Type == wire.Twalk {
				tag++
				c.Rpc(&wire.Msg{Type: wire.Tclunk, Tag: tag, Fid: m.Newfid}, W)
			}
		}
		res.Sig(fmt.Sprintf("burst|%d|%v|%d", msize, dotu, len(ms)))
	}
}

// c12BadSizes: a frame announcing a size above msize or below a header drops the connection.
func c12BadSizes(res *core.Result, s *Sess, msize uint32, dotu bool, cm uint32, ver string, det map[string]interface{}) {
	sizes := []uint32{0, 1, 4, 6, msize + 1, 1 << 16, 1 << 31, 0xFFFFFFFF}
	for _, sz := range sizes {
		if sz == msize+1 && msize == 0xFFFFFFFF {
			continue
		}
		if sz > 6 && sz <= msize {
			continue
		}
		c := s.Dial()
		if r, err := c.Version(cm, ver, W); err != nil || r.Msg == nil || r.Msg.Type != wire.Rversion {
			c.Hangup()
			continue
		}
		seq0 := s.Log.Seq()
		// a Tclunk header announcing sz, followed by a complete valid request that must not be executed
		hdr := []byte{byte(sz), byte(sz >> 8), byte(sz >> 16), byte(sz >> 24), wire.Tattach, 9, 0}
		follow := wire.Encode(&wire.Msg{Type: wire.Tattach, Tag: 10, Fid: 1, Afid: wire.NOFID, Uname: "root", Nuname: 0, Aname: "after-bad-size"}, dotu)
		_ = c.SendRaw(append(hdr, follow...))
		closed := c.WaitClosed(3 * time.Second)
		res.Evals++
		res.Sig(fmt.Sprintf("badsize|%d|%s", msize, sclass(sz, msize)))
		d := map[string]interface{}{"negotiation": det, "announced_size": sz}
		if !closed {
			res.Violate("C12;bad-size-kept;"+sclass(sz, msize), fmt.Sprintf("a frame announcing size %d (msize %d) did not make the server drop the connection", sz, msize), d)
		}
		for _, e := range s.Log.Snapshot(seq0) {
			if e.Kind == "op" && e.Conn == c.ID {
				res.Violate("C12;bad-size-executed;"+sclass(sz, msize), fmt.Sprintf("after a frame announcing size %d the connection still executed %s", sz, e.Op), d)
			}
		}
		c.Hangup()
	}
	// a client that does not wait for Rversion: the Tversion and a complete frame larger than the size being negotiated
	// (but within the server's own limit) arrive in one segment; the limit negotiated by the first governs the second
	if smax := s.Srv.Msize; msize >= 24 && msize < smax {
		for _, total := range []uint32{msize + 1, msize + 150, smax} {
			if total > smax || total <= msize || total < 40 || total > 1<<20 {
				continue
			}
			c := s.Dial()
			seq0 := s.Log.Seq()
			tv := wire.Encode(&wire.Msg{Type: wire.Tversion, Tag: wire.NOTAG, Msize: cm, Version: ver}, dotu)
			base := len(wire.Encode(&wire.Msg{Type: wire.Tattach, Tag: 10, Fid: 1, Afid: wire.NOFID, Uname: "root", Nuname: 0, Aname: ""}, dotu))
			att := wire.Encode(&wire.Msg{Type: wire.Tattach, Tag: 10, Fid: 1, Afid: wire.NOFID, Uname: "root", Nuname: 0, Aname: strings.Repeat("p", int(total)-base)}, dotu)
			_ = c.SendRaw(append(tv, att...))
			closed := c.WaitClosed(3 * time.Second)
			res.Evals++
			res.Sig(fmt.Sprintf("pipelined-oversize|%d|%d", msize, total-msize))
			d := map[string]interface{}{"negotiation": det, "frame_size": total, "negotiated": msize, "same_segment_as_tversion": true}
			if !closed {
				res.Violate("C12;bad-size-kept;pipelined", fmt.Sprintf("a %d-byte frame sent in the same segment as the Tversion that negotiates msize %d did not make the server drop the connection", total, msize), d)
			}
			for _, e := range s.Log.Snapshot(seq0) {
				if e.Kind == "op" && e.Conn == c.ID {
					res.Violate("C12;bad-size-executed;pipelined", fmt.Sprintf("a %d-byte frame behind the Tversion negotiating msize %d was executed (%s)", total, msize, e.Op), d)
				}
			}
			c.Hangup()
		}
	}
	// exactly msize is a legal frame: the connection survives it
	if msize >= 64 && msize <= 1<<20 {
		c := s.Dial()
		if r, err := c.Version(cm, ver, W); err == nil && r.Msg != nil && r.Msg.Type == wire.Rversion {
			n := int(msize) - 23
			big := wire.Encode(&wire.Msg{Type: wire.Twrite, Tag: 5, Fid: 77, Offset: 0, Count: uint32(n), Data: make([]byte, n)}, dotu)
			_ = c.SendRaw(big)
			rep, err := c.WaitTag(5, W)
			res.Evals++
			res.Sig(fmt.Sprintf("fullsize|%d", msize))
			if err != nil || rep.Msg == nil || rep.Msg.Type != wire.Rerror {
				res.Violate("C12;full-size-frame-refused", fmt.Sprintf("a frame of exactly msize=%d bytes was not processed (err %v)", msize, err), det)
			}
		}
		c.Hangup()
	}
}

func sclass(sz, msize uint32) string {
	switch {
	case sz < 7:
		return fmt.Sprint(sz)
	case sz == msize+1:
		return "msize+1"
	}
	return fmt.Sprintf("%#x", sz)
}

// c12Ufs: real stat replies and directory reads from the Unix file server under small msize values.
func c12Ufs(ctx *core.Ctx, sdotu bool, cdotu ...bool) core.Result {
	var res core.Result
	h := newHostile(ctx, &res, "ufs", sdotu)
	if h == nil {
		return res
	}
	defer h.done()
	// the dialect of the session is what was negotiated: .u only if the server offers it and the client asked for it
	dotu := sdotu
	if len(cdotu) > 0 {
		dotu = sdotu && cdotu[0]
	}
	ver := "9P2000"
	if dotu {
		ver = "9P2000.u"
	}
	for mi, msize := range []uint32{24, 40, 64, 80, 100, 128, 200, 256, 1024, 8192, 64, 256, 1024} {
		c := h.s.Dial()
		if mi >= 10 {
			// the connection first negotiates the server's full msize and moves some large replies, then settles on
			// the small one: what is left of the first session must not show in the second
			if r0, err := c.Version(8192, ver, W); err == nil && r0.Msg != nil && r0.Msg.Type == wire.Rversion {
				c.Rpc(&wire.Msg{Type: wire.Tattach, Tag: 1, Fid: 0, Afid: wire.NOFID, Uname: "root", Nuname: 0}, W)
				c.Rpc(&wire.Msg{Type: wire.Twalk, Tag: 2, Fid: 0, Newfid: 1, Wname: []string{"file09" + strings.Repeat("x", 27)}}, W)
				c.Rpc(&wire.Msg{Type: wire.Topen, Tag: 3, Fid: 1, Mode: 0}, W)
				var burst []*wire.Msg
				for i := 0; i < 6; i++ {
					burst = append(burst, &wire.Msg{Type: wire.Tread, Tag: uint16(10 + i), Fid: 1, Offset: 0, Count: 8168})
				}
				_ = c.Send(burst...)
				for _, m := range burst {
					c.WaitTag(m.Tag, W)
				}
				c.Rpc(&wire.Msg{Type: wire.Tclunk, Tag: 4, Fid: 1}, W)
				c.Rpc(&wire.Msg{Type: wire.Tclunk, Tag: 5, Fid: 0}, W)
			}
		}
		r, err := c.Version(msize, ver, W)
		if err != nil || r.Msg == nil || r.Msg.Type != wire.Rversion || r.Msg.Msize != msize {
			res.Violate("C12;ufs;negotiation", fmt.Sprintf("Ufs negotiation msize %d failed", msize), nil)
			continue
		}
		tag := uint16(1)
		send := func(kind string, m *wire.Msg) *wire.Msg {
			tag++
			m.Tag = tag
			if uint32(len(wire.Encode(m, dotu))) > msize {
				return nil
			}
			rep, err := c.Rpc(m, 2*time.Second)
			res.Evals++
			res.Sig(fmt.Sprintf("ufs|%v|%d|%s", dotu, msize, kind))
			if err != nil || rep == nil {
				res.Violate("C12;ufs;no-reply;"+kind, fmt.Sprintf("Ufs msize %d: %s got no reply", msize, m.String()), nil)
				return nil
			}
			if len(rep.Raw) > int(msize) {
				res.Violate("C12;ufs;oversize-frame;"+kind, fmt.Sprintf("Ufs reply of %d bytes exceeds negotiated msize %d (%s)", len(rep.Raw), msize, kind), nil)
			}
			if rep.Msg == nil {
				res.Violate("C12;ufs;wrong-dialect;"+kind, "Ufs reply does not decode in the negotiated dialect: "+rep.Err.Error(), nil)
				return nil
			}
			if m.Type == wire.Tread && rep.Msg.Type == wire.Rread && rep.Msg.Count > m.Count {
				res.Violate("C12;ufs;read-more-than-asked", fmt.Sprintf("Rread count %d for Tread count %d", rep.Msg.Count, m.Count), nil)
			}
			return rep.Msg
		}
		if a := send("attach", &wire.Msg{Type: wire.Tattach, Fid: 0, Afid: wire.NOFID, Uname: "root", Nuname: 0}); a == nil || a.Type != wire.Rattach {
			c.Hangup()
			continue
		}
		send("stat-root", &wire.Msg{Type: wire.Tstat, Fid: 0})
		send("walk", &wire.Msg{Type: wire.Twalk, Fid: 0, Newfid: 1, Wname: []string{"file09" + strings.Repeat("x", 27)}})
		send("stat-longname", &wire.Msg{Type: wire.Tstat, Fid: 1})
		send("walk-missing", &wire.Msg{Type: wire.Twalk, Fid: 0, Newfid: 2, Wname: []string{"no-such-file-with-a-long-name-to-make-the-error-long"}})
		send("open", &wire.Msg{Type: wire.Topen, Fid: 1, Mode: 0})
		for _, cnt := range []uint32{0, 1, msize - 25, msize - 24} {
			if int32(cnt) >= 0 {
				send("read", &wire.Msg{Type: wire.Tread, Fid: 1, Offset: 3, Count: cnt})
			}
		}
		// counts no msize allows, up to the ones where count + header wraps around 32 bits: refused, and whatever
		// the answer is, it obeys msize and the dialect (checked in send)
		for _, cnt := range []uint32{msize - 23, msize, 1 << 31, 0xFFFFFFE7, 0xFFFFFFE8, 0xFFFFFFF0, 0xFFFFFFFF} {
			if rp := send("read-overlimit", &wire.Msg{Type: wire.Tread, Fid: 1, Offset: 0, Count: cnt}); rp != nil && rp.Type != wire.Rerror {
				res.Violate("C12;ufs;overlimit-read-executed", fmt.Sprintf("Ufs msize %d: Tread count %d (more than msize-24) was answered %s", msize, cnt, rp.String()), nil)
			}
		}
		send("walkdir", &wire.Msg{Type: wire.Twalk, Fid: 0, Newfid: 3, Wname: []string{"listing"}})
		send("opendir", &wire.Msg{Type: wire.Topen, Fid: 3, Mode: 0})
		if msize > 24 {
			if rd := send("readdir", &wire.Msg{Type: wire.Tread, Fid: 3, Offset: 0, Count: msize - 24}); rd != nil && rd.Type == wire.Rread {
				// the stat records inside a directory read are in the negotiated dialect too
				for b := rd.Data; len(b) > 0; {
					_, used, err := wire.DecodeStat(b, dotu)
					if err != nil {
						res.Violate("C12;ufs;wrong-dialect;readdir-record", fmt.Sprintf("Ufs (server .u=%v, session .u=%v, msize %d): a stat record inside a directory read does not decode in the negotiated dialect: %v", sdotu, dotu, msize, err), nil)
						break
					}
					b = b[used:]
					res.Count("directory_records_decoded_in_negotiated_dialect", 1)
				}
			}
		}
		send("open-missing-mode", &wire.Msg{Type: wire.Topen, Fid: 0, Mode: 1})
		c.Hangup()
	}
	res.Sample(map[string]interface{}{"server": "ufs", "server_dotu": sdotu, "session_dotu": dotu, "msizes": "24..8192"})
	return res
}

// c12AnnouncedEnforced: whatever sequence of Tversions a connection has seen (lower, then higher, then lower …), the
// msize the last Rversion announced is the one the server honours from then on: a frame of exactly that size is
// processed, one byte more drops the connection, a Tread for msize-IOHDRSZ bytes is within limits and its reply fits.
func c12AnnouncedEnforced(ctx *core.Ctx) core.Result {
	var res core.Result
	seqs := [][]uint32{{256, 4096}, {4096, 256, 4096}, {64, 8192}, {8192, 100, 300, 200}, {1000, 1000, 2000}, {300}, {24, 8192}, {70000, 128, 70000}}
	for _, dotu := range []bool{true, false} {
		ver := "9P2000"
		if dotu {
			ver = "9P2000.u"
		}
		for si, seq := range seqs {
			for _, probe := range []string{"exact", "plus-one", "read"} {
				s := NewSess(Config{Dotu: dotu, Msize: 8192})
				c := s.Dial()
				var M uint32
				okNeg := true
				for _, m := range seq {
					r, err := c.Version(m, ver, W)
					if err != nil || r.Msg == nil {
						okNeg = false
						break
					}
					if r.Msg.Type == wire.Rversion {
						M = r.Msg.Msize
					}
				}
				res.Evals++
				if !okNeg || M < 40 {
					c.Hangup()
					continue
				}
				det := map[string]interface{}{"tversion_msizes": seq, "announced": M, "dotu": dotu}
				base := len(wire.Encode(&wire.Msg{Type: wire.Tattach, Tag: 1, Fid: 1, Afid: wire.NOFID, Uname: "root", Nuname: 0, Aname: ""}, dotu))
				switch probe {
				case "exact", "plus-one":
					size := int(M)
					if probe == "plus-one" {
						size++
					}
					if size-base < 0 || size-base > 60000 {
						c.Hangup()
						continue
					}
					att := wire.Encode(&wire.Msg{Type: wire.Tattach, Tag: 1, Fid: 1, Afid: wire.NOFID, Uname: "root", Nuname: 0, Aname: strings.Repeat("n", size-base)}, dotu)
					_ = c.SendRaw(att)
					if probe == "exact" {
						if rp, err := c.WaitTag(1, W); err != nil || rp.Msg == nil {
							res.Violate("C12;announced-not-enforced;exact-size-refused", fmt.Sprintf("after Tversions %v the server announced msize %d, but a frame of exactly that size was not processed", seq, M), det)
						}
					} else if !c.WaitClosed(3 * time.Second) {
						res.Violate("C12;announced-not-enforced;oversize-kept", fmt.Sprintf("after Tversions %v the server announced msize %d, but a frame one byte larger did not drop the connection", seq, M), det)
					}
				case "read":
					c.Rpc(&wire.Msg{Type: wire.Tattach, Tag: 1, Fid: 1, Afid: wire.NOFID, Uname: "root", Nuname: 0}, W)
					c.Rpc(&wire.Msg{Type: wire.Twalk, Tag: 2, Fid: 1, Newfid: 2, Wname: []string{"f"}}, W)
					c.Rpc(&wire.Msg{Type: wire.Topen, Tag: 3, Fid: 2, Mode: 0}, W)
					rp, err := c.Rpc(&wire.Msg{Type: wire.Tread, Tag: 4, Fid: 2, Offset: 0, Count: M - wire.IOHDRSZ}, W)
					if err != nil || rp.Msg == nil || rp.Msg.Type != wire.Rread {
						res.Violate("C12;announced-not-enforced;read-within-limit-refused", fmt.Sprintf("after Tversions %v the server announced msize %d, but a Tread of msize-IOHDRSZ bytes was answered %v", seq, M, rp), det)
					} else if len(rp.Raw) > int(M) {
						res.Violate("C12;oversize-frame;after-renegotiation", fmt.Sprintf("reply of %d bytes exceeds the announced msize %d", len(rp.Raw), M), det)
					}
				}
				c.Hangup()
				res.Sig(fmt.Sprintf("announced-enforced|%v|%d|%s", dotu, si, probe))
			}
		}
	}
	return res
}

// c12LowerWhileExecuting: large reads are executing (held in the implementation) — alone under their tags, and as the
// oldest member of a group of requests sharing one tag — when a Tversion lowers msize. Whatever happens to those
// requests afterwards, nothing longer than the new msize comes out of the server after the Rversion.
func c12LowerWhileExecuting(ctx *core.Ctx) core.Result {
	var res core.Result
	for round := 0; round < 8 && len(res.Violations) == 0; round++ {
		ctx.Beat()
		dotu := round%2 == 0
		ver := "9P2000"
		if dotu {
			ver = "9P2000.u"
		}
		s := NewSess(Config{Dotu: dotu, Msize: 8192, Maxpend: []int{0, 4}[(round/2)%2]})
		c := s.Dial()
		if r, err := c.Version(8192, ver, W); err != nil || r.Msg == nil || r.Msg.Type != wire.Rversion {
			res.Inconclusive = "c12 lower: version failed"
			return res
		}
		c.Rpc(&wire.Msg{Type: wire.Tattach, Tag: 1, Fid: 1, Afid: wire.NOFID, Uname: "root", Nuname: 0}, W)
		c.Rpc(&wire.Msg{Type: wire.Twalk, Tag: 2, Fid: 1, Newfid: 2, Wname: []string{"f"}}, W)
		if o, err := c.Rpc(&wire.Msg{Type: wire.Topen, Tag: 3, Fid: 2, Mode: 0}, W); err != nil || o.Msg == nil || o.Msg.Type != wire.Ropen {
			res.Inconclusive = "c12 lower: open failed"
			return res
		}
		// tag 10: alone; tag 11: oldest of a group of three; tag 12: oldest of a group of two
		groups := map[uint16]int{10: 1, 11: 3, 12: 2}
		var gates []chan struct{}
		for _, tg := range []uint16{10, 11, 12} {
			p := script.NewPlan()
			p.Gate, p.Entered = make(chan struct{}), make(chan struct{})
			gates = append(gates, p.Gate)
			s.Ops.SetPlan(c.ID, tg, p)
			_ = c.Send(&wire.Msg{Type: wire.Tread, Tag: tg, Fid: 2, Offset: uint64(tg), Count: 6000 + uint32(tg)})
			select {
			case <-p.Entered:
			case <-time.After(W):
				res.Inconclusive = "c12 lower: held read never started"
				return res
			}
			for k := 1; k < groups[tg]; k++ {
				_ = c.Send(&wire.Msg{Type: wire.Tstat, Tag: tg, Fid: 1})
			}
		}
		s.Ctl.WaitPassed("recv.dispatch", c.ID, 11, 3, 2*time.Second)
		s.Ctl.WaitPassed("recv.dispatch", c.ID, 12, 2, 2*time.Second)
		newM := []uint32{1024, 256, 4096, 600}[round%4]
		before := len(c.All())
		rv, err := c.Version(newM, ver, W)
		if err != nil || rv.Msg == nil || rv.Msg.Type != wire.Rversion {
			res.Inconclusive = "c12 lower: second version failed"
			return res
		}
		for i := len(gates) - 1; i >= 0; i-- {
			close(gates[i])
		}
		c.Quiesce(W)
		time.Sleep(5 * time.Millisecond)
		// a request of the new session, so that everything before it has been flushed out
		if cl, err := c.Rpc(&wire.Msg{Type: wire.Tclunk, Tag: 20, Fid: 77}, W); err != nil || cl.Msg == nil {
			res.Violate("C12;lower-while-executing;session-dead", fmt.Sprintf("after lowering msize to %d with reads executing the connection answers nothing", newM), nil)
		}
		res.Evals++
		seenVersion := false
		for _, r := range c.All()[before:] {
			if r.Msg != nil && r.Msg.Type == wire.Rversion {
				seenVersion = true
				continue
			}
			if seenVersion && len(r.Raw) > int(rv.Msg.Msize) {
				what := "an undecodable frame"
				if r.Msg != nil {
					what = fmt.Sprintf("%s tag %d", wire.TypeName(r.Msg.Type), r.Msg.Tag)
				}
				res.Violate("C12;oversize-frame;after-lowering-with-requests-executing", fmt.Sprintf("after the Rversion announcing msize %d the server sent %s of %d bytes (reads of 6 KB were executing at the Tversion, some with later requests waiting under their tag)", rv.Msg.Msize, what, len(r.Raw)),
					map[string]interface{}{"dotu": dotu, "new_msize": newM, "round": round})
				break
			}
		}
		res.Sig(fmt.Sprintf("lower-while-executing|%v|%d|mp=%d", dotu, newM, (round/2)%2))
		c.Hangup()
	}
	res.Sample(map[string]interface{}{"scenario": "Tversion lowering msize while 6 KB reads execute, alone and at the head of shared-tag groups"})
	return res
}
