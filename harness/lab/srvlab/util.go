package srvlab

import (
	"time"

	"verif/script"
)

func waitFor(d time.Duration, pred func() bool) bool {
	deadline := time.Now().Add(d)
	for !pred() {
		if time.Now().After(deadline) {
			return false
		}
		time.Sleep(100 * time.Microsecond)
	}
	return true
}

// settle waits until the event log stops growing for a moment.
func settle(l *script.Log) {
	last := l.Len()
	stable := 0
	for i := 0; i < 2000 && stable < 5; i++ {
		time.Sleep(200 * time.Microsecond)
		if n := l.Len(); n == last {
			stable++
		} else {
			last, stable = n, 0
		}
	}
}
