package srvlab

import (
	"fmt"
	"os"
	"path/filepath"
	"regexp"
	"runtime"
	"runtime/debug"
	"sort"
	"strings"
	"syscall"
	"time"

	"verif/core"
	"verif/memconn"
	"verif/model"
	"verif/sched"
	"verif/script"
	"verif/wire"
)

func init() {
	core.Register(&core.Engine{
		Property: "C11",
		Level:    "fault_enumeration",
		Rule: "disconnect points enumerated over generated histories: a victim connection runs a seeded history (fids attached, walked, opened, created, clunked) and is cut after every prefix length, " +
			"with 0..4 requests of mixed types (read, stat, clunk, remove, walk to a new fid, attach, open) held inside the implementation at that moment and released afterwards in every order " +
			"(all permutations up to 3, seeded beyond); cut kinds: client closes, client resets, the server's write fails, disconnect in the middle of a frame, client stops reading (the server's writer blocks with answered requests queued behind it) and then goes away; Maxpend in {0, 4}; a bystander " +
			"connection with open fids stays up. Oracle: exactly one ConnClosed for the victim, every fid object of the victim reported destroyed exactly once, no goroutine with a go9p frame created " +
			"for the victim remains once the held requests returned (stable across two dumps), bystander undisturbed. A Unix-file-server variant checks /proc/self/fd for descriptors left in the tree. " +
			"distinct = (history seed, prefix length, held request kinds, release order, cut kind, Maxpend)",
		Assumptions: []string{
			"bounded progress: a goroutine still parked in the same library frame in two dumps after the connection's close was observed is taken as leaked",
			"goroutines are attributed to the victim by creation after the baseline dump taken before it connected",
		},
		Cases:       c11Cases,
		MinDistinct: 100,
		Jobs:        8,
	})
}

var c11HeldKinds = []string{"read", "stat", "clunk", "remove", "walknew", "attach", "open", "create"}
var c11Cuts = []string{"close", "reset", "writefail", "midframe", "unread", "unread+tversion", "badframe-undersize", "badframe-oversize", "badframe-type"}

func c11Cases(tier string, seed int64) []core.Case {
	var cases []core.Case
	nh, steps := 8, 10
	if tier == "thorough" {
		nh, steps = 60, 14
	}
	for hi := 0; hi < nh; hi++ {
		for _, mp := range []int{0, 4} {
			hi, mp := hi, mp
			cases = append(cases, core.Case{ID: fmt.Sprintf("hist/%d/maxpend=%d", hi, mp), Run: func(ctx *core.Ctx) core.Result {
				return c11History(ctx, ctx.Seed, hi, mp, steps)
			}})
		}
	}
	// a fid number clunked under an executing request and bound again before the disconnect: the disconnect still
	// reports every fid object destroyed exactly once (the scenario is C04's; here only the teardown is judged)
	for _, dotu := range []bool{true, false} {
		dotu := dotu
		cases = append(cases, core.Case{ID: fmt.Sprintf("fid-number-rebound-under-a-request/dotu=%v", dotu), Run: func(ctx *core.Ctx) core.Result { return runInvalidatedUnder("C11", dotu) }})
	}
	for _, ifaces := range []string{"conn-only", "fid-only", "req-only"} {
		ifaces := ifaces
		cases = append(cases, core.Case{ID: "optional-interfaces/" + ifaces, Run: func(ctx *core.Ctx) core.Result { return c11Subset(ctx, ifaces) }})
	}
	cases = append(cases, core.Case{ID: "destroy-waits-for-operation", Run: c11DestroyWaitsForOperation})
	for _, mp := range []int{0, 4} {
		mp := mp
		cases = append(cases, core.Case{ID: fmt.Sprintf("queued-at-disconnect/maxpend=%d", mp), Run: func(ctx *core.Ctx) core.Result { return c11QueuedAtDisconnect(ctx, "C11", mp) }})
	}
	for _, where := range []string{"fiddestroy", "connclosed"} {
		where := where
		cases = append(cases, core.Case{ID: "slow-teardown/" + where, Run: func(ctx *core.Ctx) core.Result { return c11SlowTeardown(ctx, where) }})
	}
	for _, dotu := range []bool{true, false} {
		dotu := dotu
		cases = append(cases, core.Case{ID: fmt.Sprintf("ufs/dotu=%v", dotu), Run: func(ctx *core.Ctx) core.Result { return c11Ufs(ctx, dotu) }})
	}
	return cases
}

// ---- goroutine dumps

type gor struct {
	id    int
	state string
	text  string
}

var reGor = regexp.MustCompile(`(?m)^goroutine (\d+) \[([^\]]*)\]:`)

func libGoroutines() map[int]gor {
	buf := make([]byte, 1<<20)
	for {
		n := runtime.Stack(buf, true)
		if n < len(buf) {
			buf = buf[:n]
			break
		}
		buf = make([]byte, 2*len(buf))
	}
	out := map[int]gor{}
	for _, blk := range strings.Split(string(buf), "\n\n") {
		m := reGor.FindStringSubmatch(blk)
		if m == nil {
			continue
		}
		if !strings.Contains(blk, "github.com/rminnich/go9p.") || strings.Contains(blk, "go9p.(*Logger).doLog") {
			continue
		}
		var id int
		fmt.Sscanf(m[1], "%d", &id)
		st := m[2]
		if i := strings.Index(st, ","); i >= 0 {
			st = st[:i] // drop "N minutes"
		}
		out[id] = gor{id: id, state: st, text: blk}
	}
	return out
}

// leaked waits until no library goroutine created after the baseline remains; if some do, it confirms
// with a second dump that they are parked in the same place (a deadlock is stable).
func leaked(base map[int]gor, d time.Duration) (bool, string, bool) {
	deadline := time.Now().Add(d)
	var cur map[int]gor
	for {
		cur = libGoroutines()
		n := 0
		for id := range cur {
			if _, ok := base[id]; !ok {
				n++
			}
		}
		if n == 0 {
			return false, "", true
		}
		if time.Now().After(deadline) {
			break
		}
		time.Sleep(200 * time.Microsecond)
	}
	time.Sleep(300 * time.Millisecond)
	again := libGoroutines()
	var dump []string
	stable := true
	for id, g := range cur {
		if _, ok := base[id]; ok {
			continue
		}
		g2, still := again[id]
		if !still {
			stable = false
			continue
		}
		if firstLibFrame(g.text) != firstLibFrame(g2.text) || g.state != g2.state {
			stable = false
		}
		dump = append(dump, g2.text)
	}
	sort.Strings(dump)
	return len(dump) > 0, strings.Join(dump, "\n\n"), stable
}

func firstLibFrame(text string) string {
	for _, l := range strings.Split(text, "\n") {
		if strings.HasPrefix(l, "github.com/rminnich/go9p.") {
			if i := strings.LastIndex(l, "("); i > 0 {
				return l[:i]
			}
			return l
		}
	}
	return ""
}

// ---- the scripted-implementation scenarios

func c11History(ctx *core.Ctx, seed int64, hi, maxpend, steps int) core.Result {
	var res core.Result
	r0 := core.NewRand(seed, fmt.Sprintf("c11/%d", hi))
	dotu := r0.Bool()
	cutIdx := 0
	for cut := 0; cut <= steps; cut++ {
		for held := 0; held <= 4; held++ {
			if len(res.Violations) > 2 {
				return res
			}
			ctx.Beat()
			cutKind := c11Cuts[cutIdx%len(c11Cuts)]
			cutIdx++
			c11One(&res, seed, hi, maxpend, dotu, cut, held, cutKind)
		}
	}
	return res
}

func c11One(res *core.Result, seed int64, hi, maxpend int, dotu bool, cut, nheld int, cutKind string) {
	cfg := Config{Dotu: dotu, Msize: 8192, Maxpend: maxpend, TracePoints: false, ProcOps: hi%3 == 2}
	var scratch core.Result
	h := NewHist(cfg, 1, &scratch, "C11") // connection 1 = bystander
	s := h.S
	by := h.Conns[0]
	res.Evals++
	r := core.NewRand(seed, fmt.Sprintf("c11/%d", hi)) // the same history for every cut of this case
	r.Bool()
	fail := func(sig, what string, extra interface{}) {
		res.Violate("C11;"+sig, fmt.Sprintf("%s [history %d, cut after %d steps, %d held, cut=%s, maxpend=%d, dotu=%v]", what, hi, cut, nheld, cutKind, maxpend, dotu),
			map[string]interface{}{"history_tail": h.tail(), "extra": extra})
	}
	if !h.Negotiate(8192) {
		res.Inconclusive = "c11: version failed"
		return
	}
	// bystander: root, a walked file, opened
	u := uidFor(dotu, 1002)
	h.Do(attachStep(0, wire.NOFID, dotu, u, nil))
	h.Do(&Step{Msg: &wire.Msg{Type: wire.Twalk, Fid: 0, Newfid: 1, Wname: []string{"fby"}}})
	h.Do(&Step{Msg: &wire.Msg{Type: wire.Topen, Fid: 1, Mode: 0}})
	byToks := map[int64]bool{}
	for _, f := range h.Tabs[0].Fids {
		byToks[f.Tok] = true
	}
	if h.Fatal {
		res.Inconclusive = "c11: bystander setup failed"
		return
	}
	base := libGoroutines()

	// ---- the victim
	v := s.Dial()
	h.Conns = append(h.Conns, v)
	vt := len(h.Conns) - 1
	tab := model.NewFidTable(dotu, 8192, false)
	h.Tabs = append(h.Tabs, tab)
	ver := "9P2000"
	if dotu {
		ver = "9P2000.u"
	}
	if rp, err := v.Version(8192, ver, W); err != nil || rp.Msg == nil {
		res.Inconclusive = "c11: victim version failed"
		return
	}
	uv := uidFor(dotu, 1001)
	// history prefix (generated by the same seed for every cut point): fids 0..3 in assorted states
	type gen func(i int) *Step
	mk := []gen{
		func(i int) *Step { return attachStep(0, wire.NOFID, dotu, uv, nil) },
		func(i int) *Step {
			return &Step{Msg: &wire.Msg{Type: wire.Twalk, Fid: 0, Newfid: 1, Wname: []string{"d1"}}}
		},
		func(i int) *Step {
			return &Step{Msg: &wire.Msg{Type: wire.Twalk, Fid: 0, Newfid: 2, Wname: []string{"f2"}}}
		},
		func(i int) *Step { return &Step{Msg: &wire.Msg{Type: wire.Topen, Fid: 2, Mode: 2}} },
		func(i int) *Step {
			return &Step{Msg: &wire.Msg{Type: wire.Tcreate, Fid: 1, Name: "made", Perm: 0o644, Mode: 1}}
		},
		func(i int) *Step {
			return &Step{Msg: &wire.Msg{Type: wire.Twalk, Fid: 0, Newfid: 3, Wname: []string{"d1", "f9"}}}
		},
		func(i int) *Step { return &Step{Msg: &wire.Msg{Type: wire.Tclunk, Fid: 2}} },
		func(i int) *Step { return attachStep(2, wire.NOFID, dotu, uv, planFile()) },
		func(i int) *Step { return &Step{Msg: &wire.Msg{Type: wire.Tremove, Fid: 3}} },
		func(i int) *Step {
			return &Step{Msg: &wire.Msg{Type: wire.Twalk, Fid: 0, Newfid: 3, Wname: []string{}}}
		},
		func(i int) *Step { return &Step{Msg: &wire.Msg{Type: wire.Topen, Fid: 3, Mode: 0}} },
		func(i int) *Step { return &Step{Msg: &wire.Msg{Type: wire.Tread, Fid: 3, Offset: 0, Count: 50}} },
		func(i int) *Step {
			return &Step{Msg: &wire.Msg{Type: wire.Twalk, Fid: 0, Newfid: 4, Wname: []string{"d1", "x"}}, Plan: walkPlan(1)}
		},
		func(i int) *Step { return &Step{Msg: &wire.Msg{Type: wire.Tclunk, Fid: 1}} },
	}
	order := r.Perm(len(mk) - 1)
	for i := 0; i < cut && i < len(mk); i++ {
		var st *Step
		if i == 0 {
			st = mk[0](0)
		} else {
			st = mk[1+order[(i-1)%len(order)]](i)
		}
		st.Conn = vt
		h.Do(st)
	}
	if h.Fatal {
		res.Inconclusive = "c11: victim history failed"
		return
	}
	// ---- requests held in the implementation at the cut
	type heldReq struct {
		kind string
		m    *wire.Msg
		plan *script.Plan
	}
	var helds []heldReq
	tag := uint16(5000)
	freeFid := uint32(20)
	usedFids := map[uint32]bool{}
	for k := 0; k < nheld; k++ {
		kind := c11HeldKinds[(k+cut+hi)%len(c11HeldKinds)]
		// a valid victim fid to aim at (if any)
		var target uint32 = wire.NOFID
		for _, n := range []uint32{0, 1, 2, 3} {
			if tab.Fids[n] != nil && !usedFids[n] {
				target = n
				break
			}
		}
		var m *wire.Msg
		switch kind {
		case "attach":
			m = &wire.Msg{Type: wire.Tattach, Fid: freeFid, Afid: wire.NOFID, Uname: uname(uv), Nuname: uint32(uv), Aname: fmt.Sprintf("held%d", k)}
			freeFid++
		case "walknew":
			if tab.Fids[0] == nil || tab.Fids[0].Open {
				continue
			}
			m = &wire.Msg{Type: wire.Twalk, Fid: 0, Newfid: freeFid, Wname: []string{"d1"}}
			freeFid++
		default:
			if target == wire.NOFID {
				continue
			}
			switch kind {
			case "read":
				m = &wire.Msg{Type: wire.Tread, Fid: target, Offset: 1, Count: 10}
			case "stat":
				m = &wire.Msg{Type: wire.Tstat, Fid: target}
			case "clunk":
				m = &wire.Msg{Type: wire.Tclunk, Fid: target}
			case "remove":
				m = &wire.Msg{Type: wire.Tremove, Fid: target}
			case "open":
				if tab.Fids[target].Open {
					m = &wire.Msg{Type: wire.Tstat, Fid: target}
				} else {
					m = &wire.Msg{Type: wire.Topen, Fid: target, Mode: 0}
				}
			case "create":
				if tab.Fids[target].Open || !tab.Fids[target].Dir() {
					m = &wire.Msg{Type: wire.Tstat, Fid: target}
				} else {
					m = &wire.Msg{Type: wire.Tcreate, Fid: target, Name: "heldcreate", Perm: 0o644, Mode: 1}
				}
			}
		}
		usedFids[m.Fid] = true
		tag++
		m.Tag = tag
		p := script.NewPlan()
		p.Gate = make(chan struct{})
		p.Entered = make(chan struct{})
		s.Ops.SetPlan(v.ID, m.Tag, p)
		helds = append(helds, heldReq{kind, m, p})
		_ = v.Send(m)
		select {
		case <-p.Entered:
		case <-time.After(W):
			res.Inconclusive = "c11: a held request never started"
			return
		}
	}
	// ---- the cut
	switch cutKind {
	case "close":
		v.Hangup()
	case "reset":
		v.Cli.Reset()
	case "writefail":
		// the next byte the server writes fails; a request makes it write
		v.SrvE.FailWriteAfter(0, memconn.ErrReset)
		tag++
		_ = v.Send(&wire.Msg{Type: wire.Tstat, Tag: tag, Fid: 99})
		v.WaitClosed(2 * time.Second)
		v.Hangup()
	case "midframe":
		_ = v.SendRaw([]byte{23, 0, 0, 0, wire.Tread, 1, 2, 0, 0})
		time.Sleep(200 * time.Microsecond)
		v.Hangup()
	case "badframe-undersize", "badframe-oversize", "badframe-type":
		// the connection ends because the server itself gives it up: a frame that announces less than a header, more
		// than msize, or carries an undefined type; the client goes away afterwards
		var g []byte
		switch cutKind {
		case "badframe-undersize":
			g = []byte{byte(cut % 7), 0, 0, 0, wire.Tclunk, 1, 0, 0, 0, 0, 0}
		case "badframe-oversize":
			g = []byte{0, 0, 0, 0x10, wire.Twrite, 1, 0, 9, 9, 9, 9}
		default:
			g = []byte{11, 0, 0, 0, 99, 1, 0, 0, 0, 0, 0}
		}
		_ = v.SendRaw(g)
		v.WaitClosed(2 * time.Second)
		v.Hangup()
	case "unread":
		// the client stops reading: the server's writer blocks in its transport write with answered requests
		// queueing behind it; then the client goes away
		v.PauseReads(true)
		v.Cli.Cap = 40
		var ms []*wire.Msg
		for i := 0; i < 8; i++ {
			tag++
			ms = append(ms, &wire.Msg{Type: wire.Tstat, Tag: tag, Fid: 99}) // answered by the framework (unknown fid)
		}
		_ = v.Send(ms...)
		waitFor(time.Second, func() bool { return v.Cli.Queued() >= 40 })
		time.Sleep(300 * time.Microsecond)
		v.Hangup()
		v.PauseReads(false)
	case "unread+tversion":
		// as above, and a Tversion (a session reset, handled on the connection's reader itself) is waiting behind the
		// unread replies when the client goes away
		v.PauseReads(true)
		v.Cli.Cap = 40
		var ms []*wire.Msg
		for i := 0; i < 4; i++ {
			tag++
			ms = append(ms, &wire.Msg{Type: wire.Tstat, Tag: tag, Fid: 99})
		}
		_ = v.Send(ms...)
		waitFor(time.Second, func() bool { return v.Cli.Queued() >= 40 }) // the writer is stuck on an unread reply
		_ = v.Send(&wire.Msg{Type: wire.Tversion, Tag: wire.NOTAG, Msize: 8192, Version: "9P2000"})
		waitFor(time.Second, func() bool { return v.SrvE.Queued() == 0 })
		time.Sleep(300 * time.Microsecond)
		v.Hangup()
		v.PauseReads(false)
	}
	// release the held requests: every order over the cases of one history (permutation index from the cut point)
	if len(helds) > 0 {
		perms := permutations(len(helds))
		ord := perms[(cut*5+nheld)%len(perms)]
		if cut%2 == 0 {
			// sometimes only after the close processing finished, sometimes racing with it
			s.Ctl.WaitPassed("close.exit", v.ID, sched.AnyTag, 1, 2*time.Second)
		}
		for _, i := range ord {
			close(helds[i].plan.Gate)
		}
	}
	// ---- judge
	closedOK := s.Ctl.WaitPassed("close.exit", v.ID, sched.AnyTag, 1, W)
	if !closedOK {
		_, dump, stable := leaked(base, time.Second)
		if stable {
			fail("close-never-finished;"+cutKind, "the connection's close processing did not finish", dump)
		} else {
			res.Inconclusive = "c11: close processing not finished within the watchdog"
		}
		return
	}
	// every held callback has returned
	waitFor(3*time.Second, func() bool {
		n := 0
		for _, e := range s.Log.Snapshot(0) {
			if e.Kind == "exit" && e.Conn == v.ID && e.Tag >= 5001 {
				n++
			}
		}
		return n >= len(helds)
	})
	isLeak, dump, stable := leaked(base, 4*time.Second)
	kinds := ""
	for _, hq := range helds {
		kinds += hq.kind + ","
	}
	if isLeak {
		if stable {
			fail("goroutine-leak;"+cutKind+";"+firstLibFrame(dump), "goroutines serving the disconnected connection never end", dump)
		} else {
			res.Inconclusive = "c11: goroutines still running after the watchdog, not stable"
		}
	}
	settle(s.Log)
	nclosed, nopen := 0, 0
	destroyed := map[int64]int{}
	shown := map[int64]bool{}
	for _, e := range s.Log.Snapshot(0) {
		switch {
		case e.Kind == "connclosed" && e.Conn == v.ID:
			nclosed++
		case e.Kind == "connclosed" && e.Conn == by.ID:
			fail("bystander-closed", "the bystander connection was reported closed", nil)
		case e.Kind == "connopen" && e.Conn == v.ID:
			nopen++
		case e.Kind == "destroy":
			destroyed[e.Fid]++
		case e.Kind == "op" && e.Conn == v.ID:
			for _, t := range []int64{e.Fid, e.Newfid, e.Afid} {
				if t != 0 {
					shown[t] = true
				}
			}
		}
	}
	if nclosed != 1 {
		fail(fmt.Sprintf("connclosed-count;%d;%s", nclosed, cutKind), fmt.Sprintf("ConnClosed reported %d times for the disconnected connection", nclosed), nil)
	}
	for tok := range shown {
		if n := destroyed[tok]; n != 1 {
			fail(fmt.Sprintf("destroy-count;n=%d;held=%s", n, heldOf(tok, s, v.ID)), fmt.Sprintf("fid object %d of the disconnected connection reported destroyed %d times (held: %s)", tok, n, kinds), nil)
		}
	}
	for tok := range byToks {
		if destroyed[tok] != 0 {
			fail("bystander-fid-destroyed", "a fid of the bystander connection was reported destroyed", nil)
		}
	}
	// bystander still served, same answers
	h.Fatal = false
	before := len(scratch.Violations)
	h.Prop = "C04"
	for _, n := range []uint32{0, 1} {
		st := &Step{Conn: 0, Msg: &wire.Msg{Type: wire.Tstat, Fid: n}}
		rp := h.Do(st)
		f := h.Tabs[0].Fids[n]
		if rp == nil || rp.Type != wire.Rstat || (f != nil && rp.Stat.Name != script.StatName(f.Tok, f.User)) {
			fail("bystander-disturbed", fmt.Sprintf("bystander probe of fid %d answered %v", n, rp), nil)
		}
	}
	if len(scratch.Violations) > before {
		fail("bystander-disturbed", "bystander request judged wrong by the fid-table model: "+scratch.Violations[before].What, nil)
	}
	res.Sig(fmt.Sprintf("h%d|cut=%d|held=%s|%s|mp=%d", hi, cut, kinds, cutKind, maxpend))
	res.Count("fid_objects_checked", int64(len(shown)))
	res.Count("goroutine_dumps", 2)
	if cut == 3 && nheld == 2 {
		res.Sample(map[string]interface{}{"history": hi, "cut_after_steps": cut, "held": kinds, "cut_kind": cutKind, "maxpend": maxpend, "fid_objects": len(shown), "victim_history": h.tail()})
	}
	by.Hangup()
}

func heldOf(tok int64, s *Sess, conn int) string {
	for _, e := range s.Log.Snapshot(0) {
		if e.Kind == "op" && e.Conn == conn && e.Tag >= 5001 && (e.Fid == tok || e.Newfid == tok || e.Afid == tok) {
			return e.Op
		}
	}
	return "-"
}

// ---- Unix file server: descriptors

func fdsUnder(root string) []string {
	var out []string
	ents, _ := os.ReadDir("/proc/self/fd")
	for _, e := range ents {
		if t, err := os.Readlink(filepath.Join("/proc/self/fd", e.Name())); err == nil && strings.HasPrefix(t, root) {
			out = append(out, t)
		}
	}
	sort.Strings(out)
	return out
}

func c11Ufs(ctx *core.Ctx, dotu bool) core.Result {
	var res core.Result
	root := filepath.Join(ctx.Scratch, fmt.Sprintf("c11ufs-%d", ctx.Index))
	_ = os.RemoveAll(root)
	if err := mkTree(root); err != nil {
		res.Inconclusive = err.Error()
		return res
	}
	defer os.RemoveAll(root)
	s := NewUfsSess(root, dotu, 8192)
	ver := "9P2000"
	if dotu {
		ver = "9P2000.u"
	}
	open := func(c *CConn, fid uint32, names []string, mode uint8, tag uint16) bool {
		r1, e1 := c.Rpc(&wire.Msg{Type: wire.Twalk, Tag: tag, Fid: 0, Newfid: fid, Wname: names}, W)
		if e1 != nil || r1.Msg == nil || r1.Msg.Type != wire.Rwalk {
			return false
		}
		r2, e2 := c.Rpc(&wire.Msg{Type: wire.Topen, Tag: tag + 1, Fid: fid, Mode: mode}, W)
		return e2 == nil && r2.Msg != nil && r2.Msg.Type == wire.Ropen
	}
	attach := func(c *CConn) bool {
		if r, err := c.Version(8192, ver, W); err != nil || r.Msg == nil {
			return false
		}
		r, err := c.Rpc(&wire.Msg{Type: wire.Tattach, Tag: 1, Fid: 0, Afid: wire.NOFID, Uname: "root", Nuname: 0}, W)
		return err == nil && r.Msg != nil && r.Msg.Type == wire.Rattach
	}
	by := s.Dial()
	if !attach(by) || !open(by, 1, []string{"file03xxxxxxxxx"}, 0, 10) {
		res.Inconclusive = "c11ufs: bystander setup failed"
		return res
	}
	// a leaked *os.File that has become unreachable is closed by its finalizer at the next collection, which would
	// hide the leak from the descriptor table: no collections while descriptors are being counted
	defer debug.SetGCPercent(debug.SetGCPercent(-1))
	stackBuf := make([]byte, 4<<20)
	baseFds := fdsUnder(root)
	base := libGoroutines()
	files := []string{"file01xxx", "file02xxxxxx", "file05xxxxxxxxxxxxxxx", "file07xxxxxxxxxxxxxxxxxxxxx"}
	for nopen := 0; nopen <= 6; nopen++ {
		for _, cutKind := range []string{"close", "reset", "midframe", "pending-read", "open-blocked", "open-queued", "link-create-waiting"} {
			if (cutKind == "open-blocked" || cutKind == "open-queued" || cutKind == "link-create-waiting") && nopen > 2 {
				continue
			}
			if cutKind == "link-create-waiting" && !dotu {
				continue // (hard links are made through the 9P2000.u extension)
			}
			res.Evals++
			v := s.Dial()
			if !attach(v) {
				res.Inconclusive = "c11ufs: victim attach failed"
				return res
			}
			for i := 0; i < nopen; i++ {
				names := []string{files[i%len(files)]}
				mode := uint8(i % 3)
				if i == 4 {
					names, mode = []string{"listing"}, 0
				}
				if i == 5 {
					names, mode = []string{"sub"}, 0
				}
				if !open(v, uint32(10+i), names, mode, uint16(20+2*i)) {
					res.Inconclusive = "c11ufs: victim open failed"
					return res
				}
				if i >= 4 {
					// a directory is listed, and listed again from the start a few times (every listing from offset 0
					// takes a fresh look at the directory)
					for again := 0; again < 1+nopen%3; again++ {
						off := uint64(0)
						for k := 0; k < 1+again; k++ {
							rp, err := v.Rpc(&wire.Msg{Type: wire.Tread, Tag: 90, Fid: uint32(10 + i), Offset: off, Count: 2000}, W)
							if err != nil || rp.Msg == nil || rp.Msg.Type != wire.Rread || len(rp.Msg.Data) == 0 {
								break
							}
							off += uint64(len(rp.Msg.Data))
						}
					}
				}
			}
			if nopen > 0 {
				// (more descriptors than open fids are not judged here: what matters is what is left after the disconnect)
				if got := len(fdsUnder(root)) - len(baseFds); got < nopen {
					res.Inconclusive = fmt.Sprintf("c11ufs: expected %d descriptors for the victim, see %d", nopen, got)
					return res
				}
			}
			switch cutKind {
			case "close":
				v.Hangup()
			case "reset":
				v.Cli.Reset()
			case "midframe":
				_ = v.SendRaw([]byte{23, 0, 0, 0, wire.Tread, 1, 2})
				v.Hangup()
			case "pending-read":
				// requests in flight at the disconnect
				if nopen > 0 {
					_ = v.Send(&wire.Msg{Type: wire.Tread, Tag: 95, Fid: 10, Offset: 0, Count: 100}, &wire.Msg{Type: wire.Tstat, Tag: 96, Fid: 10}, &wire.Msg{Type: wire.Tclunk, Tag: 97, Fid: 10})
				}
				v.Hangup()
			case "open-blocked", "open-queued", "link-create-waiting":
				// a Topen that is still inside the file server at the disconnect: open(2) of a named pipe blocks until
				// a writer shows up, which happens only after the connection's close processing is over
				fifo := filepath.Join(root, fmt.Sprintf("pipe-%d", nopen))
				_ = os.Remove(fifo)
				if err := syscall.Mkfifo(fifo, 0o600); err != nil {
					res.Inconclusive = "c11ufs: mkfifo: " + err.Error()
					return res
				}
				r1, e1 := v.Rpc(&wire.Msg{Type: wire.Twalk, Tag: 80, Fid: 0, Newfid: 40, Wname: []string{filepath.Base(fifo)}}, W)
				if e1 != nil || r1.Msg == nil || r1.Msg.Type != wire.Rwalk {
					res.Inconclusive = "c11ufs: walk to the named pipe failed"
					return res
				}
				if cutKind == "open-queued" {
					// … and, under the same tag, the Topen of a regular file (or the Tcreate of one): it waits for the
					// first and is started only after the disconnect
					r2, e2 := v.Rpc(&wire.Msg{Type: wire.Twalk, Tag: 82, Fid: 0, Newfid: 41, Wname: []string{[]string{files[0], "sub", "sub"}[nopen%3]}}, W)
					if e2 != nil || r2.Msg == nil || r2.Msg.Type != wire.Rwalk {
						res.Inconclusive = "c11ufs: walk for the queued request failed"
						return res
					}
					if nopen == 2 {
						if o, e := v.Rpc(&wire.Msg{Type: wire.Topen, Tag: 83, Fid: 41, Mode: 0}, W); e != nil || o.Msg == nil || o.Msg.Type != wire.Ropen {
							res.Inconclusive = "c11ufs: open of the directory for the queued read failed"
							return res
						}
					}
				}
				_ = v.Send(&wire.Msg{Type: wire.Topen, Tag: 81, Fid: 40, Mode: 0})
				if cutKind == "open-queued" {
					switch nopen {
					case 0:
						_ = v.Send(&wire.Msg{Type: wire.Topen, Tag: 81, Fid: 41, Mode: 0})
					case 1:
						_ = v.Send(&wire.Msg{Type: wire.Tcreate, Tag: 81, Fid: 41, Name: fmt.Sprintf("made-late-%d", nopen), Perm: 0o644, Mode: 1})
					default:
						// a directory that is open already, listed from the start (the listing takes a fresh look at it)
						_ = v.Send(&wire.Msg{Type: wire.Tread, Tag: 81, Fid: 41, Offset: 0, Count: 4000})
					}
					s.Ctl.WaitPassed("recv.dispatch", 0, 81, 2, 2*time.Second)
				}
				if cutKind == "link-create-waiting" {
					// a Tcreate of a hard link to the busy fid, issued on a directory fid: it is executing, and waits for the
					// fid it links; the directory fid itself is free when the connection closes
					r2, e2 := v.Rpc(&wire.Msg{Type: wire.Twalk, Tag: 82, Fid: 0, Newfid: 41, Wname: []string{"sub"}}, W)
					if e2 != nil || r2.Msg == nil || r2.Msg.Type != wire.Rwalk {
						res.Inconclusive = "c11ufs: walk for the link create failed"
						return res
					}
					waitFor(W, func() bool {
						n := runtime.Stack(stackBuf, true)
						return strings.Contains(string(stackBuf[:n]), "(*Ufs).Open")
					})
					_ = v.Send(&wire.Msg{Type: wire.Tcreate, Tag: 84, Fid: 41, Name: fmt.Sprintf("lnk-%d", nopen), Perm: 0x01000000 | 0o644, Mode: 0, Ext: "40"})
					waitFor(2*time.Second, func() bool {
						n := runtime.Stack(stackBuf, true)
						return strings.Contains(string(stackBuf[:n]), "(*Ufs).Create")
					})
					time.Sleep(2 * time.Millisecond)
				}
				inOpen := waitFor(W, func() bool {
					n := runtime.Stack(stackBuf, true)
					for _, g := range strings.Split(string(stackBuf[:n]), "\n\n") {
						if strings.Contains(g, "(*Ufs).Open") && strings.Contains(g, "syscall.") {
							return true
						}
					}
					return false
				})
				nclosed := s.Ctl.Passed("close.exit", 0, sched.AnyTag) // (connections of the Unix file server are not numbered)
				v.Hangup()
				closedOut := s.Ctl.WaitPassed("close.exit", 0, sched.AnyTag, nclosed+1, W)
				// now let the open return
				var wr *os.File
				waitFor(W, func() bool {
					f, err := os.OpenFile(fifo, os.O_WRONLY|syscall.O_NONBLOCK, 0)
					wr = f
					return err == nil
				})
				if wr != nil {
					_ = wr.Close()
				}
				if !inOpen || !closedOut || wr == nil {
					res.Count("open_blocked_not_arranged", 1)
				} else {
					res.Count("disconnects_during_blocked_open", 1)
				}
				defer os.Remove(fifo)
			}
			what := fmt.Sprintf("ufs dotu=%v, %d files open, cut=%s", dotu, nopen, cutKind)
			ctx.Beat()
			isLeak, dump, stable := leaked(base, 4*time.Second)
			if isLeak && stable {
				res.Violate("C11;ufs;goroutine-leak;"+cutKind+";"+firstLibFrame(dump), "goroutines serving the disconnected connection never end: "+what, dump)
			} else if isLeak {
				res.Inconclusive = "c11ufs: goroutines not settled"
			}
			var left []string
			waitFor(W, func() bool { left = fdsUnder(root); return len(left) <= len(baseFds) })
			if len(left) != len(baseFds) {
				res.Violate(fmt.Sprintf("C11;ufs;fd-leak;%s", cutKind), fmt.Sprintf("%d descriptors into the exported tree remain after the disconnect (%s): %v", len(left)-len(baseFds), what, left), nil)
				baseFds = left
			}
			r, err := by.Rpc(&wire.Msg{Type: wire.Tread, Tag: 50, Fid: 1, Offset: 0, Count: 10}, W)
			if err != nil || r.Msg == nil || r.Msg.Type != wire.Rread || string(r.Msg.Data) != "0123456789" {
				res.Violate("C11;ufs;bystander-disturbed", "the bystander's open file no longer reads: "+what, nil)
			}
			res.Sig(fmt.Sprintf("ufs|%v|%d|%s", dotu, nopen, cutKind))
			res.Count("fd_tables_inspected", 1)
		}
	}
	res.Sample(map[string]interface{}{"server": "ufs", "dotu": dotu, "open_files_at_cut": "0..6", "cuts": "close,reset,midframe,pending-read"})
	return res
}

// c11SlowTeardown: the implementation is slow inside the callbacks of a connection's close processing (ConnClosed,
// or FidDestroy of one of its fids: e.g. waiting for an operation that still uses the fid); meanwhile the bystander
// connection must be served and a new connection must be accepted ("no other connection is disturbed").
func c11SlowTeardown(ctx *core.Ctx, where string) core.Result { return slowTeardown(ctx, "C11", where) }

func slowTeardown(ctx *core.Ctx, prop, where string) core.Result {
	var res core.Result
	for round := 0; round < 6 && len(res.Violations) == 0; round++ {
		dotu := round%2 == 0
		s := NewSess(Config{Dotu: dotu, Msize: 8192, Maxpend: []int{0, 4}[round%2]})
		mk := func() (*CConn, bool) {
			c := s.Dial()
			ver := "9P2000"
			if dotu {
				ver = "9P2000.u"
			}
			if r, err := c.Version(8192, ver, W); err != nil || r.Msg == nil || r.Msg.Type != wire.Rversion {
				return c, false
			}
			r, err := c.Rpc(&wire.Msg{Type: wire.Tattach, Tag: 1, Fid: 1, Afid: wire.NOFID, Uname: "root", Nuname: 0}, W)
			return c, err == nil && r.Msg != nil && r.Msg.Type == wire.Rattach
		}
		by, ok1 := mk()
		v, ok2 := mk()
		if !ok1 || !ok2 {
			res.Inconclusive = "c11: setup failed"
			return res
		}
		seq0 := s.Log.Seq()
		// the victim owns a few fids; one of them is learned by token
		for i := 0; i < 1+round%3; i++ {
			v.Rpc(&wire.Msg{Type: wire.Twalk, Tag: uint16(10 + i), Fid: 1, Newfid: uint32(20 + i), Wname: []string{"d"}}, W)
		}
		v.Rpc(&wire.Msg{Type: wire.Tstat, Tag: 30, Fid: 20}, W)
		gate := make(chan struct{})
		switch where {
		case "fiddestroy":
			var tok int64
			for _, ev := range s.Log.Snapshot(seq0) {
				if ev.Kind == "op" && ev.Op == "Stat" && ev.Conn == v.ID {
					tok = ev.Fid
				}
			}
			if tok == 0 {
				res.Inconclusive = "c11: fid token not learned"
				return res
			}
			s.Ops.SetDestroyGate(tok, gate)
		case "connclosed":
			s.Ops.SetConnClosedGate(v.ID, gate)
		}
		seq1 := s.Log.Seq()
		v.Hangup()
		kind := map[string]string{"fiddestroy": "destroy", "connclosed": "connclosed"}[where]
		inside := waitFor(W, func() bool {
			for _, ev := range s.Log.Snapshot(seq1) {
				if ev.Kind == kind && (where == "fiddestroy" || ev.Conn == v.ID) {
					return true
				}
			}
			return false
		})
		res.Evals++
		if !inside {
			close(gate)
			res.Inconclusive = "c11: the close processing never reached " + where
			return res
		}
		det := map[string]interface{}{"teardown_blocked_in": where, "dotu": dotu, "round": round}
		// bystander traffic and a new connection while the teardown is stuck
		late := ""
		for i, m := range []*wire.Msg{{Type: wire.Tstat, Tag: 40, Fid: 1}, {Type: wire.Twalk, Tag: 41, Fid: 1, Newfid: 50, Wname: []string{"d"}}, {Type: wire.Tclunk, Tag: 42, Fid: 50}} {
			if r, err := by.Rpc(m, W); err != nil || r.Msg == nil {
				late = fmt.Sprintf("bystander request %d (%s)", i, wire.TypeName(m.Type))
				break
			}
		}
		newOK := make(chan bool, 1)
		go func() {
			c, ok := mk()
			c.Hangup()
			newOK <- ok
		}()
		fresh := false
		select {
		case fresh = <-newOK:
		case <-time.After(W):
		}
		close(gate)
		if late != "" || !fresh {
			// confirm it was a delay caused by the teardown (answered after the release), not a dead server
			after, _ := by.Rpc(&wire.Msg{Type: wire.Tstat, Tag: 43, Fid: 1}, W)
			if after != nil && after.Msg != nil {
				if late != "" {
					res.Violate(prop+";bystander-stalled;slow-"+where, late+" was not answered while another connection's close processing was inside the implementation's "+where, det)
				} else {
					res.Violate(prop+";new-connection-stalled;slow-"+where, "a new connection could not be set up while another connection's close processing was inside the implementation's "+where, det)
				}
			} else {
				res.Inconclusive = "c11: bystander dead after slow teardown"
			}
		}
		if !fresh {
			select {
			case <-newOK:
			case <-time.After(W):
			}
		}
		s.Ctl.WaitPassed("close.exit", v.ID, sched.AnyTag, 1, W)
		by.Hangup()
		res.Count("teardowns_held_inside_the_implementation", 1)
		res.Sig(fmt.Sprintf("slow-teardown|%s|%v|%d", where, dotu, round%3))
	}
	res.Sample(map[string]interface{}{"scenario": "bystander and new connection served while a disconnected connection's teardown is blocked in the implementation", "blocked_in": where})
	return res
}

// c11Subset: implementations that provide only some of the optional interfaces: one that wants to hear about
// connections but not about fids (ConnOps without SrvFidOps), one the other way round, one with neither. Whatever it
// asked for is reported exactly once per disconnect, with idle fids and with requests still executing.
func c11Subset(ctx *core.Ctx, ifaces string) core.Result {
	var res core.Result
	for round := 0; round < 8 && len(res.Violations) == 0; round++ {
		dotu := round%2 == 0
		s := NewSess(Config{Dotu: dotu, Msize: 8192, Maxpend: []int{0, 4}[round%2], Ifaces: ifaces})
		mk := func() (*CConn, bool) {
			c := s.Dial()
			ver := "9P2000"
			if dotu {
				ver = "9P2000.u"
			}
			if r, err := c.Version(8192, ver, W); err != nil || r.Msg == nil || r.Msg.Type != wire.Rversion {
				return c, false
			}
			r, err := c.Rpc(&wire.Msg{Type: wire.Tattach, Tag: 1, Fid: 1, Afid: wire.NOFID, Uname: "root", Nuname: 0}, W)
			return c, err == nil && r.Msg != nil && r.Msg.Type == wire.Rattach
		}
		by, ok1 := mk()
		v, ok2 := mk()
		if !ok1 || !ok2 {
			res.Inconclusive = "c11: setup failed (" + ifaces + ")"
			return res
		}
		nf := 1 + round%4
		for i := 0; i < nf; i++ {
			v.Rpc(&wire.Msg{Type: wire.Twalk, Tag: uint16(10 + i), Fid: 1, Newfid: uint32(20 + i), Wname: []string{"d"}}, W)
			v.Rpc(&wire.Msg{Type: wire.Tstat, Tag: uint16(30 + i), Fid: uint32(20 + i)}, W)
		}
		// with requests still executing at the disconnect in every second round
		var gates []chan struct{}
		if round%2 == 1 {
			for i := 0; i < 2; i++ {
				p := script.NewPlan()
				p.Gate = make(chan struct{})
				p.Entered = make(chan struct{})
				s.Ops.SetPlan(v.ID, uint16(50+i), p)
				_ = v.Send(&wire.Msg{Type: wire.Tstat, Tag: uint16(50 + i), Fid: uint32(20 + i%nf)})
				select {
				case <-p.Entered:
					gates = append(gates, p.Gate)
				case <-time.After(W):
					close(p.Gate)
				}
			}
		}
		seq1 := s.Log.Seq()
		shown := map[int64]bool{}
		for _, ev := range s.Log.Snapshot(0) {
			if ev.Kind == "op" && ev.Conn == v.ID {
				for _, t := range []int64{ev.Fid, ev.Newfid} {
					if t != 0 {
						shown[t] = true
					}
				}
			}
		}
		nclosed := s.Ctl.Passed("close.exit", 0, sched.AnyTag)
		v.Hangup()
		s.Ctl.WaitPassed("close.exit", 0, sched.AnyTag, nclosed+1, W)
		for _, g := range gates {
			close(g)
		}
		// the requests that were executing have left the implementation
		waitFor(W, func() bool {
			n := 0
			for _, ev := range s.Log.Snapshot(seq1) {
				if ev.Kind == "exit" && ev.Conn == v.ID {
					n++
				}
			}
			return n >= len(gates)
		})
		time.Sleep(2 * time.Millisecond)
		res.Evals++
		closedN, destroys := 0, map[int64]int{}
		for _, ev := range s.Log.Snapshot(0) {
			if ev.Kind == "connclosed" && ev.Conn == v.ID {
				closedN++
			}
			if ev.Kind == "destroy" && shown[ev.Fid] {
				destroys[ev.Fid]++
			}
		}
		det := map[string]interface{}{"implementation_provides": ifaces, "fids": nf, "requests_executing_at_disconnect": len(gates), "dotu": dotu}
		wantClosed := map[string]int{"conn-only": 1, "fid-only": 0, "req-only": 0}[ifaces]
		if closedN != wantClosed {
			res.Violate(fmt.Sprintf("C11;optional-interfaces;%s;connclosed=%d", ifaces, closedN), fmt.Sprintf("an implementation providing %s was told %d times that the victim connection closed (expected %d)", ifaces, closedN, wantClosed), det)
		}
		if ifaces == "fid-only" {
			for tok := range shown {
				if destroys[tok] != 1 {
					res.Violate(fmt.Sprintf("C11;optional-interfaces;fid-only;destroy-count;n=%d", destroys[tok]), fmt.Sprintf("fid object %d of the disconnected connection was reported destroyed %d times", tok, destroys[tok]), det)
					break
				}
			}
		} else if len(destroys) != 0 {
			res.Violate("C11;optional-interfaces;"+ifaces+";unexpected-destroy", "FidDestroy reached an implementation that does not provide SrvFidOps", det)
		}
		if r, err := by.Rpc(&wire.Msg{Type: wire.Tstat, Tag: 60, Fid: 1}, W); err != nil || r.Msg == nil || r.Msg.Type != wire.Rstat {
			res.Violate("C11;optional-interfaces;"+ifaces+";bystander", "the bystander connection is no longer served", det)
		}
		by.Hangup()
		res.Sig(fmt.Sprintf("subset|%s|%d|%d|%v", ifaces, nf, len(gates), dotu))
	}
	res.Sample(map[string]interface{}{"scenario": "implementation providing only some optional interfaces", "provides": ifaces})
	return res
}

// c11DestroyWaitsForOperation: an implementation with a lock of its own per fid, which its operations hold until they
// have answered and which its FidDestroy takes (the bundled in-memory servers work like that): at the disconnect a
// request is still executing on a fid, FidDestroy for that fid waits for it, the request is released, answers
// (into the void) and returns — after which the teardown completes: one ConnClosed, every fid destroyed once.
func c11DestroyWaitsForOperation(ctx *core.Ctx) core.Result {
	var res core.Result
	for round := 0; round < 6 && len(res.Violations) == 0; round++ {
		dotu := round%2 == 0
		s := NewSess(Config{Dotu: dotu, Msize: 8192, Maxpend: []int{0, 4}[round%2]})
		v := s.Dial()
		ver := "9P2000"
		if dotu {
			ver = "9P2000.u"
		}
		if r, err := v.Version(8192, ver, W); err != nil || r.Msg == nil || r.Msg.Type != wire.Rversion {
			res.Inconclusive = "c11: setup failed"
			return res
		}
		v.Rpc(&wire.Msg{Type: wire.Tattach, Tag: 1, Fid: 1, Afid: wire.NOFID, Uname: "root", Nuname: 0}, W)
		seq0 := s.Log.Seq()
		nf := 1 + round%3
		for i := 0; i < nf; i++ {
			v.Rpc(&wire.Msg{Type: wire.Twalk, Tag: uint16(10 + i), Fid: 1, Newfid: uint32(20 + i), Wname: []string{"d"}}, W)
		}
		v.Rpc(&wire.Msg{Type: wire.Tstat, Tag: 30, Fid: 20}, W)
		var tok int64
		for _, ev := range s.Log.Snapshot(seq0) {
			if ev.Kind == "op" && ev.Op == "Stat" && ev.Conn == v.ID {
				tok = ev.Fid
			}
		}
		if tok == 0 {
			res.Inconclusive = "c11: fid token not learned"
			return res
		}
		held := &wire.Msg{Type: []uint8{wire.Tstat, wire.Twalk, wire.Tclunk}[round%3], Tag: 40, Fid: 20, Newfid: 20}
		plan := script.NewPlan()
		plan.Gate, plan.Entered = make(chan struct{}), make(chan struct{})
		s.Ops.SetPlan(v.ID, held.Tag, plan)
		_ = v.Send(held)
		select {
		case <-plan.Entered:
		case <-time.After(W):
			res.Inconclusive = "c11: held request never started"
			return res
		}
		// FidDestroy of that fid waits until the operation on it has returned
		opDone := make(chan struct{})
		s.Ops.SetDestroyGate(tok, opDone)
		seq1 := s.Log.Seq()
		go func() {
			waitFor(4*W, func() bool {
				for _, ev := range s.Log.Snapshot(seq1) {
					if ev.Kind == "exit" && ev.Conn == v.ID && ev.Tag == held.Tag {
						return true
					}
				}
				return false
			})
			close(opDone)
		}()
		v.Hangup()
		inside := waitFor(W, func() bool {
			for _, ev := range s.Log.Snapshot(seq1) {
				if ev.Kind == "destroy" {
					return true
				}
			}
			return false
		})
		res.Evals++
		det := map[string]interface{}{"dotu": dotu, "round": round, "held": wire.TypeName(held.Type), "fids": nf + 1}
		if !inside {
			// (a Tclunk's own release may already have reported the fid: nothing waits then)
			close(plan.Gate)
			s.Ctl.WaitPassed("close.exit", v.ID, sched.AnyTag, 1, W)
			res.Count("destroy_not_waiting", 1)
			continue
		}
		close(plan.Gate)
		finished := s.Ctl.WaitPassed("close.exit", v.ID, sched.AnyTag, 1, W)
		if !finished {
			res.Violate("C11;close-never-finished;destroy-waits-for-operation", "a request was executing on a fid at the disconnect and the implementation's FidDestroy waited for it; after the request had been released the connection's close processing still did not finish", det)
			return res
		}
		nclosed, ndestroy := 0, map[int64]int{}
		for _, ev := range s.Log.Snapshot(seq0) {
			if ev.Kind == "connclosed" && ev.Conn == v.ID {
				nclosed++
			}
			if ev.Kind == "destroy" {
				ndestroy[ev.Fid]++
			}
		}
		if nclosed != 1 {
			res.Violate("C11;connclosed-count;destroy-waits-for-operation", fmt.Sprintf("ConnClosed reported %d times", nclosed), det)
		}
		for f, n := range ndestroy {
			if n != 1 {
				res.Violate("C11;destroy-count;destroy-waits-for-operation", fmt.Sprintf("fid object %d reported destroyed %d times", f, n), det)
			}
		}
		if len(ndestroy) < nf+1 {
			res.Violate("C11;destroy-count;destroy-waits-for-operation;missing", fmt.Sprintf("%d of %d fids reported destroyed", len(ndestroy), nf+1), det)
		}
		res.Count("teardowns_waiting_for_an_operation", 1)
		res.Sig(fmt.Sprintf("destroy-waits-for-operation|%v|%s|%d", dotu, wire.TypeName(held.Type), nf))
	}
	return res
}

// c11QueuedAtDisconnect: at the disconnect one request is executing (held in the implementation) and a second one,
// sent under the same tag, is still waiting for it — it has not been started. The second one binds a fid (Tattach,
// Tauth-less Twalk to a new fid) or works on an existing one. After the disconnect the first is released. Whatever the
// server does with the waiting request then, the process survives, the bystander is served, ConnClosed was reported
// once, and every fid object the implementation was ever shown is reported destroyed exactly once.
func c11QueuedAtDisconnect(ctx *core.Ctx, prop string, maxpend int) core.Result {
	var res core.Result
	kinds := []string{"walk-newfid", "attach", "walk-inplace", "open", "stat", "clunk", "walk-newfid+open"}
	for round := 0; round < 2*len(kinds) && len(res.Violations) == 0; round++ {
		ctx.Beat()
		dotu := round%2 == 0
		kind := kinds[round%len(kinds)]
		gbase := libGoroutines()
		s := NewSess(Config{Dotu: dotu, Msize: 8192, Maxpend: maxpend})
		v, b := s.Dial(), s.Dial()
		ver := "9P2000"
		if dotu {
			ver = "9P2000.u"
		}
		for _, c := range []*CConn{v, b} {
			if r, err := c.Version(8192, ver, W); err != nil || r.Msg == nil || r.Msg.Type != wire.Rversion {
				res.Inconclusive = "c11 queued: setup failed"
				return res
			}
			if a, err := c.Rpc(&wire.Msg{Type: wire.Tattach, Tag: 1, Fid: 1, Afid: wire.NOFID, Uname: "root", Nuname: 0}, W); err != nil || a.Msg == nil || a.Msg.Type != wire.Rattach {
				res.Inconclusive = "c11 queued: attach failed"
				return res
			}
		}
		v.Rpc(&wire.Msg{Type: wire.Twalk, Tag: 2, Fid: 1, Newfid: 8, Wname: []string{"f1"}}, W)
		det := map[string]interface{}{"dotu": dotu, "maxpend": maxpend, "queued": kind}
		plan := script.NewPlan()
		plan.Gate, plan.Entered = make(chan struct{}), make(chan struct{})
		s.Ops.SetPlan(v.ID, 5, plan)
		_ = v.Send(&wire.Msg{Type: wire.Tstat, Tag: 5, Fid: 1})
		select {
		case <-plan.Entered:
		case <-time.After(W):
			res.Inconclusive = "c11 queued: held request never started"
			return res
		}
		var queued []*wire.Msg
		switch kind {
		case "walk-newfid":
			queued = []*wire.Msg{{Type: wire.Twalk, Tag: 5, Fid: 1, Newfid: 9, Wname: []string{"d1"}}}
		case "attach":
			queued = []*wire.Msg{{Type: wire.Tattach, Tag: 5, Fid: 9, Afid: wire.NOFID, Uname: "root", Nuname: 0}}
		case "walk-inplace":
			queued = []*wire.Msg{{Type: wire.Twalk, Tag: 5, Fid: 8, Newfid: 8}}
		case "open":
			queued = []*wire.Msg{{Type: wire.Topen, Tag: 5, Fid: 8, Mode: 0}}
		case "stat":
			queued = []*wire.Msg{{Type: wire.Tstat, Tag: 5, Fid: 8}}
		case "clunk":
			queued = []*wire.Msg{{Type: wire.Tclunk, Tag: 5, Fid: 8}}
		case "walk-newfid+open":
			queued = []*wire.Msg{{Type: wire.Twalk, Tag: 5, Fid: 1, Newfid: 9, Wname: []string{"f2"}}, {Type: wire.Topen, Tag: 5, Fid: 9, Mode: 0}}
		}
		_ = v.Send(queued...)
		s.Ctl.WaitPassed("recv.dispatch", v.ID, 5, 1+len(queued), 2*time.Second)
		v.Hangup()
		if !s.Ctl.WaitPassed("close.exit", v.ID, sched.AnyTag, 1, W) {
			res.Inconclusive = "c11 queued: the close processing did not finish while a request was held (not this scenario's verdict)"
			close(plan.Gate)
			return res
		}
		seqRel := s.Log.Seq()
		close(plan.Gate)
		// the held request returns; whatever was waiting behind it is dealt with; then nothing of the connection moves
		waitFor(W, func() bool {
			for _, ev := range s.Log.Snapshot(seqRel) {
				if ev.Kind == "exit" && ev.Conn == v.ID && ev.Tag == 5 {
					return true
				}
			}
			return false
		})
		v.Quiesce(W)
		time.Sleep(5 * time.Millisecond)
		res.Evals++
		// the bystander
		if st, err := b.Rpc(&wire.Msg{Type: wire.Tstat, Tag: 7, Fid: 1}, W); err != nil || st.Msg == nil || st.Msg.Type != wire.Rstat {
			res.Violate(prop+";queued-at-disconnect;bystander", fmt.Sprintf("after the victim's disconnect (a %s was waiting behind an executing request of its tag) the bystander's Tstat got %v", kind, st), det)
		}
		nclosed := 0
		shown, destroyed := map[int64]bool{}, map[int64]int{}
		late := 0
		for _, ev := range s.Log.Snapshot(0) {
			switch {
			case ev.Kind == "connclosed" && ev.Conn == v.ID:
				nclosed++
			case ev.Kind == "op" && ev.Conn == v.ID:
				for _, t := range []int64{ev.Fid, ev.Newfid} {
					if t != 0 {
						shown[t] = true
					}
				}
				if ev.Seq > seqRel {
					late++
				}
			case ev.Kind == "destroy":
				destroyed[ev.Fid]++
			}
		}
		if nclosed != 1 {
			res.Violate(prop+";queued-at-disconnect;connclosed-count", fmt.Sprintf("ConnClosed reported %d times", nclosed), det)
		}
		for t := range shown {
			if destroyed[t] != 1 {
				res.Violate(fmt.Sprintf("%s;queued-at-disconnect;destroy-count;n=%d;%s", prop, destroyed[t], kind),
					fmt.Sprintf("a %s was waiting behind an executing request of its tag at the disconnect; afterwards fid object %d, which the implementation was shown, was reported destroyed %d times (%d operations reached the implementation after the disconnect)", kind, t, destroyed[t], late), det)
				break
			}
		}
		res.Count("queued_requests_executed_after_disconnect", int64(late))
		res.Sig(fmt.Sprintf("queued-at-disconnect|%v|%s|mp=%d|late=%d", dotu, kind, maxpend, late))
		b.Hangup()
		// every goroutine that served the two connections ends now that nothing is executing any more
		if prop == "C11" {
			if isLeak, dump, stable := leaked(gbase, 4*time.Second); isLeak && stable {
				res.Violate("C11;queued-at-disconnect;goroutine-leak;"+kind+";"+firstLibFrame(dump), fmt.Sprintf("a %s was waiting behind an executing request of its tag at the disconnect; after everything was released and both connections were closed, goroutines of the library are still there", kind), dump)
			} else if isLeak {
				res.Inconclusive = "c11 queued: goroutines not settled"
			}
		}
	}
	res.Sample(map[string]interface{}{"scenario": "a request waits behind an executing one of its tag at the disconnect", "maxpend": maxpend})
	return res
}
