package srvlab

import (
	"fmt"
	"io"
	"log"
	"os"
	"path/filepath"
	"strings"
	"time"

	"verif/core"
	"verif/sched"
	"verif/script"
	"verif/wire"
)

func init() {
	core.Register(&core.Engine{
		Property: "C04",
		Level:    "exploration",
		Rule: "sessions against the real server framework with a scripted implementation, every step judged by the reference fid-table model: " +
			"(1) transition coverage — each fid state (absent / dir / file / auth x unopened / open with each mode) x each request kind x each outcome the implementation can choose " +
			"(success, error, partial / failing / in-place / to-new / to-occupied walks, auth accept / reject), on a fresh connection, followed by probes (Tstat of every fid number) " +
			"and a reuse sequence (clunk, re-attach, probe); (2) long seeded random histories over 3 fid numbers on 1-3 connections, both dialects, with and without AuthOps, " +
			"probing after every step; (3) at disconnect every fid object shown to the implementation must have been reported destroyed exactly once. " +
			"distinct = (model state before, request kind, expectation, model state after); non-trivial = the request changed or was refused because of fid state",
		Assumptions: []string{
			"reference model = DESIGN.md Appendix C; expectations are three-valued, 'either' where the property statements are silent",
			"sessions name users the pool knows; histories are sequential at the client (pipelined histories are exercised by C03/C07/C08)",
		},
		Cases:       func(tier string, seed int64) []core.Case { return histCases("C04", tier, seed) },
		MinDistinct: 150,
		Jobs:        8,
	})
	core.Register(&core.Engine{
		Property: "C05",
		Level:    "exploration",
		Rule: "the product fid state {absent, dir, file, auth} x {unopened, open OREAD/OWRITE/ORDWR/OEXEC, each |OTRUNC} x request {walk 0/1 names, open with every mode of interest, " +
			"create with plain/DMDIR/each special permission bit x modes, read and write with counts 0, L-1, L, L+1, 2^31, 2^32-24..2^32-1 (L = msize-IOHDRSZ, msize 64 and 8192), " +
			"malformed Twrite whose count disagrees with its payload, clunk, remove, stat, wstat} x dialect x AuthOps present/absent: must-refuse => Rerror and no invocation; " +
			"must-forward => exactly one invocation with the fid object, user and arguments the client named; each followed by a request that depends on the state the first one left; " +
			"auth gate: no Attach invocation without an accepting AuthCheck. distinct = (state, request kind, argument class, expectation)",
		Assumptions: []string{
			"reference model = DESIGN.md Appendix C (three-valued)",
			"a malformed Twrite (count != payload) may be refused by Rerror or by dropping the connection, never forwarded",
		},
		Cases:       func(tier string, seed int64) []core.Case { return histCases("C05", tier, seed) },
		MinDistinct: 150,
		Jobs:        8,
	})
}

type fidState struct {
	name  string
	setup func(h *Hist, fid uint32)
}

func attachStep(fid uint32, afid uint32, dotu bool, uid int, plan *script.Plan) *Step {
	names := map[int]string{0: "root", 1001: "alice", 1002: "bob"}
	m := &wire.Msg{Type: wire.Tattach, Fid: fid, Afid: afid, Uname: names[uid], Nuname: uint32(uid)}
	return &Step{Msg: m, Uid: uid, Plan: plan}
}

func authStep(afid uint32, uid int, plan *script.Plan) *Step {
	names := map[int]string{0: "root", 1001: "alice", 1002: "bob"}
	m := &wire.Msg{Type: wire.Tauth, Afid: afid, Uname: names[uid], Nuname: uint32(uid)}
	return &Step{Msg: m, Uid: uid, Plan: plan}
}

func planFile() *script.Plan { p := script.NewPlan(); p.Text = "fileroot"; return p }
func planErr(s string, n uint32) *script.Plan {
	p := script.NewPlan()
	p.Err, p.Errnum = s, n
	return p
}

// uidFor: 9P2000 has no n_uname on the wire and go9p then resolves the user by number 0 (see DESIGN.md F29);
// sessions therefore attach as uid 0 in the plain dialect so that this quirk is not what the run measures.
func uidFor(dotu bool, want int) int {
	if !dotu {
		return 0
	}
	return want
}

func fidStates(cfg Config) []fidState {
	open := func(mode uint8) func(h *Hist, fid uint32) {
		return func(h *Hist, fid uint32) {
			h.Do(attachStep(fid, wire.NOFID, cfg.Dotu, uidFor(cfg.Dotu, 1001), planFile()))
			h.Do(&Step{Msg: &wire.Msg{Type: wire.Topen, Fid: fid, Mode: mode}})
		}
	}
	sts := []fidState{
		{"absent", func(h *Hist, fid uint32) {}},
		{"dir", func(h *Hist, fid uint32) { h.Do(attachStep(fid, wire.NOFID, cfg.Dotu, uidFor(cfg.Dotu, 1001), nil)) }},
		{"file", func(h *Hist, fid uint32) {
			h.Do(attachStep(fid, wire.NOFID, cfg.Dotu, uidFor(cfg.Dotu, 1002), planFile()))
		}},
		{"dir+open0", func(h *Hist, fid uint32) {
			h.Do(attachStep(fid, wire.NOFID, cfg.Dotu, uidFor(cfg.Dotu, 1001), nil))
			h.Do(&Step{Msg: &wire.Msg{Type: wire.Topen, Fid: fid, Mode: 0}})
		}},
		{"file+open0", open(0)}, {"file+open1", open(1)}, {"file+open2", open(2)}, {"file+open3", open(3)},
		{"file+open17", open(17)}, {"file+open16", open(16)},
	}
	if cfg.Auth {
		sts = append(sts, fidState{"auth", func(h *Hist, fid uint32) { h.Do(authStep(fid, uidFor(cfg.Dotu, 1001), nil)) }})
	}
	return sts
}

type reqVariant struct {
	name string
	step func(cfg Config, L uint32) *Step
}

func walkPlan(n int, types ...uint8) *script.Plan {
	p := script.NewPlan()
	p.WalkN = n
	p.QidTypes = types
	return p
}

func data(n int) []byte {
	b := make([]byte, n)
	for i := range b {
		b[i] = byte(i*31 + n)
	}
	return b
}

// variants04: every request kind x outcome the implementation can choose (fid 0 is the subject, fid 1 the other fid).
func variants04(cfg Config) []reqVariant {
	u := uidFor(cfg.Dotu, 1002)
	vs := []reqVariant{
		{"attach-ok", func(c Config, L uint32) *Step { return attachStep(0, wire.NOFID, c.Dotu, u, nil) }},
		{"attach-err", func(c Config, L uint32) *Step {
			return attachStep(0, wire.NOFID, c.Dotu, u, planErr("no such tree", 2))
		}},
		{"attach-afid1", func(c Config, L uint32) *Step { return attachStep(0, 1, c.Dotu, u, nil) }},
		{"auth-ok", func(c Config, L uint32) *Step { return authStep(0, u, nil) }},
		{"auth-err", func(c Config, L uint32) *Step { return authStep(0, u, planErr("auth failed", 1)) }},
		{"walk-inplace-0", func(c Config, L uint32) *Step {
			return &Step{Msg: &wire.Msg{Type: wire.Twalk, Fid: 0, Newfid: 0, Wname: []string{}}}
		}},
		{"walk-inplace-full-dir", func(c Config, L uint32) *Step {
			return &Step{Msg: &wire.Msg{Type: wire.Twalk, Fid: 0, Newfid: 0, Wname: []string{"d1", "d2"}}}
		}},
		{"walk-inplace-full-file", func(c Config, L uint32) *Step {
			return &Step{Msg: &wire.Msg{Type: wire.Twalk, Fid: 0, Newfid: 0, Wname: []string{"d1", "f2"}}}
		}},
		{"walk-inplace-partial", func(c Config, L uint32) *Step {
			return &Step{Msg: &wire.Msg{Type: wire.Twalk, Fid: 0, Newfid: 0, Wname: []string{"f1", "x2"}}, Plan: walkPlan(1)}
		}},
		{"walk-inplace-missing", func(c Config, L uint32) *Step {
			return &Step{Msg: &wire.Msg{Type: wire.Twalk, Fid: 0, Newfid: 0, Wname: []string{"x1"}}, Plan: walkPlan(0)}
		}},
		{"walk-inplace-err", func(c Config, L uint32) *Step {
			return &Step{Msg: &wire.Msg{Type: wire.Twalk, Fid: 0, Newfid: 0, Wname: []string{"d1"}}, Plan: planErr("walk failed", 5)}
		}},
		{"walk-new-0", func(c Config, L uint32) *Step {
			return &Step{Msg: &wire.Msg{Type: wire.Twalk, Fid: 0, Newfid: 1, Wname: []string{}}}
		}},
		{"walk-new-full", func(c Config, L uint32) *Step {
			return &Step{Msg: &wire.Msg{Type: wire.Twalk, Fid: 0, Newfid: 1, Wname: []string{"d1", "f2"}}}
		}},
		{"walk-new-partial", func(c Config, L uint32) *Step {
			return &Step{Msg: &wire.Msg{Type: wire.Twalk, Fid: 0, Newfid: 1, Wname: []string{"d1", "d2", "x3"}}, Plan: walkPlan(2)}
		}},
		{"walk-new-missing", func(c Config, L uint32) *Step {
			return &Step{Msg: &wire.Msg{Type: wire.Twalk, Fid: 0, Newfid: 1, Wname: []string{"x1", "d2"}}, Plan: walkPlan(0)}
		}},
		{"walk-new-err", func(c Config, L uint32) *Step {
			return &Step{Msg: &wire.Msg{Type: wire.Twalk, Fid: 0, Newfid: 1, Wname: []string{"d1"}}, Plan: planErr("walk failed", 5)}
		}},
		{"walk-from1-to0", func(c Config, L uint32) *Step {
			return &Step{Msg: &wire.Msg{Type: wire.Twalk, Fid: 1, Newfid: 0, Wname: []string{"d1"}}}
		}},
		{"open0-ok", func(c Config, L uint32) *Step { return &Step{Msg: &wire.Msg{Type: wire.Topen, Fid: 0, Mode: 0}} }},
		{"open1-ok", func(c Config, L uint32) *Step { return &Step{Msg: &wire.Msg{Type: wire.Topen, Fid: 0, Mode: 1}} }},
		{"open0-err", func(c Config, L uint32) *Step {
			return &Step{Msg: &wire.Msg{Type: wire.Topen, Fid: 0, Mode: 0}, Plan: planErr("permission denied", 13)}
		}},
		{"create-file-ok", func(c Config, L uint32) *Step {
			return &Step{Msg: &wire.Msg{Type: wire.Tcreate, Fid: 0, Name: "newf", Perm: 0o644, Mode: 1}}
		}},
		{"create-dir-ok", func(c Config, L uint32) *Step {
			return &Step{Msg: &wire.Msg{Type: wire.Tcreate, Fid: 0, Name: "newd", Perm: 0o755 | 0x80000000, Mode: 0}}
		}},
		{"create-err", func(c Config, L uint32) *Step {
			return &Step{Msg: &wire.Msg{Type: wire.Tcreate, Fid: 0, Name: "newf", Perm: 0o644, Mode: 1}, Plan: planErr("exists", 17)}
		}},
		{"read", func(c Config, L uint32) *Step {
			return &Step{Msg: &wire.Msg{Type: wire.Tread, Fid: 0, Offset: 3, Count: 20}}
		}},
		{"read-err", func(c Config, L uint32) *Step {
			return &Step{Msg: &wire.Msg{Type: wire.Tread, Fid: 0, Offset: 3, Count: 20}, Plan: planErr("io error", 5)}
		}},
		{"write", func(c Config, L uint32) *Step {
			return &Step{Msg: &wire.Msg{Type: wire.Twrite, Fid: 0, Offset: 9, Count: 5, Data: data(5)}}
		}},
		{"stat", func(c Config, L uint32) *Step { return &Step{Msg: &wire.Msg{Type: wire.Tstat, Fid: 0}} }},
		{"stat-err", func(c Config, L uint32) *Step {
			return &Step{Msg: &wire.Msg{Type: wire.Tstat, Fid: 0}, Plan: planErr("stat failed", 5)}
		}},
		{"wstat", func(c Config, L uint32) *Step {
			return &Step{Msg: &wire.Msg{Type: wire.Twstat, Fid: 0, Stat: wire.Stat{Name: "renamed", Mode: 0o600, Length: 7, Uid: "a", Gid: "b", Muid: "c", Nuid: 1, Ngid: 2, Nmuid: 3}}}
		}},
		{"clunk-ok", func(c Config, L uint32) *Step { return &Step{Msg: &wire.Msg{Type: wire.Tclunk, Fid: 0}} }},
		{"clunk-err", func(c Config, L uint32) *Step {
			return &Step{Msg: &wire.Msg{Type: wire.Tclunk, Fid: 0}, Plan: planErr("clunk failed", 5)}
		}},
		{"remove-ok", func(c Config, L uint32) *Step { return &Step{Msg: &wire.Msg{Type: wire.Tremove, Fid: 0}} }},
		{"remove-err", func(c Config, L uint32) *Step {
			return &Step{Msg: &wire.Msg{Type: wire.Tremove, Fid: 0}, Plan: planErr("remove failed", 1)}
		}},
		{"nofid-stat", func(c Config, L uint32) *Step { return &Step{Msg: &wire.Msg{Type: wire.Tstat, Fid: wire.NOFID}} }},
		{"nofid-clunk", func(c Config, L uint32) *Step { return &Step{Msg: &wire.Msg{Type: wire.Tclunk, Fid: wire.NOFID}} }},
		{"nofid-walk", func(c Config, L uint32) *Step {
			return &Step{Msg: &wire.Msg{Type: wire.Twalk, Fid: wire.NOFID, Newfid: 1, Wname: []string{}}}
		}},
	}
	if cfg.Auth {
		vs = append(vs, reqVariant{"attach-authreject", func(c Config, L uint32) *Step {
			s := attachStep(0, wire.NOFID, c.Dotu, u, nil)
			s.AuthReject = "not authenticated"
			return s
		}})
	}
	return vs
}

// variants05: the wide argument grid for the rule checks.
func variants05(cfg Config) []reqVariant {
	var vs []reqVariant
	for _, mode := range []uint8{0, 1, 2, 3, 16, 17, 18, 19, 64, 65, 32, 0x80, 0xFF} {
		mode := mode
		vs = append(vs, reqVariant{fmt.Sprintf("open-%d", mode), func(c Config, L uint32) *Step {
			return &Step{Msg: &wire.Msg{Type: wire.Topen, Fid: 0, Mode: mode}}
		}})
	}
	perms := []uint32{0o644, 0, 0o777, 0x80000000 | 0o755, 0x02000000 | 0o777, 0x01000000, 0x00800000, 0x00200000 | 0o600, 0x00100000, 0x00080000 | 0o755, 0x40000000 | 0o600, 0xFFFFFFFF}
	for _, perm := range perms {
		for _, mode := range []uint8{0, 1, 2, 17} {
			perm, mode := perm, mode
			vs = append(vs, reqVariant{fmt.Sprintf("create-%#x-%d", perm, mode), func(c Config, L uint32) *Step {
				return &Step{Msg: &wire.Msg{Type: wire.Tcreate, Fid: 0, Name: "n", Perm: perm, Mode: mode, Ext: "ext"}}
			}})
		}
	}
	counts := func(L uint32) []uint32 {
		return []uint32{0, 1, L - 1, L, L + 1, 1 << 31, 0xFFFFFFFF - 23, 0xFFFFFFFF - 22, 0xFFFFFFFF - 16, 0xFFFFFFFF - 1, 0xFFFFFFFF}
	}
	for i := 0; i < 11; i++ {
		i := i
		vs = append(vs, reqVariant{fmt.Sprintf("read-count%d", i), func(c Config, L uint32) *Step {
			return &Step{Msg: &wire.Msg{Type: wire.Tread, Fid: 0, Offset: uint64(i) * 1000, Count: counts(L)[i]}}
		}})
	}
	for i, off := range []uint64{0, 1 << 40, 0xFFFFFFFFFFFFFFFF} {
		i, off := i, off
		vs = append(vs, reqVariant{fmt.Sprintf("read-off%d", i), func(c Config, L uint32) *Step {
			return &Step{Msg: &wire.Msg{Type: wire.Tread, Fid: 0, Offset: off, Count: 8}}
		}})
	}
	// well-formed writes: the payload really has count bytes (L+1 is the largest frame that fits msize)
	for i := 0; i < 5; i++ {
		i := i
		vs = append(vs, reqVariant{fmt.Sprintf("write-len%d", i), func(c Config, L uint32) *Step {
			n := []int{0, 1, int(L) - 1, int(L), int(L) + 1}[i]
			return &Step{Msg: &wire.Msg{Type: wire.Twrite, Fid: 0, Offset: 77, Count: uint32(n), Data: data(n)}}
		}})
	}
	for _, k := range []int{0, 1} {
		k := k
		vs = append(vs, reqVariant{fmt.Sprintf("walk-names%d", k), func(c Config, L uint32) *Step {
			names := []string{}
			if k == 1 {
				names = []string{"d1"}
			}
			return &Step{Msg: &wire.Msg{Type: wire.Twalk, Fid: 0, Newfid: 1, Wname: names}}
		}})
		vs = append(vs, reqVariant{fmt.Sprintf("walk-inplace-names%d", k), func(c Config, L uint32) *Step {
			names := []string{}
			if k == 1 {
				names = []string{"f1"}
			}
			return &Step{Msg: &wire.Msg{Type: wire.Twalk, Fid: 0, Newfid: 0, Wname: names}}
		}})
	}
	vs = append(vs,
		reqVariant{"clunk", func(c Config, L uint32) *Step { return &Step{Msg: &wire.Msg{Type: wire.Tclunk, Fid: 0}} }},
		reqVariant{"remove", func(c Config, L uint32) *Step { return &Step{Msg: &wire.Msg{Type: wire.Tremove, Fid: 0}} }},
		reqVariant{"stat", func(c Config, L uint32) *Step { return &Step{Msg: &wire.Msg{Type: wire.Tstat, Fid: 0}} }},
		reqVariant{"wstat", func(c Config, L uint32) *Step {
			return &Step{Msg: &wire.Msg{Type: wire.Twstat, Fid: 0, Stat: wire.Stat{Type: 0xFFFF, Dev: 0xFFFFFFFF, Mode: 0xFFFFFFFF, Atime: 0xFFFFFFFF,
				Mtime: 0xFFFFFFFF, Length: 0xFFFFFFFFFFFFFFFF, Name: "nn", Nuid: wire.NOUID, Ngid: wire.NOUID, Nmuid: wire.NOUID}}}
		}},
	)
	u := uidFor(cfg.Dotu, 1002)
	vs = append(vs,
		reqVariant{"attach", func(c Config, L uint32) *Step { return attachStep(0, wire.NOFID, c.Dotu, u, nil) }},
		reqVariant{"attach-afid1", func(c Config, L uint32) *Step { return attachStep(0, 1, c.Dotu, u, nil) }},
		reqVariant{"auth", func(c Config, L uint32) *Step { return authStep(0, u, nil) }},
	)
	if cfg.Auth {
		vs = append(vs, reqVariant{"attach-authreject", func(c Config, L uint32) *Step {
			s := attachStep(0, wire.NOFID, c.Dotu, u, nil)
			s.AuthReject = "rejected"
			return s
		}})
	}
	return vs
}

type histCfg struct {
	cfg   Config
	msize uint32
}

func histConfigs(prop string) []histCfg {
	var out []histCfg
	for _, dotu := range []bool{false, true} {
		for _, auth := range []bool{false, true} {
			out = append(out, histCfg{Config{Dotu: dotu, Msize: 8192, Auth: auth}, 256})
		}
	}
	// an implementation that takes over request processing (SrvReqProcessOps) and calls Process/PostProcess itself
	out = append(out, histCfg{Config{Dotu: true, Msize: 8192, Auth: true, ProcOps: true}, 256})
	if prop == "C05" {
		// the count boundaries also at the other msize values of the statement
		out = append(out, histCfg{Config{Dotu: true, Msize: 8192}, 64}, histCfg{Config{Dotu: false, Msize: 8192}, 8192},
			histCfg{Config{Dotu: true, Msize: 8192, Auth: true}, 64})
	}
	return out
}

func histCases(prop, tier string, seed int64) []core.Case {
	var cases []core.Case
	for _, hc := range histConfigs(prop) {
		hc := hc
		sts := fidStates(hc.cfg)
		var vars []reqVariant
		if prop == "C04" {
			vars = variants04(hc.cfg)
		} else {
			vars = variants05(hc.cfg)
		}
		others := []string{"absent", "dir"}
		if hc.cfg.Auth {
			others = append(others, "auth")
		}
		for si := range sts {
			for _, other := range others {
				si, other := si, other
				cases = append(cases, core.Case{
					ID: fmt.Sprintf("trans/%s/dotu=%v/auth=%v/proc=%v/msize=%d/%s/other=%s", prop, hc.cfg.Dotu, hc.cfg.Auth, hc.cfg.ProcOps, hc.msize, sts[si].name, other),
					Run: func(ctx *core.Ctx) core.Result {
						return runTransitions(prop, hc, sts[si], other, vars)
					},
				})
			}
		}
	}
	nrand, steps := 40, 300
	if tier == "thorough" {
		nrand, steps = 1200, 1200
	}
	for i := 0; i < nrand; i++ {
		i := i
		cases = append(cases, core.Case{ID: fmt.Sprintf("random/%s/%d", prop, i), Run: func(ctx *core.Ctx) core.Result {
			return runRandomHist(prop, ctx.Seed, i, steps)
		}})
	}
	if prop == "C04" {
		cases = append(cases, core.Case{ID: "ufs-fid-table", Run: runUfsFidTable})
		for _, dotu := range []bool{false, true} {
			dotu := dotu
			cases = append(cases, core.Case{ID: fmt.Sprintf("cancelled-binding/dotu=%v", dotu), Run: func(ctx *core.Ctx) core.Result { return runCancelledBinding(dotu) }})
		}
		for _, dotu := range []bool{false, true} {
			dotu := dotu
			cases = append(cases, core.Case{ID: fmt.Sprintf("invalidated-under-a-request/dotu=%v", dotu), Run: func(ctx *core.Ctx) core.Result {
				return runInvalidatedUnder("C04", dotu)
			}})
			rounds := 1500
			if tier == "thorough" {
				rounds = 20000
			}
			cases = append(cases, core.Case{ID: fmt.Sprintf("queued-at-disconnect/maxpend=%d", map[bool]int{false: 0, true: 4}[dotu]), Run: func(ctx *core.Ctx) core.Result {
				return c11QueuedAtDisconnect(ctx, "C04", map[bool]int{false: 0, true: 4}[dotu])
			}})
			cases = append(cases, core.Case{ID: fmt.Sprintf("given-up-twice-at-once/dotu=%v", dotu), Run: func(ctx *core.Ctx) core.Result { return runGivenUpTwice(ctx, dotu) }})
			cases = append(cases, core.Case{ID: fmt.Sprintf("same-number-race/dotu=%v", dotu), Run: func(ctx *core.Ctx) core.Result {
				return runSameNumberRace(ctx, dotu, rounds)
			}})
		}
	}
	if prop == "C05" {
		for _, dotu := range []bool{false, true} {
			dotu := dotu
			cases = append(cases, core.Case{ID: fmt.Sprintf("malformed-write/dotu=%v", dotu), Run: func(ctx *core.Ctx) core.Result {
				return runMalformedWrites(dotu)
			}})
			cases = append(cases, core.Case{ID: fmt.Sprintf("named-users/dotu=%v", dotu), Run: func(ctx *core.Ctx) core.Result {
				return runNamedUsers(dotu)
			}})
			cases = append(cases, core.Case{ID: fmt.Sprintf("arguments-of-held-writes/dotu=%v", dotu), Run: func(ctx *core.Ctx) core.Result {
				// the arguments the implementation finds in a request are the ones the client sent also when it looks at
				// them late, after many later requests have come in
				return c03HeldPayload(ctx, "C05", dotu, map[bool]uint32{true: 1024, false: 256}[dotu])
			}})
			cases = append(cases, core.Case{ID: fmt.Sprintf("refused-version/dotu=%v", dotu), Run: func(ctx *core.Ctx) core.Result {
				return runRefusedVersion(dotu)
			}})
		}
	}
	return cases
}

// runTransitions: for one (subject state, other fid state) run every request variant, each on a fresh connection.
func runTransitions(prop string, hc histCfg, st fidState, other string, vars []reqVariant) core.Result {
	var res core.Result
	for _, v := range vars {
		h := NewHist(hc.cfg, 1, &res, prop)
		if !h.Negotiate(hc.msize) {
			return res
		}
		L := h.Tabs[0].Msize - wire.IOHDRSZ
		// other fid (1) first, then the subject (0)
		switch other {
		case "dir":
			h.Do(attachStep(1, wire.NOFID, hc.cfg.Dotu, uidFor(hc.cfg.Dotu, 1001), nil))
		case "auth":
			h.Do(authStep(1, uidFor(hc.cfg.Dotu, 1001), nil))
		}
		st.setup(h, 0)
		step := v.step(hc.cfg, L)
		before := h.Tabs[0].StateKey(h.Alphabet)
		r := h.Do(step)
		res.Evals++
		if r != nil {
			res.Sig(fmt.Sprintf("%s|%s|%s|%v|%v", before, v.name, wire.TypeName(r.Type), hc.cfg.Dotu, hc.cfg.Auth))
			if res.Evals%53 == 1 {
				res.Sample(map[string]interface{}{"state": st.name, "other": other, "request": v.name, "reply": r.String(), "history": h.tail()})
			}
		}
		h.Probe()
		// the state left behind governs what follows: reuse the numbers
		if prop == "C04" {
			h.Do(&Step{Msg: &wire.Msg{Type: wire.Tclunk, Fid: 0}})
			h.Do(attachStep(0, wire.NOFID, hc.cfg.Dotu, uidFor(hc.cfg.Dotu, 1002), nil))
			h.Do(&Step{Msg: &wire.Msg{Type: wire.Twalk, Fid: 0, Newfid: 1, Wname: []string{"d9"}}})
			h.Probe()
			h.Do(&Step{Msg: &wire.Msg{Type: wire.Tclunk, Fid: 1}})
			h.Do(&Step{Msg: &wire.Msg{Type: wire.Tremove, Fid: 0}})
			h.Probe()
		} else {
			// "effects of a request are visible to every request sent after its reply"
			h.Do(&Step{Msg: &wire.Msg{Type: wire.Twrite, Fid: 0, Offset: 1, Count: 3, Data: data(3)}})
			h.Do(&Step{Msg: &wire.Msg{Type: wire.Topen, Fid: 0, Mode: 0}})
			h.Do(&Step{Msg: &wire.Msg{Type: wire.Twalk, Fid: 0, Newfid: 2, Wname: []string{"d1"}}})
			h.Do(&Step{Msg: &wire.Msg{Type: wire.Tread, Fid: 0, Offset: 0, Count: 4}})
			h.Do(&Step{Msg: &wire.Msg{Type: wire.Tstat, Fid: 1}})
		}
		h.Finish()
	}
	return res
}

// runRandomHist: a long random history over 3 fid numbers on 1..3 connections.
func runRandomHist(prop string, seed int64, idx, steps int) core.Result {
	var res core.Result
	r := core.NewRand(seed, fmt.Sprintf("hist/%s/%d", prop, idx))
	cfg := Config{Dotu: r.Bool(), Msize: 8192, Auth: r.Intn(3) == 0, ProcOps: r.Intn(4) == 0}
	if r.Intn(6) == 0 {
		// every debug facility of the server on (messages formatted, printed to a discarded log, kept in the ring)
		cfg.Debug = 15
		log.SetOutput(io.Discard)
		defer log.SetOutput(os.Stderr)
	}
	nconn := 1 + r.Intn(3)
	h := NewHist(cfg, nconn, &res, prop)
	if !h.Negotiate([]uint32{128, 256, 4096}[r.Intn(3)]) {
		return res
	}
	L := h.Tabs[0].Msize - wire.IOHDRSZ
	users := []int{0, 1001, 1002}
	for i := 0; i < steps && !h.Fatal; i++ {
		ci := r.Intn(nconn)
		fid := uint32(r.Intn(3))
		other := uint32(r.Intn(3))
		plan := script.NewPlan()
		if r.Intn(5) == 0 {
			plan.Err, plan.Errnum = fmt.Sprintf("planned error %d", i), uint32(1+r.Intn(30))
		}
		var st *Step
		switch r.Intn(14) {
		case 0, 1:
			u := uidFor(cfg.Dotu, users[r.Intn(3)])
			if r.Intn(3) == 0 {
				plan.Text = "fileroot"
			}
			af := uint32(wire.NOFID)
			if r.Intn(6) == 0 {
				af = other
			}
			st = attachStep(fid, af, cfg.Dotu, u, plan)
			if cfg.Auth && r.Intn(4) == 0 {
				st.AuthReject = "rejected"
			}
		case 2:
			st = authStep(fid, uidFor(cfg.Dotu, users[r.Intn(3)]), plan)
		case 3, 4, 5:
			n := r.Intn(4)
			names := make([]string, n)
			for k := range names {
				names[k] = []string{"d", "f"}[r.Intn(2)] + fmt.Sprint(k)
			}
			if n > 0 && r.Intn(3) == 0 {
				plan.WalkN = r.Intn(n)
			}
			nf := other
			if r.Intn(3) == 0 {
				nf = fid
			}
			st = &Step{Msg: &wire.Msg{Type: wire.Twalk, Fid: fid, Newfid: nf, Wname: names}, Plan: plan}
		case 6:
			st = &Step{Msg: &wire.Msg{Type: wire.Topen, Fid: fid, Mode: []uint8{0, 1, 2, 3, 16, 17, 64}[r.Intn(7)]}, Plan: plan}
		case 7:
			perm := []uint32{0o644, 0x80000000 | 0o755, 0x02000000}[r.Intn(3)]
			st = &Step{Msg: &wire.Msg{Type: wire.Tcreate, Fid: fid, Name: fmt.Sprintf("n%d", i), Perm: perm, Mode: []uint8{0, 1, 2}[r.Intn(3)]}, Plan: plan}
		case 8:
			st = &Step{Msg: &wire.Msg{Type: wire.Tread, Fid: fid, Offset: uint64(r.Intn(1000)), Count: []uint32{0, 7, L, L + 1, 0xFFFFFFF0}[r.Intn(5)]}, Plan: plan}
		case 9:
			n := []int{0, 5, int(L), int(L) + 1}[r.Intn(4)]
			st = &Step{Msg: &wire.Msg{Type: wire.Twrite, Fid: fid, Offset: uint64(r.Intn(1000)), Count: uint32(n), Data: r.Bytes(n)}, Plan: plan}
		case 10:
			st = &Step{Msg: &wire.Msg{Type: wire.Tclunk, Fid: fid}, Plan: plan}
		case 11:
			st = &Step{Msg: &wire.Msg{Type: wire.Tremove, Fid: fid}, Plan: plan}
		case 12:
			st = &Step{Msg: &wire.Msg{Type: wire.Tstat, Fid: fid}, Plan: plan}
		case 13:
			st = &Step{Msg: &wire.Msg{Type: wire.Twstat, Fid: fid, Stat: wire.Stat{Name: fmt.Sprintf("w%d", i), Mode: 0o640, Nuid: 5, Ngid: 6, Nmuid: 7}}, Plan: plan}
		}
		st.Conn = ci
		if r.Intn(5) == 0 {
			st.LateFlush = true
		}
		before := h.Tabs[ci].StateKey(h.Alphabet)
		rep := h.Do(st)
		res.Evals++
		if rep != nil {
			res.Sig(fmt.Sprintf("%s|%s|%s", before, wire.TypeName(st.Msg.Type), wire.TypeName(rep.Type)))
		}
		if prop == "C04" || i%4 == 0 {
			h.Probe()
		}
	}
	res.Sample(map[string]interface{}{"kind": "random history", "connections": nconn, "steps": h.Steps, "config": fmt.Sprintf("%+v", cfg), "tail": h.tail()})
	if prop == "C04" && idx%2 == 0 {
		h.HoldInflight(3) // disconnect while requests naming valid fids are still executing
	}
	h.Finish()
	return res
}

// runMalformedWrites: Twrite frames whose count field disagrees with the payload; refused means
// Rerror or dropped connection, and in no case an invocation.
func runMalformedWrites(dotu bool) core.Result {
	var res core.Result
	for _, tc := range []struct{ count, payload int }{{10, 0}, {10, 9}, {10, 11}, {0, 5}, {0xFFFFFFFF, 4}, {1 << 31, 0}, {5, 200}} {
		h := NewHist(Config{Dotu: dotu, Msize: 8192}, 1, &res, "C05")
		if !h.Negotiate(256) {
			return res
		}
		h.Do(attachStep(0, wire.NOFID, dotu, uidFor(dotu, 1001), planFile()))
		h.Do(&Step{Msg: &wire.Msg{Type: wire.Topen, Fid: 0, Mode: 1}})
		c := h.Conns[0]
		m := &wire.Msg{Type: wire.Twrite, Tag: 500, Fid: 0, Offset: 1, Count: uint32(tc.count), Data: data(tc.payload)}
		seq0 := h.S.Log.Seq()
		_ = c.SendRaw(wire.Encode(m, dotu))
		rep, err := c.WaitTag(500, W)
		res.Evals++
		res.Sig(fmt.Sprintf("malformed|%d|%d|%v", tc.count, tc.payload, dotu))
		if err == nil && rep != nil && rep.Msg != nil && rep.Msg.Type != wire.Rerror {
			res.Violate("C05;malformed-write-accepted", fmt.Sprintf("Twrite count=%d with %d payload bytes answered %s", tc.count, tc.payload, rep.Msg.String()), nil)
		}
		if err == ErrTimeout {
			res.Violate("C05;malformed-write-ignored", fmt.Sprintf("Twrite count=%d with %d payload bytes: neither an error reply nor a dropped connection", tc.count, tc.payload), nil)
		}
		for _, e := range h.S.Log.Snapshot(seq0) {
			if e.Kind == "op" && e.Op == "Write" {
				res.Violate("C05;malformed-write-forwarded", fmt.Sprintf("Twrite count=%d with %d payload bytes reached the implementation", tc.count, tc.payload), nil)
			}
		}
		h.Fatal = true // the connection may be gone: skip the destroy accounting that needs replies
		h.Finish()
	}
	return res
}

// runGivenUpTwice: a fid is given up from two sides at about the same time while the implementation's FidDestroy is
// slow: the connection closes (its close processing reports the fid) while a Tclunk / Tremove of that fid, held in the
// implementation, is answered; or a request using the fid finishes after a Tclunk of it was answered. However the two
// overlap, the implementation hears of the fid exactly once.
func runGivenUpTwice(ctx *core.Ctx, dotu bool) core.Result {
	var res core.Result
	ver := "9P2000"
	if dotu {
		ver = "9P2000.u"
	}
	for round := 0; round < 12 && len(res.Violations) == 0; round++ {
		ctx.Beat()
		s := NewSess(Config{Dotu: dotu, Msize: 8192, Maxpend: []int{0, 4}[round%2]})
		c := s.Dial()
		if r, err := c.Version(8192, ver, W); err != nil || r.Msg == nil {
			res.Inconclusive = "c04 twice: version failed"
			return res
		}
		tag := uint16(0)
		rpc := func(m *wire.Msg) *wire.Msg {
			tag++
			m.Tag = tag
			r, err := c.Rpc(m, W)
			if err != nil || r.Msg == nil {
				return nil
			}
			return r.Msg
		}
		if a := rpc(&wire.Msg{Type: wire.Tattach, Fid: 1, Afid: wire.NOFID, Uname: "root", Nuname: 0}); a == nil || a.Type != wire.Rattach {
			res.Inconclusive = "c04 twice: attach failed"
			return res
		}
		rpc(&wire.Msg{Type: wire.Twalk, Fid: 1, Newfid: 20, Wname: []string{"f"}})
		seq0 := s.Log.Seq()
		rpc(&wire.Msg{Type: wire.Tstat, Fid: 20})
		var tok int64
		for _, ev := range s.Log.Snapshot(seq0) {
			if ev.Kind == "op" && ev.Op == "Stat" {
				tok = ev.Fid
			}
		}
		if tok == 0 {
			res.Inconclusive = "c04 twice: fid token not learned"
			return res
		}
		slow := make(chan struct{})
		s.Ops.SetDestroyGate(tok, slow)
		how := []string{"close-then-clunk-answer", "close-then-remove-answer", "clunk-then-user-finishes", "close-then-user-finishes"}[round%4]
		det := map[string]interface{}{"dotu": dotu, "round": round, "how": how}
		heldType := map[string]uint8{"close-then-clunk-answer": wire.Tclunk, "close-then-remove-answer": wire.Tremove, "clunk-then-user-finishes": wire.Tstat, "close-then-user-finishes": wire.Tread}[how]
		if heldType == wire.Tread {
			rpc(&wire.Msg{Type: wire.Topen, Fid: 20, Mode: 0})
		}
		plan := script.NewPlan()
		plan.Gate, plan.Entered = make(chan struct{}), make(chan struct{})
		tag++
		held := &wire.Msg{Type: heldType, Tag: tag, Fid: 20, Count: 8}
		s.Ops.SetPlan(c.ID, held.Tag, plan)
		_ = c.Send(held)
		select {
		case <-plan.Entered:
		case <-time.After(W):
			res.Inconclusive = "c04 twice: held request never started"
			close(slow)
			return res
		}
		destroys := func() int {
			n := 0
			for _, ev := range s.Log.Snapshot(seq0) {
				if ev.Kind == "destroy" && ev.Fid == tok {
					n++
				}
			}
			return n
		}
		// first side: the report that stays inside the slow FidDestroy
		if how == "clunk-then-user-finishes" {
			tag++
			_ = c.Send(&wire.Msg{Type: wire.Tclunk, Tag: tag, Fid: 20})
		} else {
			c.Hangup()
		}
		inside := waitFor(W, func() bool { return destroys() >= 1 })
		if !inside {
			res.Inconclusive = "c04 twice: the first report never reached FidDestroy"
			close(plan.Gate)
			close(slow)
			return res
		}
		// second side: the held request is answered and lets go of the fid while the first FidDestroy is still running
		seq1 := s.Log.Seq()
		close(plan.Gate)
		waitFor(W, func() bool {
			for _, ev := range s.Log.Snapshot(seq1) {
				if ev.Kind == "exit" && ev.Tag == held.Tag {
					return true
				}
			}
			return false
		})
		// (a second FidDestroy would have been entered by now: the answer's processing gives the fid up before it returns)
		time.Sleep(3 * time.Millisecond)
		res.Evals++
		n := destroys()
		close(slow)
		if how != "clunk-then-user-finishes" {
			s.Ctl.WaitPassed("close.exit", c.ID, sched.AnyTag, 1, W)
		} else {
			c.Quiesce(W)
			c.Hangup()
			s.Ctl.WaitPassed("close.exit", c.ID, sched.AnyTag, 1, W)
		}
		if m := destroys(); m > n {
			n = m
		}
		if n != 1 {
			res.Violate(fmt.Sprintf("C04;given-up-twice;destroy-count;n=%d;%s", n, how), fmt.Sprintf("a fid given up from two sides while FidDestroy was slow (%s) was reported destroyed %d times", how, n), det)
		}
		res.Sig(fmt.Sprintf("given-up-twice|%v|%s|mp=%d", dotu, how, round%2))
	}
	res.Sample(map[string]interface{}{"scenario": "fid given up by the closing connection / a Tclunk while another request's answer releases it, slow FidDestroy", "dotu": dotu})
	return res
}

// runSameNumberRace: eight pipelined requests, all outstanding at once, each binding the same unused fid number
// (Tattach, and Twalk to a new fid). Whatever the schedule, the number is bound to one object: exactly one request
// succeeds, the implementation sees exactly one binding, and over the connection every object shown is reported
// destroyed exactly once.
func runSameNumberRace(ctx *core.Ctx, dotu bool, rounds int) core.Result {
	var res core.Result
	s := NewSess(Config{Dotu: dotu, Msize: 8192})
	c := s.Dial()
	ver := "9P2000"
	if dotu {
		ver = "9P2000.u"
	}
	if r, err := c.Version(8192, ver, W); err != nil || r.Msg == nil {
		res.Inconclusive = "c04 race: version failed"
		return res
	}
	if a, err := c.Rpc(&wire.Msg{Type: wire.Tattach, Tag: 1, Fid: 0, Afid: wire.NOFID, Uname: "root", Nuname: 0}, W); err != nil || a.Msg == nil || a.Msg.Type != wire.Rattach {
		res.Inconclusive = "c04 race: attach failed"
		return res
	}
	fail := func(sig, msg string, round int) {
		res.Violate("C04;same-number-race;"+sig, msg, map[string]interface{}{"dotu": dotu, "round": round})
	}
	const k = 8
	multi := 0
	for round := 0; round < rounds && len(res.Violations) < 3; round++ {
		if round%200 == 0 {
			ctx.Beat()
		}
		fidno := uint32(100 + round%7)
		var raw []byte
		kinds := ""
		for i := 0; i < k; i++ {
			m := &wire.Msg{Type: wire.Tattach, Tag: uint16(10 + i), Fid: fidno, Afid: wire.NOFID, Uname: "root", Nuname: 0}
			if (round>>uint(i%4))&1 == 1 && round%3 != 0 {
				m = &wire.Msg{Type: wire.Twalk, Tag: uint16(10 + i), Fid: 0, Newfid: fidno}
			}
			kinds += wire.TypeName(m.Type)[1:2]
			raw = append(raw, wire.Encode(m, dotu)...)
		}
		seq0 := s.Log.Seq()
		_ = c.SendRaw(raw)
		ok := 0
		for i := 0; i < k; i++ {
			r, err := c.WaitTag(uint16(10+i), W)
			if err != nil || r.Msg == nil {
				res.Inconclusive = fmt.Sprintf("c04 race: no reply in round %d", round)
				return res
			}
			if r.Msg.Type == wire.Rattach || r.Msg.Type == wire.Rwalk {
				ok++
			}
		}
		res.Evals++
		bound := 0
		for _, ev := range s.Log.Snapshot(seq0) {
			if ev.Kind == "op" && (ev.Op == "Attach" || ev.Op == "Walk") {
				bound++
			}
		}
		if ok != 1 {
			fail(fmt.Sprintf("winners=%d", min(ok, 2)), fmt.Sprintf("%d of %d simultaneous requests binding fid %d succeeded (kinds %s)", ok, k, fidno, kinds), round)
		}
		if bound != 1 {
			fail(fmt.Sprintf("forwarded=%d", min(bound, 2)), fmt.Sprintf("%d of %d simultaneous requests binding fid %d reached the implementation (kinds %s)", bound, k, fidno, kinds), round)
		}
		if bound > 1 || ok > 1 {
			multi++
		}
		if r, err := c.Rpc(&wire.Msg{Type: wire.Tclunk, Tag: 2, Fid: fidno}, W); err != nil || r.Msg == nil || r.Msg.Type != wire.Rclunk {
			fail("clunk", fmt.Sprintf("the fid bound in the race cannot be clunked: %v", r), round)
		}
		if round < 64 {
			res.Sig("race|" + kinds)
		}
	}
	shown := map[int64]bool{}
	for _, ev := range s.Log.Snapshot(0) {
		if ev.Kind == "op" {
			for _, t := range []int64{ev.Fid, ev.Newfid} {
				if t != 0 {
					shown[t] = true
				}
			}
		}
	}
	c.Hangup()
	s.Ctl.WaitPassed("close.exit", c.ID, sched.AnyTag, 1, W)
	counts := map[int64]int{}
	for _, ev := range s.Log.Snapshot(0) {
		if ev.Kind == "destroy" {
			counts[ev.Fid]++
		}
	}
	bad := 0
	for t := range shown {
		if counts[t] != 1 {
			bad++
		}
	}
	if bad > 0 {
		fail("destroy-count", fmt.Sprintf("%d of %d fid objects shown to the implementation were not reported destroyed exactly once", bad, len(shown)), -1)
	}
	res.Count("same_number_race_rounds", int64(rounds))
	res.Sample(map[string]interface{}{"scenario": "8 simultaneous requests binding one unused fid number", "rounds": rounds, "objects_shown": len(shown), "dotu": dotu})
	return res
}

// runRefusedVersion: a Tversion the server refuses (msize below IOHDRSZ) changes nothing: the count limit of the
// session stays msize-IOHDRSZ of the size negotiated before, for reads and writes at every boundary of the statement.
func runRefusedVersion(dotu bool) core.Result {
	var res core.Result
	ver := "9P2000"
	if dotu {
		ver = "9P2000.u"
	}
	for _, first := range []uint32{256, 8192} {
		for _, small := range []uint32{0, 1, 7, 22, 23} {
			h := NewHist(Config{Dotu: dotu, Msize: 8192}, 1, &res, "C05")
			if !h.Negotiate(first) {
				return res
			}
			h.Do(attachStep(0, wire.NOFID, dotu, uidFor(dotu, 1001), planFile()))
			h.Do(&Step{Msg: &wire.Msg{Type: wire.Topen, Fid: 0, Mode: 2}})
			rep, err := h.Conns[0].Version(small, ver, W)
			if err != nil || rep == nil || rep.Msg == nil || rep.Msg.Type != wire.Rerror {
				// not the refusal this case is about (the session was renegotiated or lost): nothing to judge here
				res.Count("refused_version_not_refused", 1)
				h.Fatal = true
				h.Finish()
				continue
			}
			L := h.Tabs[0].Msize - wire.IOHDRSZ
			for _, n := range []uint32{0, L - 1, L, L + 1, 1 << 31, 0xFFFFFFE8, 0xFFFFFFFF} {
				h.Do(&Step{Msg: &wire.Msg{Type: wire.Tread, Fid: 0, Offset: 3, Count: n}})
				res.Evals++
			}
			for _, n := range []int{0, int(L) - 1, int(L), int(L) + 1} {
				h.Do(&Step{Msg: &wire.Msg{Type: wire.Twrite, Fid: 0, Offset: 5, Count: uint32(n), Data: data(n)}})
				res.Evals++
			}
			res.Sig(fmt.Sprintf("refused-version|%v|%d|%d", dotu, first, small))
			h.Finish()
		}
	}
	res.Sample(map[string]interface{}{"scenario": "Tversion with msize below IOHDRSZ refused mid-session, then reads and writes at every count boundary", "dotu": dotu})
	return res
}

// runNamedUsers: the user the implementation sees is the one the client named — by number in 9P2000.u, by name in
// plain 9P2000 (the other histories attach as uid 0 in the plain dialect, where go9p resolves every attach to uid 0).
func runNamedUsers(dotu bool) core.Result {
	var res core.Result
	for _, auth := range []bool{false, true} {
		for _, uid := range []int{0, 1001, 1002} {
			h := NewHist(Config{Dotu: dotu, Msize: 8192, Auth: auth}, 1, &res, "C05")
			if !h.Negotiate(8192) {
				return res
			}
			if auth {
				h.Do(authStep(1, uid, nil))
			}
			h.Do(attachStep(0, wire.NOFID, dotu, uid, nil))
			h.Do(&Step{Msg: &wire.Msg{Type: wire.Tstat, Fid: 0}})
			res.Evals++
			res.Sig(fmt.Sprintf("named-user|%v|%v|%d", dotu, auth, uid))
			h.Finish()
		}
	}
	res.Sample(map[string]interface{}{"scenario": "attach as root / alice / bob by name and number", "dotu": dotu})
	return res
}

// runInvalidatedUnder: a fid is clunked or removed while another request naming it is still executing in the
// implementation (legal 9P: the requests were pipelined). The history still determines the table: after the Rclunk /
// Rremove the number is invalid (unknown fid, not forwarded) and free to be bound again; the implementation has been
// told about the old object by then; when the slow request finally finishes, the new fid bound to the same number is
// untouched; at the disconnect every object was reported destroyed exactly once.
func runInvalidatedUnder(prop string, dotu bool) core.Result {
	var res core.Result
	for round := 0; round < 12 && len(res.Violations) < 3; round++ {
		s := NewSess(Config{Dotu: dotu, Msize: 8192, Maxpend: []int{0, 4}[round%2], ProcOps: round%4 == 3})
		c := s.Dial()
		ver := "9P2000"
		if dotu {
			ver = "9P2000.u"
		}
		if r, err := c.Version(8192, ver, W); err != nil || r.Msg == nil {
			res.Inconclusive = "c04: version failed"
			return res
		}
		tag := uint16(0)
		rpc := func(m *wire.Msg) *wire.Msg {
			tag++
			m.Tag = tag
			r, err := c.Rpc(m, W)
			if err != nil || r.Msg == nil {
				return nil
			}
			return r.Msg
		}
		what := fmt.Sprintf("round %d", round)
		fail := func(sig, msg string) {
			if prop == "C11" && !strings.HasPrefix(sig, "destroy-count") {
				return // C11 only judges what the disconnect leaves behind
			}
			res.Violate(prop+";invalidated-under-a-request;"+sig, msg+" ["+what+"]", map[string]interface{}{"dotu": dotu, "round": round})
		}
		if a := rpc(&wire.Msg{Type: wire.Tattach, Fid: 0, Afid: wire.NOFID, Uname: "root", Nuname: 0}); a == nil || a.Type != wire.Rattach {
			res.Inconclusive = "c04: attach failed"
			return res
		}
		rpc(&wire.Msg{Type: wire.Twalk, Fid: 0, Newfid: 5, Wname: []string{"f"}})
		rpc(&wire.Msg{Type: wire.Topen, Fid: 5, Mode: 2})
		// the slow request on fid 5
		tag++
		slowKinds := []*wire.Msg{{Type: wire.Tread, Fid: 5, Offset: 0, Count: 10}, {Type: wire.Tstat, Fid: 5}, {Type: wire.Twrite, Fid: 5, Offset: 0, Count: 2, Data: []byte("xy")}}
		slow := slowKinds[round%3]
		slow.Tag = tag
		sp := script.NewPlan()
		sp.Gate = make(chan struct{})
		sp.Entered = make(chan struct{})
		s.Ops.SetPlan(c.ID, slow.Tag, sp)
		seq0 := s.Log.Seq()
		_ = c.Send(slow)
		select {
		case <-sp.Entered:
		case <-time.After(W):
			res.Inconclusive = "c04: slow request never started"
			return res
		}
		var oldTok int64
		for _, ev := range s.Log.Snapshot(seq0) {
			if ev.Kind == "op" && ev.Tag == slow.Tag {
				oldTok = ev.Fid
			}
		}
		inval := &wire.Msg{Type: wire.Tclunk, Fid: 5}
		if round%2 == 1 {
			inval.Type = wire.Tremove
		}
		what = fmt.Sprintf("round %d: %s held in the implementation, then %s", round, wire.TypeName(slow.Type), wire.TypeName(inval.Type))
		ir := rpc(inval)
		res.Evals++
		if ir == nil || ir.Type != inval.Type+1 {
			fail("refused", fmt.Sprintf("%s on a fid with a request in progress answered %v", wire.TypeName(inval.Type), ir))
			close(sp.Gate)
			c.Hangup()
			continue
		}
		seqInval := s.Log.Seq()
		// told about the destruction no later than the reply that invalidates the fid
		destroyed := 0
		for _, ev := range s.Log.Snapshot(seq0) {
			if ev.Kind == "destroy" && ev.Fid == oldTok && ev.Seq <= seqInval {
				destroyed++
			}
		}
		if destroyed != 1 {
			fail(fmt.Sprintf("destroy-not-by-reply;n=%d", destroyed), fmt.Sprintf("when the reply invalidating the fid arrived the implementation had been told %d times that the fid object is gone", destroyed))
		}
		// invalid now: not forwarded, "unknown fid"
		seq1 := s.Log.Seq()
		if st := rpc(&wire.Msg{Type: wire.Tstat, Fid: 5}); st == nil || st.Type != wire.Rerror || st.Ename != "unknown fid" {
			fail("still-valid", fmt.Sprintf("after the %s the fid still answers: %v", wire.TypeName(ir.Type), st))
		}
		for _, ev := range s.Log.Snapshot(seq1) {
			if ev.Kind == "op" && ev.Fid == oldTok && ev.Op == "Stat" {
				fail("forwarded-after-invalidation", "a request on the invalidated fid reached the implementation")
			}
		}
		// the number can be bound again
		w := rpc(&wire.Msg{Type: wire.Twalk, Fid: 0, Newfid: 5, Wname: []string{"d"}})
		rebound := w != nil && w.Type == wire.Rwalk
		if !rebound {
			fail("number-not-free", fmt.Sprintf("binding the invalidated fid number again answered %v", w))
		}
		// the slow request finishes
		close(sp.Gate)
		if _, err := c.WaitTag(slow.Tag, W); err != nil {
			fail("slow-request-lost", "the request that was executing got no reply")
		}
		c.Quiesce(W)
		if rebound {
			seq2 := s.Log.Seq()
			st := rpc(&wire.Msg{Type: wire.Tstat, Fid: 5})
			if st == nil || st.Type != wire.Rstat {
				fail("new-fid-lost", fmt.Sprintf("after the old request finished, the fid bound anew to the same number answers %v", st))
			} else {
				for _, ev := range s.Log.Snapshot(seq2) {
					if ev.Kind == "op" && ev.Op == "Stat" && ev.Fid == oldTok {
						fail("old-object-resurfaced", "the number designates the old fid object again")
					}
				}
			}
		}
		// disconnect: every object exactly once
		shown := map[int64]bool{}
		for _, ev := range s.Log.Snapshot(0) {
			if ev.Kind == "op" {
				for _, t := range []int64{ev.Fid, ev.Newfid} {
					if t != 0 {
						shown[t] = true
					}
				}
			}
		}
		c.Hangup()
		s.Ctl.WaitPassed("close.exit", c.ID, sched.AnyTag, 1, W)
		counts := map[int64]int{}
		for _, ev := range s.Log.Snapshot(0) {
			if ev.Kind == "destroy" {
				counts[ev.Fid]++
			}
		}
		for t := range shown {
			if counts[t] != 1 {
				fail(fmt.Sprintf("destroy-count;n=%d", counts[t]), fmt.Sprintf("fid object %d was reported destroyed %d times over the whole connection", t, counts[t]))
				break
			}
		}
		res.Sig(fmt.Sprintf("invalidated-under|%s|%s|%v", wire.TypeName(slow.Type), wire.TypeName(inval.Type), dotu))
	}
	return res
}

// runUfsFidTable: the fid table rules with the bundled Unix file server behind the framework. An implementation takes
// and gives back references of its own on fids that a request merely mentions (the source fid of a hard-link create,
// named in the extension): every fid that was bound and not clunked stays valid, keeps its number and its object,
// and is gone with its Rclunk.
func runUfsFidTable(ctx *core.Ctx) core.Result {
	var res core.Result
	root := filepath.Join(ctx.Scratch, fmt.Sprintf("c04ufs-%d", ctx.Index))
	_ = os.RemoveAll(root)
	if err := os.MkdirAll(filepath.Join(root, "d"), 0o755); err != nil {
		res.Inconclusive = err.Error()
		return res
	}
	defer os.RemoveAll(root)
	_ = os.WriteFile(filepath.Join(root, "src"), []byte("source file"), 0o644)
	s := NewUfsSess(root, true, 8192)
	c := s.Dial()
	defer c.Hangup()
	if r, err := c.Version(8192, "9P2000.u", W); err != nil || r.Msg == nil || r.Msg.Type != wire.Rversion {
		res.Inconclusive = "c04ufs: version failed"
		return res
	}
	tag := uint16(0)
	rpc := func(m *wire.Msg) *wire.Msg {
		tag++
		m.Tag = tag
		r, err := c.Rpc(m, W)
		if err != nil || r.Msg == nil {
			return &wire.Msg{}
		}
		return r.Msg
	}
	fail := func(sig, what string) {
		res.Violate("C04;ufs-fid-table;"+sig, what, nil)
	}
	if a := rpc(&wire.Msg{Type: wire.Tattach, Fid: 0, Afid: wire.NOFID, Uname: "root", Nuname: 0}); a.Type != wire.Rattach {
		res.Inconclusive = "c04ufs: attach failed"
		return res
	}
	valid := func(fid uint32, name, when string) {
		key := "fresh"
		switch {
		case strings.Contains(when, "as its source"):
			key = "named-as-link-source"
		case strings.Contains(when, "with the extension"):
			key = "unusable-link-extension"
		}
		res.Evals++
		st := rpc(&wire.Msg{Type: wire.Tstat, Fid: fid})
		if st.Type != wire.Rstat || st.Stat.Name != name {
			fail("bound-fid-lost;"+key, fmt.Sprintf("fid %d was bound to %q and never clunked, %s a Tstat on it answers %s", fid, name, when, st.String()))
		}
		if w := rpc(&wire.Msg{Type: wire.Twalk, Fid: 0, Newfid: fid}); w.Type != wire.Rerror || w.Ename != "fid already in use" {
			fail("number-free-while-bound;"+key, fmt.Sprintf("fid number %d is bound, %s a Twalk to it as newfid answers %s", fid, when, w.String()))
			if w.Type == wire.Rwalk {
				rpc(&wire.Msg{Type: wire.Tclunk, Fid: fid})
			}
		}
	}
	for round := 0; round < 4 && len(res.Violations) == 0; round++ {
		S, D := uint32(10+round*4), uint32(11+round*4)
		if w := rpc(&wire.Msg{Type: wire.Twalk, Fid: 0, Newfid: S, Wname: []string{"src"}}); w.Type != wire.Rwalk {
			res.Inconclusive = "c04ufs: walk failed"
			return res
		}
		valid(S, "src", "before any other request mentions it")
		// requests on another fid that mention S: a hard link whose extension names S (good, and one that fails
		// because the name exists), and garbage extensions
		for k, name := range []string{fmt.Sprintf("l%d", round), fmt.Sprintf("l%d", round), "src"} {
			if w := rpc(&wire.Msg{Type: wire.Twalk, Fid: 0, Newfid: D, Wname: []string{"d"}}); w.Type != wire.Rwalk {
				continue
			}
			cr := rpc(&wire.Msg{Type: wire.Tcreate, Fid: D, Name: name, Perm: 0x01000000 | 0o644, Mode: 0, Ext: fmt.Sprintf("%d", S)})
			valid(S, "src", fmt.Sprintf("after a hard-link create on another fid named it as its source (attempt %d, answered %s)", k, wire.TypeName(cr.Type)))
			rpc(&wire.Msg{Type: wire.Tclunk, Fid: D})
		}
		for _, ext := range []string{"", "x", "99999", "-1", fmt.Sprintf("%d", D)} {
			if w := rpc(&wire.Msg{Type: wire.Twalk, Fid: 0, Newfid: D, Wname: []string{"d"}}); w.Type != wire.Rwalk {
				continue
			}
			rpc(&wire.Msg{Type: wire.Tcreate, Fid: D, Name: fmt.Sprintf("bad%d", round), Perm: 0x01000000 | 0o644, Mode: 0, Ext: ext})
			valid(S, "src", "after a hard-link create with the extension "+ext)
			rpc(&wire.Msg{Type: wire.Tclunk, Fid: D})
		}
		if cl := rpc(&wire.Msg{Type: wire.Tclunk, Fid: S}); cl.Type != wire.Rclunk {
			fail("clunk-refused", fmt.Sprintf("Tclunk of the bound fid %d answered %s", S, cl.String()))
		}
		if st := rpc(&wire.Msg{Type: wire.Tstat, Fid: S}); st.Type != wire.Rerror {
			fail("valid-after-clunk", fmt.Sprintf("fid %d answers %s after its Rclunk", S, st.String()))
		}
		res.Sig(fmt.Sprintf("ufs-fid-table|%d", round))
	}
	return res
}

// runCancelledBinding: a request that would bind a fid (Twalk to a new fid, Tattach, Tauth) is cancelled while the
// implementation holds it — by a Tflush the implementation honours (req.Flush()), or by a Tversion — and answers late,
// into the void. No Rwalk/Rattach/Rauth was ever sent: the fid number is not valid, stays free to be bound, and the
// fid object shown to the implementation is reported destroyed.
func runCancelledBinding(dotu bool) core.Result {
	var res core.Result
	ver := "9P2000"
	if dotu {
		ver = "9P2000.u"
	}
	for _, how := range []string{"tflush", "tversion"} {
		for _, kind := range []string{"walk", "attach", "auth"} {
			if kind == "auth" && how == "tflush" {
				continue // (the scripted implementation cannot cancel from inside its authentication callback)
			}
			s := NewSess(Config{Dotu: dotu, Msize: 8192, Flush: true, Auth: true})
			c := s.Dial()
			if r, err := c.Version(8192, ver, W); err != nil || r.Msg == nil || r.Msg.Type != wire.Rversion {
				res.Inconclusive = "c04: version failed"
				return res
			}
			tag := uint16(0)
			rpc := func(m *wire.Msg) *wire.Msg {
				tag++
				m.Tag = tag
				r, err := c.Rpc(m, W)
				if err != nil || r.Msg == nil {
					return &wire.Msg{}
				}
				return r.Msg
			}
			fail := func(sig, msg string) {
				res.Violate("C04;cancelled-binding;"+kind+";"+how+";"+sig, msg, map[string]interface{}{"dotu": dotu})
			}
			if a := rpc(&wire.Msg{Type: wire.Tattach, Fid: 0, Afid: wire.NOFID, Uname: "root", Nuname: 0}); a.Type != wire.Rattach {
				res.Inconclusive = "c04: attach failed"
				return res
			}
			for round := 0; round < 3 && len(res.Violations) == 0; round++ {
				N := uint32(40 + round)
				var m *wire.Msg
				switch kind {
				case "walk":
					m = &wire.Msg{Type: wire.Twalk, Fid: 0, Newfid: N, Wname: []string{"d"}}
				case "attach":
					m = &wire.Msg{Type: wire.Tattach, Fid: N, Afid: wire.NOFID, Uname: "root", Nuname: 0, Aname: "second"}
				case "auth":
					m = &wire.Msg{Type: wire.Tauth, Afid: N, Uname: "root", Nuname: 0, Aname: "x"}
				}
				tag++
				m.Tag = tag
				p := script.NewPlan()
				p.Gate, p.Entered = make(chan struct{}), make(chan struct{})
				s.Ops.SetPlan(c.ID, m.Tag, p)
				if kind == "auth" {
					s.Ops.SetCallbackGate("AuthInit", p.Gate)
				}
				s.Ops.SetFlushMode(c.ID, m.Tag, "cancel")
				seq0 := s.Log.Seq()
				_ = c.Send(m)
				entered := false
				if kind == "auth" {
					entered = waitFor(W, func() bool {
						for _, ev := range s.Log.Snapshot(seq0) {
							if ev.Kind == "blocked" {
								return true
							}
						}
						return false
					})
				} else {
					select {
					case <-p.Entered:
						entered = true
					case <-time.After(W):
					}
				}
				if !entered {
					res.Inconclusive = "c04: binding request never reached the implementation"
					close(p.Gate)
					return res
				}
				res.Evals++
				switch how {
				case "tflush":
					if f := rpc(&wire.Msg{Type: wire.Tflush, Oldtag: m.Tag}); f.Type != wire.Rflush {
						fail("no-rflush", "Tflush of the held request answered "+f.String())
					}
				case "tversion":
					if r, err := c.Version(8192, ver, W); err != nil || r.Msg == nil || r.Msg.Type != wire.Rversion {
						fail("no-rversion", "Tversion while the request was held was not answered")
					}
				}
				close(p.Gate) // the late answer
				c.Quiesce(W)
				time.Sleep(time.Millisecond)
				if rp, err := c.WaitTag(m.Tag, 5*time.Millisecond); err == nil && rp != nil && rp.Msg != nil {
					if how == "tflush" && kind != "auth" {
						fail("reply-after-cancel", "the cancelled request was answered after all: "+rp.Msg.String())
					}
				}
				// the number was never bound
				if st := rpc(&wire.Msg{Type: wire.Tstat, Fid: N}); st.Type != wire.Rerror || st.Ename != "unknown fid" {
					fail("number-valid", fmt.Sprintf("fid %d was named by a cancelled %s only; Tstat on it answers %s", N, kind, st.String()))
				}
				if cl := rpc(&wire.Msg{Type: wire.Tclunk, Fid: N}); cl.Type != wire.Rerror {
					fail("number-clunkable", fmt.Sprintf("Tclunk of the never-bound fid %d answers %s", N, cl.String()))
				}
				// … and can be bound
				if w := rpc(&wire.Msg{Type: wire.Twalk, Fid: 0, Newfid: N}); w.Type != wire.Rwalk {
					fail("number-not-free", fmt.Sprintf("fid number %d was named by a cancelled %s only; binding it answers %s", N, kind, w.String()))
				} else {
					rpc(&wire.Msg{Type: wire.Tclunk, Fid: N})
				}
				// every fid object the implementation was shown for the cancelled request has been reported destroyed
				shown, destroyed := map[int64]bool{}, map[int64]int{}
				for _, ev := range s.Log.Snapshot(seq0) {
					if ev.Conn == c.ID && ev.Tag == m.Tag && ev.Kind == "op" {
						if ev.Newfid != 0 {
							shown[ev.Newfid] = true
						}
						if kind != "walk" && ev.Fid != 0 {
							shown[ev.Fid] = true
						}
					}
					if ev.Kind == "destroy" {
						destroyed[ev.Fid]++
					}
				}
				for tok := range shown {
					if destroyed[tok] != 1 {
						fail("destroy-count", fmt.Sprintf("the fid object of the cancelled %s was reported destroyed %d times", kind, destroyed[tok]))
					}
				}
				res.Sig(fmt.Sprintf("cancelled-binding|%v|%s|%s", dotu, kind, how))
			}
			c.Hangup()
		}
	}
	return res
}
