// Package codec holds the engines for C01 (wire-format fidelity) and C02
// (decoding is total and bounded). Both call go9p's codec in-process and
// compare it with the independent codec in package wire.
package codec

import (
	"fmt"
	"strings"

	"github.com/rminnich/go9p"

	"verif/core"
	"verif/wire"
)

// chooser decides, field by field, which value class a generated message uses.
// focus/focusClass force one field to one class (boundary grid: one factor at
// a time); all >= 0 forces every field to that class index; otherwise classes
// are drawn at random with a bias towards small benign values.
type chooser struct {
	r          *core.Rand
	focus      int
	focusClass int
	all        int
	idx        int
	labels     []string
	big        bool // allow the expensive classes (64 KiB strings, huge counts)
}

func (c *chooser) class(name string, n int, benign int) int {
	i := c.idx
	c.idx++
	var k int
	switch {
	case i == c.focus:
		k = c.focusClass % n
	case c.all >= 0:
		k = c.all % n
	case c.focus >= 0:
		k = benign
	default:
		k = c.r.Intn(n)
	}
	c.labels = append(c.labels, fmt.Sprintf("%s:%d", name, k))
	return k
}

func (c *chooser) u8(name string) uint8 {
	switch c.class(name, 6, 5) {
	case 0:
		return 0
	case 1:
		return 1
	case 2:
		return 0xFE
	case 3:
		return 0xFF
	case 4:
		return 0x80
	}
	return uint8(c.r.Uint64())
}

func (c *chooser) u16(name string) uint16 {
	switch c.class(name, 6, 5) {
	case 0:
		return 0
	case 1:
		return 1
	case 2:
		return 0xFFFE
	case 3:
		return 0xFFFF
	case 4:
		return 0x8000
	}
	return uint16(c.r.Uint64())
}

func (c *chooser) u32(name string) uint32 {
	switch c.class(name, 6, 5) {
	case 0:
		return 0
	case 1:
		return 1
	case 2:
		return 0xFFFFFFFE
	case 3:
		return 0xFFFFFFFF
	case 4:
		return 0x80000000
	}
	return uint32(c.r.Uint64())
}

func (c *chooser) u64(name string) uint64 {
	switch c.class(name, 6, 5) {
	case 0:
		return 0
	case 1:
		return 1
	case 2:
		return 0xFFFFFFFFFFFFFFFE
	case 3:
		return 0xFFFFFFFFFFFFFFFF
	case 4:
		return 0x8000000000000000
	}
	return c.r.Uint64()
}

var strLens = []int{0, 1, 2, 127, 128, 255, 256, 4095, 65535}

// str: 9 length classes x 5 byte classes; benign = short ASCII.
func (c *chooser) str(name string) string {
	k := c.class(name, 45, 1*5+2)
	n := strLens[k/5]
	if n > 4095 && !c.big && c.focus < 0 && c.all < 0 {
		n = 300 + c.r.Intn(200)
	}
	return c.fill(n, k%5)
}

func (c *chooser) fill(n, bc int) string {
	if n == 0 {
		return ""
	}
	switch bc {
	case 0:
		return strings.Repeat("\x00", n)
	case 1:
		return strings.Repeat("\xff", n)
	case 2:
		b := make([]byte, n)
		for i := range b {
			b[i] = byte('a' + (i*7+n)%26)
		}
		return string(b)
	case 3:
		// UTF-8 multibyte, cut to n bytes (may end mid-rune: still arbitrary bytes)
		s := strings.Repeat("é世𝄞/", n/10+1)
		return s[:n]
	}
	return string(c.r.Bytes(n))
}

func (c *chooser) qid(name string) wire.Qid {
	return wire.Qid{Type: c.u8(name + ".type"), Version: c.u32(name + ".vers"), Path: c.u64(name + ".path")}
}

var nameCounts = []int{0, 1, 2, 16, 17, 255, 300, 65535}

func (c *chooser) names(name string) []string {
	k := c.class(name, len(nameCounts), 2)
	n := nameCounts[k]
	if n > 300 && !c.big && c.focus < 0 && c.all < 0 {
		n = 20
	}
	out := make([]string, n)
	// element strings: keep the whole message well under the buffer
	for i := range out {
		switch {
		case n > 1000:
			out[i] = c.fill(i%3, 2)
		case n > 20:
			out[i] = c.fill(c.r.Intn(40), c.r.Intn(5))
		default:
			l := []int{0, 1, 7, 255, 256, 1000}[c.r.Intn(6)]
			out[i] = c.fill(l, c.r.Intn(5))
		}
	}
	if n > 0 && n <= 20 && c.idx-1 == c.focus {
		// boundary: one very long element
		if c.focusClass >= len(nameCounts) {
			out[n-1] = c.fill(65535, 2)
		}
	}
	return out
}

func (c *chooser) qids(name string) []wire.Qid {
	k := c.class(name, len(nameCounts), 2)
	n := nameCounts[k]
	if n > 300 && !c.big && c.focus < 0 && c.all < 0 {
		n = 20
	}
	out := make([]wire.Qid, n)
	for i := range out {
		out[i] = wire.Qid{Type: uint8(c.r.Uint64()), Version: c.r.Uint32(), Path: c.r.Uint64()}
		if i%5 == 0 {
			out[i] = wire.Qid{Type: 0xFF, Version: 0xFFFFFFFF, Path: 0xFFFFFFFFFFFFFFFF}
		}
	}
	return out
}

var dataLens = []int{0, 1, 23, 24, 4096, 8192, 65535, 65536, 1 << 20}

func (c *chooser) data(name string, max int) []byte {
	k := c.class(name, len(dataLens)+1, 2)
	var n int
	if k == len(dataLens) {
		n = max
	} else {
		n = dataLens[k]
	}
	if n > max {
		n = max
	}
	if n > 70000 && !c.big && c.focus < 0 && c.all < 0 {
		n = c.r.Intn(3000)
	}
	return c.r.Bytes(n)
}

// stat generates a record whose encoded length (with size[2]) is at most maxTotal:
// 65537 for a record on its own (size field <= 65535), 65535 inside Rstat/Twstat
// where the enclosing stat[n] counts the whole record in 16 bits.
func (c *chooser) stat(dotu bool, maxTotal int) wire.Stat {
	var s wire.Stat
	s.Type = c.u16("st.type")
	s.Dev = c.u32("st.dev")
	s.Qid = c.qid("st.qid")
	s.Mode = c.u32("st.mode")
	s.Atime = c.u32("st.atime")
	s.Mtime = c.u32("st.mtime")
	s.Length = c.u64("st.length")
	s.Name = c.str("st.name")
	s.Uid = c.str("st.uid")
	s.Gid = c.str("st.gid")
	s.Muid = c.str("st.muid")
	if dotu {
		s.Ext = c.str("st.ext")
		s.Nuid = c.u32("st.nuid")
		s.Ngid = c.u32("st.ngid")
		s.Nmuid = c.u32("st.nmuid")
	} else {
		s.Nuid, s.Ngid, s.Nmuid = wire.NOUID, wire.NOUID, wire.NOUID
	}
	// representable: the record (without its size field) must fit a 16-bit size
	for wire.StatLen(&s, dotu) > maxTotal {
		over := wire.StatLen(&s, dotu) - maxTotal
		ps := []*string{&s.Name, &s.Uid, &s.Gid, &s.Muid, &s.Ext}
		longest := ps[0]
		for _, p := range ps {
			if len(*p) > len(*longest) {
				longest = p
			}
		}
		cut := over
		if cut > len(*longest) {
			cut = len(*longest)
		}
		*longest = (*longest)[:len(*longest)-cut]
	}
	return s
}

// maxPayload is the largest data[] used for Rread/Twrite (go9p's default msize payload).
const maxPayload = 1 << 20

// gen builds the field tuple for one message of type t.
func gen(c *chooser, t uint8, dotu bool) *wire.Msg {
	m := &wire.Msg{Type: t, Tag: wire.NOTAG, Fid: wire.NOFID, Afid: wire.NOFID, Newfid: wire.NOFID}
	switch t {
	case wire.Tversion, wire.Rversion:
		m.Msize = c.u32("msize")
		m.Version = c.str("version")
	case wire.Tauth:
		m.Afid = c.u32("afid")
		m.Uname = c.str("uname")
		m.Aname = c.str("aname")
		m.Nuname = wire.NOUID
		if dotu {
			m.Nuname = c.u32("nuname")
		}
	case wire.Tattach:
		m.Fid = c.u32("fid")
		m.Afid = c.u32("afid")
		m.Uname = c.str("uname")
		m.Aname = c.str("aname")
		m.Nuname = wire.NOUID
		if dotu {
			m.Nuname = c.u32("nuname")
		}
	case wire.Rauth, wire.Rattach:
		m.Qid = c.qid("qid")
	case wire.Rerror:
		m.Ename = c.str("ename")
		if dotu {
			m.Ecode = c.u32("ecode")
		}
	case wire.Tflush:
		m.Oldtag = c.u16("oldtag")
	case wire.Twalk:
		m.Fid = c.u32("fid")
		m.Newfid = c.u32("newfid")
		m.Wname = c.names("wname")
	case wire.Rwalk:
		m.Wqid = c.qids("wqid")
	case wire.Topen:
		m.Fid = c.u32("fid")
		m.Mode = c.u8("mode")
	case wire.Ropen, wire.Rcreate:
		m.Qid = c.qid("qid")
		m.Iounit = c.u32("iounit")
	case wire.Tcreate:
		m.Fid = c.u32("fid")
		m.Name = c.str("name")
		m.Perm = c.u32("perm")
		m.Mode = c.u8("mode")
		if dotu {
			m.Ext = c.str("ext")
		}
	case wire.Tread:
		m.Fid = c.u32("fid")
		m.Offset = c.u64("offset")
		m.Count = c.u32("count")
	case wire.Rread:
		m.Data = c.data("data", maxPayload)
		m.Count = uint32(len(m.Data))
	case wire.Twrite:
		m.Fid = c.u32("fid")
		m.Offset = c.u64("offset")
		m.Data = c.data("data", maxPayload)
		m.Count = uint32(len(m.Data))
	case wire.Rwrite:
		m.Count = c.u32("count")
	case wire.Tclunk, wire.Tremove, wire.Tstat:
		m.Fid = c.u32("fid")
	case wire.Rstat:
		m.Stat = c.stat(dotu, 65535)
	case wire.Twstat:
		m.Fid = c.u32("fid")
		m.Stat = c.stat(dotu, 65535)
	}
	return m
}

// nfields runs the generator once to learn how many class decisions a type takes.
func nfields(t uint8, dotu bool) (int, []int) {
	c := &chooser{r: core.NewRand(1, "nf"), focus: -1, all: 0}
	gen(c, t, dotu)
	return c.idx, nil
}

func toDir(s *wire.Stat) *go9p.Dir {
	d := &go9p.Dir{}
	d.Type = s.Type
	d.Dev = s.Dev
	d.Qid = go9p.Qid{Type: s.Qid.Type, Version: s.Qid.Version, Path: s.Qid.Path}
	d.Mode = s.Mode
	d.Atime = s.Atime
	d.Mtime = s.Mtime
	d.Length = s.Length
	d.Name = s.Name
	d.Uid = s.Uid
	d.Gid = s.Gid
	d.Muid = s.Muid
	d.Ext = s.Ext
	d.Uidnum = s.Nuid
	d.Gidnum = s.Ngid
	d.Muidnum = s.Nmuid
	// Dir.Size is an output of decoding, not an input of encoding: a Dir "with history" (decoded earlier, then edited,
	// or decoded in the other dialect, or filled in by hand) carries a value that has nothing to do with the record
	// about to be packed, and the packers must not care
	switch (len(s.Name) + len(s.Uid) + int(s.Mode&0xff)) % 4 {
	case 1:
		d.Size = uint16(wire.StatLen(s, true) - 2)
	case 2:
		d.Size = uint16(wire.StatLen(s, false) - 2 + 7)
	case 3:
		d.Size = uint16(0xFFFF - len(s.Name))
	}
	return d
}

func fromDir(d *go9p.Dir, dotu bool) wire.Stat {
	s := wire.Stat{Type: d.Type, Dev: d.Dev, Qid: wire.Qid{Type: d.Qid.Type, Version: d.Qid.Version, Path: d.Qid.Path},
		Mode: d.Mode, Atime: d.Atime, Mtime: d.Mtime, Length: d.Length, Name: d.Name, Uid: d.Uid, Gid: d.Gid, Muid: d.Muid}
	if dotu {
		s.Ext = d.Ext
		s.Nuid, s.Ngid, s.Nmuid = d.Uidnum, d.Gidnum, d.Muidnum
	} else {
		s.Nuid, s.Ngid, s.Nmuid = wire.NOUID, wire.NOUID, wire.NOUID
	}
	return s
}

func toQid(q wire.Qid) go9p.Qid   { return go9p.Qid{Type: q.Type, Version: q.Version, Path: q.Path} }
func fromQid(q go9p.Qid) wire.Qid { return wire.Qid{Type: q.Type, Version: q.Version, Path: q.Path} }

// ghost: in the plain dialect the constructors are also handed values for the fields only 9P2000.u has (an
// extension, numeric ids, an error number — a caller that serves both dialects from one Dir or one code path does
// that): they have no place on the wire and must leave no trace in it.
func ghost(m *wire.Msg, dotu bool) bool {
	return !dotu && (len(m.Name)+len(m.Stat.Name)+len(m.Uname)+len(m.Ename)+int(m.Tag))%2 == 0
}

func ghostDir(d *go9p.Dir) *go9p.Dir {
	d.Ext = "ghost-extension-of-the-other-dialect"
	d.Uidnum, d.Gidnum, d.Muidnum = 4242, 4243, 4244
	return d
}

// pack calls the go9p constructor for m into fc.
func pack(fc *go9p.Fcall, m *wire.Msg, dotu bool) error {
	if ghost(m, dotu) {
		switch m.Type {
		case wire.Tauth:
			return go9p.PackTauth(fc, m.Afid, m.Uname, m.Aname, 4242, dotu)
		case wire.Tattach:
			return go9p.PackTattach(fc, m.Fid, m.Afid, m.Uname, m.Aname, 4242, dotu)
		case wire.Rerror:
			return go9p.PackRerror(fc, m.Ename, 77, dotu)
		case wire.Tcreate:
			return go9p.PackTcreate(fc, m.Fid, m.Name, m.Perm, m.Mode, "ghost-extension", dotu)
		case wire.Rstat:
			return go9p.PackRstat(fc, ghostDir(toDir(&m.Stat)), dotu)
		case wire.Twstat:
			return go9p.PackTwstat(fc, m.Fid, ghostDir(toDir(&m.Stat)), dotu)
		}
	}
	switch m.Type {
	case wire.Tversion:
		return go9p.PackTversion(fc, m.Msize, m.Version)
	case wire.Rversion:
		return go9p.PackRversion(fc, m.Msize, m.Version)
	case wire.Tauth:
		return go9p.PackTauth(fc, m.Afid, m.Uname, m.Aname, m.Nuname, dotu)
	case wire.Rauth:
		q := toQid(m.Qid)
		return go9p.PackRauth(fc, &q)
	case wire.Tattach:
		return go9p.PackTattach(fc, m.Fid, m.Afid, m.Uname, m.Aname, m.Nuname, dotu)
	case wire.Rattach:
		q := toQid(m.Qid)
		return go9p.PackRattach(fc, &q)
	case wire.Rerror:
		return go9p.PackRerror(fc, m.Ename, m.Ecode, dotu)
	case wire.Tflush:
		return go9p.PackTflush(fc, m.Oldtag)
	case wire.Rflush:
		return go9p.PackRflush(fc)
	case wire.Twalk:
		return go9p.PackTwalk(fc, m.Fid, m.Newfid, m.Wname)
	case wire.Rwalk:
		qs := make([]go9p.Qid, len(m.Wqid))
		for i, q := range m.Wqid {
			qs[i] = toQid(q)
		}
		return go9p.PackRwalk(fc, qs)
	case wire.Topen:
		return go9p.PackTopen(fc, m.Fid, m.Mode)
	case wire.Ropen:
		q := toQid(m.Qid)
		return go9p.PackRopen(fc, &q, m.Iounit)
	case wire.Tcreate:
		return go9p.PackTcreate(fc, m.Fid, m.Name, m.Perm, m.Mode, m.Ext, dotu)
	case wire.Rcreate:
		q := toQid(m.Qid)
		return go9p.PackRcreate(fc, &q, m.Iounit)
	case wire.Tread:
		return go9p.PackTread(fc, m.Fid, m.Offset, m.Count)
	case wire.Rread:
		return go9p.PackRread(fc, m.Data)
	case wire.Twrite:
		return go9p.PackTwrite(fc, m.Fid, m.Offset, m.Count, m.Data)
	case wire.Rwrite:
		return go9p.PackRwrite(fc, m.Count)
	case wire.Tclunk:
		return go9p.PackTclunk(fc, m.Fid)
	case wire.Rclunk:
		return go9p.PackRclunk(fc)
	case wire.Tremove:
		return go9p.PackTremove(fc, m.Fid)
	case wire.Rremove:
		return go9p.PackRremove(fc)
	case wire.Tstat:
		return go9p.PackTstat(fc, m.Fid)
	case wire.Rstat:
		return go9p.PackRstat(fc, toDir(&m.Stat), dotu)
	case wire.Twstat:
		return go9p.PackTwstat(fc, m.Fid, toDir(&m.Stat), dotu)
	case wire.Rwstat:
		return go9p.PackRwstat(fc)
	}
	return fmt.Errorf("no constructor for type %d", m.Type)
}

// fromFcall reads the fields of a *decoded* Fcall from the places the wire
// positions map to (Tauth's fid[4] lives in Fcall.Afid after decoding).
func fromFcall(fc *go9p.Fcall, dotu bool) *wire.Msg {
	m := &wire.Msg{Type: fc.Type, Tag: fc.Tag, Fid: wire.NOFID, Afid: wire.NOFID, Newfid: wire.NOFID}
	switch fc.Type {
	case wire.Tversion, wire.Rversion:
		m.Msize = fc.Msize
		m.Version = fc.Version
	case wire.Tauth:
		m.Afid = fc.Afid
		m.Uname = fc.Uname
		m.Aname = fc.Aname
		m.Nuname = wire.NOUID
		if dotu {
			m.Nuname = fc.Unamenum
		}
	case wire.Tattach:
		m.Fid = fc.Fid
		m.Afid = fc.Afid
		m.Uname = fc.Uname
		m.Aname = fc.Aname
		m.Nuname = wire.NOUID
		if dotu {
			m.Nuname = fc.Unamenum
		}
	case wire.Rauth, wire.Rattach:
		m.Qid = fromQid(fc.Qid)
	case wire.Rerror:
		m.Ename = fc.Error
		if dotu {
			m.Ecode = fc.Errornum
		}
	case wire.Tflush:
		m.Oldtag = fc.Oldtag
	case wire.Twalk:
		m.Fid = fc.Fid
		m.Newfid = fc.Newfid
		m.Wname = append([]string{}, fc.Wname...)
	case wire.Rwalk:
		m.Wqid = []wire.Qid{}
		for _, q := range fc.Wqid {
			m.Wqid = append(m.Wqid, fromQid(q))
		}
	case wire.Topen:
		m.Fid = fc.Fid
		m.Mode = fc.Mode
	case wire.Ropen, wire.Rcreate:
		m.Qid = fromQid(fc.Qid)
		m.Iounit = fc.Iounit
	case wire.Tcreate:
		m.Fid = fc.Fid
		m.Name = fc.Name
		m.Perm = fc.Perm
		m.Mode = fc.Mode
		if dotu {
			m.Ext = fc.Ext
		}
	case wire.Tread:
		m.Fid = fc.Fid
		m.Offset = fc.Offset
		m.Count = fc.Count
	case wire.Rread:
		m.Count = fc.Count
		m.Data = fc.Data
	case wire.Twrite:
		m.Fid = fc.Fid
		m.Offset = fc.Offset
		m.Count = fc.Count
		m.Data = fc.Data
	case wire.Rwrite:
		m.Count = fc.Count
	case wire.Tclunk, wire.Tremove, wire.Tstat:
		m.Fid = fc.Fid
	case wire.Rstat:
		m.Stat = fromDir(&fc.Dir, dotu)
	case wire.Twstat:
		m.Fid = fc.Fid
		m.Stat = fromDir(&fc.Dir, dotu)
	}
	return m
}

// diff returns "" when the two field tuples are equal, else the first differing field.
func diff(a, b *wire.Msg) string {
	switch {
	case a.Type != b.Type:
		return fmt.Sprintf("type %d != %d", a.Type, b.Type)
	case a.Tag != b.Tag:
		return fmt.Sprintf("tag %d != %d", a.Tag, b.Tag)
	case a.Msize != b.Msize:
		return "msize"
	case a.Version != b.Version:
		return "version"
	case a.Afid != b.Afid:
		return fmt.Sprintf("afid %d != %d", a.Afid, b.Afid)
	case a.Fid != b.Fid:
		return fmt.Sprintf("fid %d != %d", a.Fid, b.Fid)
	case a.Newfid != b.Newfid:
		return "newfid"
	case a.Uname != b.Uname:
		return "uname"
	case a.Aname != b.Aname:
		return "aname"
	case a.Nuname != b.Nuname:
		return fmt.Sprintf("n_uname %d != %d", a.Nuname, b.Nuname)
	case a.Ename != b.Ename:
		return "ename"
	case a.Ecode != b.Ecode:
		return "ecode"
	case a.Oldtag != b.Oldtag:
		return "oldtag"
	case a.Mode != b.Mode:
		return "mode"
	case a.Perm != b.Perm:
		return "perm"
	case a.Name != b.Name:
		return "name"
	case a.Ext != b.Ext:
		return "ext"
	case a.Qid != b.Qid:
		return "qid"
	case a.Iounit != b.Iounit:
		return "iounit"
	case a.Offset != b.Offset:
		return "offset"
	case a.Count != b.Count:
		return fmt.Sprintf("count %d != %d", a.Count, b.Count)
	case string(a.Data) != string(b.Data):
		return fmt.Sprintf("data (len %d vs %d)", len(a.Data), len(b.Data))
	case a.Stat != b.Stat:
		return "stat"
	}
	if len(a.Wname) != len(b.Wname) {
		return fmt.Sprintf("nwname %d != %d", len(a.Wname), len(b.Wname))
	}
	for i := range a.Wname {
		if a.Wname[i] != b.Wname[i] {
			return fmt.Sprintf("wname[%d]", i)
		}
	}
	if len(a.Wqid) != len(b.Wqid) {
		return fmt.Sprintf("nwqid %d != %d", len(a.Wqid), len(b.Wqid))
	}
	for i := range a.Wqid {
		if a.Wqid[i] != b.Wqid[i] {
			return fmt.Sprintf("wqid[%d]", i)
		}
	}
	return ""
}

func dialect(dotu bool) string {
	if dotu {
		return "9P2000.u"
	}
	return "9P2000"
}

// brief renders a message for evidence samples without dumping 64 KiB strings.
func brief(m *wire.Msg, dotu bool) map[string]interface{} {
	return map[string]interface{}{
		"type": wire.TypeName(m.Type), "dialect": dialect(dotu), "packet_len": len(wire.Encode(m, dotu)),
		"fid": m.Fid, "strlens": []int{len(m.Version), len(m.Uname), len(m.Aname), len(m.Ename), len(m.Name), len(m.Ext), len(m.Stat.Name)},
		"nwname": len(m.Wname), "nwqid": len(m.Wqid), "ndata": len(m.Data),
	}
}
