package codec

import (
	"bytes"
	"encoding/hex"
	"fmt"
	"os"
	"runtime/metrics"

	"github.com/rminnich/go9p"

	"verif/core"
	"verif/wire"
)

func init() {
	core.Register(&core.Engine{
		Property: "C02",
		Level:    "exploration",
		Rule: "inputs: for every message type x dialect x 3 canonical packets — every truncation, every declared-size variation, every single-byte substitution " +
			"(8 values) at every offset, every 16- and 32-bit little-endian overwrite with length-like values at every offset — then structure-aware splices, " +
			"raw random strings, and the same for stat records. Each input is decoded by go9p inside a crash-isolated worker under an address-space limit; " +
			"oracle: no panic, allocation bounded by the input length, outcome independent of bytes after the declared size, and on success the size/type/" +
			"containment/re-encoding conditions of the property. distinct = (type byte, dialect, outcome, mutation kind, offset); non-trivial = input is not a canonical packet",
		Assumptions: []string{
			"bytes allocated are measured with runtime/metrics /gc/heap/allocs:bytes around each call in a single-goroutine worker (large objects are accounted immediately)",
			"allocation 'in proportion': at most 2 MiB + 64 x len(input)",
			"a 9P2000.u Tauth/Tattach without n_uname is accepted by go9p as n_uname=NOUID; this leniency is allowed (re-encoding adds the 4 bytes)",
		},
		Cases:       c02Cases,
		MinDistinct: 5000,
		Jobs:        8,
		MemLimitMB:  4096,
	})
}

func c02Cases(tier string, seed int64) []core.Case {
	nrand := 300
	if tier == "thorough" {
		nrand = 20000
	}
	var cases []core.Case
	for _, t := range wire.Types {
		for _, dotu := range []bool{false, true} {
			t, dotu := t, dotu
			cases = append(cases, core.Case{
				ID:  fmt.Sprintf("mut/%s/%s", wire.TypeName(t), dialect(dotu)),
				Run: func(ctx *core.Ctx) core.Result { return c02Mut(ctx, t, dotu, nrand) },
			})
		}
	}
	for _, dotu := range []bool{false, true} {
		dotu := dotu
		cases = append(cases, core.Case{ID: "raw/" + dialect(dotu), Run: func(ctx *core.Ctx) core.Result { return c02Raw(ctx, dotu, nrand*20) }})
		cases = append(cases, core.Case{ID: "header-grid/" + dialect(dotu), Run: func(ctx *core.Ctx) core.Result { return c02HeaderGrid(ctx, dotu) }})
		cases = append(cases, core.Case{ID: "dirmut/" + dialect(dotu), Run: func(ctx *core.Ctx) core.Result { return c02Dir(ctx, dotu, nrand) }})
	}
	return cases
}

type c02state struct {
	res    core.Result
	ctx    *core.Ctx
	note   *os.File
	sample []metrics.Sample
	dotu   bool
	kind   string
	off    int
}

func newC02(ctx *core.Ctx, dotu bool) *c02state {
	s := &c02state{ctx: ctx, dotu: dotu}
	s.sample = []metrics.Sample{{Name: "/gc/heap/allocs:bytes"}}
	return s
}

func (s *c02state) allocs() uint64 {
	metrics.Read(s.sample)
	return s.sample[0].Value.Uint64()
}

type outcome struct {
	ok  bool
	n   int
	m   *wire.Msg
	err string
}

func (s *c02state) unpack(x []byte, what string) (o outcome, fine bool) {
	s.ctx.Note(x)
	a0 := s.allocs()
	var fc *go9p.Fcall
	var n int
	var err error
	det := map[string]interface{}{"input_hex": hexs(x), "dialect": dialect(s.dotu), "mutation": s.kind, "offset": s.off}
	if !safely(&s.res, "Unpack;"+typeOf(x)+";"+dialect(s.dotu), det, func() { fc, n, err = go9p.Unpack(x, s.dotu) }) {
		return o, false
	}
	a1 := s.allocs()
	s.res.Count("unpack_calls", 1)
	if lim := uint64(2<<20 + 64*len(x)); a1-a0 > lim {
		s.res.Violate("alloc;Unpack;"+typeOf(x)+";"+dialect(s.dotu),
			fmt.Sprintf("Unpack allocated %d bytes for a %d-byte input (%s)", a1-a0, len(x), what), det)
	}
	if err != nil {
		if fc != nil || n != 0 {
			// an error result together with a message: callers use only err, tolerated
		}
		return outcome{ok: false, err: err.Error()}, true
	}
	if fc == nil {
		s.res.Violate("nil-result;Unpack", "Unpack returned neither a message nor an error", det)
		return o, false
	}
	return outcome{ok: true, n: n, m: fromFcall(fc, s.dotu)}, true
}

func hexs(x []byte) string {
	if len(x) > 600 {
		return hex.EncodeToString(x[:600]) + fmt.Sprintf("…(+%d bytes)", len(x)-600)
	}
	return hex.EncodeToString(x)
}

func typeOf(x []byte) string {
	if len(x) < 5 {
		return "short"
	}
	return wire.TypeName(x[4])
}

func sameOutcome(a, b outcome) bool {
	if a.ok != b.ok {
		return false
	}
	if !a.ok {
		return true
	}
	return a.n == b.n && diff(a.m, b.m) == ""
}

// judge applies the whole C02 oracle to input x.
func (s *c02state) judge(x []byte) {
	s.res.Evals++
	tname := typeOf(x)
	dl := dialect(s.dotu)
	det := map[string]interface{}{"input_hex": hexs(x), "dialect": dl, "mutation": s.kind, "offset": s.off}
	o, fine := s.unpack(x, "input")
	if !fine {
		return
	}
	oc := "err"
	if o.ok {
		oc = "ok"
	}
	s.res.Sig(fmt.Sprintf("%s/%s/%s/%s/%d", tname, dl, oc, s.kind, s.off))
	if s.res.Evals%997 == 5 {
		s.res.Sample(map[string]interface{}{"input_hex": hexs(x), "dialect": dl, "mutation": s.kind, "outcome": oc})
	}
	declared := uint64(wire.PeekSize(x))
	if len(x) >= 4 && declared > uint64(len(x)) && o.ok {
		s.res.Violate("oversize-accepted;"+tname+";"+dl, fmt.Sprintf("declared size %d exceeds the %d input bytes but decoding succeeded", declared, len(x)), det)
		return
	}
	// independence from bytes beyond the declared size
	if len(x) >= 7 && declared >= 7 && declared <= uint64(len(x)) {
		head := x[:declared]
		oh, fine := s.unpack(append([]byte{}, head...), "declared part")
		if !fine {
			return
		}
		if !sameOutcome(o, oh) {
			s.res.Violate("tail-dependent;"+tname+";"+dl, "result differs between the packet alone and the packet followed by other bytes", det)
		}
		for k, tl := range [][]byte{{0}, bytes.Repeat([]byte{0xFF}, 19), []byte("\x05\x00abcde\x01\x00\x00\x00\x00\x00\x00\x00\x00")} {
			ot, fine := s.unpack(append(append([]byte{}, head...), tl...), fmt.Sprintf("declared part + tail %d", k))
			if !fine {
				return
			}
			if !sameOutcome(oh, ot) {
				s.res.Violate("tail-dependent;"+tname+";"+dl, fmt.Sprintf("result changes with the bytes after the declared size (tail %d)", k), det)
				break
			}
		}
	}
	if !o.ok {
		return
	}
	s.res.Count("decoded_ok", 1)
	// success conditions
	if uint64(o.n) != declared || o.n < 7 || o.n > len(x) {
		s.res.Violate("consumed;"+tname+";"+dl, fmt.Sprintf("consumed %d, size prefix %d, input %d", o.n, declared, len(x)), det)
		return
	}
	defined := false
	for _, t := range wire.Types {
		if o.m.Type == t {
			defined = true
		}
	}
	if !defined {
		s.res.Violate("undefined-type;"+dl, fmt.Sprintf("type %d decoded successfully", o.m.Type), det)
		return
	}
	if (o.m.Type == wire.Rread || o.m.Type == wire.Twrite) && uint64(len(o.m.Data)) != uint64(o.m.Count) {
		s.res.Violate("data-count;"+tname+";"+dl, fmt.Sprintf("count %d but %d data bytes", o.m.Count, len(o.m.Data)), det)
		return
	}
	if toolong(o.m) {
		return // cannot happen for fields read from a packet; guarded for the re-encoder
	}
	re := wire.Encode(o.m, s.dotu)
	slack := 0
	if s.dotu && (o.m.Type == wire.Tauth || o.m.Type == wire.Tattach) {
		slack = 4 // n_uname may be absent
	}
	if len(re) > o.n+slack {
		s.res.Violate("not-contained;"+tname+";"+dl, fmt.Sprintf("decoded fields need %d bytes but the packet has %d", len(re), o.n), det)
		return
	}
	o2, fine := s.unpack(re, "re-encoded")
	if !fine {
		return
	}
	if !o2.ok {
		s.res.Violate("reencode-rejected;"+tname+";"+dl, "the re-encoded fields are rejected: "+o2.err, det)
		return
	}
	if d := diff(o.m, o2.m); d != "" {
		s.res.Violate("reencode-differs;"+tname+";"+dl+";"+fieldClass(d), "re-encoding the decoded fields decodes to different fields: "+d, det)
	}
}

func toolong(m *wire.Msg) bool {
	for _, s := range []string{m.Version, m.Uname, m.Aname, m.Ename, m.Name, m.Ext, m.Stat.Name, m.Stat.Uid, m.Stat.Gid, m.Stat.Muid, m.Stat.Ext} {
		if len(s) > 65535 {
			return true
		}
	}
	return len(m.Wname) > 65535 || len(m.Wqid) > 65535
}

// canon returns three canonical packets for a type.
func canon(r *core.Rand, t uint8, dotu bool) [][]byte {
	var out [][]byte
	// minimal
	out = append(out, wire.Encode(gen(&chooser{r: r, focus: -1, all: 0}, t, dotu), dotu))
	// short strings / few elements
	c := &chooser{r: r, focus: 1 << 30, all: -1} // focus beyond every field: all benign
	out = append(out, wire.Encode(gen(c, t, dotu), dotu))
	// hand-made medium one
	m := gen(&chooser{r: r, focus: 1 << 30, all: -1}, t, dotu)
	m.Tag = 0x0102
	m.Version = "9P2000.u"
	m.Uname, m.Aname, m.Ename, m.Name, m.Ext = "glenda", "/tmp", "file not found", "newfile.txt", "target"
	m.Wname = []string{"usr", "glenda", "lib", "profile"}
	m.Wqid = []wire.Qid{{Type: 0x80, Version: 1, Path: 2}, {Type: 0, Version: 3, Path: 4}, {Type: 2, Version: 5, Path: 6}}
	m.Stat.Name, m.Stat.Uid, m.Stat.Gid, m.Stat.Muid, m.Stat.Ext = "profile", "glenda", "sys", "none", "x"
	if t == wire.Rread || t == wire.Twrite {
		m.Data = []byte("hello, world\n")
		m.Count = uint32(len(m.Data))
	}
	out = append(out, wire.Encode(m, dotu))
	return out
}

var sub8 = func(b byte, r *core.Rand) []byte {
	return []byte{0, 1, 0x7F, 0x80, 0xFF, b + 1, b - 1, byte(r.Uint64())}
}

func c02Mut(ctx *core.Ctx, t uint8, dotu bool, nrand int) core.Result {
	s := newC02(ctx, dotu)
	r := core.NewRand(ctx.Seed, "c02/"+wire.TypeName(t)+dialect(dotu))
	pkts := canon(r, t, dotu)
	put32 := func(b []byte, off int, v uint32) {
		b[off], b[off+1], b[off+2], b[off+3] = byte(v), byte(v>>8), byte(v>>16), byte(v>>24)
	}
	for pi, p := range pkts {
		L := len(p)
		s.kind, s.off = fmt.Sprintf("canon%d", pi), 0
		s.judge(append([]byte{}, p...))
		// every truncation (size prefix untouched)
		for n := 0; n <= L; n++ {
			s.kind, s.off = "trunc", n
			s.judge(append([]byte{}, p[:n]...))
		}
		// declared-size variations, with and without matching truncation/extension
		sizes := []uint32{}
		for v := 0; v <= L+2; v++ {
			sizes = append(sizes, uint32(v))
		}
		sizes = append(sizes, 1<<16, 1<<31, 0xFFFFFFFF, 0xFFFFFFF0, 1<<24)
		for _, v := range sizes {
			q := append([]byte{}, p...)
			put32(q, 0, v)
			s.kind, s.off = "size", int(v%100000)
			s.judge(q)
			if int(v) <= L && v >= 4 {
				s.kind = "size+trunc"
				s.judge(append([]byte{}, q[:v]...))
			} else if v > uint32(L) && v <= uint32(L+2) {
				s.kind = "size+pad"
				s.judge(append(q, make([]byte, int(v)-L)...))
			}
		}
		// single byte substitutions at every offset
		for off := 0; off < L; off++ {
			for vi, v := range sub8(p[off], r) {
				if v == p[off] {
					continue
				}
				q := append([]byte{}, p...)
				q[off] = v
				s.kind, s.off = fmt.Sprintf("byte%d", vi), off
				s.judge(q)
			}
		}
		// 16- and 32-bit length-like overwrites at every offset after the size prefix
		for off := 4; off+2 <= L; off++ {
			rem := L - off - 2
			for vi, v := range []int{0, 1, rem - 1, rem, rem + 1, 0xFFFF, 0x7FFF, 13, 49} {
				if v < 0 {
					continue
				}
				q := append([]byte{}, p...)
				q[off], q[off+1] = byte(v), byte(v>>8)
				s.kind, s.off = fmt.Sprintf("len16.%d", vi), off
				s.judge(q)
			}
		}
		for off := 4; off+4 <= L; off++ {
			rem := L - off - 4
			for vi, v := range []uint32{0, 1, uint32(rem), uint32(rem + 1), uint32(rem) - 1, 0xFFFF, 1 << 31, 0xFFFFFFFF, 0x7FFFFFFF, 1 << 20} {
				q := append([]byte{}, p...)
				put32(q, off, v)
				s.kind, s.off = fmt.Sprintf("len32.%d", vi), off
				s.judge(q)
			}
		}
	}
	// structure-aware random mutation: splice, duplicate, delete ranges; fix up the size prefix half of the time
	for i := 0; i < nrand; i++ {
		p := append([]byte{}, pkts[r.Intn(len(pkts))]...)
		for k := 0; k <= r.Intn(3); k++ {
			if len(p) < 8 {
				break
			}
			a := 4 + r.Intn(len(p)-4)
			b := a + r.Intn(len(p)-a+1)
			switch r.Intn(4) {
			case 0: // delete
				p = append(p[:a:a], p[b:]...)
			case 1: // duplicate
				p = append(p[:b:b], append(append([]byte{}, p[a:b]...), p[b:]...)...)
			case 2: // splice from another canonical packet
				o := pkts[r.Intn(len(pkts))]
				x := r.Intn(len(o))
				y := x + r.Intn(len(o)-x+1)
				p = append(p[:a:a], append(append([]byte{}, o[x:y]...), p[b:]...)...)
			case 3: // random bytes
				copy(p[a:b], r.Bytes(b-a))
			}
		}
		if r.Bool() && len(p) >= 4 {
			put32(p, 0, uint32(len(p)))
		}
		s.kind, s.off = "splice", i
		s.judge(p)
	}
	return s.res
}

func c02Raw(ctx *core.Ctx, dotu bool, n int) core.Result {
	s := newC02(ctx, dotu)
	r := core.NewRand(ctx.Seed, "c02/raw"+dialect(dotu))
	for i := 0; i < n; i++ {
		var l int
		switch r.Intn(10) {
		case 0:
			l = r.Intn(8)
		case 1:
			l = r.Intn(65536)
		default:
			l = r.Intn(200)
		}
		x := r.Bytes(l)
		switch r.Intn(4) {
		case 0: // plausible header: correct size and a defined type
			if l >= 7 {
				x[0], x[1], x[2], x[3] = byte(l), byte(l>>8), byte(l>>16), 0
				x[4] = wire.Types[r.Intn(len(wire.Types))]
			}
		case 1: // defined type, size smaller than the buffer
			if l >= 7 {
				v := 7 + r.Intn(l-6)
				x[0], x[1], x[2], x[3] = byte(v), byte(v>>8), byte(v>>16), 0
				x[4] = wire.Types[r.Intn(len(wire.Types))]
			}
		}
		s.kind, s.off = "raw", i
		s.judge(x)
	}
	return s.res
}

// c02HeaderGrid: every type byte 0..255 x every declared size 0..48 (and the buffer exactly that long, longer, and one
// byte short), body bytes all-zero, all-0xFF and a counting pattern: the undefined type bytes inside the numeric range
// of defined ones (Terror) and the header-only frames are all in here.
func c02HeaderGrid(ctx *core.Ctx, dotu bool) core.Result {
	s := newC02(ctx, dotu)
	for t := 0; t < 256; t++ {
		for size := 0; size <= 48; size++ {
			for fill := 0; fill < 3; fill++ {
				for _, extra := range []int{0, 5, -1} {
					l := size + extra
					if l < 0 {
						continue
					}
					x := make([]byte, l)
					for i := range x {
						switch fill {
						case 1:
							x[i] = 0xFF
						case 2:
							x[i] = byte(i)
						}
					}
					if l >= 4 {
						x[0], x[1], x[2], x[3] = byte(size), 0, 0, 0
					}
					if l >= 5 {
						x[4] = byte(t)
					}
					if l >= 7 {
						x[5], x[6] = 1, 0
					}
					s.kind, s.off = "header-grid", t
					s.judge(x)
				}
			}
		}
	}
	return s.res
}

// ---- stat records

func (s *c02state) unpackDir(x []byte) (st *wire.Stat, amt int, ok, fine bool) {
	s.ctx.Note(x)
	det := map[string]interface{}{"input_hex": hexs(x), "dialect": dialect(s.dotu), "mutation": s.kind, "offset": s.off}
	var d *go9p.Dir
	var rest []byte
	var err error
	a0 := s.allocs()
	if !safely(&s.res, "UnpackDir;"+dialect(s.dotu), det, func() { d, rest, amt, err = go9p.UnpackDir(x, s.dotu) }) {
		return nil, 0, false, false
	}
	a1 := s.allocs()
	s.res.Count("unpackdir_calls", 1)
	if a1-a0 > uint64(2<<20+64*len(x)) {
		s.res.Violate("alloc;UnpackDir;"+dialect(s.dotu), fmt.Sprintf("UnpackDir allocated %d bytes for a %d-byte input", a1-a0, len(x)), det)
	}
	if err != nil {
		return nil, 0, false, true
	}
	if d == nil {
		s.res.Violate("nil-result;UnpackDir", "UnpackDir returned neither a record nor an error", det)
		return nil, 0, false, false
	}
	if amt < 0 || amt > len(x) || len(rest) != len(x)-amt {
		s.res.Violate("dir-amt;"+dialect(s.dotu), fmt.Sprintf("UnpackDir consumed %d of %d bytes, %d remain", amt, len(x), len(rest)), det)
		return nil, 0, false, false
	}
	w := fromDir(d, s.dotu)
	return &w, amt, true, true
}

func (s *c02state) judgeDir(x []byte) {
	s.res.Evals++
	det := map[string]interface{}{"input_hex": hexs(x), "dialect": dialect(s.dotu), "mutation": s.kind, "offset": s.off}
	st, amt, ok, fine := s.unpackDir(x)
	if !fine {
		return
	}
	oc := "err"
	if ok {
		oc = "ok"
	}
	s.res.Sig(fmt.Sprintf("dir/%s/%s/%s/%d", dialect(s.dotu), oc, s.kind, s.off))
	if !ok {
		return
	}
	// the result does not depend on bytes after the consumed record
	for k, tl := range [][]byte{nil, {0xFF, 0xFF, 0xFF}, bytes.Repeat([]byte{7}, 64)} {
		y := append(append([]byte{}, x[:amt]...), tl...)
		minLen := 49
		if s.dotu {
			minLen = 63
		}
		if len(y) < minLen {
			continue // UnpackDir's own precheck wants a minimal record's worth of bytes
		}
		st2, amt2, ok2, fine := s.unpackDir(y)
		if !fine {
			return
		}
		if !ok2 || amt2 != amt || *st2 != *st {
			s.res.Violate("dir-tail-dependent;"+dialect(s.dotu), fmt.Sprintf("UnpackDir result changes with the bytes after the record (tail %d)", k), det)
			return
		}
	}
	// re-encoding decodes to the same fields
	re := wire.EncodeStat(st, s.dotu)
	if len(re) > amt {
		s.res.Violate("dir-not-contained;"+dialect(s.dotu), fmt.Sprintf("decoded stat fields need %d bytes, %d were consumed", len(re), amt), det)
		return
	}
	st3, _, ok3, fine := s.unpackDir(re)
	if fine && (!ok3 || *st3 != *st) {
		s.res.Violate("dir-reencode;"+dialect(s.dotu), "re-encoded stat fields do not decode to the same fields", det)
	}
}

func c02Dir(ctx *core.Ctx, dotu bool, nrand int) core.Result {
	s := newC02(ctx, dotu)
	r := core.NewRand(ctx.Seed, "c02/dir"+dialect(dotu))
	var recs [][]byte
	st0 := (&chooser{r: r, focus: -1, all: 0}).stat(dotu, 65537)
	recs = append(recs, wire.EncodeStat(&st0, dotu))
	st1 := (&chooser{r: r, focus: 1 << 30, all: -1}).stat(dotu, 65537)
	recs = append(recs, wire.EncodeStat(&st1, dotu))
	st2 := st1
	st2.Name, st2.Uid, st2.Gid, st2.Muid, st2.Ext = "profile", "glenda", "sys", "none", "→target"
	recs = append(recs, wire.EncodeStat(&st2, dotu))
	for pi, p := range recs {
		L := len(p)
		s.kind, s.off = fmt.Sprintf("canon%d", pi), 0
		s.judgeDir(append([]byte{}, p...))
		for n := 0; n <= L; n++ {
			s.kind, s.off = "trunc", n
			s.judgeDir(append([]byte{}, p[:n]...))
		}
		for off := 0; off < L; off++ {
			for vi, v := range sub8(p[off], r) {
				q := append([]byte{}, p...)
				q[off] = v
				s.kind, s.off = fmt.Sprintf("byte%d", vi), off
				s.judgeDir(q)
			}
		}
		for off := 0; off+2 <= L; off++ {
			rem := L - off - 2
			for vi, v := range []int{0, 1, rem - 1, rem, rem + 1, 0xFFFF, 0x7FFF} {
				if v < 0 {
					continue
				}
				q := append([]byte{}, p...)
				q[off], q[off+1] = byte(v), byte(v>>8)
				s.kind, s.off = fmt.Sprintf("len16.%d", vi), off
				s.judgeDir(q)
				// and with the buffer padded so that the length might be satisfiable
				s.kind = fmt.Sprintf("len16pad.%d", vi)
				s.judgeDir(append(q, bytes.Repeat([]byte{'z'}, 70)...))
			}
		}
	}
	for i := 0; i < nrand*5; i++ {
		x := r.Bytes(r.Intn(160))
		s.kind, s.off = "raw", i
		s.judgeDir(x)
	}
	return s.res
}
