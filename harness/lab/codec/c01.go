package codec

import (
	"bytes"
	"fmt"
	"runtime/debug"
	"strings"

	"github.com/rminnich/go9p"

	"verif/core"
	"verif/wire"
)

func init() {
	core.Register(&core.Engine{
		Property: "C01",
		Level:    "exploration",
		Rule: "cases: for each of the 27 message types x {9P2000, 9P2000.u} a boundary grid (every field in turn at each of its value classes, " +
			"all fields at each class) followed by seeded random tuples; plus stat records on their own (PackDir/UnpackDir, single and concatenated), " +
			"the InitRread/SetRreadCount two-step form and SetTag. Each tuple is packed by go9p and compared byte for byte with the independent encoder, " +
			"then decoded by go9p from the independently encoded bytes (alone and followed by other bytes). " +
			"distinct = (type, dialect, value class of every field); non-trivial = at least one variable-length field non-empty or one integer at a boundary value",
		Assumptions: []string{
			"the independent codec in /verif/harness/wire (written from the 9P manual pages and the 9P2000.u notes) is the layout the protocol defines",
			"'representable on the wire': strings <= 65535 bytes, stat record <= 65535, element counts <= 65535, count == len(data), message <= buffer",
		},
		Cases:       c01Cases,
		MinDistinct: 500,
		Jobs:        8,
	})
}

func c01Cases(tier string, seed int64) []core.Case {
	nrand := 250
	if tier == "thorough" {
		nrand = 20000
	}
	var cases []core.Case
	for _, t := range wire.Types {
		for _, dotu := range []bool{false, true} {
			t, dotu := t, dotu
			cases = append(cases, core.Case{
				ID:  fmt.Sprintf("msg/%s/%s", wire.TypeName(t), dialect(dotu)),
				Run: func(ctx *core.Ctx) core.Result { return c01Msg(ctx, t, dotu, nrand) },
			})
		}
	}
	for _, dotu := range []bool{false, true} {
		dotu := dotu
		cases = append(cases, core.Case{ID: "dir/" + dialect(dotu), Run: func(ctx *core.Ctx) core.Result { return c01Dir(ctx, dotu, nrand) }})
		cases = append(cases, core.Case{ID: "rerror-akaros/" + dialect(dotu), Run: func(ctx *core.Ctx) core.Result { return c01Akaros(ctx, dotu, nrand) }})
		cases = append(cases, core.Case{ID: "rread2step/" + dialect(dotu), Run: func(ctx *core.Ctx) core.Result { return c01Rread(ctx, dotu, nrand) }})
	}
	return cases
}

const bufSize = 2 << 20

type c01state struct {
	res  core.Result
	fc   *go9p.Fcall
	t    uint8
	dotu bool
}

func nontrivial(m *wire.Msg, labels []string) bool {
	if len(m.Version)+len(m.Uname)+len(m.Aname)+len(m.Ename)+len(m.Name)+len(m.Ext)+len(m.Data)+len(m.Wname)+len(m.Wqid)+
		len(m.Stat.Name)+len(m.Stat.Uid)+len(m.Stat.Gid)+len(m.Stat.Muid)+len(m.Stat.Ext) > 0 {
		return true
	}
	for _, l := range labels {
		// integer classes 0..4 are boundary values
		if l[len(l)-1] != '5' {
			return true
		}
	}
	return false
}

// safely runs f and converts a library panic into a violation.
func safely(res *core.Result, sigPrefix string, detail interface{}, f func()) (ok bool) {
	defer func() {
		if r := recover(); r != nil {
			st := string(debug.Stack())
			fn := innermostLib(st)
			res.Violate(fmt.Sprintf("panic;%s;%s", sigPrefix, fn), fmt.Sprintf("panic in %s: %v", fn, r),
				map[string]interface{}{"input": detail, "panic": fmt.Sprint(r)})
			ok = false
		}
	}()
	f()
	return true
}

func innermostLib(stack string) string {
	lines := bytes.Split([]byte(stack), []byte("\n"))
	for _, l := range lines {
		s := string(l)
		if len(s) > 0 && s[0] != '\t' && bytes.Contains(l, []byte("github.com/rminnich/go9p.")) {
			s = s[len("github.com/rminnich/go9p."):]
			if p := bytes.LastIndexByte([]byte(s), '('); p > 0 {
				s = s[:p]
			}
			return s
		}
	}
	return "?"
}

func (s *c01state) one(c *chooser) {
	c.idx = 0
	c.labels = c.labels[:0]
	m := gen(c, s.t, s.dotu)
	tname := wire.TypeName(s.t)
	dl := dialect(s.dotu)
	sig := tname + "/" + dl + "/" + fmt.Sprint(c.labels)
	s.res.Evals++
	if nontrivial(m, c.labels) {
		s.res.Sig(sig)
	}
	if len(s.res.Samples) < 1 && s.res.Evals == 7 {
		s.res.Sample(brief(m, s.dotu))
	}
	want := wire.Encode(m, s.dotu)
	if len(want) > bufSize {
		return
	}
	det := func() interface{} {
		return map[string]interface{}{"msg": brief(m, s.dotu), "classes": fmt.Sprint(c.labels)}
	}

	// (1) constructor bytes == reference bytes
	fc := s.fc
	var perr error
	if !safely(&s.res, "pack;"+tname+";"+dl, det(), func() { perr = pack(fc, m, s.dotu) }) {
		return
	}
	if perr != nil {
		s.res.Violate("pack-error;"+tname+";"+dl, fmt.Sprintf("constructor refuses a representable %s: %v", tname, perr), det())
		return
	}
	s.res.Count("packets_compared", 1)
	if !bytes.Equal(fc.Pkt, want) {
		off := 0
		for off < len(fc.Pkt) && off < len(want) && fc.Pkt[off] == want[off] {
			off++
		}
		s.res.Violate("bytes;"+tname+";"+dl, fmt.Sprintf("%s %s: packet differs from the protocol layout at byte %d (len %d, expected %d)", tname, dl, off, len(fc.Pkt), len(want)), det())
	}
	if int(fc.Size) != len(fc.Pkt) || wire.PeekSize(fc.Pkt) != uint32(len(fc.Pkt)) {
		s.res.Violate("size;"+tname+";"+dl, "size[4], Fcall.Size and len(Pkt) disagree", det())
	}
	// (4) SetTag moves exactly bytes 5..6
	tag := uint16(c.r.Uint64())
	switch c.r.Intn(4) {
	case 0:
		tag = 0
	case 1:
		tag = 0xFFFF
	}
	before := append([]byte{}, fc.Pkt...)
	safely(&s.res, "settag;"+tname, det(), func() { go9p.SetTag(fc, tag) })
	before[5], before[6] = byte(tag), byte(tag>>8)
	if !bytes.Equal(before, fc.Pkt) || fc.Tag != tag {
		s.res.Violate("settag;"+tname+";"+dl, "SetTag disturbed bytes other than 5..6 or wrote the tag wrongly", det())
	}

	// (2)(3) decode the reference bytes (never touched by go9p's encoder)
	m.Tag = tag
	ref := wire.Encode(m, s.dotu)
	s.decode(ref, m, nil, det)
	tailb := c.r.Bytes(1 + c.r.Intn(40))
	s.decode(ref, m, tailb, det)
	if !bytes.Equal(fc.Pkt, ref) {
		// also decode what the library itself produced
		s.decode(append([]byte{}, fc.Pkt...), nil, nil, det)
	}
}

func (s *c01state) decode(pkt []byte, m *wire.Msg, tailb []byte, det func() interface{}) {
	tname := wire.TypeName(s.t)
	dl := dialect(s.dotu)
	buf := pkt
	if tailb != nil {
		buf = append(append([]byte{}, pkt...), tailb...)
	}
	var fc *go9p.Fcall
	var n int
	var err error
	if !safely(&s.res, "unpack;"+tname+";"+dl, det(), func() { fc, n, err = go9p.Unpack(buf, s.dotu) }) {
		return
	}
	s.res.Count("packets_decoded", 1)
	if err != nil {
		s.res.Violate("unpack-error;"+tname+";"+dl, fmt.Sprintf("%s %s: a well-formed packet is rejected: %v", tname, dl, err), det())
		return
	}
	if n != len(pkt) {
		s.res.Violate("consumed;"+tname+";"+dl, fmt.Sprintf("decoder consumed %d bytes of a %d-byte packet", n, len(pkt)), det())
	}
	if m == nil {
		return
	}
	got := fromFcall(fc, s.dotu)
	if d := diff(m, got); d != "" {
		s.res.Violate("fields;"+tname+";"+dl+";"+fieldClass(d), fmt.Sprintf("%s %s: decoded field differs: %s", tname, dl, d), det())
	}
	// the independent decoder agrees on the same bytes
	if wm, wn, werr := wire.Decode(pkt, s.dotu); werr != nil || wn != len(pkt) || diff(wm, got) != "" {
		s.res.Violate("ref-disagrees;"+tname+";"+dl, fmt.Sprintf("reference decoder and go9p disagree (%v)", werr), det())
	}
}

func fieldClass(d string) string {
	for i := 0; i < len(d); i++ {
		if d[i] == ' ' || d[i] == '[' {
			return d[:i]
		}
	}
	return d
}

func c01Msg(ctx *core.Ctx, t uint8, dotu bool, nrand int) core.Result {
	s := &c01state{t: t, dotu: dotu, fc: go9p.NewFcall(bufSize)}
	r := core.NewRand(ctx.Seed, "c01/"+wire.TypeName(t)+dialect(dotu))
	nf, _ := nfields(t, dotu)
	// boundary grid: all fields at class k
	for k := 0; k < 45; k++ {
		s.one(&chooser{r: r, focus: -1, all: k, big: true})
	}
	// one factor at a time
	for f := 0; f < nf; f++ {
		for k := 0; k < 45; k++ {
			s.one(&chooser{r: r, focus: f, focusClass: k, all: -1, big: true})
		}
	}
	// random tuples
	for i := 0; i < nrand; i++ {
		s.one(&chooser{r: r, focus: -1, all: -1, big: i%97 == 0})
	}
	if nf == 0 {
		// header-only messages: the only degrees of freedom are the tag values tried above
		s.res.Sig(wire.TypeName(t) + "/" + dialect(dotu) + "/header-only")
	}
	return s.res
}

// ---- stat records on their own

func c01Dir(ctx *core.Ctx, dotu bool, nrand int) core.Result {
	var res core.Result
	r := core.NewRand(ctx.Seed, "c01/dir"+dialect(dotu))
	dl := dialect(dotu)
	one := func(c *chooser, k int) {
		var recs []wire.Stat
		var all []byte
		var held [][]byte
		for i := 0; i < k; i++ {
			c.idx = 0
			c.labels = c.labels[:0]
			st := c.stat(dotu, 65537)
			recs = append(recs, st)
		}
		res.Evals++
		res.Sig(fmt.Sprintf("dir/%s/%d/%v", dl, k, c.labels))
		det := map[string]interface{}{"records": k, "classes": fmt.Sprint(c.labels), "name_len": len(recs[0].Name)}
		if res.Evals == 3 {
			res.Sample(det)
		}
		for i := range recs {
			want := wire.EncodeStat(&recs[i], dotu)
			var got []byte
			if !safely(&res, "packdir;"+dl, det, func() {
				d := toDir(&recs[i])
				if !dotu && i%2 == 1 {
					d = ghostDir(d) // (fields of the other dialect: no place on the wire)
				}
				got = go9p.PackDir(d, dotu)
			}) {
				return
			}
			if !bytes.Equal(got, want) {
				res.Violate("dir-bytes;"+dl, "PackDir bytes differ from the stat layout", det)
			}
			all = append(all, want...)
			held = append(held, got)
		}
		// the records stay what they were while later ones are encoded (a caller may collect them before using them)
		for i := range held {
			if !bytes.Equal(held[i], wire.EncodeStat(&recs[i], dotu)) {
				res.Violate("dir-bytes-changed-later;"+dl, fmt.Sprintf("the record PackDir returned for entry %d of %d no longer holds that entry after the later ones were encoded", i, len(recs)), det)
				break
			}
		}
		tailb := r.Bytes(r.Intn(30))
		buf := append(append([]byte{}, all...), tailb...)
		rest := buf
		for i := range recs {
			var d *go9p.Dir
			var b []byte
			var amt int
			var err error
			if !safely(&res, "unpackdir;"+dl, det, func() { d, b, amt, err = go9p.UnpackDir(rest, dotu) }) {
				return
			}
			res.Count("stat_records_decoded", 1)
			reclen := wire.StatLen(&recs[i], dotu)
			if err != nil {
				res.Violate("dir-unpack-error;"+dl, fmt.Sprintf("UnpackDir rejects a well-formed record: %v", err), det)
				return
			}
			if amt != reclen {
				res.Violate("dir-amt;"+dl, fmt.Sprintf("UnpackDir reports %d bytes for a %d-byte record", amt, reclen), det)
				return
			}
			if !bytes.Equal(b, rest[reclen:]) {
				res.Violate("dir-rest;"+dl, "UnpackDir's remaining slice is not the bytes after the record", det)
			}
			if got := fromDir(d, dotu); got != recs[i] {
				res.Violate("dir-fields;"+dl, "UnpackDir fields differ from the encoded record", det)
			}
			if int(d.Size) != reclen-2 {
				res.Violate("dir-size;"+dl, "Dir.Size is not the record's size field", det)
			}
			rest = rest[reclen:]
		}
		// each record on its own, in a buffer that ends with it
		for i := range recs {
			exact := wire.EncodeStat(&recs[i], dotu)
			var d *go9p.Dir
			var b []byte
			var amt int
			var err error
			if !safely(&res, "unpackdir;exact;"+dl, det, func() { d, b, amt, err = go9p.UnpackDir(exact, dotu) }) {
				return
			}
			res.Count("stat_records_decoded", 1)
			switch {
			case err != nil:
				res.Violate("dir-unpack-error;exact;"+dl, fmt.Sprintf("UnpackDir rejects a well-formed %d-byte record that fills its buffer: %v", len(exact), err), det)
				return
			case amt != len(exact) || len(b) != 0:
				res.Violate("dir-amt;exact;"+dl, fmt.Sprintf("UnpackDir reports %d bytes, leaves %d, for a %d-byte record that fills its buffer", amt, len(b), len(exact)), det)
			case fromDir(d, dotu) != recs[i]:
				res.Violate("dir-fields;exact;"+dl, "UnpackDir fields differ from the encoded record", det)
			}
		}
	}
	for k := 0; k < 45; k++ {
		one(&chooser{r: r, focus: -1, all: k, big: true}, 1)
	}
	nf := 14
	if dotu {
		nf = 18
	}
	for f := 0; f < nf; f++ {
		for k := 0; k < 45; k++ {
			one(&chooser{r: r, focus: f, focusClass: k, all: -1, big: true}, 1)
		}
	}
	for i := 0; i < nrand; i++ {
		one(&chooser{r: r, focus: -1, all: -1}, 1+r.Intn(5))
	}
	return res
}

// ---- Rerror with the library's "akaros" switch on: the text on the wire is the error number in hex, a space and
// the text given; everything else of the layout is unchanged (size = length, string length prefix, ecode in .u)

func c01Akaros(ctx *core.Ctx, dotu bool, nrand int) core.Result {
	var res core.Result
	r := core.NewRand(ctx.Seed, "c01/akaros"+dialect(dotu))
	old := *go9p.Akaros
	*go9p.Akaros = true
	defer func() { *go9p.Akaros = old }()
	fc := go9p.NewFcall(bufSize)
	nums := []uint32{0, 1, 9, 0xF, 0x10, 0xFFF, 0xFFFF, 0x10000, 0xFFFFF, 0x100000, 0x7FFFFFFF, 0x80000000, 0xFFFFFFFE, 0xFFFFFFFF}
	texts := []string{"", "x", "file not found", strings.Repeat("e", 255), strings.Repeat("long", 4000), string(r.Bytes(300))}
	try := func(num uint32, text string) {
		res.Evals++
		det := map[string]interface{}{"errornum": num, "text_len": len(text), "akaros": true}
		var err error
		if !safely(&res, "packrerror-akaros", det, func() { err = go9p.PackRerror(fc, text, num, dotu) }) {
			return
		}
		if err != nil {
			res.Violate("akaros-pack-error;"+dialect(dotu), fmt.Sprintf("PackRerror(%d-byte text, %#x) with akaros on: %v", len(text), num, err), det)
			return
		}
		tag := uint16(r.Uint64())
		go9p.SetTag(fc, tag)
		want := wire.Encode(&wire.Msg{Type: wire.Rerror, Tag: tag, Ename: fmt.Sprintf("%04X %v", num, text), Ecode: num}, dotu)
		if !bytes.Equal(fc.Pkt, want) || int(fc.Size) != len(want) {
			res.Violate("akaros-bytes;"+dialect(dotu)+";"+numClass(num), fmt.Sprintf("Rerror with akaros on (errornum %#x, %d-byte text): packet of %d bytes with size field %d, the layout has %d bytes", num, len(text), len(fc.Pkt), fc.Size, len(want)), det)
			return
		}
		nfc, used, uerr := go9p.Unpack(append(append([]byte{}, fc.Pkt...), 0xAA, 0xBB), dotu)
		if uerr != nil || used != len(want) || nfc.Error != fmt.Sprintf("%04X %v", num, text) || (dotu && nfc.Errornum != num) {
			res.Violate("akaros-decode;"+dialect(dotu)+";"+numClass(num), fmt.Sprintf("Rerror packed with akaros on (errornum %#x) does not decode to its fields: %v", num, uerr), det)
		}
		res.Sig(fmt.Sprintf("akaros|%s|%s|%d", dialect(dotu), numClass(num), lenClassStr(len(text))))
	}
	for _, n := range nums {
		for _, t := range texts {
			try(n, t)
		}
	}
	for i := 0; i < nrand/4; i++ {
		try(uint32(r.Uint64()), string(r.Bytes(r.Intn(2000))))
	}
	res.Sample(map[string]interface{}{"case": "PackRerror with the akaros switch on", "errornums": len(nums), "texts": len(texts)})
	return res
}

func numClass(n uint32) string {
	switch {
	case n <= 0xFFFF:
		return "<=FFFF"
	case n <= 0xFFFFF:
		return "5hex"
	case n <= 0xFFFFFFF:
		return "6-7hex"
	}
	return "8hex"
}

func lenClassStr(n int) int {
	switch {
	case n == 0:
		return 0
	case n < 256:
		return 1
	}
	return 2
}

// ---- InitRread / SetRreadCount

func c01Rread(ctx *core.Ctx, dotu bool, nrand int) core.Result {
	var res core.Result
	r := core.NewRand(ctx.Seed, "c01/rread"+dialect(dotu))
	fc := go9p.NewFcall(bufSize)
	sizes := []int{0, 1, 2, 23, 24, 255, 256, 4096, 8192, 65535, 65536, 1 << 20, bufSize - 11}
	try := func(n, k int) {
		res.Evals++
		res.Sig(fmt.Sprintf("rread/%d/%d", n, k))
		det := map[string]interface{}{"init": n, "set": k}
		if res.Evals == 5 {
			res.Sample(det)
		}
		data := r.Bytes(n)
		var err error
		if !safely(&res, "initrread", det, func() { err = go9p.InitRread(fc, uint32(n)) }) {
			return
		}
		if err != nil {
			res.Violate("initrread-error", fmt.Sprintf("InitRread(%d) into a %d-byte buffer: %v", n, bufSize, err), det)
			return
		}
		if len(fc.Data) != n {
			res.Violate("initrread-data", fmt.Sprintf("InitRread(%d) exposes %d data bytes", n, len(fc.Data)), det)
			return
		}
		copy(fc.Data, data)
		want0 := wire.Encode(&wire.Msg{Type: wire.Rread, Tag: wire.NOTAG, Count: uint32(n), Data: data}, dotu)
		if !bytes.Equal(fc.Pkt, want0) {
			res.Violate("initrread-bytes", "packet after InitRread+fill differs from Rread layout", det)
		}
		// the tag is set either after both steps or between them (a server that tags the reply as soon as it has
		// initialised it): SetRreadCount adjusts size and count and leaves the rest of the header alone
		tag := uint16(r.Uint64())
		between := res.Evals%2 == 0
		det["tag_set_between_the_steps"] = between
		if between {
			go9p.SetTag(fc, tag)
		}
		if !safely(&res, "setrreadcount", det, func() { go9p.SetRreadCount(fc, uint32(k)) }) {
			return
		}
		if !between {
			go9p.SetTag(fc, tag)
		} else if w := wire.Encode(&wire.Msg{Type: wire.Rread, Tag: tag, Count: uint32(k), Data: data[:k]}, dotu); !bytes.Equal(fc.Pkt, w) && len(fc.Pkt) == len(w) &&
			bytes.Equal(fc.Pkt[:5], w[:5]) && bytes.Equal(fc.Pkt[7:], w[7:]) {
			res.Violate("setrreadcount-disturbs-tag", fmt.Sprintf("InitRread(%d), SetTag(%d), SetRreadCount(%d): the tag on the wire is %d", n, tag, k, uint16(fc.Pkt[5])|uint16(fc.Pkt[6])<<8), det)
			return
		}
		want := wire.Encode(&wire.Msg{Type: wire.Rread, Tag: tag, Count: uint32(k), Data: data[:k]}, dotu)
		if !bytes.Equal(fc.Pkt, want) || int(fc.Size) != len(want) || int(fc.Count) != k || !bytes.Equal(fc.Data, data[:k]) {
			res.Violate("setrreadcount-bytes", fmt.Sprintf("InitRread(%d), SetRreadCount(%d): packet is not Rread(data[:%d])", n, k, k), det)
		}
		nfc, used, uerr := go9p.Unpack(append([]byte{}, fc.Pkt...), dotu)
		if uerr != nil || used != len(want) || int(nfc.Count) != k || !bytes.Equal(nfc.Data, data[:k]) {
			res.Violate("setrreadcount-decode", "the two-step Rread does not decode to the data set", det)
		}
	}
	for _, n := range sizes {
		for _, k := range []int{0, 1, n / 2, n - 1, n} {
			if k >= 0 && k <= n {
				try(n, k)
			}
		}
	}
	for i := 0; i < nrand/4; i++ {
		n := r.Intn(70000)
		try(n, r.Intn(n+1))
	}
	return res
}
