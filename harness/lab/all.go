package lab

import (
	_ "verif/lab/clntlab"
	_ "verif/lab/codec"
	_ "verif/lab/srvlab"
	_ "verif/lab/ufslab"
)
