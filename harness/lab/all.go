package lab

import (
	_ "verif/lab/codec"
	_ "verif/lab/srvlab"
)
