package lab

import (
	_ "verif/lab/clntlab"
	_ "verif/lab/codec"
	_ "verif/lab/loglab"
	_ "verif/lab/racelab"
	_ "verif/lab/srvlab"
	_ "verif/lab/ufslab"
)
