package lab

import (
	_ "verif/lab/codec"
)
