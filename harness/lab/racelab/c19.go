// Package racelab drives concurrent workloads through the server framework, the
// Unix file server and a shared client under the Go race detector (C19). The
// verdict comes from the detector's report files, parsed by the supervisor.
package racelab

import (
	"bytes"
	"fmt"
	"io"
	"log"
	"math/rand/v2"
	"net"
	"os"
	"path/filepath"
	"regexp"
	"runtime"
	"sort"
	"strings"
	"sync"
	"sync/atomic"
	"syscall"
	"time"

	"github.com/rminnich/go9p"

	"verif/core"
	"verif/wire"
)

func init() {
	log.SetOutput(io.Discard)
	core.Register(&core.Engine{
		Property: "C19",
		Level:    "exploration",
		Rule: "worker built with -race (GORACE halt_on_error=0, one report file per worker); workloads only of the kind the statement allows: N in {2, 8, 32} goroutines sharing one go9p client, each " +
			"on its own fids and its own directory (walks start from the shared root fid), doing create, write, read, stat, wstat, readdir, remove, clunk against the real Ufs over a socketpair; raw peers " +
			"pipelining requests on distinct fids and flushing them against a stateless file server implementation; a Tversion only at session start; other connections opened, used and dropped (after their own " +
			"requests were answered) while the busy ones continue; message logging switched on for some runs; seeded repetitions with yields and short sleeps injected at the library's schedule points " +
			"(the hook touches no shared memory, so it adds no happens-before edge). Oracle: zero DATA RACE reports with a frame of package go9p, after de-duplication by the pair of innermost library frames. " +
			"distinct = (workload, N, logging, seed); every run with at least two overlapping library goroutines is non-trivial",
		Assumptions: []string{
			"the race detector reports only races whose two accesses actually overlapped in a run and keeps a bounded access history: a clean run is 'no race observed in these runs'",
			"a report without any go9p frame is a harness problem (inconclusive), never a violation",
		},
		Cases:       c19Cases,
		MinDistinct: 12,
		Race:        true,
		Jobs:        6,
		StallSec:    400,
		PostRun:     parseRaceLogs,
	})
}

func c19Cases(tier string, seed int64) []core.Case {
	var cases []core.Case
	reps := 6
	if tier == "thorough" {
		reps = 30
	}
	for rep := 0; rep < reps; rep++ {
		for _, n := range []int{2, 8, 32} {
			for _, logging := range []bool{false, true} {
				rep, n, logging := rep, n, logging
				cases = append(cases, core.Case{ID: fmt.Sprintf("ufs-shared-client/n=%d/log=%v/%d", n, logging, rep), Run: func(ctx *core.Ctx) core.Result {
					return raceUfs(ctx, n, logging, rep)
				}})
			}
			rep, n := rep, n
			if n == 2 {
				cases = append(cases, core.Case{ID: fmt.Sprintf("client-tag-interface/%d", rep), Run: func(ctx *core.Ctx) core.Result {
					return raceTag(ctx, rep)
				}})
			}
			cases = append(cases, core.Case{ID: fmt.Sprintf("raw-pipelined-flush/n=%d/%d", n, rep), Run: func(ctx *core.Ctx) core.Result {
				return raceRaw(ctx, n, rep)
			}})
			if n <= 8 {
				cases = append(cases, core.Case{ID: fmt.Sprintf("raw-pipelined-writes/n=%d/%d", n, rep), Run: func(ctx *core.Ctx) core.Result {
					return raceWrites(ctx, n, rep)
				}})
			}
		}
	}
	return cases
}

// perturb is the schedule-point hook of this engine: it must not touch shared memory.
func perturb(point string, obj interface{}) {
	switch x := rand.Uint32() & 63; {
	case x < 8:
		runtime.Gosched()
	case x == 8:
		time.Sleep(30 * time.Microsecond)
	}
}

func socketpair() (net.Conn, net.Conn, error) {
	fds, err := syscall.Socketpair(syscall.AF_UNIX, syscall.SOCK_STREAM, 0)
	if err != nil {
		return nil, nil, err
	}
	fa, fb := os.NewFile(uintptr(fds[0]), "sp-a"), os.NewFile(uintptr(fds[1]), "sp-b")
	defer fa.Close()
	defer fb.Close()
	a, err := net.FileConn(fa)
	if err != nil {
		return nil, nil, err
	}
	b, err := net.FileConn(fb)
	if err != nil {
		a.Close()
		return nil, nil, err
	}
	return a, b, nil
}

func raceUfs(ctx *core.Ctx, n int, logging bool, rep int) core.Result {
	var res core.Result
	go9p.VerifSetHook(perturb)
	root := filepath.Join(ctx.Scratch, fmt.Sprintf("c19-%d", ctx.Index))
	_ = os.RemoveAll(root)
	_ = os.MkdirAll(root, 0o755)
	defer os.RemoveAll(root)
	for g := 0; g < n; g++ {
		_ = os.Mkdir(filepath.Join(root, fmt.Sprintf("g%d", g)), 0o755)
	}
	_ = os.WriteFile(filepath.Join(root, "shared.txt"), []byte("shared, read-only"), 0o644)
	ufs := new(go9p.Ufs)
	ufs.Dotu = rep%2 == 0
	ufs.Root = root
	ufs.Id = "ufs"
	if rep%3 == 1 {
		ufs.Msize = 4096 // below what the clients ask for: Connect adopts the server's answer while its receive loop runs
	}
	if logging {
		ufs.Debuglevel = go9p.DbgLogFcalls | go9p.DbgLogPackets
		ufs.Log = go9p.NewLogger(64)
	}
	if !ufs.Start(ufs) {
		res.Inconclusive = "Ufs.Start failed"
		return res
	}
	// client-side logging is chosen through the package defaults, before any client of this case exists
	go9p.DefaultDebuglevel, go9p.DefaultLogger = 0, nil
	if logging {
		go9p.DefaultDebuglevel, go9p.DefaultLogger = go9p.DbgLogFcalls|go9p.DbgLogPackets, go9p.NewLogger(64)
	}
	dial := func() (*go9p.Clnt, error) {
		a, b, err := socketpair()
		if err != nil {
			return nil, err
		}
		ufs.NewConn(b)
		c, err := go9p.Connect(a, 8192, true)
		if err != nil {
			return nil, err
		}
		rf, err := c.Attach(nil, go9p.OsUsers.Uid2User(0), "")
		if err != nil {
			return nil, err
		}
		c.Root = rf
		return c, nil
	}
	clnt, err := dial()
	if err != nil {
		res.Inconclusive = "c19: " + err.Error()
		return res
	}
	iters := 25
	var wg sync.WaitGroup
	var mu sync.Mutex
	problems := 0
	for g := 0; g < n; g++ {
		wg.Add(1)
		go func(g int) {
			defer wg.Done()
			bad := func() { mu.Lock(); problems++; mu.Unlock() }
			for i := 0; i < iters; i++ {
				name := fmt.Sprintf("g%d/f%d", g, i)
				f, err := clnt.FCreate(name, 0o644, go9p.ORDWR)
				if err != nil {
					bad()
					continue
				}
				data := []byte(fmt.Sprintf("data of goroutine %d iteration %d", g, i))
				if _, err := f.Write(data); err != nil {
					bad()
				}
				buf := make([]byte, 100)
				if k, err := f.ReadAt(buf, 0); err != nil || !bytes.Equal(buf[:k], data) {
					bad()
				}
				_ = f.Close()
				if _, err := clnt.FStat(name); err != nil {
					bad()
				}
				if _, err := clnt.FStat("shared.txt"); err != nil {
					bad()
				}
				if fid, err := clnt.FWalk(name); err == nil {
					d := go9p.Dir{Mode: 0o600, Atime: ^uint32(0), Mtime: ^uint32(0), Length: ^uint64(0), Uidnum: go9p.NOUID, Gidnum: go9p.NOUID, Muidnum: go9p.NOUID}
					d.Type = ^uint16(0)
					_ = clnt.Wstat(fid, &d)
					_ = clnt.Clunk(fid)
				}
				if dfile, err := clnt.FOpen(fmt.Sprintf("g%d", g), go9p.OREAD); err == nil {
					_, _ = dfile.Readdir(0)
					_ = dfile.Close()
				}
				if i%3 == 0 {
					if err := clnt.FRemove(name); err != nil {
						bad()
					}
				}
				if i%4 == 1 {
					// a Topen the server refuses (the file vanished behind the fid), then the same fid opened again once
					// the file is back; a Tcreate it refuses, then another name through the same fid: one request at a
					// time on each fid
					late := fmt.Sprintf("g%d/late%d", g, i)
					host := filepath.Join(root, late)
					_ = os.WriteFile(host, []byte("x"), 0o644)
					if fid, err := clnt.FWalk(late); err == nil {
						_ = os.Remove(host)
						if clnt.Open(fid, go9p.OREAD) == nil {
							bad()
						}
						_ = os.WriteFile(host, []byte("back"), 0o644)
						if err := clnt.Open(fid, go9p.ORDWR); err != nil {
							bad()
						} else if _, err := clnt.Write(fid, []byte("again"), 0); err != nil {
							bad()
						}
						_ = clnt.Clunk(fid)
					}
					if dfid, err := clnt.FWalk(fmt.Sprintf("g%d", g)); err == nil {
						if clnt.Create(dfid, "..", 0o644, go9p.ORDWR, "") == nil {
							bad()
						}
						if err := clnt.Create(dfid, fmt.Sprintf("made%d", i), 0o644, go9p.ORDWR, ""); err != nil {
							bad()
						} else if _, err := clnt.Write(dfid, []byte("made"), 0); err != nil {
							bad()
						}
						_ = clnt.Clunk(dfid)
					}
				}
			}
		}(g)
	}
	// other connections come and go while the busy one continues
	stop := make(chan struct{})
	var owg sync.WaitGroup
	owg.Add(1)
	go func() {
		defer owg.Done()
		for k := 0; ; k++ {
			select {
			case <-stop:
				return
			default:
			}
			c, err := dial()
			if err != nil {
				continue
			}
			_, _ = c.FStat("shared.txt")
			if f, err := c.FOpen("shared.txt", go9p.OREAD); err == nil {
				b := make([]byte, 10)
				_, _ = f.ReadAt(b, 0)
				_ = f.Close() // every request answered before the connection is dropped
			}
			c.Unmount()
			time.Sleep(200 * time.Microsecond)
		}
	}()
	wg.Wait()
	close(stop)
	owg.Wait()
	clnt.Unmount()
	res.Evals = n * iters
	res.Sig(fmt.Sprintf("ufs|n=%d|log=%v|rep=%d|dotu=%v", n, logging, rep, ufs.Dotu))
	res.Count("client_operations", int64(n*iters*8))
	res.Count("unexpected_errors", int64(problems))
	if rep == 0 {
		res.Sample(map[string]interface{}{"workload": "shared client against Ufs", "goroutines": n, "iterations": iters, "logging": logging, "unexpected_errors": problems})
	}
	time.Sleep(5 * time.Millisecond)
	return res
}

// raceTag: the client's pipelined Tag interface (requests complete on a goroutine of the library and are handed to the
// application through a channel): walks, creates that succeed and creates that are refused, opens, reads, clunks,
// each request on its own fid, two tags working side by side on one client.
func raceTag(ctx *core.Ctx, rep int) core.Result {
	var res core.Result
	go9p.VerifSetHook(perturb)
	root := filepath.Join(ctx.Scratch, fmt.Sprintf("c19tag-%d", ctx.Index))
	_ = os.RemoveAll(root)
	_ = os.MkdirAll(root, 0o755)
	defer os.RemoveAll(root)
	_ = os.WriteFile(filepath.Join(root, "exists"), []byte("already here"), 0o644)
	ufs := new(go9p.Ufs)
	ufs.Dotu = rep%2 == 0
	ufs.Root = root
	ufs.Id = "ufs"
	if !ufs.Start(ufs) {
		res.Inconclusive = "Ufs.Start failed"
		return res
	}
	go9p.DefaultDebuglevel, go9p.DefaultLogger = 0, nil
	a, b, err := socketpair()
	if err != nil {
		res.Inconclusive = err.Error()
		return res
	}
	ufs.NewConn(b)
	c, err := go9p.Connect(a, 8192, true)
	if err != nil {
		res.Inconclusive = err.Error()
		return res
	}
	defer c.Unmount()
	user := go9p.OsUsers.Uid2User(0)
	rootFid, err := c.Attach(nil, user, "")
	if err != nil {
		res.Inconclusive = err.Error()
		return res
	}
	var wg sync.WaitGroup
	for g := 0; g < 2; g++ {
		wg.Add(1)
		go func(g int) {
			defer wg.Done()
			reqchan := make(chan *go9p.Req, 8)
			tag := c.TagAlloc(reqchan)
			wait := func() *go9p.Req {
				select {
				case r := <-reqchan:
					return r
				case <-time.After(10 * time.Second):
					return nil
				}
			}
			for round := 0; round < 20; round++ {
				// a create that is refused (the name exists), on its own fid
				f := c.FidAlloc()
				if tag.Walk(rootFid, f, nil) != nil || wait() == nil {
					return
				}
				if tag.Create(f, "exists", 0o644|go9p.DMDIR, go9p.OREAD, "") != nil || wait() == nil {
					return
				}
				if tag.Clunk(f) != nil || wait() == nil {
					return
				}
				// a create that succeeds, then a read and a clunk
				f2 := c.FidAlloc()
				if tag.Walk(rootFid, f2, nil) != nil || wait() == nil {
					return
				}
				if tag.Create(f2, fmt.Sprintf("new-%d-%d", g, round), 0o644, go9p.ORDWR, "") != nil || wait() == nil {
					return
				}
				if tag.Read(f2, 0, 16) != nil || wait() == nil {
					return
				}
				if tag.Clunk(f2) != nil || wait() == nil {
					return
				}
				// an open of the existing file
				f3 := c.FidAlloc()
				if tag.Walk(rootFid, f3, []string{"exists"}) != nil || wait() == nil {
					return
				}
				if tag.Open(f3, go9p.OREAD) != nil || wait() == nil {
					return
				}
				if tag.Clunk(f3) != nil || wait() == nil {
					return
				}
			}
			c.TagFree(tag)
		}(g)
	}
	wg.Wait()
	res.Evals = 2 * 20
	res.Sig(fmt.Sprintf("tag-interface|rep=%d|dotu=%v", rep, ufs.Dotu))
	if rep == 0 {
		res.Sample(map[string]interface{}{"workload": "client Tag interface against Ufs", "goroutines": 2, "rounds": 20})
	}
	time.Sleep(5 * time.Millisecond)
	return res
}

// ---- a file server implementation without any state of its own

type nullfs struct {
	go9p.Srv
	// cancel: the usual FlushOp pattern — Flush cancels a read that is blocked in the implementation with req.Flush()
	// and wakes its worker, which then gives its (dropped) late answer while the connection goes on serving
	cancel  bool
	refuse  atomic.Pointer[go9p.Error]
	mu      sync.Mutex
	waiting map[*go9p.SrvReq]chan struct{}
}

func qid(p uint64, t uint8) *go9p.Qid { return &go9p.Qid{Type: t, Version: 1, Path: p} }

func (*nullfs) Attach(r *go9p.SrvReq) { r.RespondRattach(qid(1, go9p.QTDIR)) }
func (*nullfs) Walk(r *go9p.SrvReq) {
	qs := make([]go9p.Qid, len(r.Tc.Wname))
	for i, n := range r.Tc.Wname {
		t := uint8(0)
		if strings.HasPrefix(n, "d") {
			t = go9p.QTDIR
		}
		qs[i] = *qid(uint64(len(n)+i), t)
	}
	r.RespondRwalk(qs)
}
func (*nullfs) Open(r *go9p.SrvReq)   { r.RespondRopen(qid(2, r.Fid.Type), 0) }
func (*nullfs) Create(r *go9p.SrvReq) { r.RespondRcreate(qid(3, 0), 0) }
func (fs *nullfs) Read(r *go9p.SrvReq) {
	count := r.Tc.Count
	if fs.cancel && count%2 == 1 {
		ch := make(chan struct{})
		fs.mu.Lock()
		fs.waiting[r] = ch
		fs.mu.Unlock()
		select {
		case <-ch:
			time.Sleep(time.Duration(count%4) * 30 * time.Microsecond)
			if count%4 == 3 {
				// the late answer given the other documented way: the reply it was handed is filled in place
				if go9p.InitRread(r.Rc, count) == nil {
					for i := range r.Rc.Data {
						r.Rc.Data[i] = byte(i)
					}
					go9p.SetRreadCount(r.Rc, count)
					r.Respond()
					return
				}
			}
			r.RespondError(&go9p.Error{Err: "interrupted", Errornum: 4})
		case <-time.After(3 * time.Millisecond):
			fs.mu.Lock()
			delete(fs.waiting, r)
			fs.mu.Unlock()
			r.RespondRread(make([]byte, count))
		}
		return
	}
	time.Sleep(time.Duration(count%5) * 20 * time.Microsecond)
	r.RespondRread(make([]byte, count))
}
func (*nullfs) Write(r *go9p.SrvReq)  { r.RespondRwrite(uint32(len(r.Tc.Data))) }
func (*nullfs) Clunk(r *go9p.SrvReq)  { r.RespondRclunk() }
func (*nullfs) Remove(r *go9p.SrvReq) { r.RespondRremove() }
func (*nullfs) Stat(r *go9p.SrvReq) {
	r.RespondRstat(&go9p.Dir{Name: "x", Uid: "u", Gid: "g", Muid: "m"})
}
// Wstat refuses every request of a round with one and the same error value, as implementations do that keep their
// errors in variables (here a fresh value per round, with and without an error number): it is the implementation's
// value, handed to several requests at a time, and only to be read by anybody.
func (fs *nullfs) Wstat(r *go9p.SrvReq) {
	if e := fs.refuse.Load(); e != nil {
		r.RespondError(e)
		return
	}
	r.RespondRwstat()
}
func (fs *nullfs) Flush(r *go9p.SrvReq) {
	if !fs.cancel {
		return
	}
	fs.mu.Lock()
	ch := fs.waiting[r]
	delete(fs.waiting, r)
	fs.mu.Unlock()
	if ch != nil {
		r.Flush()
		close(ch)
	}
}
func (*nullfs) ConnOpened(c *go9p.Conn)   {}
func (*nullfs) ConnClosed(c *go9p.Conn)   {}
func (*nullfs) FidDestroy(f *go9p.SrvFid) {}

// raceRaw: n raw connections, each pipelining requests on its own fids and flushing some of them.
func raceRaw(ctx *core.Ctx, n, rep int) core.Result {
	var res core.Result
	go9p.VerifSetHook(perturb)
	fs := new(nullfs)
	fs.cancel = rep%2 == 0
	fs.waiting = map[*go9p.SrvReq]chan struct{}{}
	fs.Dotu = rep%2 == 1
	fs.Id = "nullfs"
	fs.Maxpend = []int{0, 4}[rep%2]
	if rep%3 == 2 {
		fs.Debuglevel = go9p.DbgLogFcalls
		if rep%2 == 1 {
			fs.Log = go9p.NewLogger(32)
		} // else: the server's own default log (whatever Start sets up), shared by the connections that arrive together
	}
	if !fs.Start(fs) {
		res.Inconclusive = "Start failed"
		return res
	}
	var wg sync.WaitGroup
	for cidx := 0; cidx < n; cidx++ {
		wg.Add(1)
		go func(cidx int) {
			defer wg.Done()
			a, b, err := socketpair()
			if err != nil {
				return
			}
			fs.NewConn(b)
			defer a.Close()
			ver := "9P2000"
			if fs.Dotu {
				ver = "9P2000.u"
			}
			replies := make(chan *wire.Msg, 4096)
			go func() {
				var buf []byte
				tmp := make([]byte, 65536)
				for {
					k, err := a.Read(tmp)
					if k > 0 {
						buf = append(buf, tmp[:k]...)
						frames, rest := wire.Split(buf)
						for _, f := range frames {
							if m, _, err := wire.Decode(f, fs.Dotu); err == nil {
								replies <- m
							}
						}
						buf = append([]byte{}, rest...)
					}
					if err != nil {
						close(replies)
						return
					}
				}
			}()
			send := func(ms ...*wire.Msg) {
				var out []byte
				for _, m := range ms {
					out = append(out, wire.Encode(m, fs.Dotu)...)
				}
				_, _ = a.Write(out)
			}
			// waitTags waits for the replies to exactly these requests (a request on a fid is only sent after the
			// reply that created or changed the fid was received: requests outstanding together use different fids)
			seen := map[uint16]bool{} // tags answered so far (tags are not reused within a connection here)
			waitTags := func(ms []*wire.Msg) {
				need := map[uint16]bool{}
				for _, m := range ms {
					if !seen[m.Tag] {
						need[m.Tag] = true
					}
				}
				deadline := time.After(10 * time.Second)
				for len(need) > 0 {
					select {
					case m, ok := <-replies:
						if !ok {
							return
						}
						seen[m.Tag] = true
						delete(need, m.Tag)
					case <-deadline:
						return
					}
				}
			}
			wait := func(k int) { _ = k }
			_ = wait
			v := []*wire.Msg{{Type: wire.Tversion, Tag: wire.NOTAG, Msize: 8192, Version: ver}}
			send(v...)
			waitTags(v)
			at := []*wire.Msg{{Type: wire.Tattach, Tag: 1, Fid: 0, Afid: wire.NOFID, Uname: "root", Nuname: 0}}
			send(at...)
			waitTags(at)
			tag := uint16(10)
			for round := 0; round < 15; round++ {
				var ms []*wire.Msg
				expect := 0
				base := uint32(100 + round*40)
				for k := uint32(0); k < 8; k++ {
					f := base + k*4
					tag += 4
					ms = append(ms,
						&wire.Msg{Type: wire.Twalk, Tag: tag, Fid: 0, Newfid: f, Wname: []string{"d", "f"}}, // walks from the shared root fid
					)
					expect++
				}
				send(ms...)
				waitTags(ms)
				ms, expect = nil, 0
				for k := uint32(0); k < 8; k++ {
					f := base + k*4
					tag += 4
					ms = append(ms, &wire.Msg{Type: wire.Topen, Tag: tag, Fid: f, Mode: 2})
					expect++
				}
				send(ms...)
				waitTags(ms)
				ms, expect = nil, 0
				var flushes []*wire.Msg
				for k := uint32(0); k < 8; k++ {
					f := base + k*4
					tag += 4
					ms = append(ms, &wire.Msg{Type: wire.Tread, Tag: tag, Fid: f, Offset: 0, Count: uint32(k*7 + 1)})
					if k%2 == 0 {
						flushes = append(flushes, &wire.Msg{Type: wire.Tflush, Tag: tag + 1, Oldtag: tag})
					}
					ms = append(ms, &wire.Msg{Type: wire.Tstat, Tag: tag + 2, Fid: f})
					expect++ // the stat; the read may be cancelled
				}
				send(append(ms, flushes...)...)
				// every flush is answered, and once it is its target has been answered or cancelled; the stats are answered
				var must []*wire.Msg
				for _, m := range ms {
					if m.Type == wire.Tstat {
						must = append(must, m)
					}
				}
				waitTags(append(must, flushes...))
				// the reads that were not flushed complete on their own
				must = nil
				flushed := map[uint16]bool{}
				for _, f := range flushes {
					flushed[f.Oldtag] = true
				}
				for _, m := range ms {
					if m.Type == wire.Tread && !flushed[m.Tag] {
						must = append(must, m)
					}
				}
				waitTags(must)
				// eight requests on eight fids refused at the same time with the implementation's shared error value
				if cidx == 0 {
					fs.refuse.Store(&go9p.Error{Err: fmt.Sprintf("refused in round %d", round), Errornum: uint32(round % 2 * go9p.EPERM)})
				}
				ms = nil
				for k := uint32(0); k < 8; k++ {
					tag += 4
					ms = append(ms, &wire.Msg{Type: wire.Twstat, Tag: tag, Fid: base + k*4, Stat: wire.Stat{Type: 0xFFFF, Dev: 0xFFFFFFFF, Qid: wire.Qid{Type: 0xFF, Version: 0xFFFFFFFF, Path: 0xFFFFFFFFFFFFFFFF}, Mode: 0xFFFFFFFF, Atime: 0xFFFFFFFF, Mtime: 0xFFFFFFFF, Length: 0xFFFFFFFFFFFFFFFF, Nuid: wire.NOUID, Ngid: wire.NOUID, Nmuid: wire.NOUID}})
				}
				send(ms...)
				waitTags(ms)
				ms = nil
				for k := uint32(0); k < 8; k++ {
					tag += 4
					ms = append(ms, &wire.Msg{Type: wire.Tclunk, Tag: tag, Fid: base + k*4})
				}
				send(ms...)
				waitTags(ms)
			}
		}(cidx)
	}
	wg.Wait()
	res.Evals = n * 15
	res.Sig(fmt.Sprintf("raw|n=%d|rep=%d|dotu=%v|maxpend=%d|cancelling-flushop=%v", n, rep, fs.Dotu, fs.Maxpend, fs.cancel))
	res.Count("raw_connections", int64(n))
	if rep == 0 {
		res.Sample(map[string]interface{}{"workload": "raw pipelined requests with flushes", "connections": n, "rounds": 15})
	}
	time.Sleep(5 * time.Millisecond)
	return res
}

// ---- report parsing (runs in the supervisor)

var reFuncLine = regexp.MustCompile(`^  ([^\s(][^\s]*)\(`)

func parseRaceLogs(run *core.RunInfo) {
	files, _ := filepath.Glob(filepath.Join(run.LogDir, "race-*"))
	nreports, nlib := 0, 0
	seen := map[string]int{}
	first := map[string]string{}
	for _, f := range files {
		b, err := os.ReadFile(f)
		if err != nil {
			continue
		}
		for _, blk := range strings.Split(string(b), "==================") {
			if !strings.Contains(blk, "WARNING: DATA RACE") {
				continue
			}
			nreports++
			if !strings.Contains(blk, "github.com/rminnich/go9p.") {
				*run.Internal = append(*run.Internal, "race report without a go9p frame (harness race?):\n"+head(blk, 30))
				continue
			}
			nlib++
			// the innermost library frame of each of the two accesses
			var tops []string
			sections := regexp.MustCompile(`(?m)^(Write|Read|Previous write|Previous read|Atomic|Previous atomic)[^\n]*by [^\n]*:$`).FindAllStringIndex(blk, -1)
			for _, s := range sections {
				rest := strings.TrimPrefix(blk[s[1]:], "\n")
				for _, l := range strings.Split(rest, "\n") {
					if l == "" {
						break // end of this stack
					}
					if m := reFuncLine.FindStringSubmatch(l); m != nil && strings.Contains(m[1], "github.com/rminnich/go9p.") {
						tops = append(tops, strings.TrimPrefix(m[1], "github.com/rminnich/go9p."))
						break
					}
				}
			}
			sort.Strings(tops)
			key := strings.Join(tops, " <-> ")
			if key == "" {
				key = "unparsed"
			}
			seen[key]++
			if _, ok := first[key]; !ok {
				first[key] = head(blk, 60)
			}
		}
	}
	var keys []string
	for k := range seen {
		keys = append(keys, k)
	}
	sort.Strings(keys)
	for _, k := range keys {
		*run.Violations = append(*run.Violations, core.Violation{
			Signature: "C19;race;" + k,
			What:      fmt.Sprintf("the race detector reports a data race between %s (%d reports)", k, seen[k]),
			Detail:    map[string]interface{}{"report": first[k]},
		})
	}
	run.Extra["race_report_files_parsed"] = len(files)
	run.Extra["race_reports_total"] = nreports
	run.Extra["race_reports_in_library"] = nlib
	run.Extra["distinct_library_races"] = len(keys)
}

func head(s string, n int) string {
	l := strings.Split(s, "\n")
	if len(l) > n {
		l = l[:n]
	}
	return strings.Join(l, "\n")
}

// raceWrites: raw connections to the Unix file server with a small msize, each sending a whole burst of data-carrying
// requests (Twrite on fids of its own) in one transport write, several receive buffers' worth, and waiting for the
// replies only afterwards: the payload of every request is read by its worker while the connection's reader is
// already busy with the bytes behind it.
func raceWrites(ctx *core.Ctx, n, rep int) core.Result {
	var res core.Result
	go9p.VerifSetHook(perturb)
	root := filepath.Join(ctx.Scratch, fmt.Sprintf("c19w-%d", ctx.Index))
	_ = os.RemoveAll(root)
	_ = os.MkdirAll(root, 0o755)
	defer os.RemoveAll(root)
	ufs := new(go9p.Ufs)
	ufs.Dotu = rep%2 == 0
	ufs.Id = "ufs"
	ufs.Root = root
	ufs.Msize = []uint32{1024, 512, 4096}[rep%3]
	if !ufs.Start(ufs) {
		res.Inconclusive = "Start failed"
		return res
	}
	msize := ufs.Msize
	var wg sync.WaitGroup
	var mu sync.Mutex
	for cidx := 0; cidx < n; cidx++ {
		wg.Add(1)
		go func(cidx int) {
			defer wg.Done()
			a, b, err := socketpair()
			if err != nil {
				return
			}
			ufs.NewConn(b)
			defer a.Close()
			ver := "9P2000"
			if ufs.Dotu {
				ver = "9P2000.u"
			}
			replies := make(chan *wire.Msg, 4096)
			go func() {
				var buf []byte
				tmp := make([]byte, 65536)
				for {
					k, err := a.Read(tmp)
					if k > 0 {
						buf = append(buf, tmp[:k]...)
						frames, rest := wire.Split(buf)
						for _, f := range frames {
							if m, _, err := wire.Decode(f, ufs.Dotu); err == nil {
								replies <- m
							}
						}
						buf = append([]byte{}, rest...)
					}
					if err != nil {
						close(replies)
						return
					}
				}
			}()
			send := func(ms ...*wire.Msg) {
				var out []byte
				for _, m := range ms {
					out = append(out, wire.Encode(m, ufs.Dotu)...)
				}
				_, _ = a.Write(out)
			}
			wait := func(k int) bool {
				deadline := time.After(20 * time.Second)
				for ; k > 0; k-- {
					select {
					case _, ok := <-replies:
						if !ok {
							return false
						}
					case <-deadline:
						return false
					}
				}
				return true
			}
			tag := uint16(0)
			next := func() uint16 { tag++; return tag }
			send(&wire.Msg{Type: wire.Tversion, Tag: wire.NOTAG, Msize: msize, Version: ver})
			if !wait(1) {
				return
			}
			send(&wire.Msg{Type: wire.Tattach, Tag: next(), Fid: 0, Afid: wire.NOFID, Uname: "root", Nuname: 0})
			wait(1)
			const files = 24
			for i := 0; i < files; i++ {
				// (one at a time: a request on a fid follows the reply that made the fid)
				send(&wire.Msg{Type: wire.Twalk, Tag: next(), Fid: 0, Newfid: uint32(10 + i)})
				wait(1)
				send(&wire.Msg{Type: wire.Tcreate, Tag: next(), Fid: uint32(10 + i), Name: fmt.Sprintf("c%d-f%d", cidx, i), Perm: 0o644, Mode: 1})
				wait(1)
			}
			L := int(msize) - 24
			for round := 0; round < 4; round++ {
				var burst []*wire.Msg
				for i := 0; i < files; i++ {
					data := make([]byte, L-round*7)
					for j := range data {
						data[j] = byte(i + round)
					}
					burst = append(burst, &wire.Msg{Type: wire.Twrite, Tag: next(), Fid: uint32(10 + i), Offset: uint64(round * L), Count: uint32(len(data)), Data: data})
				}
				send(burst...)
				if !wait(len(burst)) {
					break
				}
				mu.Lock()
				res.Evals += len(burst)
				mu.Unlock()
			}
			for i := 0; i < files; i++ {
				send(&wire.Msg{Type: wire.Tclunk, Tag: next(), Fid: uint32(10 + i)})
				wait(1)
			}
		}(cidx)
	}
	wg.Wait()
	res.Sig(fmt.Sprintf("raw-pipelined-writes|n=%d|rep=%d", n, rep))
	res.Sample(map[string]interface{}{"workload": "bursts of Twrites on own fids to Ufs, several receive buffers per burst", "connections": n, "msize": msize})
	return res
}
