// Package clntlab runs go9p's client library against the scripted peer
// (package peer): C09, C10 and the client halves of C12 and C13.
package clntlab

import (
	"bytes"
	"fmt"
	"io"
	"log"
	"os"
	"strings"
	"sync"
	"time"

	"github.com/rminnich/go9p"

	"verif/core"
	"verif/lab/srvlab"
	"verif/memconn"
	"verif/peer"
	"verif/sched"
	"verif/script"
	"verif/wire"
)

const W = 15 * time.Second

func init() {
	log.SetOutput(io.Discard)
	core.Register(&core.Engine{
		Property: "C09",
		Level:    "exploration",
		Rule: "one go9p client against a scripted peer whose answers are a pure function of each request: (a) k = 1..5 concurrent calls, the peer waits for all k and answers in every permutation; " +
			"(b) 1, 8 and 64 caller goroutines issuing mixed calls (read, write, stat, walk, open, clunk, wstat) while the peer answers in seeded random order, in batches, with replies cut into arbitrary " +
			"transport segments and with random delays at the client's schedule points; (c) more than 65 535 consecutive calls over one connection, then tag/slot conservation at quiescence; " +
			"(d) Rerror and wrong-type replies; (e) the pipelined Tag interface with requests sharing one tag. Oracle: every call returns the payload derived from its own request, the peer never sees a tag " +
			"that is already outstanding, errors carry the peer's text and number. distinct = (scenario, k / callers, permutation or batch shape, dialect)",
		Assumptions: []string{
			"the peer retires a tag when it sends the reply (the client cannot legally reuse it earlier)",
			"conservation is checked only on connections that never failed",
		},
		Cases:       c09Cases,
		MinDistinct: 100,
		Jobs:        8,
	})
}

func c09Cases(tier string, seed int64) []core.Case {
	var cases []core.Case
	for _, dotu := range []bool{true, false} {
		dotu := dotu
		cases = append(cases, core.Case{ID: fmt.Sprintf("perms/dotu=%v", dotu), Run: func(ctx *core.Ctx) core.Result { return c09Perms(ctx, dotu) }})
		for _, callers := range []int{1, 8, 64} {
			for _, delays := range []bool{false, true} {
				callers, delays := callers, delays
				cases = append(cases, core.Case{ID: fmt.Sprintf("storm/callers=%d/delays=%v/dotu=%v", callers, delays, dotu), Run: func(ctx *core.Ctx) core.Result {
					n := 300
					if tier == "thorough" {
						n = 6000
					}
					return c09Storm(ctx, dotu, callers, n, delays)
				}})
			}
		}
		cases = append(cases, core.Case{ID: fmt.Sprintf("early-reply/dotu=%v", dotu), Run: func(ctx *core.Ctx) core.Result { return c09EarlyReply(ctx, dotu) }})
		cases = append(cases, core.Case{ID: fmt.Sprintf("errors/dotu=%v", dotu), Run: func(ctx *core.Ctx) core.Result { return c09Errors(ctx, dotu) }})
		cases = append(cases, core.Case{ID: fmt.Sprintf("renegotiated-then-concurrent/dotu=%v", dotu), Run: func(ctx *core.Ctx) core.Result { return c09Renegotiated(ctx, dotu) }})
		cases = append(cases, core.Case{ID: fmt.Sprintf("refused-version/dotu=%v", dotu), Run: func(ctx *core.Ctx) core.Result { return c09VersionRefused(ctx, dotu) }})
		cases = append(cases, core.Case{ID: fmt.Sprintf("tagiface/dotu=%v", dotu), Run: func(ctx *core.Ctx) core.Result { return c09TagIface(ctx, dotu, tier == "thorough") }})
		cases = append(cases, core.Case{ID: fmt.Sprintf("tagiface-all-operations/dotu=%v", dotu), Run: func(ctx *core.Ctx) core.Result { return c09TagMixed(ctx, dotu, tier == "thorough") }})
	}
	// a client that asks for 9P2000.u and is granted plain 9P2000: replies whose layout differs between the dialects
	// (Rerror, Rstat) are read in the dialect that was granted
	plain := func(run func(ctx *core.Ctx) core.Result) func(ctx *core.Ctx) core.Result {
		return func(ctx *core.Ctx) core.Result {
			peerPlainOnly = true
			defer func() { peerPlainOnly = false }()
			return run(ctx)
		}
	}
	cases = append(cases, core.Case{ID: "errors/asked-dotu-granted-plain", Run: plain(func(ctx *core.Ctx) core.Result { return c09Errors(ctx, true) })})
	cases = append(cases, core.Case{ID: "storm/callers=8/asked-dotu-granted-plain", Run: plain(func(ctx *core.Ctx) core.Result { return c09Storm(ctx, true, 8, 300, false) })})
	cases = append(cases, core.Case{ID: "tagiface-all-operations/asked-dotu-granted-plain", Run: plain(func(ctx *core.Ctx) core.Result { return c09TagMixed(ctx, true, false) })})
	wrap := 70000
	if tier == "thorough" {
		wrap = 1000000
	}
	for part := 0; part < 4; part++ {
		part := part
		cases = append(cases, core.Case{ID: fmt.Sprintf("wrap/%d", part), Run: func(ctx *core.Ctx) core.Result { return c09Wrap(ctx, part%2 == 0, wrap, part) }})
	}
	return cases
}

type sess struct {
	p    *peer.Peer
	c    *go9p.Clnt
	ctl  *sched.Ctl
	dotu bool
	user go9p.User
}

// connect creates a peer and a connected client (Tversion answered by the peer).
// peerPlainOnly: the peer of the running case speaks plain 9P2000 only, whatever the client asks for (a worker runs
// one case at a time): the session's dialect is what the peer granted.
var peerPlainOnly bool

func connect(msize uint32, dotu bool, serve bool) (*sess, error) {
	p := peer.New(msize, !peerPlainOnly)
	s := &sess{p: p, dotu: dotu, user: script.Users{}.Uid2User(0)}
	s.ctl = sched.New(nil, nil)
	s.ctl.Trace = false
	sched.Install(s.ctl)
	errc := make(chan error, 1)
	go func() {
		c, err := go9p.Connect(p.Cli, msize, dotu)
		s.c = c
		errc <- err
	}()
	r := p.Next(W)
	if r == nil || r.Msg.Type != wire.Tversion {
		return nil, fmt.Errorf("no Tversion from the client")
	}
	p.Reply(r, p.Answer(r.Msg))
	select {
	case err := <-errc:
		if err != nil {
			return nil, err
		}
	case <-time.After(W):
		return nil, fmt.Errorf("Connect did not return")
	}
	if serve {
		go p.Serve(nil)
	}
	return s, nil
}

func (s *sess) fid(n uint32) *go9p.Fid {
	f := s.c.FidAlloc()
	f.Fid = n
	f.Iounit = s.c.Msize - go9p.IOHDRSZ
	return f
}

func (s *sess) close() {
	if s.c != nil {
		s.c.Unmount()
	}
	s.p.Srv.Close()
}

// call is one client call with its expectation.
type call struct {
	kind   string
	fidn   uint32
	offset uint64
	count  uint32
	data   []byte
}

// do issues the call and checks that the result is the peer's answer to exactly this request.
func (s *sess) do(c call) string {
	f := s.fid(c.fidn)
	switch c.kind {
	case "read":
		b, err := s.c.Read(f, c.offset, c.count)
		if err != nil {
			return "error: " + err.Error()
		}
		if !bytes.Equal(b, peer.Data(c.fidn, c.offset, int(c.count))) {
			return fmt.Sprintf("read(fid %d, offset %d, count %d) returned %d bytes that are not the answer to this request", c.fidn, c.offset, c.count, len(b))
		}
	case "write":
		n, err := s.c.Write(f, c.data, c.offset)
		if err != nil {
			return "error: " + err.Error()
		}
		if n != len(c.data) {
			return fmt.Sprintf("write of %d bytes returned %d", len(c.data), n)
		}
	case "stat":
		d, err := s.c.Stat(f)
		if err != nil {
			return "error: " + err.Error()
		}
		if d.Name != peer.StatName(c.fidn) || d.Length != uint64(c.fidn) {
			return fmt.Sprintf("stat(fid %d) returned the stat of %q", c.fidn, d.Name)
		}
	case "walk":
		nf := s.fid(c.fidn + 1)
		names := []string{"a", "b"}
		qs, err := s.c.Walk(f, nf, names)
		if err != nil {
			return "error: " + err.Error()
		}
		if len(qs) != 2 || qs[1].Path != peer.QidFor(c.fidn+2).Path {
			return fmt.Sprintf("walk(fid %d) returned qids of another request", c.fidn)
		}
	case "open":
		f.Iounit = 0
		if err := s.c.Open(f, 0); err != nil {
			return "error: " + err.Error()
		}
		if f.Qid.Path != peer.QidFor(c.fidn).Path {
			return fmt.Sprintf("open(fid %d) returned the qid of another request", c.fidn)
		}
	case "clunk":
		if err := s.c.Clunk(f); err != nil && f.Fid != go9p.NOFID {
			return "error: " + err.Error()
		}
	case "wstat":
		if err := s.c.Wstat(f, &go9p.Dir{Name: "x"}); err != nil {
			return "error: " + err.Error()
		}
	case "refused-read", "refused-stat":
		// the peer answers Rerror: the caller gets that error (and the client is as fit for the calls around it as before)
		var err error
		if c.kind == "refused-read" {
			_, err = s.c.Read(f, c.offset, c.count)
		} else {
			_, err = s.c.Stat(f)
		}
		ge, ok := err.(*go9p.Error)
		if err == nil || !ok || ge.Err != peer.ErrText(c.fidn) {
			return fmt.Sprintf("%s(fid %d) was refused by the peer with %q, the caller got %v", c.kind, c.fidn, peer.ErrText(c.fidn), err)
		}
	case "create":
		f.Iounit = 0
		if err := s.c.Create(f, fmt.Sprintf("n%d", c.fidn), 0o644, 1, ""); err != nil {
			return "error: " + err.Error()
		}
		if f.Qid.Path != peer.QidFor(c.fidn).Path {
			return fmt.Sprintf("create(fid %d) returned the qid of another request", c.fidn)
		}
		if f.Iounit != s.c.Msize-go9p.IOHDRSZ {
			return fmt.Sprintf("create(fid %d) left iounit %d", c.fidn, f.Iounit)
		}
	case "remove":
		if err := s.c.Remove(f); err != nil {
			return "error: " + err.Error()
		}
	case "attach":
		// (the client picks the fid number itself; the peer derives the qid from the number it received)
		nf, err := s.c.Attach(nil, s.user, "an")
		if err != nil {
			return "error: " + err.Error()
		}
		if nf.Qid.Path != peer.QidFor(nf.Fid).Path {
			return fmt.Sprintf("attach returned fid %d with the qid of another request", nf.Fid)
		}
		_ = s.c.Clunk(nf)
	case "auth":
		af, err := s.c.Auth(s.user, "an")
		if err != nil {
			return "error: " + err.Error()
		}
		nf, err := s.c.Attach(af, s.user, "an")
		if err != nil {
			return "error: " + err.Error()
		}
		if nf.Qid.Path != peer.QidFor(nf.Fid).Path || nf.Fid == af.Fid {
			return fmt.Sprintf("attach through an auth fid returned fid %d (afid %d) with the qid of another request", nf.Fid, af.Fid)
		}
		_ = s.c.Clunk(nf)
		_ = s.c.Clunk(af)
	}
	return ""
}

// singleRequestCalls: call kinds that put exactly one request on the wire (the permutation scenario answers exactly
// k requests); "attach" and "auth" are sequences of calls and belong to the storms, whose peer answers whatever arrives.
var singleOnly bool

func mkcall(r *core.Rand, id uint32, maxcount int) call {
	kinds := []string{"read", "read", "read", "write", "stat", "walk", "open", "wstat", "create", "remove", "attach", "auth"}
	if singleOnly {
		kinds = kinds[:len(kinds)-2]
	}
	k := kinds[r.Intn(len(kinds))]
	c := call{kind: k, fidn: id*4 + 100, offset: uint64(r.Intn(1 << 30)), count: uint32(r.Intn(maxcount + 1))}
	if r.Intn(10) == 0 {
		c.kind = []string{"refused-read", "refused-stat"}[r.Intn(2)]
		c.fidn = peer.ErrFid + id*4
	}
	if k == "write" {
		c.data = r.Bytes(r.Intn(maxcount + 1))
	}
	return c
}

func permutations(n int) [][]int {
	var out [][]int
	p := make([]int, n)
	for i := range p {
		p[i] = i
	}
	var rec func(k int)
	rec = func(k int) {
		if k == n {
			out = append(out, append([]int{}, p...))
			return
		}
		for i := k; i < n; i++ {
			p[k], p[i] = p[i], p[k]
			rec(k + 1)
			p[k], p[i] = p[i], p[k]
		}
	}
	rec(0)
	return out
}

func peerProblems(res *core.Result, p *peer.Peer, what string) {
	dups, bad := p.Problems()
	if len(dups) > 0 {
		res.Violate("C09;tag-reused-while-outstanding;"+what, "the peer saw "+dups[0], map[string]interface{}{"count": len(dups)})
	}
	if len(bad) > 0 {
		res.Violate("C09;client-sent-bad-frame;"+what, "the client sent a frame that does not decode: "+bad[0], nil)
	}
}

func c09Perms(ctx *core.Ctx, dotu bool) core.Result {
	var res core.Result
	s, err := connect(8192, dotu, false)
	if err != nil {
		res.Inconclusive = "c09: " + err.Error()
		return res
	}
	defer s.close()
	r := core.NewRand(ctx.Seed, fmt.Sprintf("c09perm/%v", dotu))
	singleOnly = true
	defer func() { singleOnly = false }()
	id := uint32(0)
	for k := 1; k <= 5; k++ {
		for _, perm := range permutations(k) {
			calls := make([]call, k)
			results := make([]string, k)
			var wg sync.WaitGroup
			for i := 0; i < k; i++ {
				id++
				calls[i] = mkcall(r, id, 500)
				wg.Add(1)
				go func(i int) {
					defer wg.Done()
					results[i] = s.do(calls[i])
				}(i)
			}
			reqs := s.p.Collect(k, W)
			res.Evals++
			if len(reqs) != k {
				res.Violate("C09;requests-missing", fmt.Sprintf("%d concurrent calls produced only %d requests", k, len(reqs)), nil)
				return res
			}
			for _, i := range perm {
				s.p.Reply(reqs[i], s.p.Answer(reqs[i].Msg))
			}
			done := make(chan struct{})
			go func() { wg.Wait(); close(done) }()
			select {
			case <-done:
			case <-time.After(W):
				res.Inconclusive = "c09: calls did not return (C10's concern)"
				return res
			}
			for i, e := range results {
				if e != "" {
					res.Violate("C09;wrong-result;perm;"+calls[i].kind, fmt.Sprintf("%d calls answered in order %v: %s", k, perm, e), map[string]interface{}{"call": fmt.Sprintf("%+v", calls[i].kind), "order": perm})
				}
			}
			res.Sig(fmt.Sprintf("perm|%v|%d|%v", dotu, k, perm))
			if k == 3 && perm[0] == 2 {
				res.Sample(map[string]interface{}{"scenario": "perm", "k": k, "reply_order": perm, "dotu": dotu})
			}
		}
	}
	peerProblems(&res, s.p, "perm")
	return res
}

func c09Storm(ctx *core.Ctx, dotu bool, callers, ncalls int, delays bool) core.Result {
	var res core.Result
	msize := uint32(2048)
	if callers == 8 && delays {
		// this storm runs with every debug facility of the client on (messages formatted, printed to a discarded log
		// and kept in a small ring)
		go9p.DefaultDebuglevel, go9p.DefaultLogger = 15, go9p.NewLogger(64)
		log.SetOutput(io.Discard)
		defer func() {
			go9p.DefaultDebuglevel, go9p.DefaultLogger = 0, nil
			log.SetOutput(os.Stderr)
		}()
	}
	s, err := connect(msize, dotu, false)
	if err != nil {
		res.Inconclusive = "c09: " + err.Error()
		return res
	}
	defer s.close()
	if delays {
		s.ctl.Random(uint64(ctx.Seed)*17+uint64(callers), 200, 150)
	}
	pr := core.NewRand(ctx.Seed, fmt.Sprintf("c09peer/%d/%v/%v", callers, dotu, delays))
	s.p.SetSegment(func(n int) []int {
		if n < 2 || pr.Intn(3) == 0 {
			return nil
		}
		var cuts []int
		for c := 1 + pr.Intn(n-1); c < n; c += 1 + pr.Intn(n) {
			cuts = append(cuts, c)
		}
		return cuts
	})
	stop := make(chan struct{})
	peerDone := make(chan struct{})
	var batches []int
	go func() {
		defer close(peerDone)
		for {
			select {
			case <-stop:
				return
			default:
			}
			want := 1 + pr.Intn(8)
			var batch []*peer.Req
			first := s.p.Next(20 * time.Millisecond)
			if first == nil {
				if s.p.ClientGone() {
					return
				}
				continue
			}
			batch = append(batch, first)
			for len(batch) < want {
				nx := s.p.Next(300 * time.Microsecond)
				if nx == nil {
					break
				}
				batch = append(batch, nx)
			}
			batches = append(batches, len(batch))
			for _, i := range pr.Perm(len(batch)) {
				s.p.Reply(batch[i], s.p.Answer(batch[i].Msg))
			}
		}
	}()
	var wg sync.WaitGroup
	var mu sync.Mutex
	per := ncalls / callers
	// before the storm the client's own path helpers are used as an application would: an attach and walks along
	// paths of more than 16 elements (several Twalk rounds each); whatever they leave in the client's caches of
	// request slots and message buffers is what the concurrent callers then work with
	if root, err := s.c.Attach(nil, s.user, "x"); err == nil {
		s.c.Root = root
		for _, depth := range []int{3, 17, 20, 40} {
			names := make([]string, depth)
			for i := range names {
				names[i] = fmt.Sprintf("e%d", i)
			}
			if f, err := s.c.FWalk(strings.Join(names, "/")); err == nil {
				_ = s.c.Clunk(f)
				res.Count("path_helper_walks_before_the_storm", 1)
			}
		}
	}
	for g := 0; g < callers; g++ {
		wg.Add(1)
		go func(g int) {
			defer wg.Done()
			r := core.NewRand(ctx.Seed, fmt.Sprintf("c09caller/%d/%d", callers, g))
			for i := 0; i < per; i++ {
				c := mkcall(r, uint32(g*100000+i), int(msize)-go9p.IOHDRSZ)
				if e := s.do(c); e != "" {
					mu.Lock()
					res.Violate("C09;wrong-result;storm;"+c.kind, fmt.Sprintf("%d callers: %s", callers, e), nil)
					mu.Unlock()
				}
			}
		}(g)
	}
	done := make(chan struct{})
	go func() { wg.Wait(); close(done) }()
	select {
	case <-done:
	case <-time.After(4 * W):
		res.Inconclusive = "c09: storm did not finish (C10's concern)"
	}
	close(stop)
	<-peerDone
	res.Evals += per * callers
	res.Count("calls_checked", int64(per*callers))
	res.Count("peer_max_outstanding", int64(s.p.MaxOutstanding()))
	shape := 0
	for _, b := range batches {
		if b > shape {
			shape = b
		}
	}
	res.Sig(fmt.Sprintf("storm|%v|%d|%v|maxbatch=%d|maxout=%d", dotu, callers, delays, shape, s.p.MaxOutstanding()))
	res.Sample(map[string]interface{}{"scenario": "storm", "callers": callers, "calls": per * callers, "max_outstanding_seen_by_peer": s.p.MaxOutstanding(), "largest_batch": shape})
	peerProblems(&res, s.p, "storm")
	conservation(&res, s, 0, "storm")
	return res
}

// conservation: at quiescence every tag is either free or cached with a request slot.
func conservation(res *core.Result, s *sess, liveTags int, what string) {
	type cnt struct{ out, free, cached int }
	ch := make(chan cnt, 1)
	go func() {
		o, f, c := s.c.VerifCounts() // takes the client's lock
		ch <- cnt{o, f, c}
	}()
	var out, free, cached int
	select {
	case v := <-ch:
		out, free, cached = v.out, v.free, v.cached
	case <-time.After(15 * time.Second):
		res.Violate("C09;client-lock-held-at-quiescence;"+what, "with no call outstanding the client's lock is held and never released (its receive loop is stuck): no further call can be made", nil)
		return
	}
	if out != 0 {
		res.Violate("C09;conservation;outstanding;"+what, fmt.Sprintf("%d requests still on the client's list at quiescence", out), nil)
	}
	if free+cached+liveTags != 65535 {
		res.Violate("C09;conservation;tags;"+what, fmt.Sprintf("free tags %d + cached slots %d + live Tag objects %d != 65535", free, cached, liveTags), nil)
	}
	res.Count("conservation_checks", 1)
}

func c09Wrap(ctx *core.Ctx, dotu bool, n, part int) core.Result {
	var res core.Result
	s, err := connect(1024, dotu, true)
	if err != nil {
		res.Inconclusive = "c09: " + err.Error()
		return res
	}
	defer s.close()
	// drain the request-slot cache now and then so that tags go back to the pool and are handed out again
	r := core.NewRand(ctx.Seed, fmt.Sprintf("c09wrap/%d", part))
	var wg sync.WaitGroup
	var mu sync.Mutex
	for i := 0; i < n; i++ {
		if i%5000 == 0 {
			ctx.Beat()
		}
		if i%997 == 0 && part%2 == 1 {
			// a burst of concurrent calls: more slots than the cache holds, so tags are returned to the pool
			for g := 0; g < 40; g++ {
				wg.Add(1)
				go func(g int) {
					defer wg.Done()
					c := call{kind: "stat", fidn: uint32(5000000 + i*64 + g)}
					if e := s.do(c); e != "" {
						mu.Lock()
						res.Violate("C09;wrong-result;wrap", e, nil)
						mu.Unlock()
					}
				}(g)
			}
			wg.Wait()
		}
		c := call{kind: "stat", fidn: uint32(i) + 10}
		if i%3 == 0 {
			c = call{kind: "read", fidn: uint32(i) + 10, offset: uint64(i), count: uint32(r.Intn(64))}
		}
		if e := s.do(c); e != "" {
			res.Violate("C09;wrong-result;wrap", fmt.Sprintf("call %d of %d consecutive calls: %s", i, n, e), nil)
			break
		}
	}
	res.Evals += n
	res.Sig(fmt.Sprintf("wrap|%v|%d|%d", dotu, n, part))
	res.Count("consecutive_calls", int64(n))
	res.Sample(map[string]interface{}{"scenario": "wrap", "consecutive_calls": n, "dotu": dotu, "requests_seen_by_peer": s.p.Requests()})
	peerProblems(&res, s.p, "wrap")
	conservation(&res, s, 0, "wrap")
	return res
}

func c09Errors(ctx *core.Ctx, dotu bool) core.Result {
	var res core.Result
	s, err := connect(8192, dotu, true)
	if err != nil {
		res.Inconclusive = "c09: " + err.Error()
		return res
	}
	defer s.close()
	for i := uint32(0); i < 200; i++ {
		res.Evals++
		// Rerror: the server's text and number
		fn := peer.ErrFid + i*13
		f := s.fid(fn)
		var e error
		kind := []string{"stat", "read", "open", "write", "wstat"}[i%5]
		switch kind {
		case "stat":
			_, e = s.c.Stat(f)
		case "read":
			_, e = s.c.Read(f, 5, 10)
		case "open":
			e = s.c.Open(f, 0)
		case "write":
			_, e = s.c.Write(f, []byte("x"), 0)
		case "wstat":
			e = s.c.Wstat(f, &go9p.Dir{})
		}
		ge, ok := e.(*go9p.Error)
		wantNum := uint32(0)
		if dotu && !peerPlainOnly {
			wantNum = peer.ErrNum(fn)
		}
		switch {
		case e == nil:
			res.Violate("C09;rerror-as-success;"+kind, "an Rerror reply was returned to the caller as success", nil)
		case !ok:
			res.Violate("C09;rerror-type;"+kind, fmt.Sprintf("an Rerror reply was returned as %T, not *Error", e), nil)
		case ge.Err != peer.ErrText(fn) || ge.Errornum != wantNum:
			res.Violate("C09;rerror-content;"+kind, fmt.Sprintf("error %q/%d, the server sent %q/%d", ge.Err, ge.Errornum, peer.ErrText(fn), wantNum), nil)
		}
		// a reply of the wrong type is an error, too
		f2 := s.fid(peer.WrongFid + i)
		_, e2 := s.c.Stat(f2)
		if e2 == nil {
			res.Violate("C09;wrong-type-as-success", "a reply of the wrong type was returned to the caller as success", nil)
		}
		// … and so is the request itself coming back (same type, same tag)
		f3 := s.fid(peer.EchoFid + i)
		var e3 error
		switch i % 4 {
		case 0:
			_, e3 = s.c.Stat(f3)
		case 1:
			e3 = s.c.Remove(f3) // (Clunk of a fid the client never walked sends nothing)
		case 2:
			_, e3 = s.c.Read(f3, 0, 10)
		case 3:
			_, e3 = s.c.Write(f3, []byte("abc"), 0)
		}
		if e3 == nil {
			res.Violate("C09;request-echoed-as-success", "the peer sent the request back (a T-message with the call's tag) and the call returned success", nil)
		}
		// and the connection keeps working
		if msg := s.do(call{kind: "read", fidn: 777 + i, offset: uint64(i), count: 33}); msg != "" {
			res.Violate("C09;wrong-result;after-error", msg, nil)
		}
		res.Sig(fmt.Sprintf("err|%v|%s|%d", dotu, kind, i%7))
	}
	res.Sample(map[string]interface{}{"scenario": "errors", "dotu": dotu, "rerror_calls": 200})
	peerProblems(&res, s.p, "errors")
	conservation(&res, s, 0, "errors")
	return res
}

// c09Renegotiated: version exchanges in the middle of a session (a Tversion sent through Rpc, as a client that resets
// its session does), each between bursts of concurrent calls that the peer answers newest first. Whatever the client
// recycles between the calls, the tags outstanding at any moment differ pairwise (the peer checks) and every call
// returns its own data.
func c09Renegotiated(ctx *core.Ctx, dotu bool) core.Result {
	var res core.Result
	s, err := connect(8192, dotu, false)
	if err != nil {
		res.Inconclusive = "c09: " + err.Error()
		return res
	}
	defer s.close()
	r := core.NewRand(ctx.Seed, fmt.Sprintf("c09reneg/%v", dotu))
	singleOnly = true
	defer func() { singleOnly = false }()
	ver := "9P2000"
	if s.c.Dotu {
		ver = "9P2000.u"
	}
	id := uint32(0)
	burst := func(k int, what string) bool {
		calls := make([]call, k)
		results := make([]string, k)
		var wg sync.WaitGroup
		for i := 0; i < k; i++ {
			id++
			calls[i] = mkcall(r, id, 300)
			wg.Add(1)
			go func(i int) {
				defer wg.Done()
				results[i] = s.do(calls[i])
			}(i)
		}
		reqs := s.p.Collect(k, W)
		res.Evals++
		if len(reqs) != k {
			res.Violate("C09;requests-missing;renegotiated", fmt.Sprintf("%d concurrent calls %s produced only %d requests", k, what, len(reqs)), nil)
			return false
		}
		seen := map[uint16]bool{}
		for _, q := range reqs {
			if seen[q.Msg.Tag] {
				res.Violate("C09;tag-reused-while-outstanding;renegotiated", fmt.Sprintf("%d concurrent calls %s: two of them carry tag %d", k, what, q.Msg.Tag), nil)
			}
			seen[q.Msg.Tag] = true
		}
		for i := k - 1; i >= 0; i-- {
			s.p.Reply(reqs[i], s.p.Answer(reqs[i].Msg))
		}
		done := make(chan struct{})
		go func() { wg.Wait(); close(done) }()
		select {
		case <-done:
		case <-time.After(W):
			res.Inconclusive = "c09: calls did not return (C10's concern)"
			return false
		}
		for i, e := range results {
			if e != "" {
				res.Violate("C09;wrong-result;renegotiated;"+calls[i].kind, fmt.Sprintf("%d concurrent calls %s, answered newest first: %s", k, what, e), nil)
				return false
			}
		}
		return true
	}
	for round := 0; round < 6 && len(res.Violations) == 0; round++ {
		if !burst(2+round%3, fmt.Sprintf("before version exchange %d", round+1)) {
			break
		}
		// the version exchange
		tc := go9p.NewFcall(8192)
		if e := go9p.PackTversion(tc, 8192, ver); e != nil {
			res.Inconclusive = "c09: PackTversion: " + e.Error()
			return res
		}
		vdone := make(chan error, 1)
		go func() { _, e := s.c.Rpc(tc); vdone <- e }()
		vr := s.p.Collect(1, W)
		if len(vr) != 1 || vr[0].Msg.Type != wire.Tversion {
			res.Inconclusive = "c09: the Tversion did not reach the peer"
			return res
		}
		s.p.Reply(vr[0], s.p.Answer(vr[0].Msg))
		select {
		case e := <-vdone:
			if e != nil {
				res.Violate("C09;version-exchange-failed", "a Tversion through Rpc answered with Rversion returned "+e.Error(), nil)
			}
		case <-time.After(W):
			res.Inconclusive = "c09: the version exchange did not return"
			return res
		}
		if !burst(2+(round+1)%4, fmt.Sprintf("after version exchange %d", round+1)) {
			break
		}
		res.Sig(fmt.Sprintf("renegotiated|%v|%d", dotu, round%3))
	}
	res.Sample(map[string]interface{}{"scenario": "version exchanges between bursts of concurrent calls answered newest first", "dotu": dotu})
	peerProblems(&res, s.p, "renegotiated")
	return res
}

// c09VersionRefused: a Tversion sent through the client's Rpc (a renegotiation attempt) that the server answers with
// an Rerror — carrying NOTAG like the request — or with a reply of the wrong type: the caller gets the server's text and
// number (or an error), and the connection, on which the server only refused one request, keeps working.
func c09VersionRefused(ctx *core.Ctx, dotu bool) core.Result {
	var res core.Result
	s, err := connect(8192, dotu, true)
	if err != nil {
		res.Inconclusive = "c09: " + err.Error()
		return res
	}
	defer s.close()
	granted := s.c.Dotu
	ver := "9P2000"
	if dotu {
		ver = "9P2000.u"
	}
	for i := 0; i < 30 && len(res.Violations) == 0; i++ {
		text, num := fmt.Sprintf("version refused, try %d", i), uint32(60+i)
		wrong := i%3 == 2
		s.p.RefuseVersion(func(t *wire.Msg) *wire.Msg {
			if wrong {
				return &wire.Msg{Type: wire.Rclunk}
			}
			r := &wire.Msg{Type: wire.Rerror, Ename: text}
			if granted {
				r.Ecode = num
			}
			return r
		})
		tc := go9p.NewFcall(8192)
		if e := go9p.PackTversion(tc, 8192, ver); e != nil {
			res.Inconclusive = "c09: PackTversion: " + e.Error()
			return res
		}
		type out struct {
			rc *go9p.Fcall
			e  error
		}
		done := make(chan out, 1)
		go func() {
			rc, e := s.c.Rpc(tc)
			done <- out{rc, e}
		}()
		var o out
		select {
		case o = <-done:
		case <-time.After(W):
			res.Violate("C09;refused-version;no-return", "a Tversion the server answered with an Rerror never returned to its caller", nil)
			return res
		}
		s.p.RefuseVersion(nil)
		res.Evals++
		ge, ok := o.e.(*go9p.Error)
		wantNum := uint32(0)
		if granted {
			wantNum = num
		}
		switch {
		case o.e == nil:
			res.Violate("C09;refused-version;as-success", "a Tversion answered with something else than an Rversion returned success", nil)
		case wrong:
		case !ok:
			res.Violate("C09;refused-version;rerror-type", fmt.Sprintf("the Rerror answering a Tversion was returned as %T, not *Error", o.e), nil)
		case ge.Err != text || ge.Errornum != wantNum:
			res.Violate("C09;refused-version;rerror-content", fmt.Sprintf("the Rerror answering a Tversion was returned as %q/%d, the server sent %q/%d", ge.Err, ge.Errornum, text, wantNum), nil)
		}
		// the connection keeps working
		if msg := s.do(call{kind: "read", fidn: 900 + uint32(i), offset: uint64(i), count: 21}); msg != "" {
			res.Violate("C09;wrong-result;after-refused-version", msg, nil)
		}
		res.Sig(fmt.Sprintf("refused-version|%v|wrong=%v", dotu, wrong))
	}
	res.Sample(map[string]interface{}{"scenario": "Tversion through Rpc answered with Rerror / a wrong type under NOTAG", "dotu": dotu})
	peerProblems(&res, s.p, "refused-version")
	return res
}

func c09TagIface(ctx *core.Ctx, dotu bool, thorough bool) core.Result {
	var res core.Result
	s, err := connect(8192, dotu, false)
	if err != nil {
		res.Inconclusive = "c09: " + err.Error()
		return res
	}
	defer s.close()
	s.p.AllowDupTag = true // requests deliberately share the tag
	r := core.NewRand(ctx.Seed, fmt.Sprintf("c09tag/%v", dotu))
	rounds := 40
	if thorough {
		rounds = 600
	}
	for round := 0; round < rounds; round++ {
		n := 1 + r.Intn(12)
		reqchan := make(chan *go9p.Req, 64)
		slowConsumer := round%8 == 5
		if slowConsumer {
			// an application that looks at its completions late, through a channel with little room: more replies
			// arrive than the Tag and the channel can hold at once, none may be lost for that
			n = []int{20, 33, 48}[(round/8)%3]
			reqchan = make(chan *go9p.Req, (round/8)%2)
		}
		tag := s.c.TagAlloc(reqchan)
		f := s.fid(uint32(9000 + round))
		if round%3 == 1 {
			s.ctl.Random(uint64(ctx.Seed)+uint64(round), 250, 100)
		}
		type exp struct {
			off uint64
			cnt uint32
		}
		var exps []exp
		for i := 0; i < n; i++ {
			e := exp{uint64(round*1000 + i), uint32(1 + r.Intn(100))}
			exps = append(exps, e)
			if err := tag.Read(f, e.off, e.cnt); err != nil {
				res.Inconclusive = "c09: Tag.Read failed: " + err.Error()
				return res
			}
		}
		// the peer (a server) executes requests sharing a tag in arrival order
		reqs := s.p.Collect(n, W)
		if len(reqs) != n {
			res.Violate("C09;tag;requests-missing", fmt.Sprintf("%d pipelined requests, the peer received %d", n, len(reqs)), nil)
			return res
		}
		for i, rq := range reqs {
			if rq.Msg.Offset != exps[i].off {
				res.Violate("C09;tag;send-order", "requests sharing a tag were not sent in the order they were issued", nil)
			}
			s.p.Reply(rq, s.p.Answer(rq.Msg))
		}
		res.Evals++
		if slowConsumer {
			time.Sleep(30 * time.Millisecond)
		}
		for i := 0; i < n; i++ {
			select {
			case done := <-reqchan:
				if done.Tc.Offset != exps[i].off || done.Rc == nil || !bytes.Equal(done.Rc.Data, peer.Data(f.Fid, exps[i].off, int(exps[i].cnt))) {
					res.Violate("C09;tag;completion-order", fmt.Sprintf("completion %d of %d requests sharing a tag is not request %d (or carries foreign data)", i, n, i), nil)
				}
			case <-time.After(W):
				if out, _, _ := s.c.VerifCounts(); out == 0 && s.p.Srv.Queued() == 0 && s.p.Cli.Queued() == 0 {
					// nothing outstanding at the client, nothing on the wire: the completion is not late, it is lost
					res.Violate("C09;tag;completion-lost", fmt.Sprintf("%d requests under one tag, all answered by the peer: completion %d never reached the application (consumer slow: %v)", n, i, slowConsumer), nil)
					return res
				}
				res.Inconclusive = "c09: Tag completion missing"
				return res
			}
		}
		s.c.TagFree(tag)
		res.Sig(fmt.Sprintf("tag|%v|%d|%d|slow=%v", dotu, n, round%3, slowConsumer))
	}
	res.Sample(map[string]interface{}{"scenario": "tag-interface", "rounds": rounds, "dotu": dotu})
	conservation(&res, s, 0, "tagiface")
	return res
}

var _ = srvlab.W

// c09EarlyReply: a server that answers a large Twrite as soon as it has seen its header, while most of the request is
// still on its way through a slow, fragmenting transport (a server may do that: it knows the count). The call returns,
// the application reuses the client for the next call — and the rest of the first request, still being written by the
// client's writer, must stay the first request's bytes.
func c09EarlyReply(ctx *core.Ctx, dotu bool) core.Result {
	var res core.Result
	for round := 0; round < 6 && len(res.Violations) == 0; round++ {
		ctx.Beat()
		cli, srv := memconn.Pipe("client", "early-replying-server")
		cli.MaxWrite = 64 + 32*round                                         // the client's writes go out in small pieces …
		cli.BeforeWrite = func(n int) { time.Sleep(150 * time.Microsecond) } // … slowly
		sched.Install(sched.New(nil, nil))
		type got struct {
			first, second []byte
			err           string
		}
		out := make(chan got, 1)
		payload1 := bytes.Repeat([]byte{'A'}, 3000+100*round)
		payload2 := bytes.Repeat([]byte{'B'}, 3000+100*round)
		go func() {
			var g got
			defer func() { out <- g }()
			rd := func(n int) []byte {
				b := make([]byte, n)
				if _, err := io.ReadFull(srv, b); err != nil {
					g.err = "server read: " + err.Error()
					return nil
				}
				return b
			}
			readFrame := func() []byte {
				h := rd(4)
				if h == nil {
					return nil
				}
				sz := int(h[0]) | int(h[1])<<8 | int(h[2])<<16 | int(h[3])<<24
				rest := rd(sz - 4)
				if rest == nil {
					return nil
				}
				return append(h, rest...)
			}
			// Tversion
			f := readFrame()
			if f == nil {
				return
			}
			tv, _, _ := wire.Decode(f, dotu)
			ver := "9P2000"
			if dotu {
				ver = "9P2000.u"
			}
			_, _ = srv.Write(wire.Encode(&wire.Msg{Type: wire.Rversion, Tag: tv.Tag, Msize: 8192, Version: ver}, dotu))
			// first Twrite: header only, then the answer, then the rest
			h := rd(7)
			if h == nil {
				return
			}
			sz := int(h[0]) | int(h[1])<<8 | int(h[2])<<16 | int(h[3])<<24
			tag := uint16(h[5]) | uint16(h[6])<<8
			_, _ = srv.Write(wire.Encode(&wire.Msg{Type: wire.Rwrite, Tag: tag, Count: uint32(len(payload1))}, dotu))
			time.Sleep(3 * time.Millisecond) // the application gets its answer and goes on
			rest := rd(sz - 7)
			if rest == nil {
				return
			}
			g.first = rest[len(rest)-len(payload1):]
			// second Twrite, whole
			f2 := readFrame()
			if f2 == nil {
				return
			}
			m2, _, err := wire.Decode(f2, dotu)
			if err != nil {
				g.err = "second request does not decode: " + err.Error()
				return
			}
			g.second = m2.Data
			_, _ = srv.Write(wire.Encode(&wire.Msg{Type: wire.Rwrite, Tag: m2.Tag, Count: m2.Count}, dotu))
		}()
		c, err := go9p.Connect(cli, 8192, dotu)
		if err != nil {
			res.Inconclusive = "c09: connect: " + err.Error()
			return res
		}
		fid := c.FidAlloc()
		fid.Fid = 5
		fid.Iounit = 8192 - go9p.IOHDRSZ
		done := make(chan string, 1)
		go func() {
			if n, err := c.Write(fid, payload1, 0); err != nil || n != len(payload1) {
				done <- fmt.Sprintf("first write: (%d, %v)", n, err)
				return
			}
			if n, err := c.Write(fid, payload2, 100); err != nil || n != len(payload2) {
				done <- fmt.Sprintf("second write: (%d, %v)", n, err)
				return
			}
			done <- ""
		}()
		res.Evals++
		var g got
		select {
		case g = <-out:
		case <-time.After(W):
			res.Inconclusive = "c09: early-reply scenario did not finish"
			go c.Unmount()
			return res
		}
		select {
		case e := <-done:
			if e != "" && g.err == "" {
				g.err = e
			}
		case <-time.After(W):
		}
		det := map[string]interface{}{"payload_bytes": len(payload1), "client_write_chunk": cli.MaxWrite, "dotu": dotu}
		switch {
		case g.err != "":
			res.Inconclusive = "c09: early-reply scenario: " + g.err
		case !bytes.Equal(g.first, payload1):
			foreign := 0
			for _, b := range g.first {
				if b != 'A' {
					foreign++
				}
			}
			res.Violate("C09;request-carries-foreign-data;early-reply", fmt.Sprintf("the first Twrite was answered early; the rest of it arrived with %d of %d payload bytes that are not its own", foreign, len(payload1)), det)
		case !bytes.Equal(g.second, payload2):
			res.Violate("C09;request-carries-foreign-data;early-reply;second", "the second Twrite arrived with a payload that is not its own", det)
		}
		go c.Unmount()
		res.Sig(fmt.Sprintf("early-reply|%v|%d", dotu, round))
	}
	res.Sample(map[string]interface{}{"scenario": "server answers a large Twrite after its header, client reuses the request buffer while the rest is still being written"})
	return res
}

// c09TagMixed: the whole pipelined Tag interface — Auth, Attach, Walk, Open, Create, Read, Write, Clunk, Remove,
// Stat, Wstat under one shared tag, some refused by the peer — every completion is the answer to the request issued
// at that position, carries that request, has had its effect on the fid it names, and its slot is given back
// (Tag.ReqFree) so that nothing is lost at the end.
func c09TagMixed(ctx *core.Ctx, dotu bool, thorough bool) core.Result {
	var res core.Result
	s, err := connect(8192, dotu, false)
	if err != nil {
		res.Inconclusive = "c09: " + err.Error()
		return res
	}
	defer s.close()
	s.p.AllowDupTag = true
	r := core.NewRand(ctx.Seed, fmt.Sprintf("c09tagmixed/%v", dotu))
	rounds := 60
	if thorough {
		rounds = 800
	}
	kinds := []string{"auth", "attach", "walk", "open", "create", "read", "write", "clunk", "remove", "stat", "wstat"}
	user := go9p.OsUsers.Uid2User(0)
	for round := 0; round < rounds; round++ {
		n := 1 + r.Intn(10)
		reqchan := make(chan *go9p.Req, 64)
		tag := s.c.TagAlloc(reqchan)
		if round%3 == 1 {
			s.ctl.Random(uint64(ctx.Seed)+uint64(round), 250, 100)
		}
		type exp struct {
			kind string
			typ  uint8
			fid  *go9p.Fid
			nf   *go9p.Fid
			off  uint64
			cnt  uint32
			data []byte
		}
		var exps []exp
		for i := 0; i < n; i++ {
			k := kinds[r.Intn(len(kinds))]
			if round < len(kinds) && i == 0 {
				k = kinds[round]
			}
			fidn := uint32(20000 + round*16 + i)
			if r.Intn(6) == 0 {
				fidn = peer.ErrFid + uint32(round*16+i) // the peer refuses this one
			}
			e := exp{kind: k, fid: s.fid(fidn), off: uint64(round*1000 + i), cnt: uint32(1 + r.Intn(100))}
			var err error
			switch k {
			case "auth":
				e.typ = wire.Tauth
				err = tag.Auth(e.fid, user, "an")
			case "attach":
				e.typ = wire.Tattach
				err = tag.Attach(e.fid, nil, user, "an")
			case "walk":
				e.typ = wire.Twalk
				e.nf = s.fid(fidn + 40000)
				err = tag.Walk(e.fid, e.nf, []string{"a", "b"})
			case "open":
				e.typ = wire.Topen
				err = tag.Open(e.fid, 0)
			case "create":
				e.typ = wire.Tcreate
				err = tag.Create(e.fid, fmt.Sprintf("n%d", i), 0o644, 1, "")
			case "read":
				e.typ = wire.Tread
				err = tag.Read(e.fid, e.off, e.cnt)
			case "write":
				e.typ = wire.Twrite
				e.data = r.Bytes(int(e.cnt))
				err = tag.Write(e.fid, e.data, e.off)
			case "clunk":
				e.typ = wire.Tclunk
				err = tag.Clunk(e.fid)
			case "remove":
				e.typ = wire.Tremove
				err = tag.Remove(e.fid)
			case "stat":
				e.typ = wire.Tstat
				err = tag.Stat(e.fid)
			case "wstat":
				e.typ = wire.Twstat
				err = tag.Wstat(e.fid, &go9p.Dir{Name: fmt.Sprintf("w%d", i)})
			}
			if err != nil {
				res.Violate("C09;tagmixed;issue-failed;"+k, fmt.Sprintf("Tag.%s could not be issued: %v", k, err), nil)
				return res
			}
			exps = append(exps, e)
		}
		reqs := s.p.Collect(n, W)
		if len(reqs) != n {
			res.Violate("C09;tagmixed;requests-missing", fmt.Sprintf("%d pipelined requests, the peer received %d", n, len(reqs)), nil)
			return res
		}
		answers := make([]*wire.Msg, n)
		for i, rq := range reqs {
			e := exps[i]
			m := rq.Msg
			wantFid := e.fid.Fid
			gotFid := m.Fid
			if m.Type == wire.Tauth {
				gotFid = m.Afid
			}
			if m.Type != e.typ || gotFid != wantFid || (e.typ == wire.Tread && (m.Offset != e.off || m.Count != e.cnt)) || (e.typ == wire.Twrite && (m.Offset != e.off || !bytes.Equal(m.Data, e.data))) {
				res.Violate("C09;tagmixed;wire-request;"+e.kind, fmt.Sprintf("request %d of %d under one tag: issued Tag.%s on fid %d, the peer received type %d on fid %d", i, n, e.kind, wantFid, m.Type, gotFid), nil)
			}
			if m.Tag != reqs[0].Msg.Tag {
				res.Violate("C09;tagmixed;tag-differs", "requests issued through one Tag went out under different tags", nil)
			}
			answers[i] = s.p.Answer(m)
			s.p.Reply(rq, answers[i])
		}
		res.Evals++
		for i := 0; i < n; i++ {
			e := exps[i]
			var done *go9p.Req
			select {
			case done = <-reqchan:
			case <-time.After(W):
				res.Inconclusive = "c09: Tag completion missing"
				return res
			}
			a := answers[i]
			bad := ""
			switch {
			case done.Tc == nil || done.Tc.Type != e.typ:
				bad = "carries another request"
			case done.Rc == nil:
				bad = "has no reply"
			case done.Rc.Type != a.Type:
				bad = fmt.Sprintf("reply type %d, the peer answered %d", done.Rc.Type, a.Type)
			case a.Type == wire.Rerror && (done.Rc.Error != a.Ename || (dotu && !peerPlainOnly && done.Rc.Errornum != a.Ecode)):
				bad = "error text/number of another reply"
			case a.Type == wire.Rread && !bytes.Equal(done.Rc.Data, a.Data):
				bad = "foreign data"
			case a.Type == wire.Rwrite && done.Rc.Count != a.Count:
				bad = "foreign count"
			case a.Type == wire.Rstat && done.Rc.Dir.Name != a.Stat.Name:
				bad = "foreign stat"
			case (a.Type == wire.Rattach || a.Type == wire.Rauth || a.Type == wire.Ropen || a.Type == wire.Rcreate) && done.Rc.Qid.Path != a.Qid.Path:
				bad = "foreign qid"
			case a.Type == wire.Rwalk && (len(done.Rc.Wqid) != len(a.Wqid) || (len(a.Wqid) > 0 && done.Rc.Wqid[len(a.Wqid)-1].Path != a.Wqid[len(a.Wqid)-1].Path)):
				bad = "foreign walk qids"
			}
			// effect on the fid the request names
			if bad == "" {
				switch {
				case a.Type == wire.Rattach && e.fid.Qid.Path != a.Qid.Path:
					bad = "attached fid does not carry the qid of its Rattach"
				case a.Type == wire.Rcreate && e.fid.Qid.Path != a.Qid.Path:
					bad = "created fid does not carry the qid of its Rcreate"
				case a.Type == wire.Rwalk && e.nf != nil && e.nf.Qid.Path != a.Wqid[len(a.Wqid)-1].Path:
					bad = "walked fid does not carry the last qid of its Rwalk"
				}
			}
			if bad != "" {
				res.Violate("C09;tagmixed;completion;"+e.kind, fmt.Sprintf("completion %d of %d requests under one tag (Tag.%s, fid %d): %s", i, n, e.kind, e.fid.Fid, bad), nil)
			}
			tag.ReqFree(done)
		}
		s.c.TagFree(tag)
		res.Sig(fmt.Sprintf("tagmixed|%v|%d|%s", dotu, n, exps[0].kind))
	}
	res.Sample(map[string]interface{}{"scenario": "tag-interface, all operations", "rounds": rounds, "dotu": dotu})
	conservation(&res, s, 0, "tagmixed")
	return res
}
