package clntlab

import (
	"fmt"
	"sort"
	"sync"
	"time"

	"github.com/rminnich/go9p"

	"verif/core"
	"verif/lab/srvlab"
	"verif/peer"
	"verif/sched"
	"verif/wire"
)

func init() {
	srvlab.ExtraC12 = append(srvlab.ExtraC12, func(tier string, seed int64) []core.Case {
		return []core.Case{{ID: "client/connect-adopts-negotiation", Run: c12Client}, {ID: "client/advertised-iounit", Run: c12ClientIounit}}
	})
	srvlab.ExtraC13 = append(srvlab.ExtraC13, func(tier string, seed int64) []core.Case {
		var cases []core.Case
		for _, msize := range []uint32{64, 100, 256, 1024, 4096} {
			for part := 0; part < 2; part++ {
				msize, part := msize, part
				cases = append(cases, core.Case{ID: fmt.Sprintf("client/msize=%d/part=%d", msize, part), Run: func(ctx *core.Ctx) core.Result {
					return c13Client(ctx, msize, part, 2, tier == "thorough")
				}})
			}
		}
		for _, msize := range []uint32{64, 100, 256} {
			msize := msize
			cases = append(cases, core.Case{ID: fmt.Sprintf("client/coalesced-groups/msize=%d", msize), Run: func(ctx *core.Ctx) core.Result {
				return c13ClientGroups(ctx, msize, tier == "thorough")
			}})
		}
		return cases
	})
}

// c13ClientGroups: many rounds of k = 2..4 concurrent calls whose replies arrive coalesced in ONE segment, the next
// round only starting when all of them have returned (a client that waits for its replies): over the rounds the
// groups land at every position of the client's receive buffer, also right at its end. The same replies, one per
// segment, are the reference: every call of every round returns its own answer.
func c13ClientGroups(ctx *core.Ctx, msize uint32, thorough bool) core.Result {
	var res core.Result
	L := int(msize) - go9p.IOHDRSZ
	rounds := 400
	if thorough {
		rounds = 4000
	}
	for _, mode := range []string{"one-segment", "per-message"} {
		s, err := connect(msize, true, false)
		if err != nil {
			res.Inconclusive = "c13 client: " + err.Error()
			return res
		}
		r := core.NewRand(ctx.Seed, fmt.Sprintf("c13groups/%d", msize))
		for round := 0; round < rounds; round++ {
			if round%100 == 0 {
				ctx.Beat()
			}
			k := 2 + r.Intn(3)
			calls := make([]call, k)
			results := make([]string, k)
			var wg sync.WaitGroup
			for i := range calls {
				calls[i] = call{kind: "read", fidn: uint32(1000 + round*8 + i), offset: uint64(round), count: uint32(r.Intn(L + 1))}
				wg.Add(1)
				go func(i int) { defer wg.Done(); results[i] = s.do(calls[i]) }(i)
			}
			reqs := s.p.Collect(k, W)
			if len(reqs) != k {
				res.Inconclusive = "c13 client: requests missing"
				s.close()
				return res
			}
			var stream []byte
			var frames [][]byte
			for _, rq := range reqs {
				a := s.p.Answer(rq.Msg)
				a.Tag = rq.Msg.Tag
				f := wire.Encode(a, s.p.Dotu())
				frames = append(frames, f)
				stream = append(stream, f...)
			}
			if mode == "one-segment" {
				_, _ = s.p.Srv.Write(stream)
			} else {
				for _, f := range frames {
					_, _ = s.p.Srv.Write(f)
				}
			}
			done := make(chan struct{})
			go func() { wg.Wait(); close(done) }()
			res.Evals++
			select {
			case <-done:
			case <-time.After(W):
				res.Violate("C13;client;calls-stuck;coalesced-group;"+mode, fmt.Sprintf("msize %d, round %d: %d concurrent calls did not all return although their replies (%d bytes) were delivered completely, %s", msize, round, k, len(stream), mode), nil)
				s.close()
				return res
			}
			for i, e := range results {
				if e != "" {
					res.Violate("C13;client;result-differs;coalesced-group;"+mode, fmt.Sprintf("msize %d, round %d, call %d: %s", msize, round, i, e), nil)
				}
			}
			if len(res.Violations) > 0 {
				s.close()
				return res
			}
		}
		res.Count("client_reply_groups_delivered", int64(rounds))
		res.Sig(fmt.Sprintf("clnt-groups|%d|%s", msize, mode))
		s.close()
	}
	return res
}

// c12Client: after Connect the client's msize is min(own, Rversion.msize) and it speaks .u iff it asked for .u
// and the peer answered exactly "9P2000.u".
func c12Client(ctx *core.Ctx) core.Result {
	var res core.Result
	owns := []uint32{64, 100, 8192, 8192 + 24, 65536, 1 << 20}
	answers := []int64{-40, -1, 0, 1, 4096} // peer's msize relative to the client's
	versions := []string{"9P2000.u", "9P2000", "9P2000.L", "", "9P2000.U"}
	for _, own := range owns {
		for _, d := range answers {
			for _, ver := range versions {
				for _, ask := range []bool{true, false} {
					pm := int64(own) + d
					if pm < 24 {
						continue
					}
					res.Evals++
					p := peer.New(uint32(pm), true)
					sched.Install(sched.New(nil, nil))
					p.VersionReply = func(t *wire.Msg) (uint32, string) { return uint32(pm), ver }
					var c *go9p.Clnt
					var err error
					done := make(chan struct{})
					go func() { c, err = go9p.Connect(p.Cli, own, ask); close(done) }()
					r := p.Next(W)
					if r == nil || r.Msg.Type != wire.Tversion {
						res.Inconclusive = "c12 client: no Tversion"
						return res
					}
					wantAsk := "9P2000"
					if ask {
						wantAsk = "9P2000.u"
					}
					if r.Msg.Msize != own || r.Msg.Version != wantAsk {
						res.Violate("C12;client;tversion", fmt.Sprintf("Connect(msize %d, .u=%v) sent Tversion msize=%d %q", own, ask, r.Msg.Msize, r.Msg.Version), nil)
					}
					p.Reply(r, p.Answer(r.Msg))
					select {
					case <-done:
					case <-time.After(W):
						res.Inconclusive = "c12 client: Connect did not return"
						return res
					}
					if err != nil {
						res.Violate("C12;client;connect-failed", fmt.Sprintf("Connect failed against Rversion msize=%d %q: %v", pm, ver, err), nil)
						continue
					}
					wantM := own
					if uint32(pm) < wantM {
						wantM = uint32(pm)
					}
					wantU := ask && ver == "9P2000.u"
					if c.Msize != wantM {
						res.Violate("C12;client;msize", fmt.Sprintf("client msize %d after own %d / Rversion %d", c.Msize, own, pm), nil)
					}
					if c.Dotu != wantU {
						res.Violate(fmt.Sprintf("C12;client;dialect;asked=%v;answer=%s", ask, ver), fmt.Sprintf("client .u=%v after asking .u=%v and Rversion %q", c.Dotu, ask, ver), nil)
					}
					res.Sig(fmt.Sprintf("client|%d|%d|%s|%v", own, d, ver, ask))
					c.Unmount()
					p.Srv.Close()
				}
			}
		}
	}
	res.Sample(map[string]interface{}{"scenario": "client adopts negotiated msize/dialect", "own_msizes": owns, "peer_msize_deltas": answers, "versions": versions})
	return res
}

// c12ClientIounit: the server's idea of an i/o unit (Ropen, Rcreate) never makes the client exceed the msize it
// adopted: fids opened and created against a peer that advertises a large iounit are written and read with any
// amount of data; no request frame is longer than the negotiated msize and the transfers are complete.
func c12ClientIounit(ctx *core.Ctx) core.Result {
	var res core.Result
	for _, tc := range []struct{ own, peerM, iounit uint32 }{{1024, 8192, 8168}, {256, 8192, 4096}, {8192, 1024, 8168}, {1024, 8192, 1001}, {512, 8192, 0xFFFFFFFF}, {4096, 4096, 0}} {
		for _, dotu := range []bool{true, false} {
			res.Evals++
			p := peer.New(tc.peerM, true)
			p.Iounit = tc.iounit
			sched.Install(sched.New(nil, nil))
			go p.Serve(nil)
			c, err := go9p.Connect(p.Cli, tc.own, dotu)
			if err != nil {
				res.Inconclusive = "c12 client: connect failed: " + err.Error()
				return res
			}
			neg := tc.own
			if tc.peerM < neg {
				neg = tc.peerM
			}
			det := map[string]interface{}{"client_msize": tc.own, "peer_msize": tc.peerM, "advertised_iounit": tc.iounit, "dotu": dotu}
			for _, how := range []string{"open", "create"} {
				f := c.FidAlloc()
				f.Fid = map[string]uint32{"open": 700, "create": 701}[how]
				if how == "open" {
					err = c.Open(f, go9p.ORDWR)
				} else {
					err = c.Create(f, "newfile", 0o644, go9p.ORDWR, "")
				}
				if err != nil {
					res.Violate("C12;client;iounit;"+how+"-failed", fmt.Sprintf("%s against a peer advertising iounit %d: %v", how, tc.iounit, err), det)
					continue
				}
				if f.Iounit == 0 || f.Iounit > neg-go9p.IOHDRSZ {
					res.Violate("C12;client;iounit;"+how, fmt.Sprintf("after %s the fid's iounit is %d; the connection's msize is %d (at most %d bytes of data per message)", how, f.Iounit, neg, neg-go9p.IOHDRSZ), det)
				}
				data := make([]byte, 3*int(neg)+17)
				for i := range data {
					data[i] = byte(i*7 + 1)
				}
				file := go9p.FidFile(f, 0)
				n, werr := file.Written(data, 0)
				if werr != nil || n != len(data) {
					res.Violate("C12;client;iounit;write;"+how, fmt.Sprintf("writing %d bytes through a fid from %s (peer's iounit %d, msize %d): wrote %d, %v", len(data), how, tc.iounit, neg, n, werr), det)
				}
				buf := make([]byte, 2*int(neg)+5)
				if rn, rerr := file.Readn(buf, 3); rerr != nil || rn != len(buf) {
					res.Violate("C12;client;iounit;read;"+how, fmt.Sprintf("reading %d bytes through a fid from %s: got %d, %v", len(buf), how, rn, rerr), det)
				}
			}
			if mf := p.MaxFrame(); mf > int(neg) {
				res.Violate("C12;client;oversize-request", fmt.Sprintf("the client sent a request of %d bytes on a connection with msize %d", mf, neg), det)
			}
			res.Sig(fmt.Sprintf("client-iounit|%d|%d|%d|%v", tc.own, tc.peerM, tc.iounit, dotu))
			c.Unmount()
			p.Srv.Close()
		}
	}
	return res
}

// c13Client: one fixed reply stream for a fixed set of concurrent calls, delivered under different segmentations.
func c13Client(ctx *core.Ctx, msize uint32, part, nparts int, thorough bool) core.Result {
	var res core.Result
	L := int(msize) - go9p.IOHDRSZ
	ncalls := int(44*msize)/(L+11) + 4
	if ncalls > 400 {
		ncalls = 400
	}
	type segm struct {
		name string
		cuts func(n int, bounds []int) []int
		id   string
	}
	var segs []segm
	idx := 0
	push := func(s segm) {
		if idx%nparts == part {
			segs = append(segs, s)
		}
		idx++
	}
	push(segm{"all-at-once", func(n int, b []int) []int { return nil }, ""})
	push(segm{"byte-at-a-time", func(n int, b []int) []int {
		c := make([]int, 0, n)
		for i := 1; i < n; i++ {
			c = append(c, i)
		}
		return c
	}, ""})
	push(segm{"frame-at-a-time", func(n int, b []int) []int { return b }, ""})
	for d := 1; d <= 7; d++ {
		d := d
		push(segm{fmt.Sprintf("every-prefix+%d", d), func(n int, b []int) []int {
			var c []int
			for _, x := range append([]int{0}, b...) {
				if x+d < n {
					c = append(c, x+d)
				}
			}
			sort.Ints(c)
			return c
		}, ""})
	}
	nsingle := 300
	nrand := 30
	if thorough {
		nsingle, nrand = 3000, 600
	}
	r := core.NewRand(ctx.Seed, fmt.Sprintf("c13c/%d", msize))
	for i := 0; i < nsingle; i++ {
		i := i
		push(segm{"single-split", func(n int, b []int) []int {
			// walk through the positions around frame boundaries first, then elsewhere
			if i < len(b)*8 {
				p := b[i/8] + i%8 - 2
				if p > 0 && p < n {
					return []int{p}
				}
			}
			return []int{1 + (i*7919)%(n-1)}
		}, fmt.Sprint(i)})
	}
	for i := 0; i < nrand; i++ {
		i := i
		k := 2 + r.Intn(80)
		seedv := r.Uint64()
		push(segm{"random-multiway", func(n int, b []int) []int {
			rr := core.NewRand(int64(seedv), "cuts")
			set := map[int]bool{}
			for j := 0; j < k; j++ {
				set[1+rr.Intn(n-1)] = true
			}
			var c []int
			for p := range set {
				c = append(c, p)
			}
			sort.Ints(c)
			return c
		}, fmt.Sprint(i)})
	}
	for si, sg := range segs {
		if len(res.Violations) > 0 {
			break
		}
		if si%20 == 0 {
			ctx.Beat()
		}
		res.Evals++
		s, err := connect(msize, true, false)
		if err != nil {
			res.Inconclusive = "c13 client: " + err.Error()
			return res
		}
		calls := make([]call, ncalls)
		results := make([]string, ncalls)
		var wg sync.WaitGroup
		for i := range calls {
			cnt := []int{0, 1, L, L - 1, L / 2, 3}[i%6]
			calls[i] = call{kind: "read", fidn: uint32(1000 + i), offset: uint64(i * 13), count: uint32(cnt)}
			if i%7 == 3 {
				calls[i] = call{kind: "write", fidn: uint32(1000 + i), offset: 1, data: []byte("w")}
			}
			wg.Add(1)
			go func(i int) { defer wg.Done(); results[i] = s.do(calls[i]) }(i)
		}
		reqs := s.p.Collect(ncalls, W)
		if len(reqs) != ncalls {
			res.Inconclusive = "c13 client: requests missing"
			s.close()
			return res
		}
		sort.Slice(reqs, func(a, b int) bool { return reqs[a].Msg.Fid < reqs[b].Msg.Fid })
		var stream []byte
		var bounds []int
		for _, rq := range reqs {
			a := s.p.Answer(rq.Msg)
			a.Tag = rq.Msg.Tag
			stream = append(stream, wire.Encode(a, s.p.Dotu())...)
			bounds = append(bounds, len(stream))
		}
		bounds = bounds[:len(bounds)-1]
		cuts := sg.cuts(len(stream), bounds)
		prev := 0
		for _, c := range cuts {
			if c > prev && c < len(stream) {
				_, _ = s.p.Srv.Write(stream[prev:c])
				prev = c
			}
		}
		_, _ = s.p.Srv.Write(stream[prev:])
		done := make(chan struct{})
		go func() { wg.Wait(); close(done) }()
		select {
		case <-done:
		case <-time.After(W):
			res.Violate("C13;client;calls-stuck;"+sg.name, fmt.Sprintf("msize %d: %d concurrent calls did not all return although the complete reply stream (%d bytes, segmentation %s) was delivered", msize, ncalls, len(stream), sg.name),
				map[string]interface{}{"cuts": cuts})
			s.close()
			return res
		}
		for i, e := range results {
			if e != "" {
				res.Violate("C13;client;result-differs;"+sg.name, fmt.Sprintf("msize %d, segmentation %s: call %d: %s", msize, sg.name, i, e), map[string]interface{}{"ncuts": len(cuts)})
				break
			}
		}
		res.Count("client_replies_parsed", int64(ncalls))
		res.Sig(fmt.Sprintf("clnt|%d|%s|%s", msize, sg.name, sg.id))
		if sg.name == "every-prefix+2" {
			res.Sample(map[string]interface{}{"side": "client", "msize": msize, "segmentation": sg.name, "cuts": len(cuts), "reply_stream_bytes": len(stream), "calls": ncalls})
		}
		s.close()
	}
	return res
}
