package clntlab

import (
	"bytes"
	"errors"
	"fmt"
	"io"
	"net"
	"os"
	"regexp"
	"runtime"
	"sort"
	"strings"
	"sync"
	"sync/atomic"
	"time"

	"github.com/rminnich/go9p"

	"verif/core"
	"verif/memconn"
	"verif/peer"
	"verif/sched"
	"verif/script"
	"verif/wire"
)

func init() {
	core.Register(&core.Engine{
		Property: "C10",
		Level:    "fault_enumeration",
		Rule: "scripted client sessions (Connect, Attach, then k = 0..4 concurrent calls whose replies the peer sends in one burst) with the server-to-client stream cut after EVERY byte offset 0..N, " +
			"by close, by reset, and by an invalid frame followed by silence (undersize, oversize announcement, undefined type, reply with an unknown tag); a write fault on the client-to-server direction at every " +
			"offset of the request stream; Unmount racing with calls; callers parked at each client schedule point (rpcnb.enter / rpcnb.queued / rpcnb.sent) while the failure is delivered, and the receiver parked at " +
			"crecv.closing / crecv.fanout / crecv.delivered while callers enter. Oracle: a call succeeds iff its complete reply lies within the bytes delivered (and then with its own payload); every other " +
			"outstanding call and every later call returns an error; all of them return — a caller still parked inside Rpc in two goroutine dumps after the failure was delivered is a hang. " +
			"distinct = (k, cut offset, fault kind, hold point)",
		Assumptions: []string{
			"bounded progress: 'never blocks forever' is decided by a stable pair of goroutine dumps after a watchdog, not by the watchdog alone",
			"the pipelined Tag interface across a failure is reported under its own signatures",
		},
		Cases:       c10Cases,
		MinDistinct: 100,
		Jobs:        8,
	})
}

func c10Cases(tier string, seed int64) []core.Case {
	var cases []core.Case
	faults := []string{"close", "reset", "stall-undersize", "stall-oversize", "stall-badtype", "stall-unknowntag", "stall-undersize-5", "stall-undersize-6", "stall-zero-5", "stall-oversize-6", "read-timeout"}
	for k := 0; k <= 4; k++ {
		for _, fault := range faults {
			for _, dotu := range []bool{true, false} {
				if tier == "quick" && !dotu && fault != "close" {
					continue
				}
				if tier == "quick" && (strings.HasSuffix(fault, "-5") || strings.HasSuffix(fault, "-6")) {
					if k != 0 && k != 2 {
						continue
					}
				}
				k, fault, dotu := k, fault, dotu
				cases = append(cases, core.Case{ID: fmt.Sprintf("cut/k=%d/%s/dotu=%v", k, fault, dotu), Run: func(ctx *core.Ctx) core.Result {
					return c10Cuts(ctx, k, fault, dotu, "")
				}})
			}
		}
	}
	holds := []string{"rpcnb.enter", "rpcnb.queued", "rpcnb.sent", "crecv.closing", "crecv.fanout", "crecv.delivered", "csend.dequeued", "crecv.matched"}
	for _, hp := range holds {
		for _, k := range []int{1, 2, 3} {
			hp, k := hp, k
			cases = append(cases, core.Case{ID: fmt.Sprintf("hold/%s/k=%d", hp, k), Run: func(ctx *core.Ctx) core.Result {
				var res core.Result
				for _, fault := range []string{"close", "reset", "stall-oversize"} {
					r := c10Cuts(ctx, k, fault, true, hp)
					merge(&res, &r)
				}
				return res
			}})
		}
	}
	cases = append(cases, core.Case{ID: "writefault", Run: func(ctx *core.Ctx) core.Result { return c10WriteFault(ctx) }})
	cases = append(cases, core.Case{ID: "writer-blocked", Run: func(ctx *core.Ctx) core.Result { return c10WriterBlocked(ctx) }})
	cases = append(cases, core.Case{ID: "unmount", Run: func(ctx *core.Ctx) core.Result { return c10Unmount(ctx, tier == "thorough") }})
	cases = append(cases, core.Case{ID: "oversize-after-lower-negotiation", Run: func(ctx *core.Ctx) core.Result { return c10NegotiatedDown(ctx) }})
	cases = append(cases, core.Case{ID: "shared-completion-channel", Run: func(ctx *core.Ctx) core.Result { return c10SharedDone(ctx) }})
	cases = append(cases, core.Case{ID: "tagiface", Run: func(ctx *core.Ctx) core.Result { return c10TagIface(ctx) }})
	cases = append(cases, core.Case{ID: "many-later-calls", Run: func(ctx *core.Ctx) core.Result { return c10ManyLaterCalls(ctx) }})
	cases = append(cases, core.Case{ID: "unmount-after-complete-reply", Run: func(ctx *core.Ctx) core.Result { return c10UnmountAfterReply(ctx) }})
	return cases
}

func merge(dst, src *core.Result) {
	dst.Evals += src.Evals
	dst.Sigs = append(dst.Sigs, src.Sigs...)
	for _, v := range src.Violations {
		dst.Violate(v.Signature, v.What, v.Detail)
	}
	for _, s := range src.Samples {
		dst.Sample(s)
	}
	for k, v := range src.Counters {
		dst.Count(k, v)
	}
	if src.Inconclusive != "" {
		dst.Inconclusive = src.Inconclusive
	}
}

var reRpc = regexp.MustCompile(`go9p\.\(\*Clnt\)\.(Rpc|Rpcnb|recv|send)\b`)

// stuckDump returns the stacks of goroutines that are inside the client library now.
func stuckDump() map[string]string {
	buf := make([]byte, 1<<20)
	for {
		n := runtime.Stack(buf, true)
		if n < len(buf) {
			buf = buf[:n]
			break
		}
		buf = make([]byte, 2*len(buf))
	}
	out := map[string]string{}
	for _, blk := range strings.Split(string(buf), "\n\n") {
		if reRpc.MatchString(blk) {
			id := blk
			if i := strings.Index(blk, "\n"); i > 0 {
				id = blk[:i]
			}
			if j := strings.Index(id, " ["); j > 0 {
				id = id[:j]
			}
			out[id] = blk
		}
	}
	return out
}

// hung waits for done; if it does not come, it confirms with two goroutine dumps that callers which did not
// exist before the scenario (base) are parked in the same client-library frame, and returns their stacks.
// A first look is taken after 3 s, the final one after the full watchdog.
func hung(done <-chan struct{}, base map[string]string) (stuck string, finished bool) {
	check := func() string {
		d1 := stuckDump()
		time.Sleep(700 * time.Millisecond)
		d2 := stuckDump()
		var stable []string
		for id, st := range d1 {
			if _, old := base[id]; old {
				continue
			}
			if st2, ok := d2[id]; ok && firstLine(st2) == firstLine(st) && strings.Contains(st2, "go9p.(*Clnt).Rpc") {
				stable = append(stable, st2)
			}
		}
		sort.Strings(stable)
		return strings.Join(stable, "\n\n")
	}
	select {
	case <-done:
		return "", true
	case <-time.After(3 * time.Second):
	}
	if s := check(); s != "" {
		select {
		case <-done:
			return "", true
		default:
		}
		return s, false
	}
	select {
	case <-done:
		return "", true
	case <-time.After(W):
	}
	return check(), false
}

type c10call struct {
	c      call
	done   chan string // "" = success with own payload, "error: …" = error, other = wrong payload
	result string
}

// c10Cuts enumerates every cut offset of the reply stream of one scripted session.
func c10Cuts(ctx *core.Ctx, k int, fault string, dotu bool, holdPoint string) core.Result {
	var res core.Result
	// the reply stream of the reference session (no fault) gives N and the frame boundaries
	ref := c10Session(&res, k, fault, dotu, -1, holdPoint, nil)
	if ref == nil {
		return res
	}
	N := ref.total
	step := 1
	if holdPoint != "" {
		step = 3
	}
	boundary := map[int]bool{0: true}
	for _, e := range ref.ends {
		boundary[e] = true
	}
	for cut := 0; cut <= N; cut += step {
		if len(res.Violations) > 2 {
			break
		}
		if strings.HasPrefix(fault, "stall") && !boundary[cut] {
			// an invalid frame can only be recognised as one at a frame boundary: after a partial frame the
			// garbage is simply taken for the rest of it and a silent peer is not a detectable failure
			continue
		}
		if cut%16 == 0 {
			ctx.Beat()
		}
		c10Session(&res, k, fault, dotu, cut, holdPoint, ref)
		// a session whose calls never return costs seconds of watching: one such witness per case is enough
		hang := false
		for _, v := range res.Violations {
			if strings.HasPrefix(v.Signature, "C10;hang;") {
				hang = true
			}
		}
		if hang {
			break
		}
	}
	return res
}

type c10ref struct {
	total int   // bytes of the whole reply stream
	ends  []int // end offset of the Rversion, the Rattach, then of the k replies in the order the peer sends them
}

func c10Session(res *core.Result, k int, fault string, dotu bool, cut int, holdPoint string, ref *c10ref) *c10ref {
	base := stuckDump() // callers leaked by earlier scenarios of this worker are not this scenario's
	p := peer.New(8192, true)
	ctl := sched.New(nil, nil)
	ctl.Trace = false
	sched.Install(ctl)
	defer p.Srv.Close()
	res.Evals++
	fail := func(sig, what string, detail interface{}) {
		res.Violate(fmt.Sprintf("C10;%s;k=%d;%s;hold=%s", sig, k, fault, holdPoint), fmt.Sprintf("%s [k=%d, fault %s after %d reply bytes, dotu=%v, hold=%s]", what, k, fault, cut, dotu, holdPoint), detail)
	}
	faultKind := "close"
	switch {
	case fault == "reset":
		faultKind = "reset"
	case fault == "read-timeout":
		faultKind = "timeout"
	case strings.HasPrefix(fault, "stall"):
		faultKind = "stall"
	}
	if cut >= 0 {
		p.CutAfter(int64(cut), faultKind)
	}
	user := script.Users{}.Uid2User(0)

	// ---- the scripted session, run by a driver goroutine so that every step can be watched
	type stepRes struct {
		name string
		err  error
	}
	steps := make(chan stepRes, 8)
	var clnt *go9p.Clnt
	calls := make([]*c10call, k)
	var wg sync.WaitGroup
	driverDone := make(chan struct{})
	attached := make(chan struct{})
	proceed := make(chan struct{})
	go func() {
		defer close(driverDone)
		c, err := go9p.Connect(p.Cli, 8192, dotu)
		steps <- stepRes{"connect", err}
		if err != nil {
			return
		}
		clnt = c
		_, err = c.Attach(nil, user, "tree")
		steps <- stepRes{"attach", err}
		if err != nil {
			return
		}
		close(attached)
		<-proceed
		for i := 0; i < k; i++ {
			cc := &c10call{c: call{kind: []string{"read", "stat", "read", "write"}[i%4], fidn: uint32(100 + i*7), offset: uint64(1000 + i), count: uint32(10 + 5*i), data: []byte("payload")}, done: make(chan string, 1)}
			calls[i] = cc
			wg.Add(1)
			go func() {
				defer wg.Done()
				s := &sess{p: p, c: c, dotu: dotu}
				cc.done <- s.do(cc.c)
			}()
		}
		wg.Wait()
		// a call issued after the failure
		s := &sess{p: p, c: c, dotu: dotu}
		steps <- stepRes{"late", errOf(s.do(call{kind: "stat", fidn: 4242}))}
		// … and two more: every later call returns an error, not only the first
		steps <- stepRes{"late", errOf(s.do(call{kind: "read", fidn: 4243, offset: 1, count: 9}))}
		steps <- stepRes{"late", errOf(s.do(call{kind: "stat", fidn: 4244}))}
	}()
	finished := func() bool {
		select {
		case <-driverDone:
			return true
		default:
			return false
		}
	}

	// ---- the peer side
	garbage := func() {
		// after the cut the stalled peer sends an invalid frame and stays silent
		var g []byte
		switch fault {
		case "stall-undersize":
			g = []byte{3, 0, 0, 0, wire.Rclunk, 1, 0}
		case "stall-oversize":
			g = []byte{0, 0, 0, 0x10, wire.Rread, 1, 0, 9, 9, 9}
		// the same announcements with only 5 or 6 bytes on the wire: what the size field says is known all the same
		case "stall-undersize-5":
			g = []byte{5, 0, 0, 0, wire.Rclunk}
		case "stall-undersize-6":
			g = []byte{6, 0, 0, 0, wire.Rclunk, 1}
		case "stall-zero-5":
			g = []byte{0, 0, 0, 0, 0}
		case "stall-oversize-6":
			g = []byte{0, 0, 0, 0x10, wire.Rread, 1}
		case "stall-badtype":
			g = []byte{7, 0, 0, 0, 99, 1, 0}
		case "stall-unknowntag":
			g = wire.Encode(&wire.Msg{Type: wire.Rclunk, Tag: 0x7ABC}, dotu)
		}
		if g != nil {
			_, _ = p.Srv.Write(g)
		}
	}
	out := &c10ref{}
	alive := true
	virt := 0 // length of the reply stream as it would be without the fault
	send := func(b []byte) {
		virt += len(b)
		if alive {
			alive = p.SendRaw(b)
			if !alive && faultKind == "stall" {
				garbage()
			}
		}
	}
	reply := func(r *peer.Req) {
		a := p.Answer(r.Msg)
		a.Tag = r.Msg.Tag
		d := p.Dotu()
		send(wire.Encode(a, d))
		out.ends = append(out.ends, virt)
	}
	if cut == 0 {
		alive = p.SendRaw(nil)
		if faultKind == "stall" {
			garbage()
		}
	}
	// wait for a request of the given type, giving up early when the session is over
	next := func(t uint8) *peer.Req {
		deadline := time.Now().Add(W)
		for time.Now().Before(deadline) {
			if r := p.Next(2 * time.Millisecond); r != nil {
				if r.Msg.Type == t {
					return r
				}
				continue
			}
			if finished() {
				return nil
			}
		}
		return nil
	}
	if r := next(wire.Tversion); r != nil {
		a := p.Answer(r.Msg)
		a.Tag = r.Msg.Tag
		b := wire.Encode(a, false)
		p.SetDotu(a.Version == "9P2000.u")
		send(b)
		out.ends = append(out.ends, virt)
	}
	if r := next(wire.Tattach); r != nil {
		reply(r)
	}
	var hold *sched.Hold
	select {
	case <-attached:
		if holdPoint != "" && cut >= 0 {
			hold = ctl.HoldAt(holdPoint, 0, sched.AnyTag, sched.AnyTag, 300*time.Millisecond)
			defer hold.Release()
		}
	case <-driverDone:
	case <-time.After(W):
	}
	close(proceed)
	var reqs []*peer.Req
	deadline := time.Now().Add(W)
	for len(reqs) < k && time.Now().Before(deadline) {
		if r := p.Next(2 * time.Millisecond); r != nil {
			reqs = append(reqs, r)
			continue
		}
		if finished() {
			break
		}
		if hold != nil && len(reqs) > 0 {
			select {
			case <-hold.Reached():
				// a caller is parked before its request reached the peer: do not wait for it
				deadline = time.Now()
			default:
			}
		}
	}
	// the replies in one burst, in a fixed rotation of the arrival order
	// (by descending fid number: independent of the order in which the concurrent calls arrived, so that the
	// frame boundaries are the same in every run of the scenario)
	order := make([]int, len(reqs))
	for i := range order {
		order[i] = i
	}
	sort.Slice(order, func(a, b int) bool { return reqs[order[a]].Msg.Fid > reqs[order[b]].Msg.Fid })
	var burst []byte
	endOf := map[uint32]int{} // fid of the request -> end offset of its reply in the stream
	for _, i := range order {
		a := p.Answer(reqs[i].Msg)
		a.Tag = reqs[i].Msg.Tag
		burst = append(burst, wire.Encode(a, p.Dotu())...)
		endOf[reqs[i].Msg.Fid] = virt + len(burst)
		out.ends = append(out.ends, virt+len(burst))
	}
	if faultKind == "stall" && cut > 0 && alive {
		// with a caller parked at a hold point this run's burst differs from the reference run's: the cut point
		// must still be a frame boundary of THIS stream, otherwise the invalid frame is swallowed as the rest of a
		// partial reply and a silent peer is not a failure the client could notice
		onBoundary := false
		for _, e := range out.ends {
			if e == cut {
				onBoundary = true
			}
		}
		if !onBoundary && cut < virt+len(burst) {
			res.Count("skipped_cut_not_on_a_frame_boundary", 1)
			p.Srv.Close()
			<-driverDone
			if clnt != nil {
				clnt.Unmount()
			}
			return nil
		}
	}
	if len(burst) > 0 {
		send(burst)
	}
	out.total = virt
	if cut >= 0 && cut >= virt && alive {
		// the whole stream fitted before the cut point: fail the connection now
		alive = p.SendRaw(nil)
		if p.Sent() < int64(cut) {
			// the session produced fewer bytes than the reference run (requests not issued): nothing left to cut
			p.Cli.WaitDrained(W)
			switch faultKind {
			case "close":
				p.Srv.Close()
			case "reset":
				p.Srv.Reset()
			}
			alive = false
		}
		if faultKind == "stall" {
			garbage()
		}
	}
	if cut < 0 {
		// reference run: let the late call through and finish
		go p.Serve(nil)
	}
	if hold != nil {
		// the failure has been delivered while somebody is parked at the hold point; let go after a moment
		hold.WaitReached(20 * time.Millisecond)
		time.Sleep(2 * time.Millisecond)
		hold.Release()
	}

	// ---- everything must return
	if stuck, ok := hung(driverDone, base); !ok {
		if stuck != "" {
			fail("hang", "client calls never returned after the connection failed", stuck)
		} else {
			res.Inconclusive = "c10: session did not finish, but no stable blocked caller"
		}
		p.Srv.Close()
		if clnt != nil {
			unmountDetached(clnt)
		}
		return nil
	}
	close(steps)
	if clnt != nil {
		defer unmountDetached(clnt)
	}
	if cut < 0 {
		for st := range steps {
			if st.err != nil {
				res.Inconclusive = fmt.Sprintf("c10: reference session failed at %s: %v", st.name, st.err)
				return nil
			}
		}
		for _, cc := range calls {
			if r := <-cc.done; r != "" {
				res.Inconclusive = "c10: reference session call failed: " + r
				return nil
			}
		}
		return out
	}
	// ---- judge against the frame boundaries of this very run
	det := map[string]interface{}{"reply_stream_bytes": out.total, "frame_ends": out.ends, "cut": cut}
	complete := func(end int) bool { return end > 0 && end <= cut }
	endIdx := func(i int) int {
		if i < len(out.ends) {
			return out.ends[i]
		}
		return 0
	}
	for st := range steps {
		var end int
		switch st.name {
		case "connect":
			end = endIdx(0)
		case "attach":
			end = endIdx(1)
		case "late":
			if st.err == nil {
				fail("late-call-succeeded", "a call issued after the connection failed returned success", det)
			}
			continue
		}
		switch {
		case complete(end) && st.err != nil:
			fail("delivered-reply-lost;"+st.name, fmt.Sprintf("%s failed (%v) although its complete reply was delivered before the failure", st.name, st.err), det)
		case !complete(end) && st.err == nil:
			fail("success-without-reply;"+st.name, fmt.Sprintf("%s returned success although its reply was not completely received", st.name), det)
		}
	}
	for i, cc := range calls {
		if cc == nil {
			continue
		}
		r := <-cc.done
		end := endOf[cc.c.fidn]
		got := r == ""
		isErr := strings.HasPrefix(r, "error: ")
		switch {
		case complete(end) && !got:
			fail("delivered-reply-lost;call", fmt.Sprintf("call %d (%s) returned %q although its complete reply was delivered before the failure", i, cc.c.kind, r), det)
		case !complete(end) && got:
			fail("success-without-reply;call", fmt.Sprintf("call %d (%s) returned success although its reply was not completely received", i, cc.c.kind), det)
		case !got && !isErr:
			fail("foreign-payload", fmt.Sprintf("call %d: %s", i, r), det)
		}
	}
	res.Sig(fmt.Sprintf("cut|k=%d|%s|%v|%d|%s", k, fault, dotu, cut, holdPoint))
	if ref != nil && cut == ref.total/2 {
		res.Sample(map[string]interface{}{"k": k, "fault": fault, "cut_after_bytes": cut, "reply_stream_bytes": out.total, "frame_ends": out.ends, "hold": holdPoint})
	}
	return out
}

func firstLine(s string) string {
	// goroutine header plus the first library frame
	ls := strings.Split(s, "\n")
	for _, l := range ls {
		if strings.Contains(l, "go9p.(*Clnt)") {
			if i := strings.LastIndex(l, "("); i > 0 {
				return ls[0] + l[:i]
			}
		}
	}
	return ls[0]
}

func errOf(s string) error {
	if s == "" {
		return nil
	}
	return fmt.Errorf("%s", s)
}

// c10WriteFault: the client's writes fail after n bytes of the request stream.
func c10WriteFault(ctx *core.Ctx) core.Result {
	var res core.Result
	for off := int64(0); off < 200; off++ {
		res.Evals++
		base := stuckDump()
		p := peer.New(8192, true)
		sched.Install(sched.New(nil, nil))
		go p.Serve(nil)
		p.Cli.FailWriteAfter(off, memconn.ErrReset)
		done := make(chan string, 1)
		go func() {
			c, err := go9p.Connect(p.Cli, 8192, true)
			if err != nil {
				done <- ""
				return
			}
			defer c.Unmount()
			s := &sess{p: p, c: c, dotu: true, user: script.Users{}.Uid2User(0)}
			if _, err := c.Attach(nil, s.user, "x"); err != nil {
				done <- ""
				return
			}
			var wg sync.WaitGroup
			var mu sync.Mutex
			bad := ""
			for i := 0; i < 4; i++ {
				wg.Add(1)
				go func(i int) {
					defer wg.Done()
					r := s.do(call{kind: "read", fidn: uint32(50 + i), offset: uint64(i), count: 20})
					if r != "" && !strings.HasPrefix(r, "error: ") {
						mu.Lock()
						bad = r
						mu.Unlock()
					}
				}(i)
			}
			wg.Wait()
			done <- bad
		}()
		fin := make(chan struct{})
		var bad string
		go func() { bad = <-done; close(fin) }()
		if stuck, ok := hung(fin, base); ok {
			if bad != "" {
				res.Violate("C10;writefault;foreign-payload", bad, nil)
			}
		} else if stuck != "" {
			res.Violate("C10;hang;writefault", fmt.Sprintf("calls never returned after the client's write failed at byte %d of the request stream", off), stuck)
		} else {
			res.Inconclusive = "c10: write-fault session did not finish"
		}
		p.Srv.Close()
		res.Sig(fmt.Sprintf("writefault|%d", off))
		ctx.Beat()
		if len(res.Violations) > 0 {
			break
		}
	}
	res.Sample(map[string]interface{}{"scenario": "client write fails after n bytes", "offsets": "0..199"})
	return res
}

// c10Unmount: Unmount racing with calls in flight.
// c10NegotiatedDown: the server's Rversion lowers msize below what the client asked for; the very next reply then
// announces a size above the negotiated limit (but within what the client had asked for) and the peer falls silent.
// That frame can never be completed within the limit: the call returns an error, later calls are refused.
func c10NegotiatedDown(ctx *core.Ctx) core.Result {
	var res core.Result
	for rep := 0; rep < 12 && len(res.Violations) == 0; rep++ {
		ctx.Beat()
		res.Evals++
		neg := []uint32{1024, 256, 4096}[rep%3]
		announced := []uint32{neg + 1, 8192, (neg + 8192) / 2}[(rep/3)%3]
		base := stuckDump()
		p := peer.New(neg, true) // the peer's own limit is below the 8192 the client asks for
		sched.Install(sched.New(nil, nil))
		stop := make(chan struct{})
		go func() {
			for {
				r := p.Next(50 * time.Millisecond)
				if r == nil {
					select {
					case <-stop:
						return
					default:
						continue
					}
				}
				if r.Msg.Type == wire.Tversion {
					p.Reply(r, p.Answer(r.Msg))
					continue
				}
				// header of a reply that would be larger than the negotiated msize, then silence
				_, _ = p.Srv.Write([]byte{byte(announced), byte(announced >> 8), byte(announced >> 16), byte(announced >> 24), r.Msg.Type + 1, byte(r.Msg.Tag), byte(r.Msg.Tag >> 8)})
				return
			}
		}()
		fin := make(chan struct{})
		outcome := ""
		go func() {
			defer close(fin)
			c, err := go9p.Connect(p.Cli, 8192, true)
			if err != nil {
				outcome = "connect failed: " + err.Error()
				return
			}
			if c.Msize != neg {
				outcome = fmt.Sprintf("negotiated msize %d, expected %d", c.Msize, neg)
			}
			if _, err := c.Attach(nil, script.Users{}.Uid2User(0), "x"); err == nil {
				outcome = "a call returned success although its reply was never completed"
				return
			}
			s := &sess{p: p, c: c, dotu: true}
			if r := s.do(call{kind: "stat", fidn: 9}); r == "" {
				outcome = "a call issued after the connection failed returned success"
			}
		}()
		sig := fmt.Sprintf("neg=%d;announced=%d", neg, announced)
		if stuck, ok := hung(fin, base); ok {
			if strings.HasPrefix(outcome, "a call") {
				res.Violate("C10;negotiated-down;wrong-result", outcome+" ["+sig+"]", nil)
			} else if outcome != "" {
				res.Inconclusive = "c10: " + outcome
			}
		} else if stuck != "" {
			res.Violate("C10;hang;oversize-after-lower-negotiation", fmt.Sprintf("after the server lowered msize to %d, a reply announcing %d bytes followed by silence left the call blocked forever", neg, announced), stuck)
		} else {
			res.Inconclusive = "c10: negotiated-down scenario did not finish, no stable blocked caller"
		}
		close(stop)
		p.Srv.Close()
		res.Sig("negotiated-down|" + sig)
	}
	res.Sample(map[string]interface{}{"scenario": "reply larger than the msize the server had just lowered, then silence", "client_asks": 8192})
	return res
}

func c10Unmount(ctx *core.Ctx, thorough bool) core.Result {
	var res core.Result
	rounds := 60
	if thorough {
		rounds = 1500
	}
	for round := 0; round < rounds; round++ {
		res.Evals++
		if round%20 == 0 {
			ctx.Beat()
		}
		base := stuckDump()
		p := peer.New(8192, true)
		ctl := sched.New(nil, nil)
		sched.Install(ctl)
		ctl.Random(uint64(ctx.Seed)*13+uint64(round), 300, 200)
		stop := make(chan struct{})
		answered := round % 4 // the peer answers this many requests, then falls silent
		go func() {
			n := 0
			for {
				r := p.Next(50 * time.Millisecond)
				if r == nil {
					select {
					case <-stop:
						return
					default:
						continue
					}
				}
				if r.Msg.Type == wire.Tversion || r.Msg.Type == wire.Tattach || n < answered {
					p.Reply(r, p.Answer(r.Msg))
					if r.Msg.Type != wire.Tversion && r.Msg.Type != wire.Tattach {
						n++
					}
				}
			}
		}()
		done := make(chan string, 1)
		go func() {
			c, err := go9p.Connect(p.Cli, 8192, true)
			if err != nil {
				done <- "connect failed"
				return
			}
			if round%3 == 0 {
				// a mounted client (Mount / MountConn leave the root fid in Clnt.Root)
				if root, err := c.Attach(nil, script.Users{}.Uid2User(0), ""); err == nil {
					c.Root = root
				}
			}
			s := &sess{p: p, c: c, dotu: true}
			var wg sync.WaitGroup
			ncalls := 1 + round%5
			var mu sync.Mutex
			bad := ""
			for i := 0; i < ncalls; i++ {
				wg.Add(1)
				go func(i int) {
					defer wg.Done()
					r := s.do(call{kind: "read", fidn: uint32(10 + i), offset: 3, count: 9})
					if r != "" && !strings.HasPrefix(r, "error: ") {
						mu.Lock()
						bad = r
						mu.Unlock()
					}
				}(i)
			}
			time.Sleep(time.Duration(round%7) * 50 * time.Microsecond)
			unmounted := make(chan struct{})
			go func() { c.Unmount(); close(unmounted) }()
			wg.Wait()
			// calls after Unmount fail ("after": issued once Unmount has returned — the goroutine above may not even have
			// started when the racing calls are through)
			select {
			case <-unmounted:
				if r := s.do(call{kind: "stat", fidn: 1}); r == "" {
					bad = "a call after Unmount returned success"
				}
			case <-time.After(W):
				// an Unmount that does not return is a blocked goroutine: judged below
			}
			done <- bad
		}()
		fin := make(chan struct{})
		var bad string
		go func() { bad = <-done; close(fin) }()
		if stuck, ok := hung(fin, base); ok {
			if bad == "connect failed" {
				res.Inconclusive = "c10: connect failed in unmount scenario"
			} else if bad != "" {
				res.Violate("C10;unmount;wrong-result", bad, nil)
			}
		} else if stuck != "" {
			res.Violate("C10;hang;unmount", "calls in flight never returned after Unmount", stuck)
		} else {
			res.Inconclusive = "c10: unmount scenario did not finish"
		}
		close(stop)
		p.Srv.Close()
		res.Sig(fmt.Sprintf("unmount|%d|%d", round%5, round%4))
		if len(res.Violations) > 0 {
			break
		}
	}
	res.Sample(map[string]interface{}{"scenario": "Unmount racing with 1..5 calls", "rounds": rounds})
	return res
}

// c10TagIface: the pipelined Tag interface across a failure (reported under its own signatures).
func c10TagIface(ctx *core.Ctx) core.Result {
	var res core.Result
	for n := 1; n <= 6; n++ {
		for _, kind := range []string{"close", "reset"} {
			res.Evals++
			p := peer.New(8192, true)
			sched.Install(sched.New(nil, nil))
			p.AllowDupTag = true
			errc := make(chan error, 1)
			var c *go9p.Clnt
			go func() {
				var err error
				c, err = go9p.Connect(p.Cli, 8192, true)
				errc <- err
			}()
			if r := p.Next(W); r != nil {
				p.Reply(r, p.Answer(r.Msg))
			}
			if err := <-errc; err != nil {
				res.Inconclusive = "c10: connect failed"
				return res
			}
			reqchan := make(chan *go9p.Req, 64)
			tag := c.TagAlloc(reqchan)
			f := c.FidAlloc()
			for i := 0; i < n; i++ {
				_ = tag.Read(f, uint64(i), 10)
			}
			reqs := p.Collect(n, W)
			// answer the first half, then fail
			half := len(reqs) / 2
			for i := 0; i < half; i++ {
				p.Reply(reqs[i], p.Answer(reqs[i].Msg))
			}
			if kind == "close" {
				p.Srv.Close()
			} else {
				p.Srv.Reset()
			}
			got, failed := 0, 0
			timeout := time.After(W)
		loop:
			for got+failed < n {
				select {
				case r := <-reqchan:
					if r.Err != nil {
						failed++
					} else if r.Rc != nil && bytes.Equal(r.Rc.Data, peer.Data(f.Fid, r.Tc.Offset, 10)) {
						got++
					} else {
						res.Violate("C10;tagiface;foreign-payload", "a pipelined request completed with foreign data", nil)
						got++
					}
				case <-timeout:
					d1 := stuckDump()
					time.Sleep(time.Second)
					d2 := stuckDump()
					var dump []string
					for id, st := range d1 {
						if _, ok := d2[id]; ok {
							dump = append(dump, st)
						}
					}
					res.Violate("C10;tagiface;completion-missing", fmt.Sprintf("%d pipelined requests: %d completed, %d failed, the rest were never completed after the connection failed", n, got, failed), strings.Join(dump, "\n\n"))
					break loop
				}
			}
			if got > half {
				res.Violate("C10;tagiface;success-without-reply", "more pipelined requests succeeded than replies were delivered", nil)
			}
			res.Sig(fmt.Sprintf("tagiface|%d|%s", n, kind))
			go c.Unmount()
		}
	}
	return res
}

// c10SharedDone: non-blocking requests (Rpcnb) that share ONE unbuffered completion channel, as an event-loop style
// application would use them; the connection fails; the application takes the completions one by one and between two
// of them makes another call on the client (which must be refused at once). Every request is completed with an
// error and nothing blocks.
func c10SharedDone(ctx *core.Ctx) core.Result {
	var res core.Result
	for n := 2; n <= 5; n++ {
		for _, kind := range []string{"close", "reset", "garbage"} {
			ctx.Beat()
			res.Evals++
			base := stuckDump()
			p := peer.New(8192, true)
			sched.Install(sched.New(nil, nil))
			errc := make(chan error, 1)
			var c *go9p.Clnt
			go func() {
				var err error
				c, err = go9p.Connect(p.Cli, 8192, true)
				errc <- err
			}()
			if r := p.Next(W); r != nil {
				p.Reply(r, p.Answer(r.Msg))
			}
			if err := <-errc; err != nil {
				res.Inconclusive = "c10: connect failed"
				return res
			}
			shared := make(chan *go9p.Req) // unbuffered, one for all
			for i := 0; i < n; i++ {
				rq := c.ReqAlloc()
				rq.Tc = c.NewFcall()
				rq.Done = shared
				if err := go9p.PackTread(rq.Tc, uint32(70+i), uint64(i), 10); err != nil {
					res.Inconclusive = "c10: pack failed"
					return res
				}
				if err := c.Rpcnb(rq); err != nil {
					res.Inconclusive = "c10: Rpcnb failed before the fault"
					return res
				}
			}
			p.Collect(n, W)
			switch kind {
			case "close":
				p.Srv.Close()
			case "reset":
				p.Srv.Reset()
			case "garbage":
				_, _ = p.Srv.Write([]byte{7, 0, 0, 0, 99, 1, 0})
			}
			fin := make(chan struct{})
			problem := ""
			go func() {
				defer close(fin)
				for i := 0; i < n; i++ {
					r := <-shared
					if r.Err == nil {
						problem = "a request completed without error although no reply was ever sent"
					}
					// the application reacts to the completion with another call
					s := &sess{p: p, c: c, dotu: true}
					if e := s.do(call{kind: "stat", fidn: 9}); e == "" {
						problem = "a call issued after the connection failed returned success"
					}
				}
			}()
			sig := fmt.Sprintf("n=%d;%s", n, kind)
			if stuck, ok := hung(fin, base); ok {
				if problem != "" {
					res.Violate("C10;shared-done;wrong-result;"+kind, problem, nil)
				}
			} else if stuck != "" {
				res.Violate("C10;hang;shared-done;"+kind, fmt.Sprintf("%d non-blocking requests sharing one completion channel: after the connection failed (%s) the application, which makes a call between two completions, never got through", n, kind), stuck)
			} else {
				res.Inconclusive = "c10: shared-done scenario did not finish, no stable blocked caller"
			}
			p.Srv.Close()
			go c.Unmount() // (takes the client's lock: not on this goroutine, the client may be wedged)
			res.Sig("shared-done|" + sig)
			if len(res.Violations) > 0 {
				return res
			}
		}
	}
	res.Sample(map[string]interface{}{"scenario": "Rpcnb requests sharing one unbuffered completion channel, consumer calls the client between completions", "n": "2..5"})
	return res
}

// c10WriterBlocked: the failure arrives while the client's writer is stuck in a transport Write because the peer
// does not drain requests (full socket buffer). Every outstanding and every later call must still fail and return.
func c10WriterBlocked(ctx *core.Ctx) core.Result {
	var res core.Result
	// readfail-*: only the server-to-client direction breaks (half-closed / receive timeout): Read fails while the
	// blocked Write stays blocked
	faults := []string{"close", "reset", "stall-undersize", "stall-oversize", "stall-badtype", "stall-unknowntag", "readfail-eof", "readfail-err", "readfail-timeout"}
	for _, fault := range faults {
		for k := 1; k <= 4; k++ {
			res.Evals++
			base := stuckDump()
			p := peer.New(8192, true)
			sched.Install(sched.New(nil, nil))
			stop := make(chan struct{})
			served := make(chan struct{})
			go func() { p.Serve(stop); close(served) }()
			done := make(chan string, 1)
			ready := make(chan *go9p.Clnt, 1)
			go func() {
				c, err := go9p.Connect(p.Cli, 8192, true)
				if err != nil {
					ready <- nil
					done <- "connect failed"
					return
				}
				if _, err := c.Attach(nil, script.Users{}.Uid2User(0), "x"); err != nil {
					ready <- nil
					done <- "attach failed"
					return
				}
				ready <- c
			}()
			c := <-ready
			if c == nil {
				res.Inconclusive = "c10: setup failed: " + <-done
				return res
			}
			close(stop)
			<-served // nobody answers any more
			// from now on the peer does not read, and its receive buffer is tiny: the client's writer blocks inside Write
			p.PauseReads(true)
			p.Srv.Cap = 64
			var wg sync.WaitGroup
			var mu sync.Mutex
			okCalls, errCalls, bad := 0, 0, ""
			for i := 0; i < k; i++ {
				wg.Add(1)
				go func(i int) {
					defer wg.Done()
					s := &sess{p: p, c: c, dotu: true}
					r := s.do(call{kind: "write", fidn: uint32(60 + i), offset: 1, data: bytes.Repeat([]byte{byte(i)}, 3000)})
					mu.Lock()
					switch {
					case r == "":
						okCalls++
					case strings.HasPrefix(r, "error: "):
						errCalls++
					default:
						bad = r
					}
					mu.Unlock()
				}(i)
			}
			// let the writer run into the full buffer
			waitUntil(func() bool { return p.Srv.Queued() >= 64 }, 2*time.Second)
			time.Sleep(2 * time.Millisecond)
			switch fault {
			case "close":
				p.Srv.Close()
			case "reset":
				p.Srv.Reset()
			case "stall-undersize":
				_, _ = p.Srv.Write([]byte{3, 0, 0, 0, wire.Rclunk, 1, 0})
			case "stall-oversize":
				_, _ = p.Srv.Write([]byte{0, 0, 0, 0x10, wire.Rread, 1, 0, 9, 9, 9})
			case "stall-badtype":
				_, _ = p.Srv.Write([]byte{7, 0, 0, 0, 99, 1, 0})
			case "stall-unknowntag":
				_, _ = p.Srv.Write(wire.Encode(&wire.Msg{Type: wire.Rclunk, Tag: 0x7ABC}, true))
			case "readfail-eof":
				p.Cli.FailReadAfter(0, io.EOF)
			case "readfail-err":
				p.Cli.FailReadAfter(0, errors.New("read: i/o timeout"))
			case "readfail-timeout":
				p.Cli.FailReadAfter(0, &net.OpError{Op: "read", Net: "mem", Err: os.ErrDeadlineExceeded})
			}
			fin := make(chan struct{})
			go func() {
				wg.Wait()
				// and a call issued after the failure
				s := &sess{p: p, c: c, dotu: true}
				if r := s.do(call{kind: "stat", fidn: 9}); r == "" {
					mu.Lock()
					bad = "a call issued after the connection failed returned success"
					mu.Unlock()
				}
				close(fin)
			}()
			sig := fmt.Sprintf("k=%d;%s", k, fault)
			if stuck, ok := hung(fin, base); ok {
				if bad != "" {
					res.Violate("C10;writer-blocked;wrong-result;"+fault, bad, nil)
				}
				if okCalls > 0 {
					res.Violate("C10;writer-blocked;success-without-reply;"+fault, fmt.Sprintf("%d calls returned success although no reply was ever sent", okCalls), nil)
				}
			} else if stuck != "" {
				res.Violate("C10;hang;writer-blocked;"+fault, fmt.Sprintf("calls never returned when the connection failed (%s) while the client's writer was blocked in a transport write [k=%d]", fault, k), stuck)
			} else {
				res.Inconclusive = "c10: writer-blocked scenario did not finish, no stable blocked caller"
			}
			p.PauseReads(false)
			p.Srv.Close()
			go c.Unmount()
			res.Sig("writer-blocked|" + sig)
			if len(res.Violations) > 0 {
				return res
			}
		}
	}
	res.Sample(map[string]interface{}{"scenario": "failure while the client's writer is blocked in Write", "faults": faults, "k": "1..4"})
	return res
}

func waitUntil(pred func() bool, d time.Duration) bool {
	deadline := time.Now().Add(d)
	for !pred() {
		if time.Now().After(deadline) {
			return false
		}
		time.Sleep(100 * time.Microsecond)
	}
	return true
}

// c10UnmountAfterReply: Unmount is called when a complete reply has just been read from the transport (the client's
// reader is still inside its Read call, the bytes are already its own) and part of the next reply with it. "A reply
// that was completely received before the failure is delivered to its caller": the first call succeeds with its own
// data, the second and a later call fail, nothing blocks.
func c10UnmountAfterReply(ctx *core.Ctx) core.Result {
	var res core.Result
	for round := 0; round < 12 && len(res.Violations) == 0; round++ {
		dotu := round%2 == 0
		s, err := connect(8192, dotu, false)
		if err != nil {
			res.Inconclusive = "c10: " + err.Error()
			return res
		}
		k := 2 + round%3
		results := make([]string, k)
		var wg sync.WaitGroup
		for i := 0; i < k; i++ {
			wg.Add(1)
			go func(i int) {
				defer wg.Done()
				results[i] = s.do(call{kind: "read", fidn: uint32(100 + i), offset: uint64(7 * i), count: uint32(20 + i)})
			}(i)
		}
		reqs := s.p.Collect(k, W)
		if len(reqs) != k {
			res.Inconclusive = "c10: requests missing"
			s.close()
			return res
		}
		// one segment: the complete reply to the first request and the first bytes of the reply to the second
		first := wire.Encode(withTag(s.p.Answer(reqs[0].Msg), reqs[0].Msg.Tag), dotu)
		second := wire.Encode(withTag(s.p.Answer(reqs[1].Msg), reqs[1].Msg.Tag), dotu)
		part := 1 + round%(len(second)-1)
		seg := append(append([]byte{}, first...), second[:part]...)
		var once sync.Once
		s.p.Cli.OnRead = func(n int) {
			if n == len(seg) {
				once.Do(func() { s.c.Unmount() })
			}
		}
		s.p.SendRaw(seg)
		done := make(chan struct{})
		go func() { wg.Wait(); close(done) }()
		res.Evals++
		det := map[string]interface{}{"calls": k, "dotu": dotu, "bytes_of_second_reply": part}
		select {
		case <-done:
		case <-time.After(W):
			res.Inconclusive = "c10: calls did not return after Unmount (judged by the hang scenarios)"
			s.p.Srv.Close()
			return res
		}
		// which call got the first request? (requests reach the peer in any order)
		fi := int(reqs[0].Msg.Fid) - 100
		if fi < 0 || fi >= k {
			res.Inconclusive = "c10: unexpected fid"
			s.close()
			return res
		}
		if results[fi] != "" {
			res.Violate("C10;unmount-after-reply;complete-reply-lost", fmt.Sprintf("the reply to a call had been read from the transport completely when Unmount was called; the call returned %q", results[fi]), det)
		}
		for i := 0; i < k; i++ {
			if i != fi && results[i] == "" {
				res.Violate("C10;unmount-after-reply;success-without-reply", "a call whose reply had not (or only partly) arrived when Unmount was called returned success", det)
			}
		}
		if r := s.do(call{kind: "stat", fidn: 1}); r == "" {
			res.Violate("C10;unmount-after-reply;later-call-succeeds", "a call after Unmount returned success", det)
		}
		res.Sig(fmt.Sprintf("unmount-after-reply|k=%d|dotu=%v|part=%d", k, dotu, part))
		s.p.Srv.Close()
	}
	return res
}

func withTag(m *wire.Msg, tag uint16) *wire.Msg { m.Tag = tag; return m }

// c10ManyLaterCalls: "every later call returns an error" — also the 70 000th one. After the connection failed, calls
// of every kind are issued one after the other; each must return an error. A caller that makes no progress for 5 s
// while parked in the client library (two goroutine dumps) is a call that never returns.
func c10ManyLaterCalls(ctx *core.Ctx) core.Result {
	var res core.Result
	for _, how := range []string{"close", "unmount"} {
		s, err := connect(1024, true, true)
		if err != nil {
			res.Inconclusive = "c10: " + err.Error()
			return res
		}
		if msg := s.do(call{kind: "read", fidn: 5, offset: 1, count: 9}); msg != "" {
			res.Inconclusive = "c10 later calls: the connection does not work: " + msg
			s.close()
			return res
		}
		switch how {
		case "close":
			s.p.Srv.Close()
		case "unmount":
			s.c.Unmount()
		}
		// the failure has been noticed when a call fails
		noticed := waitUntil(func() bool { _, e := s.c.Stat(s.fid(6)); return e != nil }, W)
		if !noticed {
			res.Inconclusive = "c10 later calls: the failure was never noticed"
			s.close()
			return res
		}
		const N = 70000
		var progress, succeeded int64
		fin := make(chan struct{})
		base := stuckDump()
		go func() {
			defer close(fin)
			f := s.fid(7)
			for i := 0; i < N; i++ {
				var e error
				switch i % 5 {
				case 0:
					_, e = s.c.Stat(f)
				case 1:
					_, e = s.c.Read(f, 0, 10)
				case 2:
					_, e = s.c.Write(f, []byte("x"), 0)
				case 3:
					e = s.c.Open(f, 0)
				case 4:
					e = s.c.Remove(f)
				}
				if e == nil {
					atomic.AddInt64(&succeeded, 1)
				}
				atomic.AddInt64(&progress, 1)
			}
		}()
		last, idle := int64(-1), 0
		stuck := ""
	watch:
		for {
			select {
			case <-fin:
				break watch
			case <-time.After(time.Second):
			}
			ctx.Beat()
			now := atomic.LoadInt64(&progress)
			if now != last {
				last, idle = now, 0
				continue
			}
			idle++
			if idle >= 5 {
				d1 := stuckDump()
				time.Sleep(500 * time.Millisecond)
				d2 := stuckDump()
				for id, st := range d1 {
					if _, old := base[id]; old {
						continue
					}
					if st2, ok := d2[id]; ok && firstLine(st2) == firstLine(st) && atomic.LoadInt64(&progress) == now {
						stuck = st2
					}
				}
				if stuck != "" {
					break watch
				}
				if idle > 60 {
					res.Inconclusive = "c10 later calls: no progress, and no caller parked in the client library"
					break watch
				}
			}
		}
		res.Evals += int(atomic.LoadInt64(&progress))
		if stuck != "" {
			res.Violate("C10;hang;later-call;"+how, fmt.Sprintf("after the connection failed (%s), later call number %d never returned", how, last+1), stuck)
		}
		if n := atomic.LoadInt64(&succeeded); n > 0 {
			res.Violate("C10;later-call-succeeded;"+how, fmt.Sprintf("%d calls issued after the connection failed returned success", n), nil)
		}
		res.Sig("many-later-calls|" + how)
		if stuck == "" {
			s.close()
		}
	}
	res.Sample(map[string]interface{}{"scenario": "70 000 calls after the connection failed", "ways": "peer closes, Unmount"})
	return res
}

// unmountDetached: the harness's own cleanup must not hang on a client that is stuck (the scenario has been judged by
// then).
func unmountDetached(c *go9p.Clnt) {
	done := make(chan struct{})
	go func() { c.Unmount(); close(done) }()
	select {
	case <-done:
	case <-time.After(2 * time.Second):
	}
}
