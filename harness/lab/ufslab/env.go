// Package ufslab runs the bundled Unix file server (Ufs) on scratch trees
// in-process and talks to it both through go9p's client library and through
// the raw connection of srvlab with the independent codec: C14..C18.
package ufslab

import (
	"fmt"
	"os"
	"path/filepath"
	"sync"
	"time"

	"github.com/rminnich/go9p"

	"verif/core"
	"verif/lab/srvlab"
	"verif/memconn"
	"verif/wire"
)

const W = 15 * time.Second

type env struct {
	nclients int
	root string
	dotu bool // server side
	s    *srvlab.Sess
}

// newEnv exports dir (created if needed) through a fresh in-process Ufs.
// serverOffersDotu: the server of the running case offers 9P2000.u whatever dialect the case's clients ask for (a
// worker runs one case at a time): sessions of plain-9P2000 clients against a .u-capable server.
var serverOffersDotu bool

// serverMsize > 0: the server of the running case has that msize, whatever its clients ask for (negotiation lowers
// the clients' proposal).
var serverMsize uint32

// rootSpelling: "" or how the server's Root is configured although it designates the same directory ("trailing-slash",
// "dot-element").
var rootSpelling string

func newEnv(ctx *core.Ctx, name string, srvDotu bool, srvMsize uint32) (*env, error) {
	if serverOffersDotu {
		srvDotu = true
	}
	if serverMsize > 0 {
		srvMsize = serverMsize
	}
	root := filepath.Join(ctx.Scratch, fmt.Sprintf("%s-%d", name, ctx.Index))
	_ = os.RemoveAll(root)
	if err := os.MkdirAll(root, 0o755); err != nil {
		return nil, err
	}
	exported := root
	switch rootSpelling {
	case "trailing-slash":
		exported = root + "/"
	case "dot-element":
		exported = filepath.Dir(root) + "/./" + filepath.Base(root)
	}
	return &env{root: root, dotu: srvDotu, s: srvlab.NewUfsSess(exported, srvDotu, srvMsize)}, nil
}

func (e *env) cleanup() {
	// make everything removable again (tests chmod things)
	_ = filepath.Walk(e.root, func(p string, fi os.FileInfo, err error) error {
		if err == nil && fi.IsDir() {
			_ = os.Chmod(p, 0o755)
		}
		return nil
	})
	_ = os.RemoveAll(e.root)
}

// livePipe: a connection of the library's client to the server under test, as the dead-connection monitor sees it.
type livePipe struct {
	cli, srv *memconn.End
	clnt     *go9p.Clnt
}

var (
	liveMu    sync.Mutex
	livePipes []*livePipe
)

// guarded runs a case whose steps are blocking calls of the library's client. A call that can never return would
// only show as a worker that stopped making progress (inconclusive); the monitor decides it on the state of the
// connection instead: a call is outstanding at the client while nothing moves on the connection any more — no Read
// call is made on either end, no byte is delivered or queued — over 24 consecutive samples half a second apart.
// (The case keeps hanging in its goroutine; the worker goes on with the next case.)
func guarded(prop string, run func(ctx *core.Ctx) core.Result) func(ctx *core.Ctx) core.Result {
	return func(ctx *core.Ctx) core.Result {
		liveMu.Lock()
		livePipes = nil
		liveMu.Unlock()
		done := make(chan core.Result, 1)
		go func() { done <- run(ctx) }()
		type snap struct {
			out  int
			a, b [3]int64
		}
		last := map[*livePipe]snap{}
		same := map[*livePipe]int{}
		tick := time.NewTicker(500 * time.Millisecond)
		defer tick.Stop()
		for {
			select {
			case r := <-done:
				return r
			case <-tick.C:
			}
			liveMu.Lock()
			pipes := append([]*livePipe(nil), livePipes...)
			liveMu.Unlock()
			for _, p := range pipes {
				out := 0
				oc := make(chan int, 1)
				go func() { o, _, _ := p.clnt.VerifCounts(); oc <- o }() // detached: the client's lock may be held for good
				select {
				case out = <-oc:
				case <-time.After(200 * time.Millisecond):
					continue
				}
				now := snap{out, p.cli.Activity(), p.srv.Activity()}
				if prev, ok := last[p]; ok && prev == now && now.out > 0 {
					same[p]++
				} else {
					same[p] = 0
				}
				last[p] = now
				if same[p] >= 24 {
					var res core.Result
					res.Evals = 1
					res.Violate(prop+";connection-dead", fmt.Sprintf("%d call(s) of the client are outstanding and nothing moves on the connection any more: no Read call on either end, client side inbound %v, server side inbound %v (calls, bytes read, bytes queued) over %d samples — the transfer can never complete",
						now.out, now.a, now.b, same[p]), map[string]interface{}{"case": ctx.Index})
					return res
				}
			}
		}
	}
}

// client connects go9p's client library to the server and attaches (clnt.Root is set).
func (e *env) client(msize uint32, dotu bool) (*go9p.Clnt, error) {
	cli, srv := memconn.Pipe("client", "ufs")
	e.s.Srv.NewConn(srv)
	e.nclients++
	if dotu && msize > go9p.IOHDRSZ && e.nclients%3 == 0 {
		// every third .u client comes in through the library's one-call helper (negotiate + attach)
		c, err := go9p.MountConn(cli, "", msize-go9p.IOHDRSZ, go9p.OsUsers.Uid2User(0))
		if err != nil {
			return nil, err
		}
		liveMu.Lock()
		livePipes = append(livePipes, &livePipe{cli: cli, srv: srv, clnt: c})
		liveMu.Unlock()
		return c, nil
	}
	c, err := go9p.Connect(cli, msize, dotu)
	if err != nil {
		return nil, err
	}
	liveMu.Lock()
	livePipes = append(livePipes, &livePipe{cli: cli, srv: srv, clnt: c})
	liveMu.Unlock()
	root, err := c.Attach(nil, go9p.OsUsers.Uid2User(0), "")
	if err != nil {
		c.Unmount()
		return nil, err
	}
	c.Root = root
	return c, nil
}

// raw opens a raw connection (independent codec), negotiates and attaches fid 0 to the root.
func (e *env) raw(msize uint32, dotu bool) (*srvlab.CConn, error) {
	c := e.s.Dial()
	ver := "9P2000"
	if dotu {
		ver = "9P2000.u"
	}
	r, err := c.Version(msize, ver, W)
	if err != nil || r.Msg == nil || r.Msg.Type != wire.Rversion {
		return nil, fmt.Errorf("version failed: %v", err)
	}
	a, err := c.Rpc(&wire.Msg{Type: wire.Tattach, Tag: 1, Fid: 0, Afid: wire.NOFID, Uname: "root", Nuname: 0}, W)
	if err != nil || a.Msg == nil || a.Msg.Type != wire.Rattach {
		return nil, fmt.Errorf("attach failed: %v", err)
	}
	return c, nil
}

type rawc struct {
	c   *srvlab.CConn
	tag uint16
}

func (r *rawc) rpc(m *wire.Msg) *wire.Msg {
	r.tag++
	if r.tag >= 0xFFF0 {
		r.tag = 10
	}
	m.Tag = r.tag
	rep, err := r.c.Rpc(m, W)
	if err != nil || rep == nil {
		return nil
	}
	if rep.Msg == nil {
		return &wire.Msg{Type: 0, Ename: "undecodable reply: " + rep.Err.Error()}
	}
	return rep.Msg
}
