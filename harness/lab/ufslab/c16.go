package ufslab

import (
	"fmt"
	"os"
	"path/filepath"
	"runtime"
	"strings"
	"sync"
	"syscall"
	"time"

	"github.com/rminnich/go9p"

	"verif/core"
	"verif/lab/srvlab"
	"verif/wire"
)

func init() {
	core.Register(&core.Engine{
		Property: "C16",
		Level:    "exploration",
		Rule: "seeded random trees under the exported root (nesting up to 40 levels, names with spaces, non-ASCII bytes, dots, 255 bytes; files, directories, in-tree symlinks, hard links) served by the " +
			"real Ufs: raw Twalk with 0..16 elements of which a prefix of every length exists, in place and to a new fid, from the root and from inner directories; Rwalk qids and the Rstat of fid and " +
			"newfid afterwards are compared with os.Lstat of the corresponding host paths (count of qids, dir/symlink bits, qid path equal for the same inode and different for different ones, length, " +
			"permission bits, mtime, name); through the client, FWalk/FStat of paths of every depth (split into several Twalks) are compared with Lstat. " +
			"distinct = (tree seed, walk length, existing prefix length, in place / new fid, object kind, dialect)",
		Assumptions: []string{
			"not compared because the statement is silent or the host decides: uid/gid/muid strings, atime, qid.version, the length reported for directories; DMSYMLINK in the mode word only in 9P2000.u",
		},
		Cases:       c16Cases,
		MinDistinct: 100,
		Jobs:        8,
	})
}

func c16Cases(tier string, seed int64) []core.Case {
	var cases []core.Case
	ntrees := 12
	if tier == "thorough" {
		ntrees = 40
	}
	for t := 0; t < ntrees; t++ {
		for _, dotu := range []bool{true, false} {
			t, dotu := t, dotu
			cases = append(cases, core.Case{ID: fmt.Sprintf("tree/%d/dotu=%v", t, dotu), Run: func(ctx *core.Ctx) core.Result { return c16Run(ctx, t, dotu) }})
		}
	}
	for t, sp := range []string{"trailing-slash", "dot-element"} {
		t, sp := t, sp
		cases = append(cases, core.Case{ID: fmt.Sprintf("tree/%d/root-%s", t, sp), Run: func(ctx *core.Ctx) core.Result {
			rootSpelling = sp
			defer func() { rootSpelling = "" }()
			return c16Run(ctx, t, t == 0)
		}})
	}
	for t := 0; t < 2; t++ {
		t := t
		cases = append(cases, core.Case{ID: fmt.Sprintf("tree/%d/plain-client-of-dotu-server", t), Run: func(ctx *core.Ctx) core.Result {
			serverOffersDotu = true
			defer func() { serverOffersDotu = false }()
			return c16Run(ctx, t, false)
		}})
	}
	for _, dotu := range []bool{true, false} {
		dotu := dotu
		cases = append(cases, core.Case{ID: fmt.Sprintf("walks-behind-a-request-that-moves-the-fid/dotu=%v", dotu), Run: func(ctx *core.Ctx) core.Result { return c16BusyFid(ctx, dotu) }})
	}
	for i := range cases {
		cases[i].Run = guarded("C16", cases[i].Run)
	}
	return cases
}

type node struct {
	rel  string // path relative to the root, "" for the root
	kind string // dir file symlink
}

var oddNames = []string{"plain", "with space", "dot.ted", ".hidden", "naïve-ü", "tab\there", "trailing.", "UPPER", "a", "ünï", "semi;colon", "star*", "q?mark", "back\\slash", "new\nline", "..data", "...", "..2"}

// buildTree creates a random tree and returns its nodes.
func buildTree(root string, r *core.Rand, deep bool) []node {
	nodes := []node{{"", "dir"}}
	dirs := []string{""}
	name := func(i int) string {
		switch r.Intn(12) {
		case 0:
			return strings.Repeat("L", 255-4) + fmt.Sprintf("%04d", i)
		case 1, 2, 3:
			return fmt.Sprintf("%s-%d", oddNames[r.Intn(len(oddNames))], i)
		}
		return fmt.Sprintf("n%d", i)
	}
	n := 60
	for i := 0; i < n; i++ {
		parent := dirs[r.Intn(len(dirs))]
		nm := name(i)
		rel := filepath.Join(parent, nm)
		full := filepath.Join(root, rel)
		if len(full) > 3800 {
			continue
		}
		switch r.Intn(10) {
		case 0, 1, 2, 3:
			if os.Mkdir(full, os.FileMode(0o700|r.Intn(0o100))) == nil {
				// some directories carry mode bits beyond the nine permission bits (a /tmp-like sticky directory, a
				// setgid team directory): they are directories all the same
				if r.Intn(3) == 0 {
					special := []os.FileMode{os.ModeSticky, os.ModeSetgid, os.ModeSetuid, os.ModeSticky | os.ModeSetgid}[r.Intn(4)]
					_ = os.Chmod(full, os.FileMode(0o700|r.Intn(0o100))|special)
				}
				nodes = append(nodes, node{rel, "dir"})
				dirs = append(dirs, rel)
			}
		case 6:
			// a named pipe: neither directory nor symlink (never opened here)
			if syscall.Mkfifo(full, 0o640) == nil {
				nodes = append(nodes, node{rel, "fifo"})
			}
		case 4:
			// symlink to something in the tree (relative target)
			tgt := nodes[r.Intn(len(nodes))]
			up := strings.Repeat("../", strings.Count(parent, "/")+btoi(parent != ""))
			if os.Symlink(up+tgt.rel, full) == nil {
				nodes = append(nodes, node{rel, "symlink"})
			}
		case 5:
			// hard link to an existing file
			var files []node
			for _, nd := range nodes {
				if nd.kind == "file" {
					files = append(files, nd)
				}
			}
			if len(files) > 0 {
				src := files[r.Intn(len(files))]
				if os.Link(filepath.Join(root, src.rel), full) == nil {
					nodes = append(nodes, node{rel, "file"})
				}
			}
		default:
			if os.WriteFile(full, r.Bytes(r.Intn(3000)), os.FileMode(0o600|r.Intn(0o200))) == nil {
				if r.Intn(5) == 0 {
					_ = os.Chmod(full, os.FileMode(0o600|r.Intn(0o200))|[]os.FileMode{os.ModeSetuid, os.ModeSetgid, os.ModeSticky}[r.Intn(3)])
				}
				nodes = append(nodes, node{rel, "file"})
			}
		}
	}
	// at least one link to a directory that has children, at the top and one level down
	if len(dirs) > 2 {
		for li, where := range []string{"", dirs[1]} {
			tgt := dirs[len(dirs)-1-li]
			rel := filepath.Join(where, fmt.Sprintf("lnk-to-dir-%d", li))
			up := strings.Repeat("../", strings.Count(where, "/")+btoi(where != ""))
			if os.Symlink(up+tgt, filepath.Join(root, rel)) == nil {
				nodes = append(nodes, node{rel, "symlink"})
				_ = os.WriteFile(filepath.Join(root, tgt, fmt.Sprintf("behind-link-%d", li)), []byte("behind"), 0o644)
				nodes = append(nodes, node{filepath.Join(tgt, fmt.Sprintf("behind-link-%d", li)), "file"})
			}
		}
	}
	// names that begin with two dots and are not "..", directly under the root and one level down
	for _, base := range []string{"", "dotdotnames"} {
		if base != "" {
			if os.Mkdir(filepath.Join(root, base), 0o755) != nil {
				continue
			}
			nodes = append(nodes, node{base, "dir"})
		}
		if os.WriteFile(filepath.Join(root, base, "..data"), []byte("two dots and a name"), 0o644) == nil {
			nodes = append(nodes, node{filepath.Join(base, "..data"), "file"})
		}
		if os.Mkdir(filepath.Join(root, base, "..."), 0o755) == nil {
			nodes = append(nodes, node{filepath.Join(base, "..."), "dir"})
			if os.WriteFile(filepath.Join(root, base, "...", "..in"), []byte("x"), 0o600) == nil {
				nodes = append(nodes, node{filepath.Join(base, "...", "..in"), "file"})
			}
		}
		if os.Symlink("..data", filepath.Join(root, base, "..link")) == nil {
			nodes = append(nodes, node{filepath.Join(base, "..link"), "symlink"})
		}
	}
	if deep {
		// a chain of 40 nested directories with a file at the bottom
		rel := ""
		for d := 0; d < 40; d++ {
			rel = filepath.Join(rel, fmt.Sprintf("deep%02d", d))
			if os.Mkdir(filepath.Join(root, rel), 0o755) != nil {
				break
			}
			nodes = append(nodes, node{rel, "dir"})
		}
		if os.WriteFile(filepath.Join(root, rel, "bottom"), []byte("bottom"), 0o644) == nil {
			nodes = append(nodes, node{filepath.Join(rel, "bottom"), "file"})
		}
	}
	return nodes
}

func btoi(b bool) int {
	if b {
		return 1
	}
	return 0
}

func split(rel string) []string {
	if rel == "" {
		return []string{}
	}
	return strings.Split(rel, "/")
}

// checkQid compares a qid with the Lstat of the host path.
func checkQid(q wire.Qid, fi os.FileInfo) string {
	st := fi.Sys().(*syscall.Stat_t)
	if (q.Type&0x80 != 0) != fi.IsDir() {
		return fmt.Sprintf("directory bit %v, host says dir=%v", q.Type&0x80 != 0, fi.IsDir())
	}
	if (q.Type&0x02 != 0) != (fi.Mode()&os.ModeSymlink != 0) {
		return fmt.Sprintf("symlink bit %v, host says symlink=%v", q.Type&0x02 != 0, fi.Mode()&os.ModeSymlink != 0)
	}
	if q.Path != st.Ino {
		return fmt.Sprintf("qid path %d, host inode %d", q.Path, st.Ino)
	}
	return ""
}

// checkStat compares an Rstat with the Lstat of the host path.
func checkStat(s *wire.Stat, fi os.FileInfo, base string, dotu bool) string {
	if e := checkQid(s.Qid, fi); e != "" {
		return "stat qid: " + e
	}
	if (s.Mode&0x80000000 != 0) != fi.IsDir() {
		return "DMDIR bit disagrees with the host"
	}
	if dotu && (s.Mode&0x02000000 != 0) != (fi.Mode()&os.ModeSymlink != 0) {
		return "DMSYMLINK bit disagrees with the host"
	}
	if s.Mode&0o777 != uint32(fi.Mode().Perm()) {
		return fmt.Sprintf("permission bits %o, host %o", s.Mode&0o777, fi.Mode().Perm())
	}
	// the whole mode word: nine permission bits, DMDIR, and — in 9P2000.u only — the Unix kinds and set-id bits of
	// the host object; a connection that negotiated plain 9P2000 sees none of the .u bits whatever the server can speak
	want := uint32(fi.Mode().Perm())
	if fi.IsDir() {
		want |= 0x80000000
	}
	if dotu {
		for _, b := range []struct {
			host os.FileMode
			bit  uint32
		}{{os.ModeSymlink, 0x02000000}, {os.ModeSocket, 0x00100000}, {os.ModeNamedPipe, 0x00200000}, {os.ModeDevice, 0x00800000}, {os.ModeSetuid, 0x00080000}, {os.ModeSetgid, 0x00040000}} {
			if fi.Mode()&b.host != 0 {
				want |= b.bit
			}
		}
	}
	if s.Mode != want {
		return fmt.Sprintf("mode word %#x, the host object in this dialect is %#x", s.Mode, want)
	}
	if !fi.IsDir() && s.Length != uint64(fi.Size()) {
		return fmt.Sprintf("length %d, host %d", s.Length, fi.Size())
	}
	if s.Mtime != uint32(fi.ModTime().Unix()) {
		return fmt.Sprintf("mtime %d, host %d", s.Mtime, fi.ModTime().Unix())
	}
	if s.Name != base {
		return fmt.Sprintf("name %q, host %q", short(s.Name), short(base))
	}
	return ""
}

func short(s string) string {
	if len(s) > 40 {
		return s[:40] + "…"
	}
	return s
}

func c16Run(ctx *core.Ctx, tree int, dotu bool) core.Result {
	var res core.Result
	e, err := newEnv(ctx, "c16", dotu, 1<<20)
	if err != nil {
		res.Inconclusive = err.Error()
		return res
	}
	defer e.cleanup()
	r := core.NewRand(ctx.Seed, fmt.Sprintf("c16/%d", tree))
	nodes := buildTree(e.root, r, tree%2 == 0)
	rc, err := e.raw(8192, dotu)
	if err != nil {
		res.Inconclusive = err.Error()
		return res
	}
	rr := &rawc{c: rc}
	fail := func(sig, what string) {
		res.Violate("C16;"+sig, fmt.Sprintf("%s [tree %d, dotu %v]", what, tree, dotu), nil)
	}
	lstat := func(rel string) os.FileInfo {
		fi, err := os.Lstat(filepath.Join(e.root, rel))
		if err != nil {
			return nil
		}
		return fi
	}
	rootName := filepath.Base(e.root)
	baseOf := func(rel string) string {
		if rel == "" {
			return rootName
		}
		return filepath.Base(rel)
	}
	statIs := func(fid uint32, rel, what, sig string) {
		st := rr.rpc(&wire.Msg{Type: wire.Tstat, Fid: fid})
		fi := lstat(rel)
		if st == nil || st.Type != wire.Rstat || fi == nil {
			fail(sig+";stat-failed", fmt.Sprintf("%s: stat of fid answered %v", what, st))
			return
		}
		if e := checkStat(&st.Stat, fi, baseOf(rel), dotu); e != "" {
			fail(sig, fmt.Sprintf("%s: fid should designate %q but %s", what, short(rel), e))
		}
		res.Count("stats_compared", 1)
	}
	// ".." is a name too: from the root it designates the root, below it the parent; the fid reached that way is the
	// same object with the same stat as the one reached by its plain path
	{
		var dirs []string
		for _, nd := range nodes {
			if nd.kind == "dir" && len(split(nd.rel)) <= 3 {
				dirs = append(dirs, nd.rel)
			}
		}
		if len(dirs) > 6 {
			dirs = dirs[:6]
		}
		type dd struct {
			names []string
			rel   string
		}
		cases := []dd{{[]string{".."}, ""}, {[]string{"..", ".."}, ""}}
		for _, d := range dirs {
			comps := split(d)
			up := append(append([]string{}, comps...), "..")
			cases = append(cases, dd{up, filepath.Dir(d)})
			all := append([]string{}, comps...)
			for range comps {
				all = append(all, "..")
			}
			cases = append(cases, dd{append(all, ".."), ""})
			// "." names the directory it is walked in: at the end, in the middle, several in a row
			cases = append(cases, dd{append(append([]string{}, comps...), "."), d})
			cases = append(cases, dd{append(append([]string{}, comps...), ".", "."), d})
			if len(comps) > 1 {
				mid := append(append(append([]string{}, comps[:1]...), "."), comps[1:]...)
				cases = append(cases, dd{mid, d})
			}
		}
		cases = append(cases, dd{[]string{"."}, ""}, dd{[]string{".", ".."}, ""})
		for _, cse := range cases {
			rel := cse.rel
			if rel == "." {
				rel = ""
			}
			if len(cse.names) > 16 {
				continue
			}
			for _, inplace := range []bool{false, true} {
				if inplace {
					if w := rr.rpc(&wire.Msg{Type: wire.Twalk, Fid: 0, Newfid: 13}); w == nil || w.Type != wire.Rwalk {
						continue
					}
					w := rr.rpc(&wire.Msg{Type: wire.Twalk, Fid: 13, Newfid: 13, Wname: cse.names})
					res.Evals++
					if w != nil && w.Type == wire.Rwalk && len(w.Wqid) == len(cse.names) {
						statIs(13, rel, fmt.Sprintf("walk %q in place", cse.names), "dotdot-walk;inplace")
					} else {
						fail("dotdot-walk;refused", fmt.Sprintf("walk %q answered %v", cse.names, w))
					}
					rr.rpc(&wire.Msg{Type: wire.Tclunk, Fid: 13})
				} else {
					w := rr.rpc(&wire.Msg{Type: wire.Twalk, Fid: 0, Newfid: 13, Wname: cse.names})
					res.Evals++
					if w != nil && w.Type == wire.Rwalk && len(w.Wqid) == len(cse.names) {
						statIs(13, rel, fmt.Sprintf("walk %q", cse.names), "dotdot-walk;newfid")
						rr.rpc(&wire.Msg{Type: wire.Tclunk, Fid: 13})
					} else {
						fail("dotdot-walk;refused", fmt.Sprintf("walk %q answered %v", cse.names, w))
					}
				}
			}
			res.Sig(fmt.Sprintf("dotdot|%d|%v|%d", tree, dotu, len(cse.names)))
		}
	}
	// "." and ".." exist in directories only: after a file (a named pipe, a link to a file) they name nothing — the host
	// says ENOTDIR — so the walk ends before them
	{
		n := 0
		for _, nd := range nodes {
			if nd.kind == "dir" || nd.rel == "" || n >= 8 {
				continue
			}
			fi, err := os.Stat(filepath.Join(e.root, nd.rel)) // follows a final link
			if err == nil && fi.IsDir() {
				continue
			}
			comps := split(nd.rel)
			if len(comps) > 12 {
				continue
			}
			n++
			for _, tail := range [][]string{{"."}, {".."}, {".", "."}, {"..", comps[0]}} {
				names := append(append([]string{}, comps...), tail...)
				if _, lerr := os.Lstat(e.root + "/" + strings.Join(names, "/")); lerr == nil {
					continue
				}
				w := rr.rpc(&wire.Msg{Type: wire.Twalk, Fid: 0, Newfid: 13, Wname: names})
				res.Evals++
				if w != nil && w.Type == wire.Rwalk && len(w.Wqid) > len(comps) {
					fail("dot-after-non-directory;"+nd.kind, fmt.Sprintf("walk %q: %d qids, although %q is a %s and has no %q in it (Lstat of the path: not a directory)", names, len(w.Wqid), short(nd.rel), nd.kind, tail[0]))
				}
				if w != nil && w.Type == wire.Rwalk && len(w.Wqid) == len(names) {
					rr.rpc(&wire.Msg{Type: wire.Tclunk, Fid: 13})
				}
			}
			res.Sig(fmt.Sprintf("dot-after-file|%d|%v|%s", tree, dotu, nd.kind))
		}
	}
	// paths that lead THROUGH a symbolic link to a directory (the host resolves them; so must a walk)
	var through []node
	for _, ln := range nodes {
		if ln.kind != "symlink" {
			continue
		}
		fi, err := os.Stat(filepath.Join(e.root, ln.rel)) // follows the link
		if err != nil || !fi.IsDir() {
			continue
		}
		real, err := filepath.EvalSymlinks(filepath.Join(e.root, ln.rel))
		if err != nil {
			continue
		}
		realRel, err := filepath.Rel(e.root, real)
		if err != nil || strings.HasPrefix(realRel, "..") {
			continue
		}
		if realRel == "." {
			realRel = ""
		}
		for _, d := range nodes {
			if d.rel == realRel || d.rel == "" {
				continue
			}
			if realRel == "" || strings.HasPrefix(d.rel, realRel+"/") {
				sub := strings.TrimPrefix(strings.TrimPrefix(d.rel, realRel), "/")
				if v := filepath.Join(ln.rel, sub); len(split(v)) <= 30 && lstat(v) != nil {
					through = append(through, node{v, d.kind})
				}
			}
		}
	}
	res.Count("paths_through_symlinks", int64(len(through)))
	// ---- walks: from a start directory, k elements of which the first p exist
	for wi := 0; wi < 260 && len(res.Violations) < 4; wi++ {
		if wi%40 == 0 {
			ctx.Beat()
		}
		target := nodes[r.Intn(len(nodes))]
		if len(through) > 0 && wi%4 == 3 {
			target = through[r.Intn(len(through))]
		}
		comps := split(target.rel)
		// start somewhere on the way
		s := 0
		if len(comps) > 0 {
			s = r.Intn(len(comps) + 1)
		}
		if len(comps)-s > 16 {
			s = len(comps) - r.Intn(17)
		}
		startRel := strings.Join(comps[:s], "/")
		if fi := lstat(startRel); fi == nil || !fi.IsDir() {
			continue
		}
		names := append([]string{}, comps[s:]...)
		exist := len(names)
		// make the walk partial by appending names that do not exist / replacing a component
		switch r.Intn(4) {
		case 0:
			for len(names) < 16 && r.Intn(3) != 0 {
				names = append(names, fmt.Sprintf("missing%d", len(names)))
			}
		case 1:
			if len(names) > 0 {
				cut := r.Intn(len(names))
				names[cut] = "nonexistent-name"
				exist = cut
			}
		}
		if target.kind != "dir" && exist == len(comps)-s && len(names) > exist {
			// walking on below a file or symlink: the host decides whether more exists (symlinks to dirs do resolve)
			for exist < len(names) {
				if lstat(filepath.Join(startRel, strings.Join(names[:exist+1], "/"))) == nil {
					break
				}
				exist++
			}
		}
		// recompute what exists by asking the host (symlinks on the way resolve)
		exist = 0
		for exist < len(names) && lstat(filepath.Join(startRel, strings.Join(names[:exist+1], "/"))) != nil {
			exist++
		}
		inplace := r.Intn(3) == 0
		res.Evals++
		// fid 10 at the start directory
		if w := rr.rpc(&wire.Msg{Type: wire.Twalk, Fid: 0, Newfid: 10, Wname: split(startRel)}); w == nil || w.Type != wire.Rwalk || len(w.Wqid) != len(split(startRel)) {
			fail("setup-walk", fmt.Sprintf("cannot walk to existing directory %q: %v", short(startRel), w))
			continue
		}
		newfid := uint32(11)
		if inplace {
			newfid = 10
		}
		w := rr.rpc(&wire.Msg{Type: wire.Twalk, Fid: 10, Newfid: newfid, Wname: names})
		sig := fmt.Sprintf("k=%d;exist=%s;inplace=%v", min(len(names), 3), prefixClass(exist, len(names)), inplace)
		what := fmt.Sprintf("walk of %d names (first %d exist) from %q, %s", len(names), exist, short(startRel), map[bool]string{true: "in place", false: "to a new fid"}[inplace])
		switch {
		case w == nil:
			fail("walk-no-reply", what)
		case len(names) > 0 && exist == 0:
			if w.Type != wire.Rerror {
				fail("walk-first-missing;"+sig, what+fmt.Sprintf(": the first element does not exist but the reply is %s", w.String()))
			}
		case w.Type != wire.Rwalk:
			fail("walk-refused;"+sig, what+": answered "+w.String())
		case len(w.Wqid) != exist:
			fail("walk-qid-count;"+sig, what+fmt.Sprintf(": %d qids", len(w.Wqid)))
		default:
			for i, q := range w.Wqid {
				fi := lstat(filepath.Join(startRel, strings.Join(names[:i+1], "/")))
				if fi == nil {
					continue
				}
				if e := checkQid(q, fi); e != "" {
					fail("walk-qid;"+sig, what+fmt.Sprintf(": qid %d: %s", i, e))
					break
				}
				res.Count("qids_compared", 1)
			}
		}
		complete := w != nil && w.Type == wire.Rwalk && exist == len(names) && len(w.Wqid) == len(names)
		destRel := filepath.Join(startRel, strings.Join(names, "/"))
		if complete && wi%3 == 0 {
			// the object changes on the host between the walk and the stat (another process, another client): the stat
			// reports the object as it is when it is asked for
			if fi := lstat(destRel); fi != nil && (fi.Mode().IsRegular() || fi.IsDir()) {
				full := filepath.Join(e.root, destRel)
				_ = os.Chmod(full, fi.Mode().Perm()^0o040|fi.Mode()&(os.ModeSetuid|os.ModeSetgid|os.ModeSticky))
				if fi.Mode().IsRegular() {
					if fh, err := os.OpenFile(full, os.O_WRONLY|os.O_APPEND, 0); err == nil {
						_, _ = fh.Write([]byte("+++"))
						fh.Close()
					}
				}
				old := fi.ModTime().Add(-time.Duration(1000+wi) * time.Second)
				_ = os.Chtimes(full, old, old)
				what += " (the object was changed on the host after the walk)"
				sig += ";changed-after-walk"
				res.Count("objects_changed_between_walk_and_stat", 1)
			}
		}
		if complete {
			statIs(newfid, destRel, what+": after the complete walk the new fid", "walk-newfid-wrong;"+sig)
			if !inplace {
				statIs(10, startRel, what+": the source fid", "walk-moved-source;"+sig)
			}
		} else {
			// partial or failed: both fids are left as they were
			statIs(10, startRel, what+": after the incomplete walk the source fid", "partial-walk-moved-fid;"+sig)
			// … also in the sense that it can still be walked from: the existing prefix resolves again
			if exist >= 1 && w != nil && w.Type == wire.Rwalk {
				again := rr.rpc(&wire.Msg{Type: wire.Twalk, Fid: 10, Newfid: 12, Wname: names[:exist]})
				res.Evals++
				if again == nil || again.Type != wire.Rwalk || len(again.Wqid) != exist {
					fail("partial-walk-source-unusable;"+sig, what+fmt.Sprintf(": walking the existing prefix (%d names) again from the source fid answered %v", exist, again))
				} else {
					rr.rpc(&wire.Msg{Type: wire.Tclunk, Fid: 12})
				}
			}
			if !inplace {
				if st := rr.rpc(&wire.Msg{Type: wire.Tstat, Fid: 11}); st == nil || st.Type != wire.Rerror {
					fail("partial-walk-newfid-valid;"+sig, what+": the new fid is valid after an incomplete walk")
					rr.rpc(&wire.Msg{Type: wire.Tclunk, Fid: 11})
				}
			}
		}
		rr.rpc(&wire.Msg{Type: wire.Tclunk, Fid: 10})
		if complete && !inplace {
			rr.rpc(&wire.Msg{Type: wire.Tclunk, Fid: 11})
		}
		res.Sig(fmt.Sprintf("walk|%d|%v|%d|%d|%v|%s", tree, dotu, len(names), exist, inplace, target.kind))
		if wi == 5 {
			res.Sample(map[string]interface{}{"tree": tree, "dotu": dotu, "walk_names": len(names), "existing_prefix": exist, "in_place": inplace, "target_kind": target.kind})
		}
	}
	// ---- qid paths: equal for the same inode (hard links), different for different coexisting objects
	seen := map[uint64]uint64{} // inode -> qid path
	for _, nd := range nodes {
		w := rr.rpc(&wire.Msg{Type: wire.Twalk, Fid: 0, Newfid: 12, Wname: split(nd.rel)})
		fi := lstat(nd.rel)
		if w == nil || w.Type != wire.Rwalk || len(w.Wqid) != len(split(nd.rel)) || fi == nil {
			if len(split(nd.rel)) <= 16 {
				fail("node-walk", fmt.Sprintf("cannot walk to %q: %v", short(nd.rel), w))
			}
			continue
		}
		statIs(12, nd.rel, "object "+nd.kind, "stat-differs;"+nd.kind)
		if tfi, terr := os.Stat(filepath.Join(e.root, nd.rel)); nd.kind != "fifo" && (terr != nil || tfi.Mode()&os.ModeNamedPipe == 0) {
			// (not for a pipe, nor a link to one: opening it would wait for a writer)
			// … and still describes that object once the fid has been opened (for a symbolic link the open reaches
			// through to the target; the fid keeps designating the link)
			probe := uint32(14)
			if w2 := rr.rpc(&wire.Msg{Type: wire.Twalk, Fid: 12, Newfid: probe}); w2 != nil && w2.Type == wire.Rwalk {
				if o := rr.rpc(&wire.Msg{Type: wire.Topen, Fid: probe, Mode: 0}); o != nil && o.Type == wire.Ropen {
					statIs(probe, nd.rel, "object "+nd.kind+" through a fid that has been opened", "stat-differs-when-open;"+nd.kind)
					res.Count("stats_of_open_fids_compared", 1)
				}
				rr.rpc(&wire.Msg{Type: wire.Tclunk, Fid: probe})
			}
		}
		st := rr.rpc(&wire.Msg{Type: wire.Tstat, Fid: 12})
		if st != nil && st.Type == wire.Rstat {
			ino := fi.Sys().(*syscall.Stat_t).Ino
			if p, ok := seen[ino]; ok && p != st.Stat.Qid.Path {
				fail("qid-path-same-file", "two names of one file have different qid paths")
			}
			for i2, p2 := range seen {
				if i2 != ino && p2 == st.Stat.Qid.Path {
					fail("qid-path-collision", "two different files have the same qid path")
				}
			}
			seen[ino] = st.Stat.Qid.Path
		}
		rr.rpc(&wire.Msg{Type: wire.Tclunk, Fid: 12})
		res.Evals++
		res.Sig(fmt.Sprintf("stat|%d|%v|%s|depth%d", tree, dotu, nd.kind, min(len(split(nd.rel)), 20)))
	}
	rc.Hangup()
	// ---- through the client: paths of any depth
	c, err := e.client(8192, dotu)
	if err != nil {
		res.Inconclusive = err.Error()
		return res
	}
	defer c.Unmount()
	for _, nd := range append(append([]node{}, nodes...), through...) {
		if len(res.Violations) > 5 {
			break
		}
		fi := lstat(nd.rel)
		if fi == nil {
			continue
		}
		p := nd.rel
		if r.Intn(3) == 0 {
			p = "/" + strings.ReplaceAll(p, "/", "//")
		}
		d, err := c.FStat(p)
		res.Evals++
		if err != nil {
			fail("client-fstat-failed;"+nd.kind, fmt.Sprintf("FStat(%q) of an existing %s: %v", short(nd.rel), nd.kind, err))
			continue
		}
		ws := wire.Stat{Qid: wire.Qid{Type: d.Qid.Type, Version: d.Qid.Version, Path: d.Qid.Path}, Mode: d.Mode, Length: d.Length, Mtime: d.Mtime, Name: d.Name}
		if e := checkStat(&ws, fi, baseOf(nd.rel), c.Dotu); e != "" {
			fail("client-fstat-differs;"+nd.kind, fmt.Sprintf("FStat(%q): %s", short(nd.rel), e))
		}
		res.Sig(fmt.Sprintf("fstat|%d|%v|%s|depth%d", tree, dotu, nd.kind, len(split(nd.rel))))
		// a path that does not exist below it
		if _, err := c.FStat(nd.rel + "/no-such-child/deeper"); err == nil {
			fail("client-fstat-missing-succeeds", "FStat of a path that does not exist succeeded")
		}
		// … also when the missing element is followed by dot-dot: the local path does not resolve (the kernel looks
		// every element up), so the client path must not either
		for _, sfx := range []string{"/no-such-child/..", "/no-such-child/../.", "/no-such-child/../no-such-child/.."} {
			if _, lerr := os.Lstat(e.root + "/" + nd.rel + sfx); lerr == nil {
				continue
			}
			res.Evals++
			if _, err := c.FStat(nd.rel + sfx); err == nil {
				fail("client-fstat-missing-dotdot-succeeds", fmt.Sprintf("FStat(%q): the path has an element that does not exist, Lstat fails, the client resolved it", short(nd.rel)+sfx))
			}
		}
	}
	// the same through several goroutines that share the client (after the deep paths above have been resolved
	// through it): every name still resolves to its own object
	{
		var wg sync.WaitGroup
		var mu sync.Mutex
		all := append(append([]node{}, nodes...), through...)
		for g := 0; g < 8; g++ {
			wg.Add(1)
			go func(g int) {
				defer wg.Done()
				gr := core.NewRand(ctx.Seed, fmt.Sprintf("c16conc/%d/%v/%d", tree, dotu, g))
				for i := 0; i < 25; i++ {
					nd := all[gr.Intn(len(all))]
					fi := lstat(nd.rel)
					if fi == nil {
						continue
					}
					d, err := c.FStat(nd.rel)
					mu.Lock()
					res.Evals++
					if err != nil {
						if len(res.Violations) < 6 {
							fail("client-fstat-failed;concurrent;"+nd.kind, fmt.Sprintf("FStat(%q) of an existing %s by one of 8 goroutines sharing the client: %v", short(nd.rel), nd.kind, err))
						}
						mu.Unlock()
						continue
					}
					ws := wire.Stat{Qid: wire.Qid{Type: d.Qid.Type, Version: d.Qid.Version, Path: d.Qid.Path}, Mode: d.Mode, Length: d.Length, Mtime: d.Mtime, Name: d.Name}
					if e := checkStat(&ws, fi, baseOf(nd.rel), c.Dotu); e != "" && len(res.Violations) < 6 {
						fail("client-fstat-differs;concurrent;"+nd.kind, fmt.Sprintf("FStat(%q) by one of 8 goroutines sharing the client: %s", short(nd.rel), e))
					}
					mu.Unlock()
				}
			}(g)
		}
		done := make(chan struct{})
		go func() { wg.Wait(); close(done) }()
		select {
		case <-done:
		case <-time.After(4 * W):
			res.Inconclusive = "c16: concurrent FStats did not finish"
			return res
		}
		res.Count("concurrent_fstat_goroutines", 8)
	}
	// FWalk leaves a usable fid on the object
	for i := 0; i < 20; i++ {
		nd := nodes[r.Intn(len(nodes))]
		if nd.kind != "file" {
			continue
		}
		f, err := c.FOpen(nd.rel, go9p.OREAD)
		if err != nil {
			fail("client-fopen-failed", fmt.Sprintf("FOpen(%q): %v", short(nd.rel), err))
			continue
		}
		host, _ := os.ReadFile(filepath.Join(e.root, nd.rel))
		buf := make([]byte, 4000)
		n, _ := f.ReadAt(buf, 0)
		if string(buf[:n]) != string(host[:min(len(host), n)]) || (n == 0 && len(host) > 0) {
			fail("client-path-wrong-object", fmt.Sprintf("FOpen(%q) reads another object's data", short(nd.rel)))
		}
		_ = f.Close()
		res.Evals++
	}
	return res
}

func prefixClass(exist, n int) string {
	switch {
	case n == 0:
		return "none-asked"
	case exist == 0:
		return "0"
	case exist == n:
		return "all"
	}
	return "partial"
}

// c16BusyFid: walks are resolved from where the fid is when the walk is served, not from where it was when the walk
// arrived. A fid F on a directory D is kept busy by a Tcreate of D's named pipe (the open(2) inside it waits for the
// pipe's other end); Twalks from F — to a new fid, in place, with names that exist in D — arrive meanwhile and wait
// for F. The pipe's other end opens; the create is answered (F now designates the pipe) and the walks are served: a
// name is walked to only if it exists below what F designates at that time, as Lstat says.
func c16BusyFid(ctx *core.Ctx, dotu bool) core.Result {
	var res core.Result
	e, err := newEnv(ctx, "c16busy", dotu, 1<<20)
	if err != nil {
		res.Inconclusive = err.Error()
		return res
	}
	defer e.cleanup()
	for round := 0; round < 6 && len(res.Violations) == 0; round++ {
		ctx.Beat()
		d := fmt.Sprintf("D%d", round)
		_ = os.MkdirAll(filepath.Join(e.root, d, "a", "deep"), 0o755)
		_ = os.MkdirAll(filepath.Join(e.root, d, "b"), 0o755)
		_ = os.WriteFile(filepath.Join(e.root, d, "f"), []byte("x"), 0o644)
		pipe := filepath.Join(e.root, d, "pipe")
		if err := syscall.Mkfifo(pipe, 0o644); err != nil {
			res.Inconclusive = "c16 busy: mkfifo: " + err.Error()
			return res
		}
		rc, err := e.raw(8192, dotu)
		if err != nil {
			res.Inconclusive = err.Error()
			return res
		}
		rr := &rawc{c: rc}
		if w := rr.rpc(&wire.Msg{Type: wire.Twalk, Fid: 0, Newfid: 20, Wname: []string{d}}); w == nil || w.Type != wire.Rwalk {
			res.Inconclusive = "c16 busy: walk to the directory failed"
			return res
		}
		// the request that keeps F busy and moves it
		_ = rc.Send(&wire.Msg{Type: wire.Tcreate, Tag: 900, Fid: 20, Name: "pipe", Perm: 0o644, Mode: 0})
		buf := make([]byte, 2<<20)
		blocked := false
		for i := 0; i < 2000 && !blocked; i++ {
			n := runtime.Stack(buf, true)
			for _, g := range strings.Split(string(buf[:n]), "\n\n") {
				if strings.Contains(g, "(*Ufs).Create") && strings.Contains(g, "syscall.") {
					blocked = true
				}
			}
			if !blocked {
				time.Sleep(time.Millisecond)
			}
		}
		if !blocked {
			res.Count("create_not_blocked", 1)
		}
		type wk struct {
			tag    uint16
			newfid uint32
			names  []string
		}
		walks := []wk{{901, 21, []string{"a"}}, {902, 22, []string{"b"}}, {903, 23, []string{"a", "deep"}}, {904, 24, []string{"f"}}, {905, 25, nil}, {906, 26, []string{"nosuch"}}}
		if round%2 == 1 {
			walks = append(walks, wk{907, 20, []string{"a"}}) // in place, last
		}
		for _, w := range walks {
			_ = rc.Send(&wire.Msg{Type: wire.Twalk, Tag: w.tag, Fid: 20, Newfid: w.newfid, Wname: w.names})
		}
		time.Sleep(3 * time.Millisecond)
		wf, werr := os.OpenFile(pipe, os.O_WRONLY|syscall.O_NONBLOCK, 0)
		if werr != nil {
			res.Inconclusive = "c16 busy: the pipe's other end cannot be opened: " + werr.Error()
			rc.Hangup()
			return res
		}
		cr, cerr := rc.WaitTag(900, srvlab.W)
		moved := cerr == nil && cr.Msg != nil && cr.Msg.Type == wire.Rcreate
		// where F is when the walks are served: the pipe if the create succeeded, D otherwise
		from := filepath.Join(e.root, d)
		if moved {
			from = pipe
		}
		for _, w := range walks {
			rp, err := rc.WaitTag(w.tag, srvlab.W)
			res.Evals++
			if err != nil || rp.Msg == nil {
				res.Inconclusive = "c16 busy: a walk got no reply"
				break
			}
			_, lerr := os.Lstat(from + "/" + strings.Join(w.names, "/"))
			full := rp.Msg.Type == wire.Rwalk && len(rp.Msg.Wqid) == len(w.names)
			if len(w.names) > 0 && full && lerr != nil {
				res.Violate("C16;busy-fid;walked-to-a-name-that-is-not-there", fmt.Sprintf("a Twalk of %v from a fid that a Tcreate (answered before it) had moved to a named pipe was answered with %d qids: below what the fid designates there is no such name (Lstat: %v)", w.names, len(rp.Msg.Wqid), lerr),
					map[string]interface{}{"dotu": dotu, "round": round, "names": w.names})
				break
			}
			if w.newfid == 20 && full {
				from = from + "/" + strings.Join(w.names, "/")
			}
		}
		wf.Close()
		res.Sig(fmt.Sprintf("busy-fid|%v|moved=%v|inplace=%v", dotu, moved, round%2 == 1))
		rc.Hangup()
	}
	res.Sample(map[string]interface{}{"scenario": "walks queued on a fid that a blocked Tcreate moves to a named pipe", "dotu": dotu})
	return res
}
