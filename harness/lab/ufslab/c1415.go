package ufslab

import (
	"bytes"
	"fmt"
	"io"
	"os"
	"path/filepath"
	"sort"
	"strings"
	"sync"
	"time"

	"github.com/rminnich/go9p"

	"verif/core"
	"verif/lab/srvlab"
	"verif/memconn"
	"verif/wire"
)

func init() {
	core.Register(&core.Engine{
		Property: "C14",
		Level:    "exploration",
		Rule: "files with random contents of length 0, 1, iounit-1, iounit, iounit+1, k*iounit+-1 and random lengths up to 5 iounits are exported by the real Ufs on a scratch tree and accessed through " +
			"go9p's client with msize 128, 256, 1024, 8192, 65536 and both dialects: Clnt.Read at boundary and random (offset, count) incl. counts above iounit and offsets at/past EOF; File.Read " +
			"sequences, ReadAt, Readn; writes through Clnt.Write, File.Write, WriteAt, Written with arbitrary chunking at arbitrary offsets, compared with a byte-array model and with os.ReadFile of the " +
			"host file after each sequence; 32 files open at once. distinct = (msize, dialect, length class, operation, offset/count class)",
		Assumptions: []string{"the host file system gives read-your-writes semantics to os.ReadFile after a Twrite was answered"},
		Cases:       c14Cases,
		MinDistinct: 100,
		Jobs:        8,
	})
	core.Register(&core.Engine{
		Property: "C15",
		Level:    "exploration",
		Rule: "directories of 0, 1, 2, 50 and 3000 entries with name lengths 1..255 (so entry sizes vary) on the real Ufs: raw Tread sequences following the offset rule with every count from the largest " +
			"entry size up to four entries (small directories) or seeded random counts per read (large ones), msize 256..65536, both dialects, restart at offset 0 mid-listing, counts smaller than the next " +
			"entry; every Rread payload is decoded record by record with the independent decoder and the names compared with os.ReadDir; plus File.Readdir(0) of the client. " +
			"distinct = (entries, dialect, msize, count class, restart)",
		Assumptions: []string{"the directory is not modified while it is being listed"},
		Cases:       c15Cases,
		MinDistinct: 100,
		Jobs:        8,
	})
}

// ---------------------------------------------------------------------------------------------- C14

func c14Cases(tier string, seed int64) []core.Case {
	var cases []core.Case
	for _, msize := range []uint32{128, 256, 1024, 8192, 65536} {
		for _, dotu := range []bool{true, false} {
			msize, dotu := msize, dotu
			cases = append(cases, core.Case{ID: fmt.Sprintf("rw/msize=%d/dotu=%v", msize, dotu), Run: func(ctx *core.Ctx) core.Result {
				return c14Run(ctx, msize, dotu, tier == "thorough")
			}})
		}
	}
	// the client proposes more than the server accepts: every size the client works with comes out of the negotiation
	for _, sm := range []uint32{1024, 300} {
		sm := sm
		cases = append(cases, core.Case{ID: fmt.Sprintf("rw/client-asks-8192/server-msize=%d", sm), Run: func(ctx *core.Ctx) core.Result {
			serverMsize = sm
			defer func() { serverMsize = 0 }()
			return c14Run(ctx, 8192, sm == 1024, false)
		}})
	}
	cases = append(cases, core.Case{ID: "manyfiles", Run: c14Many})
	for _, dotu := range []bool{true, false} {
		dotu := dotu
		cases = append(cases, core.Case{ID: fmt.Sprintf("renegotiated/dotu=%v", dotu), Run: func(ctx *core.Ctx) core.Result { return c14Renegotiated(ctx, dotu) }})
	}
	for _, msize := range []uint32{1024, 8192} {
		msize := msize
		cases = append(cases, core.Case{ID: fmt.Sprintf("concurrent-readers/msize=%d", msize), Run: func(ctx *core.Ctx) core.Result { return c14Concurrent(ctx, msize) }})
	}
	for i := range cases {
		cases[i].Run = guarded("C14", cases[i].Run)
	}
	return cases
}

func c14Run(ctx *core.Ctx, msize uint32, dotu bool, thorough bool) core.Result {
	var res core.Result
	e, err := newEnv(ctx, "c14", dotu, 1<<20)
	if err != nil {
		res.Inconclusive = err.Error()
		return res
	}
	defer e.cleanup()
	c, err := e.client(msize, dotu)
	if err != nil {
		res.Inconclusive = "c14: " + err.Error()
		return res
	}
	defer c.Unmount()
	r := core.NewRand(ctx.Seed, fmt.Sprintf("c14/%d/%v", msize, dotu))
	iou := int(c.Msize) - go9p.IOHDRSZ
	lengths := []int{0, 1, iou - 1, iou, iou + 1, 2*iou - 1, 2 * iou, 2*iou + 1, 3*iou + 1, r.Intn(5 * iou), r.Intn(5 * iou)}
	if iou > 20000 {
		lengths = []int{0, 1, iou - 1, iou, iou + 1, 2*iou + 1, r.Intn(3 * iou)}
	}
	fail := func(sig, what string, det interface{}) {
		res.Violate("C14;"+sig, fmt.Sprintf("%s [msize %d, iounit %d, dotu %v]", what, msize, iou, dotu), det)
	}
	for li, n := range lengths {
		if len(res.Violations) > 3 {
			break
		}
		ctx.Beat()
		content := r.Bytes(n)
		name := fmt.Sprintf("file%d", li)
		host := filepath.Join(e.root, name)
		if err := os.WriteFile(host, content, 0o644); err != nil {
			res.Inconclusive = err.Error()
			return res
		}
		openName := name
		if li%2 == 1 {
			// every second file is reached through a symbolic link in the tree (an open follows it)
			openName = "alias-" + name
			_ = os.Remove(filepath.Join(e.root, openName))
			if os.Symlink(name, filepath.Join(e.root, openName)) != nil {
				openName = name
			} else {
				res.Count("files_read_through_a_symlink", 1)
			}
		}
		// every mode that allows reading: OREAD, ORDWR, and OEXEC (read, checking execute permission)
		rmode := []uint8{go9p.OREAD, go9p.ORDWR, go9p.OEXEC}[li%3]
		f, err := c.FOpen(openName, rmode)
		if err != nil {
			fail("open-failed", fmt.Sprintf("FOpen(%s, mode %d): %v", openName, rmode, err), nil)
			continue
		}
		lc := lenClass(n, iou)
		// ---- Clnt.Read at (offset, count)
		offs := []int{0, 1, n / 2, n - 1, n, n + 1, n + iou, iou - 1, iou, iou + 1}
		cnts := []int{0, 1, iou - 1, iou, iou + 1, 2 * iou, n, n + 1}
		nr := 30
		if thorough {
			nr = 400
		}
		for i := 0; i < nr; i++ {
			offs = append(offs, r.Intn(n+iou+1))
			cnts = append(cnts, r.Intn(2*iou+2))
		}
		// slices handed back by Clnt.Read are kept (a caller collecting chunks before joining them) and
		// compared with the file again once the whole sequence has run
		type keptRead struct {
			b      []byte
			off, k int
		}
		var kept []keptRead
		for i, off := range offs {
			if off < 0 {
				continue
			}
			for j, cnt := range cnts {
				if i >= 10 && j != i-10+8 && j >= 8 {
					continue // random offsets pair with their own random count only
				}
				if cnt < 0 {
					continue
				}
				b, err := c.Read(f.Fid, uint64(off), uint32(cnt))
				res.Evals++
				k := cnt
				if k > iou {
					k = iou
				}
				if off >= n {
					k = 0
				} else if off+k > n {
					k = n - off
				}
				if err != nil {
					fail("read-error;"+lc, fmt.Sprintf("Read(off %d, count %d) of a %d-byte file: %v", off, cnt, n, err), nil)
					continue
				}
				if len(b) != k || !bytes.Equal(b, content[min(off, n):min(off, n)+k]) {
					fail(fmt.Sprintf("read-differs;%s;%s;%s", lc, offClass(off, n, iou), cntClass(cnt, iou)),
						fmt.Sprintf("Read(off %d, count %d) of a %d-byte file returned %d bytes, expected %d bytes of the file", off, cnt, n, len(b), k), nil)
				} else if k > 0 {
					kept = append(kept, keptRead{b, min(off, n), k})
				}
				res.Sig(fmt.Sprintf("read|%d|%v|%s|%s|%s", msize, dotu, lc, offClass(off, n, iou), cntClass(cnt, iou)))
			}
		}
		changed := 0
		for _, kr := range kept {
			if !bytes.Equal(kr.b, content[kr.off:kr.off+kr.k]) {
				changed++
			}
		}
		res.Count("read_results_rechecked_after_later_reads", int64(len(kept)))
		if changed > 0 {
			fail("read-result-changed-later;"+lc, fmt.Sprintf("%d of %d byte slices returned by Clnt.Read of a %d-byte file were correct when returned and no longer equal the file after later reads on the connection", changed, len(kept), n), nil)
		}
		// ---- File.Read sequentially with a given buffer size: concatenation == file, then EOF
		for _, bs := range []int{1 + r.Intn(7), iou - 1, iou, iou + 1, 3 * iou, n + 5} {
			if bs <= 0 {
				continue
			}
			if n/bs > 3000 {
				continue
			}
			ff := go9p.FidFile(f.Fid, 0)
			var got []byte
			buf := make([]byte, bs)
			steps := 0
			for {
				m, err := ff.Read(buf)
				steps++
				if m > 0 {
					got = append(got, buf[:m]...)
				}
				if err == io.EOF || (err == nil && m == 0) {
					break
				}
				if err != nil {
					fail("file-read-error;"+lc, fmt.Sprintf("File.Read(buf %d): %v", bs, err), nil)
					break
				}
				want := bs
				if want > iou {
					want = iou
				}
				if rem := n - (len(got) - m); want > rem {
					want = rem
				}
				if m != want {
					fail("file-read-count;"+lc, fmt.Sprintf("File.Read(buf %d) at offset %d of %d returned %d bytes, expected %d", bs, len(got)-m, n, m, want), nil)
					break
				}
				if steps > n+10 {
					fail("file-read-no-progress;"+lc, "File.Read does not advance", nil)
					break
				}
			}
			res.Evals++
			if !bytes.Equal(got, content) {
				fail("file-read-differs;"+lc, fmt.Sprintf("sequential File.Read(buf %d) of a %d-byte file produced %d bytes that differ from the file", bs, n, len(got)), nil)
			}
			res.Sig(fmt.Sprintf("fileread|%d|%v|%s|%s", msize, dotu, lc, cntClass(bs, iou)))
		}
		// ---- ReadAt and Readn
		for i := 0; i < 12; i++ {
			off := []int{0, n / 3, n - 1, n, n + 3, 1}[i%6]
			if off < 0 {
				off = 0
			}
			bl := []int{1, iou, iou + 7, 2*iou + 3, n + 9, 5}[(i/2)%6]
			buf := make([]byte, bl)
			ff := go9p.FidFile(f.Fid, 0)
			m, err := ff.ReadAt(buf, int64(off))
			res.Evals++
			k := bl
			if k > iou {
				k = iou
			}
			if off >= n {
				k = 0
			} else if off+k > n {
				k = n - off
			}
			if k == 0 {
				if m != 0 {
					fail("readat-past-eof;"+lc, fmt.Sprintf("ReadAt(len %d, off %d) of a %d-byte file returned %d bytes", bl, off, n, m), nil)
				}
			} else if err != nil || m != k || !bytes.Equal(buf[:m], content[off:off+k]) {
				fail("readat-differs;"+lc, fmt.Sprintf("ReadAt(len %d, off %d) of a %d-byte file returned (%d, %v), expected %d bytes", bl, off, n, m, err, k), nil)
			}
			// Readn: exactly len(buf) bytes unless EOF comes first
			buf2 := make([]byte, bl)
			m2, err2 := ff.Readn(buf2, uint64(off))
			want := bl
			if off >= n {
				want = 0
			} else if off+want > n {
				want = n - off
			}
			res.Evals++
			if (err2 != nil && err2 != io.EOF) || m2 != want || (want > 0 && !bytes.Equal(buf2[:want], content[off:off+want])) {
				fail(fmt.Sprintf("readn;%s;%s", lc, map[bool]string{true: "crosses-eof", false: "inside"}[off+bl > n]),
					fmt.Sprintf("Readn(len %d, off %d) of a %d-byte file returned (%d, %v), expected %d bytes of the file", bl, off, n, m2, err2, want), nil)
			}
			res.Sig(fmt.Sprintf("readn|%d|%v|%s|%d", msize, dotu, lc, i))
		}
		_ = f.Close()

		// ---- writes: model vs host file
		wname := fmt.Sprintf("w%d", li)
		if li%3 == 1 && msize >= 256 {
			// some files sit deeper than one Twalk reaches: the client walks to them in several steps (the later ones
			// in place) before it opens them for writing
			deep := "deep"
			for d := 0; d < 17+li%5; d++ {
				deep = filepath.Join(deep, fmt.Sprintf("d%d", d))
			}
			_ = os.MkdirAll(filepath.Join(e.root, deep), 0o755)
			wname = filepath.Join(deep, wname)
			res.Count("files_written_below_17_or_more_directories", 1)
		}
		whost := filepath.Join(e.root, wname)
		model := append([]byte{}, content...)
		if err := os.WriteFile(whost, model, 0o644); err != nil {
			res.Inconclusive = err.Error()
			return res
		}
		wopen := wname
		if li%2 == 0 && li > 0 {
			wopen = "walias-" + wname
			_ = os.Remove(filepath.Join(e.root, wopen))
			if os.Symlink(wname, filepath.Join(e.root, wopen)) != nil {
				wopen = wname
			} else {
				res.Count("files_written_through_a_symlink", 1)
			}
		}
		wf, err := c.FOpen(wopen, go9p.ORDWR)
		if err != nil {
			fail("open-failed", fmt.Sprintf("FOpen(%s, ORDWR): %v", wopen, err), nil)
			continue
		}
		apply := func(off int, data []byte) {
			if len(data) == 0 {
				return // writing nothing does not extend the file
			}
			if off+len(data) > len(model) {
				model = append(model, make([]byte, off+len(data)-len(model))...)
			}
			copy(model[off:], data)
		}
		nw := 12
		if thorough {
			nw = 60
		}
		seqOff := 0
		for i := 0; i < nw; i++ {
			off := []int{0, len(model), len(model) / 2, iou - 1, len(model) + 3, r.Intn(len(model) + iou + 1)}[r.Intn(6)]
			dl := []int{0, 1, iou - 1, iou, iou + 1, 2*iou + 5, r.Intn(2*iou + 2)}[r.Intn(7)]
			data := r.Bytes(dl)
			op := i % 4
			res.Evals++
			switch op {
			case 0: // Clnt.Write: at most iounit bytes
				m, err := c.Write(wf.Fid, data, uint64(off))
				want := dl
				if want > iou {
					want = iou
				}
				if err != nil || m != want {
					fail("write-count;"+lc, fmt.Sprintf("Clnt.Write(%d bytes at %d) returned (%d, %v), expected %d", dl, off, m, err, want), nil)
				}
				if err == nil && m >= 0 && m <= dl {
					apply(off, data[:m])
				}
			case 1: // WriteAt
				m, err := wf.WriteAt(data, int64(off))
				want := dl
				if want > iou {
					want = iou
				}
				if err != nil || m != want {
					fail("writeat-count;"+lc, fmt.Sprintf("WriteAt(%d bytes at %d) returned (%d, %v), expected %d", dl, off, m, err, want), nil)
				}
				if err == nil && m >= 0 && m <= dl {
					apply(off, data[:m])
				}
			case 2: // Written: all of it
				m, err := wf.Written(data, uint64(off))
				if err != nil || m != dl {
					fail("written-count;"+lc, fmt.Sprintf("Written(%d bytes at %d) returned (%d, %v)", dl, off, m, err), nil)
				}
				if err == nil && m >= 0 && m <= dl {
					apply(off, data[:m])
				}
			case 3: // File.Write continues where the previous one left off
				sf := go9p.FidFile(wf.Fid, uint64(seqOff))
				m, err := sf.Write(data)
				want := dl
				if want > iou {
					want = iou
				}
				if err != nil || m != want {
					fail("filewrite-count;"+lc, fmt.Sprintf("File.Write(%d bytes) at offset %d returned (%d, %v), expected %d", dl, seqOff, m, err, want), nil)
				}
				if err == nil && m >= 0 && m <= dl {
					apply(seqOff, data[:m])
					// the next Write of the same File must land right behind
					m2, err2 := sf.Write([]byte("NEXT"))
					if err2 == nil && m2 == 4 {
						apply(seqOff+m, []byte("NEXT"))
					} else {
						fail("filewrite-count;"+lc, fmt.Sprintf("second File.Write returned (%d, %v)", m2, err2), nil)
					}
					seqOff += m + 4
				}
			}
			hostb, _ := os.ReadFile(whost)
			if !bytes.Equal(hostb, model) {
				fail(fmt.Sprintf("write-differs;op%d;%s;%s", op, lc, cntClass(dl, iou)),
					fmt.Sprintf("after write op %d (%d bytes at %d) the host file (%d bytes) differs from the model (%d bytes)", op, dl, off, len(hostb), len(model)), nil)
				model = append([]byte{}, hostb...)
			}
			res.Sig(fmt.Sprintf("write|%d|%v|%s|op%d|%s", msize, dotu, lc, op, cntClass(dl, iou)))
			// what was written is readable at once through the same fid (opened read-write)
			if i%3 == 2 && len(model) > 0 && len(model) < 200000 {
				back := make([]byte, len(model)+10)
				m, err := wf.Readn(back, 0)
				res.Evals++
				if err != nil || m != len(model) || !bytes.Equal(back[:m], model) {
					fail("read-back-after-write;"+lc, fmt.Sprintf("reading the file back through the fid it was just written through returned (%d, %v), the file has %d bytes", m, err, len(model)), nil)
				}
				tailOff := len(model) - 1
				if b, err := c.Read(wf.Fid, uint64(tailOff), 5); err != nil || len(b) != 1 || b[0] != model[tailOff] {
					fail("read-back-after-write;"+lc, fmt.Sprintf("read of the last byte just written returned %d bytes (err %v)", len(b), err), nil)
				}
			}
		}
		_ = wf.Close()
		// ---- an existing file rewritten through a truncating open (every open mode that can write, with OTRUNC): the
		// file then holds exactly what was written, nothing of its former content
		for _, om := range []uint8{go9p.OWRITE | go9p.OTRUNC, go9p.ORDWR | go9p.OTRUNC, go9p.OWRITE, go9p.ORDWR} {
			old, _ := os.ReadFile(whost)
			tf, err := c.FOpen(wname, om)
			res.Evals++
			if err != nil {
				fail(fmt.Sprintf("open-failed;mode%#x", om), fmt.Sprintf("FOpen(%s, %#x): %v", wname, om, err), nil)
				continue
			}
			nd := len(old) / 3
			if nd == 0 {
				nd = 1
			}
			data := r.Bytes(nd)
			m, werr := tf.Written(data, 0)
			_ = tf.Close()
			want := append([]byte{}, data...)
			if om&go9p.OTRUNC == 0 && len(old) > len(data) {
				want = append(want, old[len(data):]...)
			}
			hostb, _ := os.ReadFile(whost)
			if werr != nil || m != len(data) || !bytes.Equal(hostb, want) {
				fail(fmt.Sprintf("rewrite-differs;mode%#x;%s", om, lc), fmt.Sprintf("a %d-byte file opened with mode %#x and rewritten with %d bytes (Written returned %d, %v) now has %d bytes, expected %d", len(old), om, len(data), m, werr, len(hostb), len(want)), nil)
			}
			res.Sig(fmt.Sprintf("rewrite|%d|%v|%s|mode%#x", msize, dotu, lc, om))
			// bring the file back to a few iounits for the next mode
			_ = os.WriteFile(whost, content, 0o644)
		}
		if li == 3 {
			res.Sample(map[string]interface{}{"msize": msize, "iounit": iou, "dotu": dotu, "file_length": n, "reads": len(offs), "write_ops": nw})
		}
	}
	return res
}

func lenClass(n, iou int) string {
	switch {
	case n == 0:
		return "len0"
	case n == 1:
		return "len1"
	case n == iou-1:
		return "iou-1"
	case n == iou:
		return "iou"
	case n == iou+1:
		return "iou+1"
	case n < iou:
		return "<iou"
	case n%iou == 0:
		return "k*iou"
	case n%iou == 1:
		return "k*iou+1"
	case n%iou == iou-1:
		return "k*iou-1"
	}
	return ">iou"
}

func offClass(off, n, iou int) string {
	switch {
	case off == 0:
		return "0"
	case off == n:
		return "eof"
	case off > n:
		return "past-eof"
	case off == n-1:
		return "eof-1"
	case off%iou == 0:
		return "k*iou"
	}
	return "mid"
}

func cntClass(c, iou int) string {
	switch {
	case c == 0:
		return "0"
	case c == 1:
		return "1"
	case c == iou:
		return "iou"
	case c == iou-1:
		return "iou-1"
	case c == iou+1:
		return "iou+1"
	case c > iou:
		return ">iou"
	}
	return "<iou"
}

// c14Many: 32 files open at once, interleaved reads.
// c14Concurrent: several goroutines read and write their own files through one client at the same time, over a
// transport on which the server's replies go out slowly and in pieces (a congested peer): every byte still has to be
// the file's.
func c14Concurrent(ctx *core.Ctx, msize uint32) core.Result {
	var res core.Result
	e, err := newEnv(ctx, fmt.Sprintf("c14c%d", msize), true, 1<<20)
	if err != nil {
		res.Inconclusive = err.Error()
		return res
	}
	defer e.cleanup()
	cli, srv := memconn.Pipe("client", "ufs")
	srv.MaxWrite = int(msize) / 3
	srv.BeforeWrite = func(n int) { time.Sleep(150 * time.Microsecond) }
	e.s.Srv.NewConn(srv)
	c, err := go9p.Connect(cli, msize, true)
	if err != nil {
		res.Inconclusive = err.Error()
		return res
	}
	defer c.Unmount()
	root, err := c.Attach(nil, go9p.OsUsers.Uid2User(0), "")
	if err != nil {
		res.Inconclusive = err.Error()
		return res
	}
	c.Root = root
	iou := int(msize) - go9p.IOHDRSZ
	r := core.NewRand(ctx.Seed, fmt.Sprintf("c14conc/%d", msize))
	const G = 6
	contents := make([][]byte, G)
	for g := 0; g < G; g++ {
		contents[g] = r.Bytes(4*iou + 100*g + 7)
		// each file's bytes are recognisably its own
		for i := range contents[g] {
			contents[g][i] = contents[g][i]&0x0F | byte(g+1)<<4
		}
		_ = os.WriteFile(filepath.Join(e.root, fmt.Sprintf("cc%d", g)), contents[g], 0o644)
	}
	var wg sync.WaitGroup
	var mu sync.Mutex
	for g := 0; g < G; g++ {
		wg.Add(1)
		go func(g int) {
			defer wg.Done()
			f, err := c.FOpen(fmt.Sprintf("cc%d", g), go9p.ORDWR)
			if err != nil {
				mu.Lock()
				res.Violate("C14;concurrent;open-failed", err.Error(), nil)
				mu.Unlock()
				return
			}
			defer f.Close()
			want := contents[g]
			for round := 0; round < 5; round++ {
				buf := make([]byte, len(want)+10)
				n, err := f.Readn(buf, 0)
				mu.Lock()
				res.Evals++
				if (err != nil && err != io.EOF) || n != len(want) || !bytes.Equal(buf[:n], want) {
					bad := -1
					for i := 0; i < n && i < len(want); i++ {
						if buf[i] != want[i] {
							bad = i
							break
						}
					}
					res.Violate("C14;concurrent;read-differs", fmt.Sprintf("reader %d of %d concurrent ones: Readn of a %d-byte file returned (%d, %v); first wrong byte at %d (it carries the mark of file %d)", g, G, len(want), n, err, bad, func() int {
						if bad >= 0 {
							return int(buf[bad]>>4) - 1
						}
						return -1
					}()), nil)
				}
				mu.Unlock()
				// and a write of its own in between
				off := (round * 37) % len(want)
				patch := []byte{byte(g+1)<<4 | byte(round)}
				if m, err := f.WriteAt(patch, int64(off)); err == nil && m == 1 {
					want[off] = patch[0]
				}
			}
			host, _ := os.ReadFile(filepath.Join(e.root, fmt.Sprintf("cc%d", g)))
			if !bytes.Equal(host, want) {
				mu.Lock()
				res.Violate("C14;concurrent;write-differs", fmt.Sprintf("writer %d of %d concurrent ones: the host file differs from what was written", g, G), nil)
				mu.Unlock()
			}
		}(g)
	}
	done := make(chan struct{})
	go func() { wg.Wait(); close(done) }()
	select {
	case <-done:
	case <-time.After(4 * W):
		res.Inconclusive = "c14: concurrent readers did not finish"
	}
	res.Sig(fmt.Sprintf("concurrent|%d", msize))
	res.Count("concurrent_readers", G)
	res.Sample(map[string]interface{}{"scenario": "concurrent readers/writers through one client over a slow, fragmenting server-side transport", "msize": msize, "goroutines": G})
	return res
}

func c14Many(ctx *core.Ctx) core.Result {
	var res core.Result
	e, err := newEnv(ctx, "c14m", true, 1<<20)
	if err != nil {
		res.Inconclusive = err.Error()
		return res
	}
	defer e.cleanup()
	c, err := e.client(1024, true)
	if err != nil {
		res.Inconclusive = err.Error()
		return res
	}
	defer c.Unmount()
	r := core.NewRand(ctx.Seed, "c14many")
	const N = 32
	files := make([]*go9p.File, N)
	contents := make([][]byte, N)
	for i := 0; i < N; i++ {
		contents[i] = r.Bytes(r.Intn(5000))
		_ = os.WriteFile(filepath.Join(e.root, fmt.Sprintf("m%d", i)), contents[i], 0o644)
		f, err := c.FOpen(fmt.Sprintf("m%d", i), go9p.ORDWR)
		if err != nil {
			res.Violate("C14;many;open-failed", err.Error(), nil)
			return res
		}
		files[i] = f
	}
	for k := 0; k < 4000; k++ {
		i := r.Intn(N)
		n := len(contents[i])
		off := r.Intn(n + 10)
		cnt := r.Intn(1200)
		res.Evals++
		if k%3 == 0 {
			data := r.Bytes(r.Intn(300))
			m, err := files[i].Written(data, uint64(off))
			if err != nil || m != len(data) {
				res.Violate("C14;many;written", fmt.Sprintf("Written returned (%d,%v)", m, err), nil)
				continue
			}
			if len(data) > 0 { // (writing nothing does not extend the file, wherever it is "written")
				if off+len(data) > n {
					contents[i] = append(contents[i], make([]byte, off+len(data)-n)...)
				}
				copy(contents[i][off:], data)
			}
			continue
		}
		b, err := c.Read(files[i].Fid, uint64(off), uint32(cnt))
		kk := cnt
		if kk > 1000 {
			kk = 1000
		}
		if off >= n {
			kk = 0
		} else if off+kk > n {
			kk = n - off
		}
		if err != nil || len(b) != kk || !bytes.Equal(b, contents[i][min(off, n):min(off, n)+kk]) {
			res.Violate("C14;many;read-differs", fmt.Sprintf("file %d of 32 open files: Read(off %d, count %d) returned %d bytes (err %v), expected %d", i, off, cnt, len(b), err, kk), nil)
		}
	}
	for i := 0; i < N; i++ {
		hostb, _ := os.ReadFile(filepath.Join(e.root, fmt.Sprintf("m%d", i)))
		if !bytes.Equal(hostb, contents[i]) {
			res.Violate("C14;many;host-differs", fmt.Sprintf("host file %d differs from the model after interleaved writes", i), nil)
		}
		res.Sig(fmt.Sprintf("many|%d|%d", i, len(contents[i])/500))
		_ = files[i].Close()
	}
	res.Sample(map[string]interface{}{"scenario": "32 files open at once", "operations": 4000})
	return res
}

// ---------------------------------------------------------------------------------------------- C15

func c15Cases(tier string, seed int64) []core.Case {
	var cases []core.Case
	for _, n := range []int{0, 1, 2, 50, 3000} {
		for _, dotu := range []bool{true, false} {
			n, dotu := n, dotu
			cases = append(cases, core.Case{ID: fmt.Sprintf("dir/entries=%d/dotu=%v", n, dotu), Run: func(ctx *core.Ctx) core.Result {
				return c15Run(ctx, n, dotu, tier == "thorough")
			}})
		}
	}
	for _, dotu := range []bool{true, false} {
		for _, g := range []int{4, 8} {
			dotu, g := dotu, g
			cases = append(cases, core.Case{ID: fmt.Sprintf("concurrent-listings/connections=%d/dotu=%v", g, dotu), Run: func(ctx *core.Ctx) core.Result {
				return c15Concurrent(ctx, dotu, g)
			}})
		}
	}
	// a plain-9P2000 client of a server that also offers 9P2000.u
	for _, n := range []int{2, 50} {
		n := n
		cases = append(cases, core.Case{ID: fmt.Sprintf("dir/entries=%d/plain-client-of-dotu-server", n), Run: func(ctx *core.Ctx) core.Result {
			serverOffersDotu = true
			defer func() { serverOffersDotu = false }()
			return c15Run(ctx, n, false, false)
		}})
	}
	for _, dotu := range []bool{true, false} {
		dotu := dotu
		cases = append(cases, core.Case{ID: fmt.Sprintf("listing-while-other-entries-come-and-go/dotu=%v", dotu), Run: func(ctx *core.Ctx) core.Result {
			return c15Churn(ctx, dotu, map[string]int{"quick": 50, "thorough": 600}[tier])
		}})
	}
	for _, dotu := range []bool{true, false} {
		dotu := dotu
		cases = append(cases, core.Case{ID: fmt.Sprintf("pipelined-restart-and-continuation/dotu=%v", dotu), Run: func(ctx *core.Ctx) core.Result {
			return c15Pipelined(ctx, dotu)
		}})
	}
	// an entry larger than a file-system block: a symbolic link whose target (carried in the 9P2000.u extension) is
	// 4000 bytes long
	for _, n := range []int{2, 7} {
		n := n
		cases = append(cases, core.Case{ID: fmt.Sprintf("dir/entries=%d/long-symlink-target", n), Run: func(ctx *core.Ctx) core.Result {
			c15LongLink = true
			defer func() { c15LongLink = false }()
			return c15Run(ctx, n, true, false)
		}})
	}
	for i := range cases {
		cases[i].Run = guarded("C15", cases[i].Run)
	}
	return cases
}

// c15LongLink (set by one case, cases of a worker run one after the other): the symbolic links get 4000-byte targets.
var c15LongLink bool

func c15Run(ctx *core.Ctx, nent int, dotu bool, thorough bool) core.Result {
	var res core.Result
	e, err := newEnv(ctx, "c15", dotu, 1<<20)
	if err != nil {
		res.Inconclusive = err.Error()
		return res
	}
	defer e.cleanup()
	r := core.NewRand(ctx.Seed, fmt.Sprintf("c15/%d/%v", nent, dotu))
	dir := filepath.Join(e.root, "d")
	_ = os.Mkdir(dir, 0o755)
	maxName := 255
	if nent >= 3000 {
		maxName = 60
	}
	want := map[string]bool{}
	lastFile := ""
	for i := 0; i < nent; i++ {
		l := 1 + r.Intn(maxName)
		if i < 4 {
			l = []int{1, 255, 2, 128}[i]
			if l > maxName {
				l = maxName
			}
		}
		name := fmt.Sprintf("%d", i) + strings.Repeat(string(rune('a'+i%26)), l)
		name = name[:l]
		for want[name] || name == "." {
			name = name + "x"
			if len(name) > 255 {
				name = fmt.Sprintf("u%d", i)
			}
		}
		want[name] = true
		full := filepath.Join(dir, name)
		switch i % 5 {
		case 0:
			_ = os.Mkdir(full, 0o755)
		case 1:
			tgt := "target"
			if c15LongLink {
				tgt = strings.Repeat("abcdefg/", 500) + fmt.Sprintf("%d", i)
			}
			_ = os.Symlink(tgt, full)
		case 3:
			// a second name of a file that is in the directory already: an entry of its own, with the same qid path
			if lastFile == "" || os.Link(lastFile, full) != nil {
				_ = os.WriteFile(full, []byte(name), 0o644)
			}
		default:
			_ = os.WriteFile(full, []byte(name), 0o644)
			lastFile = full
		}
	}
	hostEnts, _ := os.ReadDir(dir)
	if len(hostEnts) != nent {
		res.Inconclusive = fmt.Sprintf("c15: host directory has %d entries, wanted %d", len(hostEnts), nent)
		return res
	}
	var hostNames []string
	for _, he := range hostEnts {
		hostNames = append(hostNames, he.Name())
	}
	sort.Strings(hostNames)
	fail := func(sig, what string, det interface{}) {
		res.Violate("C15;"+sig, fmt.Sprintf("%s [%d entries, dotu %v]", what, nent, dotu), det)
	}
	// the largest record decides the smallest legal count
	largest := 0
	{
		rc, err := e.raw(65536, dotu)
		if err != nil {
			res.Inconclusive = err.Error()
			return res
		}
		rr := &rawc{c: rc}
		for _, nm := range hostNames {
			w := rr.rpc(&wire.Msg{Type: wire.Twalk, Fid: 0, Newfid: 5, Wname: []string{"d", nm}})
			if w == nil || w.Type != wire.Rwalk || len(w.Wqid) != 2 {
				fail("walk-to-entry", fmt.Sprintf("cannot walk to entry %q", nm), nil)
				return res
			}
			st := rr.rpc(&wire.Msg{Type: wire.Tstat, Fid: 5})
			if st == nil || st.Type != wire.Rstat {
				fail("stat-entry", fmt.Sprintf("cannot stat entry %q", nm), nil)
				return res
			}
			if l := wire.StatLen(&st.Stat, dotu); l > largest {
				largest = l
			}
			rr.rpc(&wire.Msg{Type: wire.Tclunk, Fid: 5})
			if nent > 100 && largest > 0 && len(nm) < maxName-5 {
				continue
			}
		}
		rc.Hangup()
	}
	if largest == 0 {
		largest = 64
	}
	msizes := []uint32{256, 1024, 8192, 65536}
	for _, msize := range msizes {
		if int(msize)-24 < largest {
			continue
		}
		rc, err := e.raw(msize, dotu)
		if err != nil {
			res.Inconclusive = err.Error()
			return res
		}
		rr := &rawc{c: rc}
		L := int(msize) - 24
		// the counts to try
		var counts []int
		if nent <= 50 {
			for c := largest; c <= 4*largest && c <= L; c++ {
				counts = append(counts, c)
			}
			if !thorough && len(counts) > 300 {
				var thin []int
				for i, c := range counts {
					if i%((len(counts)+299)/300) == 0 || c == largest || c == L {
						thin = append(thin, c)
					}
				}
				counts = thin
			}
		} else {
			counts = []int{largest, largest + 1, 2 * largest, L, -1, -1, -1}
			if thorough {
				for i := 0; i < 30; i++ {
					counts = append(counts, -1)
				}
			}
		}
		counts = append(counts, L)
		{
			var legal []int
			for _, c := range counts {
				if c <= L {
					legal = append(legal, c)
				}
			}
			counts = legal
		}
		fidn := uint32(10)
		for ci, cnt := range counts {
			if len(res.Violations) > 2 {
				break
			}
			if ci%25 == 0 {
				ctx.Beat()
			}
			fidn++
			if w := rr.rpc(&wire.Msg{Type: wire.Twalk, Fid: 0, Newfid: fidn, Wname: []string{"d"}}); w == nil || w.Type != wire.Rwalk {
				fail("walk-dir", "cannot walk to the directory", nil)
				break
			}
			if o := rr.rpc(&wire.Msg{Type: wire.Topen, Fid: fidn, Mode: 0}); o == nil || o.Type != wire.Ropen {
				fail("open-dir", "cannot open the directory", nil)
				break
			}
			restartAt := -1
			if ci%4 == 3 {
				restartAt = 1 + r.Intn(3)
			}
			listing := func() ([]string, bool) {
				var names []string
				off := uint64(0)
				reads := 0
				for {
					c := cnt
					if c < 0 {
						c = largest + r.Intn(L-largest+1)
					}
					rp := rr.rpc(&wire.Msg{Type: wire.Tread, Fid: fidn, Offset: off, Count: uint32(c)})
					res.Evals++
					reads++
					if rp == nil {
						fail("read-no-reply", "directory read got no reply", nil)
						return nil, false
					}
					if rp.Type == wire.Rerror {
						fail(fmt.Sprintf("read-error;%s", cntClass(c, largest)), fmt.Sprintf("directory read (offset %d, count %d >= largest entry %d) answered error %q", off, c, largest, rp.Ename), nil)
						return nil, false
					}
					if rp.Type != wire.Rread {
						fail("read-type", "directory read answered "+rp.String(), nil)
						return nil, false
					}
					if len(rp.Data) > c {
						fail("read-more-than-count", fmt.Sprintf("directory read returned %d bytes for count %d", len(rp.Data), c), nil)
						return nil, false
					}
					if len(rp.Data) == 0 {
						return names, true
					}
					b := rp.Data
					for len(b) > 0 {
						st, used, err := wire.DecodeStat(b, dotu)
						if err != nil {
							fail("partial-record", fmt.Sprintf("directory read (offset %d, count %d) returned %d bytes that are not whole stat records: %v", off, c, len(rp.Data), err), nil)
							return nil, false
						}
						names = append(names, st.Name)
						b = b[used:]
						res.Count("stat_records_decoded", 1)
					}
					off += uint64(len(rp.Data))
					if reads == restartAt {
						return nil, true // caller restarts from 0
					}
					if reads > nent+10 {
						fail("listing-does-not-end", "directory listing never returns an empty read", nil)
						return nil, false
					}
				}
			}
			names, ok := listing()
			if ok && names == nil && restartAt > 0 {
				restartAt = -1
				names, ok = listing() // rereading from offset 0 lists it again, completely
			}
			if ok {
				sort.Strings(names)
				if strings.Join(names, "\x00") != strings.Join(hostNames, "\x00") {
					dup, missing := diffNames(names, hostNames)
					fail(fmt.Sprintf("listing-differs;dup=%v;missing=%v", len(dup) > 0, len(missing) > 0),
						fmt.Sprintf("listing with count %d (msize %d) returned %d names for %d entries; duplicated %v, missing %v", cnt, msize, len(names), nent, head(dup), head(missing)), nil)
				}
			}
			// the directory changes between two listings through the same fid: rereading from offset 0 lists what is
			// there now (entries added to a directory that was listed to its end, also an empty one; then removed again)
			if ok && ci%3 == 1 && len(res.Violations) == 0 {
				relist := func() ([]string, bool) {
					var names []string
					off := uint64(0)
					for reads := 0; reads < nent+20; reads++ {
						rp := rr.rpc(&wire.Msg{Type: wire.Tread, Fid: fidn, Offset: off, Count: uint32(L)})
						res.Evals++
						if rp == nil || rp.Type != wire.Rread {
							return nil, false
						}
						if len(rp.Data) == 0 {
							sort.Strings(names)
							return names, true
						}
						for b := rp.Data; len(b) > 0; {
							st, used, err := wire.DecodeStat(b, dotu)
							if err != nil {
								return nil, false
							}
							names = append(names, st.Name)
							b = b[used:]
						}
						off += uint64(len(rp.Data))
					}
					return nil, false
				}
				var added []string
				for k := 0; k < 1+ci%3; k++ {
					nm := fmt.Sprintf("zz-added-%d-%d", ci, k)
					if os.WriteFile(filepath.Join(dir, nm), []byte("x"), 0o644) == nil {
						added = append(added, nm)
					}
				}
				want := append(append([]string{}, hostNames...), added...)
				sort.Strings(want)
				got, rok := relist()
				if !rok || strings.Join(got, "\x00") != strings.Join(want, "\x00") {
					_, missing := diffNames(got, want)
					fail("relist-after-change;added", fmt.Sprintf("after %d entries were added to a directory of %d that had been listed to its end, rereading from offset 0 through the same fid returned %d names (missing %v)", len(added), nent, len(got), head(missing)), nil)
				}
				for _, nm := range added {
					_ = os.Remove(filepath.Join(dir, nm))
				}
				got, rok = relist()
				if !rok || strings.Join(got, "\x00") != strings.Join(hostNames, "\x00") {
					fail("relist-after-change;removed", fmt.Sprintf("after the added entries were removed again, rereading from offset 0 returned %d names for %d entries", len(got), nent), nil)
				}
				res.Count("relistings_after_directory_change", 2)
			}
			res.Sig(fmt.Sprintf("dir|%d|%v|%d|%d|%v", nent, dotu, msize, cnt, restartAt > 0))
			rr.rpc(&wire.Msg{Type: wire.Tclunk, Fid: fidn})
		}
		// a count too small for the next entry: an error, never a truncated or empty reply
		if nent > 0 {
			fidn++
			rr.rpc(&wire.Msg{Type: wire.Twalk, Fid: 0, Newfid: fidn, Wname: []string{"d"}})
			rr.rpc(&wire.Msg{Type: wire.Topen, Fid: fidn, Mode: 0})
			for _, c := range []int{0, 1, 48, 60} {
				// the first entry's size: take it from a full read
				full := rr.rpc(&wire.Msg{Type: wire.Tread, Fid: fidn, Offset: 0, Count: uint32(L)})
				if full == nil || full.Type != wire.Rread || len(full.Data) == 0 {
					break
				}
				_, first, _ := wire.DecodeStat(full.Data, dotu)
				if c >= first {
					continue
				}
				rp := rr.rpc(&wire.Msg{Type: wire.Tread, Fid: fidn, Offset: 0, Count: uint32(c)})
				res.Evals++
				if rp == nil || rp.Type != wire.Rerror {
					fail("small-count-not-refused", fmt.Sprintf("directory read with count %d (< first entry %d) answered %v instead of an error", c, first, rp), nil)
				}
				res.Sig(fmt.Sprintf("small|%d|%v|%d|%d", nent, dotu, msize, c))
			}
			// … and in the middle of a listing: after k whole entries, a count one byte short of entry k+1 (and 0, 1)
			full := rr.rpc(&wire.Msg{Type: wire.Tread, Fid: fidn, Offset: 0, Count: uint32(L)})
			if full != nil && full.Type == wire.Rread && len(full.Data) > 0 {
				var sizes []int
				for b := full.Data; len(b) > 0; {
					_, used, err := wire.DecodeStat(b, dotu)
					if err != nil {
						break
					}
					sizes = append(sizes, used)
					b = b[used:]
				}
				tried := 0
				off := 0
				for k := 0; k+1 < len(sizes) && tried < 12; k++ {
					off += sizes[k]
					if k%3 != 0 && sizes[k+1] <= sizes[k] {
						continue
					}
					tried++
					// position the listing at the boundary after entry k by reading exactly up to it from 0
					head := rr.rpc(&wire.Msg{Type: wire.Tread, Fid: fidn, Offset: 0, Count: uint32(off)})
					if head == nil || head.Type != wire.Rread || len(head.Data) != off {
						break
					}
					for _, c := range []int{sizes[k+1] - 1, 1, 0} {
						if c >= sizes[k+1] || c < 0 {
							continue
						}
						rp := rr.rpc(&wire.Msg{Type: wire.Tread, Fid: fidn, Offset: uint64(off), Count: uint32(c)})
						res.Evals++
						if rp == nil || rp.Type != wire.Rerror {
							what := "nothing"
							if rp != nil {
								what = fmt.Sprintf("%s with %d bytes", wire.TypeName(rp.Type), len(rp.Data))
							}
							fail("small-count-not-refused;mid-listing", fmt.Sprintf("directory read at offset %d (after %d whole entries) with count %d, the next entry needs %d: answered %s instead of an error", off, k+1, c, sizes[k+1], what), nil)
							break
						}
					}
					res.Sig(fmt.Sprintf("small-mid|%d|%v|%d|%d", nent, dotu, msize, k))
				}
			}
			rr.rpc(&wire.Msg{Type: wire.Tclunk, Fid: fidn})
		}
		rc.Hangup()
		// the client's Readdir(0)
		c, err := e.client(msize, dotu)
		if err != nil {
			res.Inconclusive = err.Error()
			return res
		}
		f, err := c.FOpen("d", go9p.OREAD)
		if err != nil {
			fail("client-open", err.Error(), nil)
		} else {
			ds, err := f.Readdir(0)
			res.Evals++
			var names []string
			for _, d := range ds {
				names = append(names, d.Name)
			}
			sort.Strings(names)
			if err != nil || strings.Join(names, "\x00") != strings.Join(hostNames, "\x00") {
				dup, missing := diffNames(names, hostNames)
				fail("readdir-differs", fmt.Sprintf("Readdir(0) with msize %d returned %d entries (err %v) for %d; duplicated %v, missing %v", msize, len(names), err, nent, head(dup), head(missing)), nil)
			}
			res.Sig(fmt.Sprintf("readdir0|%d|%v|%d", nent, dotu, msize))
			_ = f.Close()
		}
		c.Unmount()
		// … and through a connection whose msize is too small for the largest entry: the listing cannot be complete,
		// so Readdir(0) must say so (an error), never hand out a part of the directory as if it were all of it
		if small := uint32(largest + go9p.IOHDRSZ - 1); nent > 1 && small >= 64 && small < msize {
			if c2, err := e.client(small, dotu); err == nil {
				if f2, err := c2.FOpen("d", go9p.OREAD); err == nil {
					ds, err := f2.Readdir(0)
					res.Evals++
					if err == nil && len(ds) != nent {
						fail("readdir-partial-without-error", fmt.Sprintf("Readdir(0) over a connection with msize %d (the largest entry needs %d) returned %d of %d entries and no error", small, largest+go9p.IOHDRSZ, len(ds), nent), nil)
					}
					res.Sig(fmt.Sprintf("readdir0-small|%d|%v", nent, dotu))
					_ = f2.Close()
				}
				c2.Unmount()
			}
		}
	}
	res.Sample(map[string]interface{}{"entries": nent, "dotu": dotu, "largest_entry": largest, "name_lengths": fmt.Sprintf("1..%d", maxName)})
	return res
}

func diffNames(got, want []string) (dup, missing []string) {
	cnt := map[string]int{}
	for _, g := range got {
		cnt[g]++
	}
	for g, n := range cnt {
		if n > 1 {
			dup = append(dup, g)
		}
	}
	for _, w := range want {
		if cnt[w] == 0 {
			missing = append(missing, w)
		}
	}
	sort.Strings(dup)
	sort.Strings(missing)
	return
}

func head(a []string) []string {
	if len(a) > 3 {
		a = a[:3]
	}
	out := make([]string, len(a))
	for i, s := range a {
		if len(s) > 24 {
			s = s[:24] + "…"
		}
		out[i] = s
	}
	return out
}

// c15Concurrent: several connections list their own directories at the same time (every listing starts with a
// snapshot of the directory built at offset 0; snapshots built side by side must not borrow from each other).
func c15Concurrent(ctx *core.Ctx, dotu bool, G int) core.Result {
	var res core.Result
	e, err := newEnv(ctx, "c15c", dotu, 1<<20)
	if err != nil {
		res.Inconclusive = err.Error()
		return res
	}
	defer e.cleanup()
	r := core.NewRand(ctx.Seed, fmt.Sprintf("c15conc/%v/%d", dotu, G))
	const nent = 120
	hostNames := make([][]string, G)
	for g := 0; g < G; g++ {
		dir := filepath.Join(e.root, fmt.Sprintf("cd%d", g))
		_ = os.Mkdir(dir, 0o755)
		for i := 0; i < nent; i++ {
			l := 6 + r.Intn(190)
			name := (fmt.Sprintf("g%d-%d-", g, i) + strings.Repeat(string(rune('a'+(i+g)%26)), l))[:l]
			full := filepath.Join(dir, name)
			switch i % 7 {
			case 0:
				_ = os.Mkdir(full, 0o755)
			case 1:
				_ = os.Symlink("t", full)
			default:
				_ = os.WriteFile(full, []byte(name), 0o644)
			}
		}
		ents, _ := os.ReadDir(dir)
		for _, he := range ents {
			hostNames[g] = append(hostNames[g], he.Name())
		}
		sort.Strings(hostNames[g])
		if len(hostNames[g]) != nent {
			res.Inconclusive = "c15: concurrent listing: host directory incomplete"
			return res
		}
	}
	var mu sync.Mutex
	fail := func(sig, what string) {
		mu.Lock()
		if len(res.Violations) < 3 {
			res.Violate("C15;concurrent;"+sig, fmt.Sprintf("%s [%d connections listing their own directories at once, dotu %v]", what, G, dotu), nil)
		}
		mu.Unlock()
	}
	start := make(chan struct{})
	var wg sync.WaitGroup
	for g := 0; g < G; g++ {
		rc, err := e.raw(8192, dotu)
		if err != nil {
			res.Inconclusive = err.Error()
			return res
		}
		wg.Add(1)
		go func(g int, rc *srvlab.CConn) {
			defer wg.Done()
			defer rc.Hangup()
			rr := &rawc{c: rc}
			gr := core.NewRand(ctx.Seed, fmt.Sprintf("c15conc/%v/%d/%d", dotu, G, g))
			<-start
			for round := 0; round < 25; round++ {
				fidn := uint32(100 + round)
				if w := rr.rpc(&wire.Msg{Type: wire.Twalk, Fid: 0, Newfid: fidn, Wname: []string{fmt.Sprintf("cd%d", g)}}); w == nil || w.Type != wire.Rwalk {
					fail("walk-dir", "cannot walk to the directory")
					return
				}
				if o := rr.rpc(&wire.Msg{Type: wire.Topen, Fid: fidn, Mode: 0}); o == nil || o.Type != wire.Ropen {
					fail("open-dir", "cannot open the directory")
					return
				}
				cnt := 400 + gr.Intn(7000)
				var names []string
				off := uint64(0)
				for reads := 0; ; reads++ {
					rp := rr.rpc(&wire.Msg{Type: wire.Tread, Fid: fidn, Offset: off, Count: uint32(cnt)})
					mu.Lock()
					res.Evals++
					mu.Unlock()
					if rp == nil || rp.Type != wire.Rread {
						fail("read-failed", fmt.Sprintf("directory read (offset %d, count %d) was not answered by Rread", off, cnt))
						return
					}
					if len(rp.Data) > cnt {
						fail("read-more-than-count", fmt.Sprintf("directory read returned %d bytes for count %d", len(rp.Data), cnt))
						return
					}
					if len(rp.Data) == 0 || reads > nent+10 {
						break
					}
					b := rp.Data
					for len(b) > 0 {
						st, used, err := wire.DecodeStat(b, dotu)
						if err != nil {
							fail("partial-record", fmt.Sprintf("a reply holds bytes that are not whole stat records: %v", err))
							return
						}
						names = append(names, st.Name)
						b = b[used:]
					}
					off += uint64(len(rp.Data))
				}
				sort.Strings(names)
				if strings.Join(names, "\x00") != strings.Join(hostNames[g], "\x00") {
					dup, missing := diffNames(names, hostNames[g])
					foreign := 0
					for _, n := range names {
						if !strings.HasPrefix(n, fmt.Sprintf("g%d-", g)) {
							foreign++
						}
					}
					fail(fmt.Sprintf("listing-differs;foreign=%v", foreign > 0), fmt.Sprintf("listing %d of directory %d returned %d names for %d entries; %d belong to another directory, duplicated %v, missing %v", round, g, len(names), nent, foreign, head(dup), head(missing)))
					return
				}
				rr.rpc(&wire.Msg{Type: wire.Tclunk, Fid: fidn})
			}
		}(g, rc)
	}
	close(start)
	done := make(chan struct{})
	go func() { wg.Wait(); close(done) }()
	select {
	case <-done:
	case <-time.After(4 * W):
		res.Inconclusive = "c15: concurrent listings did not finish"
	}
	res.Sig(fmt.Sprintf("concurrent-listings|%v|%d", dotu, G))
	res.Count("concurrent_listers", int64(G))
	res.Sample(map[string]interface{}{"scenario": "connections listing their own directories at the same time", "connections": G, "entries_each": nent, "rounds": 25})
	return res
}

// c14Renegotiated: a connection that negotiates more than once (a client probing with a small msize and settling on a
// larger one, or the reverse). After every Rversion the announced msize is what the session uses: reads of every count
// up to msize-24 return exactly the bytes of the file, writes of that size arrive whole.
func c14Renegotiated(ctx *core.Ctx, dotu bool) core.Result {
	var res core.Result
	e, err := newEnv(ctx, "c14r", dotu, 8192)
	if err != nil {
		res.Inconclusive = err.Error()
		return res
	}
	defer e.cleanup()
	r := core.NewRand(ctx.Seed, fmt.Sprintf("c14reneg/%v", dotu))
	content := r.Bytes(20000)
	_ = os.WriteFile(filepath.Join(e.root, "data"), content, 0o644)
	_ = os.WriteFile(filepath.Join(e.root, "other"), nil, 0o644)
	ver := "9P2000"
	if dotu {
		ver = "9P2000.u"
	}
	for si, seq := range [][]uint32{{512, 8192}, {256, 4096, 8192}, {8192, 300, 8192}, {1024, 1024}, {64, 8192}, {8192, 8192}, {700, 600, 5000}} {
		c := e.s.Dial()
		rr := &rawc{c: c}
		fidn := uint32(0)
		for step, ask := range seq {
			ctx.Beat()
			rv, err := c.Version(ask, ver, W)
			if err != nil || rv.Msg == nil || rv.Msg.Type != wire.Rversion {
				res.Violate("C14;renegotiated;no-rversion", fmt.Sprintf("Tversion msize=%d (step %d of %v) was not answered by Rversion", ask, step, seq), nil)
				break
			}
			msize := rv.Msg.Msize
			if msize > ask || msize < 24 {
				res.Violate("C14;renegotiated;msize", fmt.Sprintf("Tversion msize=%d answered msize=%d", ask, msize), nil)
				break
			}
			L := int(msize) - wire.IOHDRSZ
			root, f, o := fidn+1, fidn+2, fidn+3
			fidn += 3
			what := fmt.Sprintf("msizes asked in turn %v, now at step %d with msize %d", seq, step, msize)
			if a := rr.rpc(&wire.Msg{Type: wire.Tattach, Fid: root, Afid: wire.NOFID, Uname: "root", Nuname: 0}); a == nil || a.Type != wire.Rattach {
				res.Violate("C14;renegotiated;attach", "attach after a Tversion failed: "+what, nil)
				break
			}
			okw := rr.rpc(&wire.Msg{Type: wire.Twalk, Fid: root, Newfid: f, Wname: []string{"data"}})
			oko := rr.rpc(&wire.Msg{Type: wire.Topen, Fid: f, Mode: 2})
			rr.rpc(&wire.Msg{Type: wire.Twalk, Fid: root, Newfid: o, Wname: []string{"other"}})
			rr.rpc(&wire.Msg{Type: wire.Topen, Fid: o, Mode: 0})
			if okw == nil || okw.Type != wire.Rwalk || oko == nil || oko.Type != wire.Ropen {
				res.Violate("C14;renegotiated;open", "walk/open after a Tversion failed: "+what, nil)
				break
			}
			if L < 1 {
				continue
			}
			bad := false
			for i, cnt := range []int{1, L / 2, L - 1, L, L, 1 + r.Intn(L), L} {
				if cnt < 1 {
					continue
				}
				off := []int{0, 1000, len(content) - cnt/2, 7, len(content) - cnt, 333, len(content)}[i]
				if off < 0 {
					off = 0
				}
				// (a read of the empty file in between: its reply buffer holds an Rread of no bytes)
				if i%2 == 1 {
					rr.rpc(&wire.Msg{Type: wire.Tread, Fid: o, Offset: 0, Count: uint32(L)})
				}
				rp := rr.rpc(&wire.Msg{Type: wire.Tread, Fid: f, Offset: uint64(off), Count: uint32(cnt)})
				res.Evals++
				want := content[off:]
				if len(want) > cnt {
					want = want[:cnt]
				}
				if rp == nil || rp.Type != wire.Rread || !bytes.Equal(rp.Data, want) {
					got := -1
					if rp != nil && rp.Type == wire.Rread {
						got = len(rp.Data)
					}
					res.Violate(fmt.Sprintf("C14;renegotiated;read-differs;%s", cntClass(cnt, L)), fmt.Sprintf("read(offset %d, count %d) of a %d-byte file returned %d bytes (reply %v), want %d: %s", off, cnt, len(content), got, rp != nil && rp.Type == wire.Rread, len(want), what), map[string]interface{}{"msizes": seq, "step": step})
					bad = true
					break
				}
			}
			if bad {
				break
			}
			patch := r.Bytes(L)
			wp := rr.rpc(&wire.Msg{Type: wire.Twrite, Fid: f, Offset: 100, Count: uint32(L), Data: patch})
			copy(content[100:], patch)
			host, _ := os.ReadFile(filepath.Join(e.root, "data"))
			if wp == nil || wp.Type != wire.Rwrite || int(wp.Count) != L || !bytes.Equal(host, content) {
				res.Violate("C14;renegotiated;write-differs", fmt.Sprintf("write of %d bytes at 100: reply %v, host file equal to the model: %v: %s", L, wp, bytes.Equal(host, content), what), nil)
				break
			}
			res.Sig(fmt.Sprintf("renegotiated|%v|%d|%d|%d", dotu, si, step, msize))
		}
		c.Hangup()
		if len(res.Violations) > 0 {
			break
		}
	}
	res.Sample(map[string]interface{}{"scenario": "reads and writes after every Tversion of a connection that negotiates several times", "dotu": dotu})
	return res
}

// c15Pipelined: the offset rule with requests in flight together on one fid. The directory (2 500 entries, it does
// not change) is listed once, one read at a time: that gives the legal offsets and the bytes that belong to each.
// Then a read at offset 0 (which makes the server take a fresh look at the directory) is sent together with reads at
// legal offsets of the second half. Whichever order the server serves them in, every reply is whole records and,
// the directory being the same before and after, exactly the bytes the sequential listing had there.
func c15Pipelined(ctx *core.Ctx, dotu bool) core.Result {
	var res core.Result
	e, err := newEnv(ctx, "c15p", dotu, 1<<20)
	if err != nil {
		res.Inconclusive = err.Error()
		return res
	}
	defer e.cleanup()
	r := core.NewRand(ctx.Seed, fmt.Sprintf("c15pipe/%v", dotu))
	dir := filepath.Join(e.root, "big")
	_ = os.Mkdir(dir, 0o755)
	const nent = 2500
	for i := 0; i < nent; i++ {
		l := 4 + r.Intn(60)
		name := (fmt.Sprintf("p%d-", i) + strings.Repeat(string(rune('a'+i%26)), l))[:l+2]
		_ = os.WriteFile(filepath.Join(dir, name), nil, 0o644)
	}
	rc, err := e.raw(8192, dotu)
	if err != nil {
		res.Inconclusive = err.Error()
		return res
	}
	defer rc.Hangup()
	rr := &rawc{c: rc}
	if w := rr.rpc(&wire.Msg{Type: wire.Twalk, Fid: 0, Newfid: 9, Wname: []string{"big"}}); w == nil || w.Type != wire.Rwalk {
		res.Inconclusive = "c15 pipelined: walk failed"
		return res
	}
	if o := rr.rpc(&wire.Msg{Type: wire.Topen, Fid: 9, Mode: 0}); o == nil || o.Type != wire.Ropen {
		res.Inconclusive = "c15 pipelined: open failed"
		return res
	}
	const cnt = 4096
	type win struct {
		off  uint64
		data []byte
	}
	var ref []win
	off := uint64(0)
	for {
		rp := rr.rpc(&wire.Msg{Type: wire.Tread, Fid: 9, Offset: off, Count: cnt})
		if rp == nil || rp.Type != wire.Rread {
			res.Inconclusive = fmt.Sprintf("c15 pipelined: reference listing failed at offset %d: %v", off, rp)
			return res
		}
		if len(rp.Data) == 0 {
			break
		}
		ref = append(ref, win{off, append([]byte{}, rp.Data...)})
		off += uint64(len(rp.Data))
	}
	if len(ref) < 8 {
		res.Inconclusive = fmt.Sprintf("c15 pipelined: the reference listing has only %d windows", len(ref))
		return res
	}
	tag := uint16(100)
	overlapped := 0
	for round := 0; round < 8 && len(res.Violations) == 0; round++ {
		ctx.Beat()
		// the read at offset 0 …
		tag++
		restart := tag
		_ = rc.Send(&wire.Msg{Type: wire.Tread, Tag: restart, Fid: 9, Offset: 0, Count: cnt})
		// … and, for as long as it is being served, reads at legal offsets of the second half, a few at a time
		done := false
		for batch := 0; batch < 3000 && !done && len(res.Violations) == 0; batch++ {
			var ms []*wire.Msg
			var wants []int
			for i := 0; i < 3; i++ {
				tag++
				if tag >= 0xFF00 {
					tag = 101
				}
				w := len(ref)/2 + r.Intn(len(ref)-len(ref)/2)
				ms = append(ms, &wire.Msg{Type: wire.Tread, Tag: tag, Fid: 9, Offset: ref[w].off, Count: cnt})
				wants = append(wants, w)
			}
			_ = rc.Send(ms...)
			for i, m := range ms {
				rp, err := rc.WaitTag(m.Tag, srvlab.W)
				res.Evals++
				if err != nil || rp.Msg == nil {
					res.Inconclusive = "c15 pipelined: a read got no reply"
					return res
				}
				want := ref[wants[i]].data
				switch {
				case rp.Msg.Type != wire.Rread:
					res.Violate("C15;pipelined;error", fmt.Sprintf("a read at the legal offset %d, in flight together with a read at offset 0 on the same fid, was answered %s", m.Offset, rp.Msg.String()), nil)
				case !bytes.Equal(rp.Msg.Data, want):
					res.Violate("C15;pipelined;window-differs", fmt.Sprintf("a read at the legal offset %d, in flight together with a read at offset 0 on the same fid, returned %d bytes; the sequential listing has %d bytes of whole entries there (directory unchanged, %d entries)", m.Offset, len(rp.Msg.Data), len(want), nent), nil)
				}
				if len(res.Violations) > 0 {
					break
				}
			}
			if rp, err := rc.WaitTag(restart, time.Microsecond); err == nil && rp != nil {
				done = true
				if rp.Msg == nil || rp.Msg.Type != wire.Rread || !bytes.Equal(rp.Msg.Data, ref[0].data) {
					res.Violate("C15;pipelined;restart-differs", "the read at offset 0 did not return the first window of the listing", nil)
				}
			} else {
				overlapped++
			}
		}
		if !done {
			if rp, err := rc.WaitTag(restart, srvlab.W); err != nil || rp.Msg == nil {
				res.Inconclusive = "c15 pipelined: the read at offset 0 got no reply"
				return res
			}
		}
		res.Sig(fmt.Sprintf("pipelined|%v|round=%d", dotu, round%4))
	}
	res.Count("continuation_batches_answered_while_offset0_read_in_progress", int64(overlapped))
	res.Sample(map[string]interface{}{"scenario": "read at offset 0 in flight together with continuation reads on one directory fid", "entries": nent, "windows": len(ref), "dotu": dotu})
	return res
}

// c15Churn: 1 200 files stay in the directory throughout; others are created and removed (on the host, as another
// client or a local process would) while the directory is listed again and again. Every listing is whole records,
// and every file that was there all the time is in it exactly once; the ones that come and go may or may not be.
func c15Churn(ctx *core.Ctx, dotu bool, listings int) core.Result {
	var res core.Result
	e, err := newEnv(ctx, "c15churn", dotu, 1<<20)
	if err != nil {
		res.Inconclusive = err.Error()
		return res
	}
	defer e.cleanup()
	dir := filepath.Join(e.root, "busy")
	_ = os.Mkdir(dir, 0o755)
	const stable = 1200
	for i := 0; i < stable; i++ {
		_ = os.WriteFile(filepath.Join(dir, fmt.Sprintf("s%04d", i)), nil, 0o644)
	}
	stop := make(chan struct{})
	churned := make(chan int, 1)
	go func() {
		n := 0
		for {
			for i := 0; i < 400; i++ {
				_ = os.WriteFile(filepath.Join(dir, fmt.Sprintf("v%04d", i)), nil, 0o644)
			}
			for i := 0; i < 400; i++ {
				_ = os.Remove(filepath.Join(dir, fmt.Sprintf("v%04d", i)))
				n++
			}
			select {
			case <-stop:
				churned <- n
				return
			default:
			}
		}
	}()
	defer func() {
		select {
		case <-stop:
		default:
			close(stop)
			<-churned
		}
	}()
	rc, err := e.raw(65536, dotu)
	if err != nil {
		res.Inconclusive = err.Error()
		return res
	}
	defer rc.Hangup()
	rr := &rawc{c: rc}
	if w := rr.rpc(&wire.Msg{Type: wire.Twalk, Fid: 0, Newfid: 9, Wname: []string{"busy"}}); w == nil || w.Type != wire.Rwalk {
		res.Inconclusive = "c15 churn: walk failed"
		return res
	}
	if o := rr.rpc(&wire.Msg{Type: wire.Topen, Fid: 9, Mode: 0}); o == nil || o.Type != wire.Ropen {
		res.Inconclusive = "c15 churn: open failed"
		return res
	}
	for l := 0; l < listings && len(res.Violations) == 0; l++ {
		if l%10 == 0 {
			ctx.Beat()
		}
		seen := map[string]int{}
		off := uint64(0)
		for {
			rp := rr.rpc(&wire.Msg{Type: wire.Tread, Fid: 9, Offset: off, Count: 60000})
			if rp == nil || rp.Type != wire.Rread {
				res.Violate("C15;churn;read-error", fmt.Sprintf("listing %d: a read at the legal offset %d was answered %v", l, off, rp), nil)
				break
			}
			if len(rp.Data) == 0 {
				break
			}
			rest := rp.Data
			for len(rest) > 0 {
				st, n, derr := wire.DecodeStat(rest, dotu)
				if derr != nil || n <= 0 {
					res.Violate("C15;churn;torn-record", fmt.Sprintf("listing %d: the reply at offset %d does not consist of whole stat records", l, off), nil)
					rest = nil
					break
				}
				seen[st.Name]++
				rest = rest[n:]
			}
			off += uint64(len(rp.Data))
			if len(res.Violations) > 0 {
				break
			}
		}
		res.Evals++
		if len(res.Violations) > 0 {
			break
		}
		missing, twice := 0, 0
		first := ""
		for i := 0; i < stable; i++ {
			nm := fmt.Sprintf("s%04d", i)
			switch seen[nm] {
			case 1:
			case 0:
				missing++
				if first == "" {
					first = nm
				}
			default:
				twice++
			}
		}
		if missing > 0 || twice > 0 {
			res.Violate("C15;churn;stable-entries", fmt.Sprintf("listing %d of a directory in which other files come and go: of the %d files that were there all the time %d are missing (first %s) and %d are listed more than once; %d names in all", l, stable, missing, first, twice, len(seen)), nil)
		}
	}
	close(stop)
	n := <-churned
	res.Count("entries_removed_while_listing", int64(n))
	res.Sig(fmt.Sprintf("churn|%v", dotu))
	res.Sample(map[string]interface{}{"scenario": "listing while other entries are created and removed", "stable_entries": stable, "listings": listings, "removed_meanwhile": n, "dotu": dotu})
	return res
}
