package ufslab

import (
	"crypto/sha1"
	"errors"
	"fmt"
	"os"
	"path/filepath"
	"sort"
	"strings"
	"syscall"
	"time"

	"verif/core"
	"verif/wire"
)

func init() {
	core.Register(&core.Engine{
		Property: "C17",
		Level:    "exploration",
		Rule: "twin trees: seeded random sequences of mutations are applied through 9P (raw requests to the real Ufs) to tree A and with the corresponding os/syscall call (same flags, same mode bits, same " +
			"process, same uid and umask) to twin tree B, and the trees are compared recursively after every step (names, kinds, contents, permission bits, link targets, hard-link partition, explicitly " +
			"set mtimes). Operations: create file with every open mode incl. OTRUNC, mkdir, symlink (live and dangling in-tree targets), hard link, write, remove (file, empty and non-empty directory), " +
			"wstat rename to free and occupied names, truncate 0..beyond size, chmod classes, mtime; error cases with one POSIX answer (EEXIST for mkdir/symlink/link, ENOTEMPTY, ENAMETOOLONG, ENOENT). " +
			"An Rerror must leave A unchanged and, in 9P2000.u, carry the errno of B's failure; after create/rename the fid must stat as the new object. " +
			"distinct = (operation, argument class, outcome, dialect)",
		Assumptions: []string{
			"not generated because the statement does not settle them: creating a regular file over an existing name, chown, atime",
			"host-specific behaviour (rename over an existing file, truncate extending with zeros, root bypassing permission bits) cancels out between the twins",
		},
		Cases:       c17Cases,
		MinDistinct: 60,
		Jobs:        8,
	})
}

func c17Cases(tier string, seed int64) []core.Case {
	var cases []core.Case
	nseq, steps := 6, 120
	if tier == "thorough" {
		nseq, steps = 80, 300
	}
	for i := 0; i < nseq; i++ {
		for _, dotu := range []bool{true, false} {
			i, dotu := i, dotu
			cases = append(cases, core.Case{ID: fmt.Sprintf("seq/%d/dotu=%v", i, dotu), Run: func(ctx *core.Ctx) core.Result { return c17Run(ctx, i, dotu, steps) }})
		}
	}
	for i := range cases {
		cases[i].Run = guarded("C17", cases[i].Run)
	}
	return cases
}

type entry struct {
	kind   string
	perm   os.FileMode
	sum    string
	target string
	ino    uint64
	mtime  int64
}

func snapshot(root string) map[string]entry {
	out := map[string]entry{}
	_ = filepath.Walk(root, func(p string, fi os.FileInfo, err error) error {
		if err != nil || p == root {
			return nil
		}
		rel, _ := filepath.Rel(root, p)
		e := entry{perm: fi.Mode() & (os.ModePerm | os.ModeSetuid | os.ModeSetgid | os.ModeSticky), ino: fi.Sys().(*syscall.Stat_t).Ino, mtime: fi.ModTime().Unix()}
		switch {
		case fi.IsDir():
			e.kind = "dir"
		case fi.Mode()&os.ModeSymlink != 0:
			e.kind = "symlink"
			e.target, _ = os.Readlink(p)
		default:
			e.kind = "file"
			b, _ := os.ReadFile(p)
			e.sum = fmt.Sprintf("%d:%x", len(b), sha1.Sum(b))
		}
		out[rel] = e
		return nil
	})
	return out
}

// sameTree compares two snapshots; hard links are compared as partitions of names.
func sameTree(a, b map[string]entry, mtimes map[string]bool) string {
	var names []string
	for k := range a {
		names = append(names, k)
	}
	for k := range b {
		if _, ok := a[k]; !ok {
			return fmt.Sprintf("%q exists only in the twin (the POSIX operation created or kept it)", k)
		}
	}
	sort.Strings(names)
	groupA, groupB := map[uint64][]string{}, map[uint64][]string{}
	for _, k := range names {
		x := a[k]
		y, ok := b[k]
		if !ok {
			return fmt.Sprintf("%q exists only in the 9P-mutated tree", k)
		}
		if x.kind != y.kind {
			return fmt.Sprintf("%q is a %s, in the twin a %s", k, x.kind, y.kind)
		}
		if x.kind != "symlink" && x.perm != y.perm {
			return fmt.Sprintf("%q has permission bits %o, in the twin %o", k, x.perm, y.perm)
		}
		if x.sum != y.sum {
			return fmt.Sprintf("%q has content %s, in the twin %s", k, x.sum, y.sum)
		}
		if x.target != y.target {
			return fmt.Sprintf("%q links to %q, in the twin to %q", k, x.target, y.target)
		}
		if mtimes[k] && x.mtime != y.mtime {
			return fmt.Sprintf("%q has mtime %d, in the twin %d", k, x.mtime, y.mtime)
		}
		if x.kind == "file" {
			groupA[x.ino] = append(groupA[x.ino], k)
			groupB[y.ino] = append(groupB[y.ino], k)
		}
	}
	pa, pb := parts(groupA), parts(groupB)
	if pa != pb {
		return fmt.Sprintf("hard-link partition %s, in the twin %s", pa, pb)
	}
	return ""
}

func parts(g map[uint64][]string) string {
	var ps []string
	for _, names := range g {
		if len(names) > 1 {
			sort.Strings(names)
			ps = append(ps, strings.Join(names, "="))
		}
	}
	sort.Strings(ps)
	return strings.Join(ps, " ")
}

func errnoOf(err error) uint32 {
	var en syscall.Errno
	if errors.As(err, &en) {
		return uint32(en)
	}
	return 0
}

func omodeFlags(mode uint8) int {
	f := 0
	switch mode & 3 {
	case 0, 3:
		f = os.O_RDONLY
	case 1:
		f = os.O_WRONLY
	case 2:
		f = os.O_RDWR
	}
	if mode&16 != 0 {
		f |= os.O_TRUNC
	}
	return f
}

func noTouch() wire.Stat {
	return wire.Stat{Type: 0xFFFF, Dev: 0xFFFFFFFF, Qid: wire.Qid{Type: 0xFF, Version: 0xFFFFFFFF, Path: 0xFFFFFFFFFFFFFFFF}, Mode: 0xFFFFFFFF,
		Atime: 0xFFFFFFFF, Mtime: 0xFFFFFFFF, Length: 0xFFFFFFFFFFFFFFFF, Nuid: wire.NOUID, Ngid: wire.NOUID, Nmuid: wire.NOUID}
}

func c17Run(ctx *core.Ctx, idx int, dotu bool, steps int) core.Result {
	var res core.Result
	e, err := newEnv(ctx, "c17a", dotu, 1<<20)
	if err != nil {
		res.Inconclusive = err.Error()
		return res
	}
	defer e.cleanup()
	twin := e.root + "-twin"
	_ = os.RemoveAll(twin)
	_ = os.MkdirAll(twin, 0o755)
	defer os.RemoveAll(twin)
	r := core.NewRand(ctx.Seed, fmt.Sprintf("c17/%d/%v", idx, dotu))
	// identical starting trees
	for _, root := range []string{e.root, twin} {
		rr := core.NewRand(ctx.Seed, fmt.Sprintf("c17tree/%d", idx))
		_ = os.MkdirAll(filepath.Join(root, "d1", "d2"), 0o755)
		_ = os.MkdirAll(filepath.Join(root, "empty"), 0o755)
		_ = os.MkdirAll(filepath.Join(root, "empty2"), 0o755)
		_ = os.MkdirAll(filepath.Join(root, "d1", "e3"), 0o755)
		_ = os.MkdirAll(filepath.Join(root, "d1", "e4"), 0o755)
		for i := 0; i < 6; i++ {
			_ = os.WriteFile(filepath.Join(root, []string{"", "d1", "d1/d2"}[i%3], fmt.Sprintf("f%d", i)), rr.Bytes(rr.Intn(2000)), 0o644)
		}
	}
	rc, err := e.raw(8192, dotu)
	if err != nil {
		res.Inconclusive = err.Error()
		return res
	}
	rw := &rawc{c: rc}
	mtimes := map[string]bool{}
	caseStart := time.Now().Unix()
	// touched: the file's mtime becomes "now" on both sides (two different instants): it is no longer a set value,
	// under any of its names
	touched := func(f string) {
		fi, err := os.Stat(filepath.Join(twin, f))
		if err != nil {
			delete(mtimes, f)
			return
		}
		for k := range mtimes {
			if ki, err := os.Stat(filepath.Join(twin, k)); err != nil || os.SameFile(fi, ki) {
				delete(mtimes, k)
			}
		}
		delete(mtimes, f)
	}
	var trace []string
	fail := func(sig, what string) {
		tr := trace
		if len(tr) > 12 {
			tr = tr[len(tr)-12:]
		}
		res.Violate("C17;"+sig, fmt.Sprintf("%s [sequence %d, dotu %v]", what, idx, dotu), map[string]interface{}{"last_steps": tr})
	}
	listing := func(kind string) []string {
		var out []string
		for k, v := range snapshot(twin) {
			if kind == "" || v.kind == kind {
				out = append(out, k)
			}
		}
		sort.Strings(out)
		return out
	}
	pick := func(kind string) (string, bool) {
		l := listing(kind)
		if kind == "dir" {
			l = append(l, ".")
		}
		if len(l) == 0 {
			return "", false
		}
		return l[r.Intn(len(l))], true
	}
	walk := func(fid uint32, rel string) bool {
		names := split(rel)
		if rel == "." {
			names = []string{}
		}
		w := rw.rpc(&wire.Msg{Type: wire.Twalk, Fid: 0, Newfid: fid, Wname: names})
		return w != nil && w.Type == wire.Rwalk && len(w.Wqid) == len(names)
	}
	clunk := func(fid uint32) { rw.rpc(&wire.Msg{Type: wire.Tclunk, Fid: fid}) }
	freeName := func(dir string) string {
		for {
			n := fmt.Sprintf("new%d", r.Intn(100000))
			// names POSIX has nothing against: leading dots (also two or three), a trailing dot, spaces, a dash first,
			// bytes that are not UTF-8 letters
			switch r.Intn(12) {
			case 0:
				n = "..data" + n
			case 1:
				n = "..." + n[3:]
			case 2:
				n = "." + n
			case 3:
				n = "-" + n + "."
			case 4:
				n = "a b\tc " + n
			case 5:
				n = "..2026_09_26." + n + ".tmp"
			}
			if _, err := os.Lstat(filepath.Join(twin, dir, n)); err != nil {
				return n
			}
		}
	}
	for step := 0; step < steps && len(res.Violations) < 3; step++ {
		if step%40 == 0 {
			ctx.Beat()
		}
		before := snapshot(e.root)
		var rep *wire.Msg
		var perr error // the twin's result
		op, argc := "", ""
		created := ""   // relative path of an object the request creates (fid must designate it afterwards)
		mayFail := true // an Rerror is judged against the twin
		noTwin := false // the request was refused for a reason POSIX knows nothing about: only "tree unchanged" is judged
		fid := uint32(20)
		timesCheck := "" // "" | "atime-only" | "length+atime": extra judgement on modification times after the step
		timesFile := ""
		kk := r.Intn(16)
		if step%20 == 19 {
			kk = 16
		}
		switch k := kk; k {
		case 16: // a fid whose path stopped resolving: the directory above it was replaced, behind the server's back
			var deep []string
			for _, f := range listing("file") {
				if strings.Contains(f, "/") {
					deep = append(deep, f)
				}
			}
			if len(deep) == 0 {
				continue
			}
			f := deep[r.Intn(len(deep))]
			pd := filepath.Dir(f)
			if !walk(fid, f) {
				continue
			}
			how := []string{"parent-now-a-file", "parent-now-a-link-loop", "parent-gone"}[r.Intn(3)]
			for _, root := range []string{e.root, twin} {
				_ = os.Rename(filepath.Join(root, pd), filepath.Join(root, fmt.Sprintf("%s.moved%d", pd, step)))
				switch how {
				case "parent-now-a-file":
					_ = os.WriteFile(filepath.Join(root, pd), []byte("not a directory"), 0o644)
				case "parent-now-a-link-loop":
					_ = os.Symlink(filepath.Base(pd), filepath.Join(root, pd))
				}
			}
			for k := range mtimes {
				if k == pd || strings.HasPrefix(k, pd+"/") {
					delete(mtimes, k)
				}
			}
			before = snapshot(e.root)
			if r.Intn(2) == 0 {
				op, argc = "remove-stale", how
				rep = rw.rpc(&wire.Msg{Type: wire.Tremove, Fid: fid})
				perr = os.Remove(filepath.Join(twin, f))
				fid = 0
			} else {
				op, argc = "open-stale", how
				rep = rw.rpc(&wire.Msg{Type: wire.Topen, Fid: fid, Mode: 0})
				var tf *os.File
				tf, perr = os.Open(filepath.Join(twin, f))
				if tf != nil {
					tf.Close()
				}
			}
		case 14, 15: // wstat that sets the access time and leaves the modification time alone, alone or with a length
			kind := "file"
			if dotu && r.Intn(3) == 0 {
				kind = "symlink"
			}
			f, ok := pick(kind)
			if !ok {
				continue
			}
			at := uint32(1000000000 + r.Intn(600000000))
			st := noTouch()
			st.Atime = at
			if kind == "file" && r.Intn(2) == 0 {
				fi, _ := os.Stat(filepath.Join(twin, f))
				size := 0
				if fi != nil {
					size = int(fi.Size())
				}
				n := []int{0, size / 2, size + 7}[r.Intn(3)]
				st.Length = uint64(n)
				op, argc, timesCheck = "wstat-times", "length+atime", "length+atime"
				touched(f)
				if !walk(fid, f) {
					continue
				}
				rep = rw.rpc(&wire.Msg{Type: wire.Twstat, Fid: fid, Stat: st})
				perr = os.Truncate(filepath.Join(twin, f), int64(n))
				if perr == nil {
					perr = os.Chtimes(filepath.Join(twin, f), time.Unix(int64(at), 0), time.Time{})
				}
			} else {
				op, argc, timesCheck = "wstat-times", "atime-only;"+kind, "atime-only"
				if !walk(fid, f) {
					continue
				}
				rep = rw.rpc(&wire.Msg{Type: wire.Twstat, Fid: fid, Stat: st})
				perr = os.Chtimes(filepath.Join(twin, f), time.Unix(int64(at), 0), time.Time{}) // zero time: left as it is
			}
			timesFile = f
		case 0, 1: // create a regular file (free name)
			dir, _ := pick("dir")
			name := freeName(dir)
			mode := []uint8{0, 1, 2, 17, 18, 16}[r.Intn(6)]
			perm := uint32([]int{0o644, 0o600, 0o755, 0o400, 0o666, 0}[r.Intn(6)])
			op, argc = "create-file", fmt.Sprintf("mode%d/perm%o", mode, perm)
			if !walk(fid, dir) {
				continue
			}
			tmode := os.FileMode(perm & 0o777)
			if dotu && r.Intn(4) == 0 {
				// 9P2000.u: the set-id bits of the new file travel in the permission word
				if r.Intn(2) == 0 {
					perm |= 0x00080000
					tmode |= os.ModeSetuid
					argc += "+setuid"
				} else {
					perm |= 0x00040000
					tmode |= os.ModeSetgid
					argc += "+setgid"
				}
			}
			rep = rw.rpc(&wire.Msg{Type: wire.Tcreate, Fid: fid, Name: name, Perm: perm, Mode: mode})
			f, err := os.OpenFile(filepath.Join(twin, dir, name), omodeFlags(mode)|os.O_CREATE, tmode)
			if f != nil {
				f.Close()
			}
			perr = err
			created = filepath.Join(dir, name)
		case 2: // mkdir, free or existing name
			dir, _ := pick("dir")
			name := freeName(dir)
			argc = "free"
			if r.Intn(4) == 0 {
				if ex, ok := pick(""); ok {
					dir, name, argc = filepath.Dir(ex), filepath.Base(ex), "existing"
				}
			}
			if r.Intn(12) == 0 {
				name, argc = strings.Repeat("x", 256), "toolong"
			}
			perm := uint32([]int{0o755, 0o700, 0o711}[r.Intn(3)])
			op = "mkdir"
			if !walk(fid, dir) {
				continue
			}
			// mostly OREAD; sometimes a mode a directory cannot be created with (OTRUNC, ORCLOSE, write access): whether
			// the server accepts such a create is not a POSIX matter, but an Rerror must leave the tree as it was
			dmode := []uint8{0, 0, 0, 0, 0, 0x10, 0x40, 0x50, 1, 2, 0x11, 3}[r.Intn(12)]
			rep = rw.rpc(&wire.Msg{Type: wire.Tcreate, Fid: fid, Name: name, Perm: 0x80000000 | perm, Mode: dmode})
			if dmode == 0 || (rep != nil && rep.Type != wire.Rerror) {
				perr = os.Mkdir(filepath.Join(twin, dir, name), os.FileMode(perm))
			} else {
				noTwin = true
			}
			if dmode != 0 {
				argc += fmt.Sprintf(";mode%#x", dmode)
			}
			created = filepath.Join(dir, name)
		case 3: // symlink (9P2000.u only)
			if !dotu {
				continue
			}
			dir, _ := pick("dir")
			name := freeName(dir)
			argc = "live"
			target := "f0"
			if t, ok := pick(""); ok {
				rel, _ := filepath.Rel(filepath.Join(twin, dir), filepath.Join(twin, t))
				target = rel
			}
			if r.Intn(3) == 0 {
				target, argc = "dangling-target", "dangling"
			}
			if r.Intn(6) == 0 {
				if ex, ok := pick(""); ok {
					dir, name, argc = filepath.Dir(ex), filepath.Base(ex), "existing"
				}
			}
			op = "symlink"
			if !walk(fid, dir) {
				continue
			}
			rep = rw.rpc(&wire.Msg{Type: wire.Tcreate, Fid: fid, Name: name, Perm: 0x02000000 | 0o777, Mode: 0, Ext: target})
			perr = os.Symlink(target, filepath.Join(twin, dir, name))
		case 4: // hard link (9P2000.u only)
			if !dotu {
				continue
			}
			srcKind := "file"
			if r.Intn(4) == 0 {
				srcKind = "symlink" // link(2) gives the link itself a second name, dangling or not
			}
			src, ok := pick(srcKind)
			if !ok {
				continue
			}
			dir, _ := pick("dir")
			name := freeName(dir)
			argc = "free"
			if srcKind == "symlink" {
				argc = "free;of-a-symlink"
			}
			if r.Intn(5) == 0 {
				if ex, ok := pick("file"); ok {
					dir, name, argc = filepath.Dir(ex), filepath.Base(ex), "existing"
				}
			}
			op = "link"
			if !walk(fid, dir) || !walk(21, src) {
				clunk(fid)
				continue
			}
			// the new name is opened with the mode of the Tcreate like any created file: link(2), then open(2) with
			// those flags — O_TRUNC empties the contents the two names share
			lmode := []uint8{0, 0, 1, 2, 16, 17, 18}[r.Intn(7)]
			if lmode != 0 {
				argc += fmt.Sprintf(";mode%d", lmode)
			}
			rep = rw.rpc(&wire.Msg{Type: wire.Tcreate, Fid: fid, Name: name, Perm: 0x01000000 | 0o644, Mode: lmode, Ext: "21"})
			perr = os.Link(filepath.Join(twin, src), filepath.Join(twin, dir, name))
			if perr == nil && srcKind != "symlink" { // (a second name of a symbolic link is not opened, like a symbolic link that is created)
				if lf, oerr := os.OpenFile(filepath.Join(twin, dir, name), omodeFlags(lmode), 0); oerr == nil {
					lf.Close()
				} else {
					perr = oerr
				}
				if lmode&16 != 0 {
					touched(src)
				}
			}
			clunk(21)
		case 5, 6: // write through an opened fid
			f, ok := pick("file")
			if !ok {
				continue
			}
			mode := []uint8{1, 2, 17, 18}[r.Intn(4)]
			data := r.Bytes(r.Intn(3000))
			fi, _ := os.Stat(filepath.Join(twin, f))
			off := int64(0)
			if fi != nil {
				off = int64(r.Intn(int(fi.Size()) + 100))
			}
			op, argc = "write", fmt.Sprintf("mode%d", mode)
			mayFail = false
			touched(f)
			if !walk(fid, f) {
				continue
			}
			o := rw.rpc(&wire.Msg{Type: wire.Topen, Fid: fid, Mode: mode})
			tf, terr := os.OpenFile(filepath.Join(twin, f), omodeFlags(mode), 0)
			if o == nil || (o.Type == wire.Ropen) != (terr == nil) {
				fail("open-outcome;"+argc, fmt.Sprintf("open of %q mode %d answered %v, the twin's open returned %v", f, mode, o, terr))
			}
			if o != nil && o.Type == wire.Ropen && terr == nil {
				rep = rw.rpc(&wire.Msg{Type: wire.Twrite, Fid: fid, Offset: uint64(off), Count: uint32(len(data)), Data: data})
				n, werr := tf.WriteAt(data, off)
				perr = werr
				if rep != nil && rep.Type == wire.Rwrite && int(rep.Count) != n {
					fail("write-count", fmt.Sprintf("Rwrite count %d, pwrite wrote %d", rep.Count, n))
				}
			}
			if tf != nil {
				tf.Close()
			}
		case 7: // remove: file, empty dir, non-empty dir, symlink
			p, ok := pick("")
			if !ok {
				continue
			}
			fi, _ := os.Lstat(filepath.Join(twin, p))
			argc = "file"
			if fi != nil && fi.IsDir() {
				ents, _ := os.ReadDir(filepath.Join(twin, p))
				argc = map[bool]string{true: "empty-dir", false: "nonempty-dir"}[len(ents) == 0]
			}
			op = "remove"
			if !walk(fid, p) {
				continue
			}
			if (argc == "file" || argc == "empty-dir") && p != "" && r.Intn(3) == 0 && fi != nil && (fi.Mode().IsRegular() || fi.IsDir()) {
				// between the walk and the remove the name comes to designate an object of the other kind (another
				// process replaced it, in both trees): a fid designates a name, the remove acts on what is there now
				for _, base := range []string{e.root, twin} {
					full := filepath.Join(base, p)
					_ = os.Remove(full)
					if argc == "file" {
						_ = os.Mkdir(full, 0o755)
					} else {
						_ = os.WriteFile(full, []byte("was a directory"), 0o644)
					}
				}
				touched(p)
				touched(filepath.Dir(p))
				argc += "-replaced-by-other-kind"
			}
			rep = rw.rpc(&wire.Msg{Type: wire.Tremove, Fid: fid})
			perr = os.Remove(filepath.Join(twin, p))
			fid = 0 // remove gives the fid up whatever happens
		case 8, 9: // rename within the directory (free or occupied name)
			p, ok := pick("")
			if !ok {
				continue
			}
			dir := filepath.Dir(p)
			nn := freeName(dir)
			argc = "free"
			if r.Intn(3) == 0 {
				// an occupied name: a file, a symlink, an empty or a non-empty directory in the same directory —
				// rename(2) on the twin decides what that means for each combination of kinds
				var sibs []string
				for _, k := range listing("") {
					if filepath.Dir(k) == dir && k != p {
						sibs = append(sibs, k)
					}
				}
				if len(sibs) > 0 {
					ex := sibs[r.Intn(len(sibs))]
					fi, _ := os.Lstat(filepath.Join(twin, ex))
					kind := "file"
					if fi != nil && fi.IsDir() {
						ents, _ := os.ReadDir(filepath.Join(twin, ex))
						kind = map[bool]string{true: "emptydir", false: "dir"}[len(ents) == 0]
					} else if fi != nil && fi.Mode()&os.ModeSymlink != 0 {
						kind = "symlink"
					}
					src := "file"
					if sfi, _ := os.Lstat(filepath.Join(twin, p)); sfi != nil && sfi.IsDir() {
						src = "dir"
					}
					nn, argc = filepath.Base(ex), "occupied-"+src+"-onto-"+kind
				}
			}
			op = "rename"
			// a name starting with '/' is relative to the exported root (Ufs's documented convention): rename across directories
			wname, destRel := nn, filepath.Join(dir, nn)
			if r.Intn(4) == 0 {
				if d2, ok := pick("dir"); ok && !strings.HasPrefix(filepath.Join(d2, "x"), p+"/") && d2 != p {
					n2 := freeName(d2)
					destRel = filepath.Join(d2, n2)
					wname, argc = "/"+destRel, "absolute"
				}
			}
			if !walk(fid, p) {
				continue
			}
			st := noTouch()
			st.Name = wname
			// one Twstat may carry several changes: a new name together with a new length and/or mode
			// (the twin does them one after the other: chmod, rename, truncate of the new name)
			combLen, combMode := -1, -1
			if sfi, _ := os.Lstat(filepath.Join(twin, p)); sfi != nil && sfi.Mode().IsRegular() && argc != "" && !strings.HasPrefix(argc, "occupied") && r.Intn(2) == 0 {
				combLen = []int{0, int(sfi.Size()) / 2, int(sfi.Size()) + 5, 12}[r.Intn(4)]
				st.Length = uint64(combLen)
				argc += "+length"
				if r.Intn(3) == 0 {
					combMode = []int{0o640, 0o600, 0o755}[r.Intn(3)]
					st.Mode = uint32(combMode)
					argc += "+mode"
				}
			}
			rep = rw.rpc(&wire.Msg{Type: wire.Twstat, Fid: fid, Stat: st})
			if combMode >= 0 {
				perr = os.Chmod(filepath.Join(twin, p), os.FileMode(combMode))
			}
			if perr == nil {
				perr = syscall.Rename(filepath.Join(twin, p), filepath.Join(twin, destRel))
			}
			if perr == nil && combLen >= 0 {
				perr = os.Truncate(filepath.Join(twin, destRel), int64(combLen))
			}
			if perr == nil {
				created = destRel
				// the name carries the source's mtime along; what was at the destination is gone
				was := mtimes[p]
				delete(mtimes, p)
				delete(mtimes, destRel)
				if was && combLen < 0 {
					mtimes[destRel] = true // (a truncation sets the time to now)
				}
				for k := range mtimes {
					if strings.HasPrefix(k, p+"/") || strings.HasPrefix(k, destRel+"/") {
						delete(mtimes, k) // paths below a renamed directory: forgotten rather than tracked
					}
				}
			}
		case 10: // truncate
			f, ok := pick("file")
			if !ok {
				continue
			}
			fi, _ := os.Stat(filepath.Join(twin, f))
			size := 0
			if fi != nil {
				size = int(fi.Size())
			}
			n := []int{0, size / 2, size, size + 1, size + 5000, 1}[r.Intn(6)]
			op, argc = "truncate", map[bool]string{true: "shrink", false: "extend"}[n <= size]
			touched(f)
			if !walk(fid, f) {
				continue
			}
			// the fid may be open in any mode when the wstat arrives (the POSIX truncate of the path does not care)
			if om := r.Intn(5); om > 0 {
				if o := rw.rpc(&wire.Msg{Type: wire.Topen, Fid: fid, Mode: uint8(om - 1)}); o != nil && o.Type == wire.Ropen {
					argc += ";fid-open-" + []string{"OREAD", "OWRITE", "ORDWR", "OEXEC"}[om-1]
				}
			}
			st := noTouch()
			st.Length = uint64(n)
			rep = rw.rpc(&wire.Msg{Type: wire.Twstat, Fid: fid, Stat: st})
			perr = os.Truncate(filepath.Join(twin, f), int64(n))
		case 11: // chmod
			p, ok := pick("")
			if !ok {
				continue
			}
			lfi, _ := os.Lstat(filepath.Join(twin, p))
			if lfi == nil {
				continue
			}
			viaLink := lfi.Mode()&os.ModeSymlink != 0
			if _, err := os.Stat(filepath.Join(twin, p)); viaLink && err != nil {
				continue // chmod follows symlinks: a dangling one has nothing to change
			}
			perm := uint32([]int{0o600, 0o644, 0o755, 0o700, 0o444, 0o777, 0o640}[r.Intn(7)])
			op, argc = "chmod", fmt.Sprintf("%o", perm)
			if viaLink {
				argc += ";through-symlink"
			}
			// now and then the object carries a set-id or sticky bit put there by someone else (both trees alike), and the
			// new mode repeats the permission bits it already has: chmod(2) with that value still clears the special bit
			if tfi, _ := os.Stat(filepath.Join(twin, p)); tfi != nil && r.Intn(3) == 0 {
				special := []os.FileMode{os.ModeSetgid, os.ModeSticky, os.ModeSetuid}[r.Intn(3)]
				if tfi.IsDir() {
					special = os.ModeSticky
				}
				cur := tfi.Mode().Perm()
				if os.Chmod(filepath.Join(twin, p), cur|special) == nil && os.Chmod(filepath.Join(e.root, p), cur|special) == nil {
					before = snapshot(e.root)
					if r.Intn(2) == 0 {
						perm = uint32(cur)
						argc = fmt.Sprintf("same-bits;special=%v", special)
					} else {
						argc += fmt.Sprintf(";special=%v", special)
					}
				}
			}
			if !walk(fid, p) {
				continue
			}
			st := noTouch()
			st.Mode = perm
			tmode := os.FileMode(perm)
			if fi, _ := os.Stat(filepath.Join(twin, p)); dotu && fi != nil && r.Intn(4) == 0 {
				// 9P2000.u: the new mode asks for a set-id bit (chmod u+s / g+s)
				if fi.IsDir() || r.Intn(2) == 0 {
					st.Mode |= 0x00040000
					tmode |= os.ModeSetgid
					argc += ";sets-setgid"
				} else {
					st.Mode |= 0x00080000
					tmode |= os.ModeSetuid
					argc += ";sets-setuid"
				}
			}
			if fi, _ := os.Lstat(filepath.Join(twin, p)); fi != nil && fi.IsDir() {
				st.Mode |= 0x80000000
			}
			rep = rw.rpc(&wire.Msg{Type: wire.Twstat, Fid: fid, Stat: st})
			perr = os.Chmod(filepath.Join(twin, p), tmode)
		case 12: // mtime
			f, ok := pick("file")
			if !ok {
				continue
			}
			t := uint32(1000000000 + r.Intn(600000000))
			op, argc = "mtime", "set"
			if !walk(fid, f) {
				continue
			}
			if om := r.Intn(5); om > 0 {
				if o := rw.rpc(&wire.Msg{Type: wire.Topen, Fid: fid, Mode: uint8(om - 1)}); o != nil && o.Type == wire.Ropen {
					argc += ";fid-open-" + []string{"OREAD", "OWRITE", "ORDWR", "OEXEC"}[om-1]
				}
			}
			st := noTouch()
			st.Mtime = t
			if fi, _ := os.Lstat(filepath.Join(twin, f)); fi != nil && r.Intn(2) == 0 {
				// a new length in the same request: the file ends up with that length and the time asked for
				nl := []int64{0, fi.Size() / 2, fi.Size() + 1, fi.Size() + 150, 1}[r.Intn(5)]
				if nl != fi.Size() {
					st.Length = uint64(nl)
					argc += ";with-length"
					perr = os.Truncate(filepath.Join(twin, f), nl)
				}
			}
			rep = rw.rpc(&wire.Msg{Type: wire.Twstat, Fid: fid, Stat: st})
			if e := os.Chtimes(filepath.Join(twin, f), time.Unix(int64(t), 0), time.Unix(int64(t), 0)); perr == nil {
				perr = e
			}
			mtimes[f] = true
			// the access time was left alone (0xFFFFFFFF in the request): whatever it is now, it is not that marker
			if fi, err := os.Stat(filepath.Join(e.root, f)); err == nil && rep != nil && rep.Type == wire.Rwstat {
				if at := fi.Sys().(*syscall.Stat_t).Atim.Sec; at == 0xFFFFFFFF {
					fail("atime-set-to-the-dont-touch-marker;"+argc, fmt.Sprintf("a Twstat that sets the modification time of %q and leaves the access time alone set the access time to 0xFFFFFFFF (the year 2106)", f))
				}
			}
		case 13: // create below something that is not there
			op, argc = "create-file", "missing-dir"
			if walk(fid, "no/such/dir") {
				fail("walk-missing-succeeded", "walk to a path that does not exist succeeded")
			}
			continue
		}
		if op == "" {
			continue
		}
		res.Evals++
		what := fmt.Sprintf("%s (%s)", op, argc)
		trace = append(trace, fmt.Sprintf("step %d: %s -> 9P %v / POSIX %v", step, what, rep, perr))
		if rep == nil {
			fail("no-reply;"+op, what+": no reply")
			break
		}
		after := snapshot(e.root)
		outcome := "ok"
		if rep.Type == wire.Rerror {
			outcome = "error"
			if mayFail {
				if d := sameTree(before, after, nil); d != "" && op != "write" {
					fail(fmt.Sprintf("error-but-changed;%s;%s", op, argc), what+fmt.Sprintf(": answered Rerror %q but the tree changed: %s", rep.Ename, d))
				}
				if noTwin {
					// nothing to compare the refusal with
				} else if perr == nil {
					fail(fmt.Sprintf("error-but-posix-succeeds;%s;%s", op, argc), what+fmt.Sprintf(": answered Rerror %q/%d, the corresponding POSIX operation succeeds", rep.Ename, rep.Ecode))
					// keep the twins aligned for the rest of the sequence
					_ = os.RemoveAll(twin)
					_ = copyTree(e.root, twin)
				} else if dotu && rep.Ecode != errnoOf(perr) {
					fail(fmt.Sprintf("errno;%s;%s", op, argc), what+fmt.Sprintf(": Rerror carries ecode %d (%q), the POSIX operation fails with errno %d (%v)", rep.Ecode, rep.Ename, errnoOf(perr), perr))
				}
			}
		} else if perr != nil {
			fail(fmt.Sprintf("success-but-posix-fails;%s;%s", op, argc), what+fmt.Sprintf(": answered %s, the corresponding POSIX operation fails: %v", wire.TypeName(rep.Type), perr))
			_ = os.RemoveAll(twin)
			_ = copyTree(e.root, twin)
		}
		if rep.Type != wire.Rerror && timesCheck == "atime-only" {
			// nothing's modification time moves when only an access time is set
			for k, b := range before {
				if a, ok := after[k]; ok && a.mtime != b.mtime && b.kind != "symlink" {
					fail("mtime-disturbed;"+argc, what+fmt.Sprintf(": the modification time of %q changed from %d to %d", k, b.mtime, a.mtime))
					break
				}
			}
		}
		if rep.Type != wire.Rerror && timesCheck == "length+atime" {
			// the truncation moves the modification time to now; leaving mtime alone in the same wstat does not undo that
			if a, ok := after[timesFile]; ok {
				if b := before[timesFile]; a.mtime == b.mtime && b.mtime < caseStart-5 {
					fail("mtime-restored;"+argc, what+fmt.Sprintf(": %q was truncated but still carries its old modification time %d", timesFile, b.mtime))
				}
			}
		}
		if d := sameTree(after, snapshot(twin), mtimes); d != "" && len(res.Violations) == 0 {
			fail(fmt.Sprintf("tree-differs;%s;%s", op, argc), what+": "+d)
			_ = os.RemoveAll(twin)
			_ = copyTree(e.root, twin)
		}
		// after a successful create or rename the fid refers to the new object
		if created != "" && rep.Type != wire.Rerror && fid != 0 && (op == "create-file" || op == "mkdir" || op == "rename") {
			st := rw.rpc(&wire.Msg{Type: wire.Tstat, Fid: fid})
			fi, _ := os.Lstat(filepath.Join(e.root, created))
			if st == nil || st.Type != wire.Rstat || fi == nil {
				fail("fid-after-"+op, what+fmt.Sprintf(": stat of the fid afterwards answered %v", st))
			} else if e := checkStat(&st.Stat, fi, filepath.Base(created), dotu); e != "" {
				fail("fid-after-"+op, what+": the fid does not designate the new object: "+e)
			}
		}
		// after a create answered with Rerror the fid still designates the directory it was sent on, and the next
		// request through it (here: the same name's creation after the obstacle is gone, or a stat) lands there
		if created != "" && rep.Type == wire.Rerror && fid != 0 && (op == "create-file" || op == "mkdir" || op == "symlink" || op == "link") {
			dirRel := filepath.Dir(created)
			st := rw.rpc(&wire.Msg{Type: wire.Tstat, Fid: fid})
			fi, _ := os.Lstat(filepath.Join(e.root, dirRel))
			res.Evals++
			if st == nil || st.Type != wire.Rstat || fi == nil {
				fail("fid-after-failed-"+op, what+fmt.Sprintf(": stat of the directory fid after the refused create answered %v", st))
			} else if err := checkStat(&st.Stat, fi, filepath.Base(filepath.Join(e.root, dirRel)), dotu); err != "" {
				fail("fid-after-failed-"+op, what+": after the refused create the fid no longer designates the directory: "+err)
			} else {
				// and a second create through the same fid works in that directory
				n2 := freeName(dirRel)
				r2 := rw.rpc(&wire.Msg{Type: wire.Tcreate, Fid: fid, Name: n2, Perm: 0o644, Mode: 1})
				f2, e2 := os.OpenFile(filepath.Join(twin, dirRel, n2), os.O_WRONLY|os.O_CREATE|os.O_EXCL, 0o644)
				if f2 != nil {
					f2.Close()
				}
				if r2 == nil || (r2.Type == wire.Rcreate) != (e2 == nil) {
					fail("create-after-failed-"+op, what+fmt.Sprintf(": a create through the same fid afterwards answered %v, the twin's returned %v", r2, e2))
				} else if d := sameTree(snapshot(e.root), snapshot(twin), mtimes); d != "" {
					fail("create-after-failed-"+op, what+": a create through the same fid afterwards did not land in the directory: "+d)
					_ = os.RemoveAll(twin)
					_ = copyTree(e.root, twin)
				}
			}
		}
		if fid != 0 {
			clunk(fid)
		}
		res.Sig(fmt.Sprintf("%s|%s|%s|%v", op, argc, outcome, dotu))
		if step == 7 {
			res.Sample(map[string]interface{}{"sequence": idx, "dotu": dotu, "step": step, "operation": what, "outcome": outcome})
		}
	}
	rc.Hangup()
	return res
}

func copyTree(src, dst string) error {
	return filepath.Walk(src, func(p string, fi os.FileInfo, err error) error {
		if err != nil {
			return nil
		}
		rel, _ := filepath.Rel(src, p)
		t := filepath.Join(dst, rel)
		switch {
		case fi.IsDir():
			return os.MkdirAll(t, fi.Mode().Perm())
		case fi.Mode()&os.ModeSymlink != 0:
			l, _ := os.Readlink(p)
			return os.Symlink(l, t)
		default:
			b, _ := os.ReadFile(p)
			return os.WriteFile(t, b, fi.Mode().Perm())
		}
	})
}
