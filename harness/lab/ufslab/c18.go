package ufslab

import (
	"bytes"
	"fmt"
	"os"
	"path/filepath"
	"sort"
	"strings"
	"syscall"
	"time"

	"verif/core"
	"verif/lab/srvlab"
	"verif/wire"
)

func init() {
	core.Register(&core.Engine{
		Property: "C18",
		Level:    "exploration",
		Rule: "a sandbox directory holds the exported root next to and below canary files and directories, each canary carrying a unique random token; sessions against the real Ufs use attach names, " +
			"walk element lists, create names and wstat rename targets drawn from a grammar of '..', '.', '', '/', absolute paths, '../' chains, 'a/../../x' and mixtures with real names, at every depth of " +
			"the tree, each followed by stat, open+read, directory read, create, mkdir, write, rename and remove through whatever fid the server handed out. Oracle: the sandbox outside the root is " +
			"unchanged (existence, content, mode, mtime, no new entries), no qid returned to the client carries the inode of an object outside the root, no listing contains an entry whose inode lives outside the root, no payload " +
			"contains a canary token, and '..' walked from the root yields the root's own qid. distinct = (entry point, name class, depth, follow-up access)",
		Assumptions: []string{
			"the exported tree contains only symlinks that stay inside it, and no request asks for a symlink whose target leaves the root (the statement's premise)",
			"refusing a name and resolving it inside the root are both acceptable; only effects and information outside the root are violations",
		},
		Cases:       c18Cases,
		MinDistinct: 60,
		Jobs:        8,
	})
}

func c18Cases(tier string, seed int64) []core.Case {
	var cases []core.Case
	for _, dotu := range []bool{true, false} {
		for _, family := range []string{"attach", "walk", "create", "rename", "mixed"} {
			dotu, family := dotu, family
			cases = append(cases, core.Case{ID: fmt.Sprintf("%s/dotu=%v", family, dotu), Run: func(ctx *core.Ctx) core.Result {
				return c18Run(ctx, family, dotu, tier == "thorough", "clean")
			}})
		}
		// the same batteries against a server whose Root is configured in a spelling that is not the cleaned one
		// (-root /srv/export/ from shell completion, a /./ or // inside it)
		for _, spelling := range []string{"trailing-slash", "dot-element", "double-slash", "narrowed", "moved-from-sibling", "relative-dot", "relative-name"} {
			for _, family := range []string{"walk", "mixed"} {
				dotu, family, spelling := dotu, family, spelling
				if tier != "thorough" && ((family == "mixed") != dotu) {
					continue
				}
				cases = append(cases, core.Case{ID: fmt.Sprintf("%s/dotu=%v/root-%s", family, dotu, spelling), Run: func(ctx *core.Ctx) core.Result {
					return c18Run(ctx, family, dotu, tier == "thorough", spelling)
				}})
			}
		}
	}
	return cases
}

type sandbox struct {
	base    string // scratch directory holding the guard levels
	top     string // S
	root    string // S/mid/root  (exported)
	tokens  [][]byte
	names   []string
	outside map[uint64]string // inode -> path of every object outside the root
	before  map[string]string
}

func (sb *sandbox) snap() map[string]string {
	out := map[string]string{}
	_ = filepath.Walk(sb.top, func(p string, fi os.FileInfo, err error) error {
		if err != nil {
			return nil
		}
		if p == sb.root {
			return filepath.SkipDir
		}
		d := fmt.Sprintf("%v|%o|%d", fi.IsDir(), fi.Mode().Perm(), fi.ModTime().UnixNano())
		if !fi.IsDir() && fi.Mode().IsRegular() {
			b, _ := os.ReadFile(p)
			d += "|" + string(b)
		}
		if fi.Mode()&os.ModeSymlink != 0 {
			l, _ := os.Readlink(p)
			d += "|->" + l
		}
		// the directories on the way to the root legitimately change mtime when the root itself is renamed; nothing does that here
		out[p] = d
		return nil
	})
	return out
}

func newSandbox(ctx *core.Ctx, name string, r *core.Rand) (*sandbox, error) {
	// two empty guard levels above the sandbox: a name that climbs further than the hostile grammar ever asks
	// for still lands in a directory that holds nothing but the sandbox
	base := filepath.Join(ctx.Scratch, fmt.Sprintf("%s-%d", name, ctx.Index))
	_ = os.RemoveAll(base)
	top := filepath.Join(base, "guard1", "guard2", "S")
	sb := &sandbox{base: base, top: top, root: filepath.Join(top, "mid", "root"), outside: map[uint64]string{}}
	canary := func(rel string) error {
		tok := []byte(fmt.Sprintf("CANARY-%x-%x", r.Uint64(), r.Uint64()))
		sb.tokens = append(sb.tokens, tok)
		sb.names = append(sb.names, filepath.Base(rel))
		p := filepath.Join(top, rel)
		if err := os.MkdirAll(filepath.Dir(p), 0o755); err != nil {
			return err
		}
		return os.WriteFile(p, append(append([]byte("secret: "), tok...), '\n'), 0o644)
	}
	for _, rel := range []string{"canary-top.txt", "mid/canary-sibling.txt", "mid/sibdir/canary-in-sibdir.txt", "mid/sibdir/deeper/canary-deep.txt", "other/canary-other.txt", "mid/rootcanary"} {
		if err := canary(rel); err != nil {
			return nil, err
		}
	}
	sb.names = append(sb.names, "sibdir", "other", "canary-dir")
	_ = os.MkdirAll(filepath.Join(top, "mid", "canary-dir"), 0o755)
	// the exported tree
	for _, d := range []string{"", "a", "a/b", "a/b/c", "pub"} {
		if err := os.MkdirAll(filepath.Join(sb.root, d), 0o755); err != nil {
			return nil, err
		}
	}
	for _, f := range []string{"hello.txt", "a/in-a.txt", "a/b/in-b.txt", "a/b/c/in-c.txt", "pub/readme"} {
		_ = os.WriteFile(filepath.Join(sb.root, f), []byte("public data "+f), 0o644)
	}
	_ = os.Symlink("../hello.txt", filepath.Join(sb.root, "a", "link-up-inside")) // stays inside the root
	// symbolic links to ancestors, all inside the root: a name that goes through one of them and then up is resolved
	// by the host from where the link points to, not from where the name says
	_ = os.Symlink(".", filepath.Join(sb.root, "self"))
	_ = os.Symlink("..", filepath.Join(sb.root, "a", "up-root"))
	_ = os.Symlink("../..", filepath.Join(sb.root, "a", "b", "up-root"))
	_ = os.Symlink("../../..", filepath.Join(sb.root, "a", "b", "c", "up-root"))
	_ = os.Symlink("..", filepath.Join(sb.root, "pub", "up-root"))
	_ = filepath.Walk(top, func(p string, fi os.FileInfo, err error) error {
		if err != nil {
			return nil
		}
		if p == sb.root {
			return filepath.SkipDir
		}
		sb.outside[fi.Sys().(*syscall.Stat_t).Ino] = p
		return nil
	})
	// everything above the sandbox is outside as well
	for p := filepath.Dir(top); p != "/" && p != "."; p = filepath.Dir(p) {
		if fi, err := os.Lstat(p); err == nil {
			sb.outside[fi.Sys().(*syscall.Stat_t).Ino] = p
		}
	}
	if fi, err := os.Lstat("/"); err == nil {
		sb.outside[fi.Sys().(*syscall.Stat_t).Ino] = "/"
	}
	sb.before = sb.snap()
	return sb, nil
}

// repair puts the exported tree back in shape: a hostile session that reached a directory of the tree itself (by "."
// or a name that resolves inside) has every right to rename it or change its mode, and the sessions after it still
// need the directories they start from. Returns whether anything had to be put back.
func (sb *sandbox) repair() bool {
	fixed := false
	for _, d := range []string{"", "a", "a/b", "a/b/c", "pub"} {
		p := filepath.Join(sb.root, d)
		if fi, err := os.Lstat(p); err != nil || !fi.IsDir() {
			_ = os.RemoveAll(p)
			_ = os.MkdirAll(p, 0o755)
			fixed = true
		}
		_ = os.Chmod(p, 0o755)
	}
	for _, f := range []string{"hello.txt", "a/in-a.txt", "a/b/in-b.txt", "a/b/c/in-c.txt", "pub/readme"} {
		p := filepath.Join(sb.root, f)
		if fi, err := os.Lstat(p); err != nil || !fi.Mode().IsRegular() {
			_ = os.RemoveAll(p)
			_ = os.WriteFile(p, []byte("public data "+f), 0o644)
			fixed = true
		}
	}
	for l, t := range map[string]string{"a/link-up-inside": "../hello.txt", "self": ".", "a/up-root": "..", "a/b/up-root": "../..", "a/b/c/up-root": "../../..", "pub/up-root": ".."} {
		p := filepath.Join(sb.root, l)
		if got, err := os.Readlink(p); err != nil || got != t {
			_ = os.RemoveAll(p)
			_ = os.Symlink(t, p)
			fixed = true
		}
	}
	return fixed
}

// evilNames: the grammar of hostile names, given the absolute path of the sandbox.
func evilNames(sb *sandbox, depth int) []string {
	// "../" chains climb at most to S (depth+2 levels above the current directory): the server under test runs as
	// root on the real file system, a hostile name must never be able to reach anything but the sandbox
	toMid := strings.Repeat("../", depth+1)
	toTop := strings.Repeat("../", depth+2)
	names := []string{"..", ".", "", "/", "../", toMid, toTop, toMid + "sibdir", toMid + "canary-sibling.txt", toMid + "sibdir/canary-in-sibdir.txt", toTop + "canary-top.txt",
		toTop + "other/canary-other.txt", "a/../" + toMid + "canary-sibling.txt", "./" + toMid + "sibdir", "pub/../" + toMid + "sibdir", toMid + "rootcanary", toMid + "canary-dir",
		"/..", "/../sibdir", "/../canary-sibling.txt", "/../../canary-top.txt", "/../rootcanary", sb.top, sb.top + "/canary-top.txt", filepath.Join(sb.top, "mid"), filepath.Join(sb.top, "mid", "sibdir"),
		"//", "...", "a/..", "a/b/../..", "hello.txt/..", "..\x00", "/etc"}
	if depth == 0 {
		names = append(names, "a/b/../../../sibdir", "a/b/../../../canary-sibling.txt", "hello.txt/../../sibdir")
	}
	// dot-dots, then names, then more dot-dots than names: k up, j down, m up. Wherever the count starts — at the
	// current directory, or at the root once leading dot-dots have been dropped — the walk ends at most at S:
	// max(k, k-j+m) <= depth+2 and m-j <= 2
	for _, kjm := range [][3]int{{1, 1, 2}, {1, 2, 3}, {1, 2, 4}, {2, 1, 2}, {1, 1, 3}} {
		k, j, m := kjm[0], kjm[1], kjm[2]
		if k > depth+2 || k-j+m > depth+2 || m-j > 2 {
			continue
		}
		for _, mid := range []string{"nosuch/deeper/", "a/b/"} {
			down := strings.Join(strings.Split(mid, "/")[:j], "/") + "/"
			for _, tgt := range []string{"canary-sibling.txt", "canary-top.txt"} {
				names = append(names, strings.Repeat("../", k)+down+strings.Repeat("../", m)+tgt)
			}
		}
	}
	// through a link to the root and one level up: lexically inside, on the host S/mid (never higher)
	via := []string{"self", "a/up-root", "a/b/up-root", "pub/up-root"}
	if depth >= 1 {
		via = []string{"up-root"}
	}
	for _, v := range via {
		for _, x := range []string{"canary-sibling.txt", "sibdir", "rootcanary", "made-through-link", "sibdir/canary-in-sibdir.txt"} {
			names = append(names, v+"/../"+x)
		}
	}
	return names
}

func c18Run(ctx *core.Ctx, family string, dotu bool, thorough bool, spelling string) core.Result {
	var res core.Result
	r := core.NewRand(ctx.Seed, fmt.Sprintf("c18/%s/%v/%s", family, dotu, spelling))
	sb, err := newSandbox(ctx, "c18", r)
	if err != nil {
		res.Inconclusive = err.Error()
		return res
	}
	defer os.RemoveAll(sb.base)
	e := &env{root: sb.root, dotu: dotu}
	exported := sb.root
	switch spelling {
	case "trailing-slash":
		exported = sb.root + "/"
	case "dot-element":
		exported = filepath.Dir(sb.root) + "/./" + filepath.Base(sb.root)
	case "double-slash":
		exported = filepath.Dir(sb.root) + "//" + filepath.Base(sb.root)
	}
	switch spelling {
	case "relative-dot", "relative-name":
		// the server is started inside (or next to) the directory it exports and told a relative path: the process's
		// working directory is part of what the name means (one case at a time per worker process)
		if old, err := os.Getwd(); err == nil {
			defer os.Chdir(old)
		}
		if spelling == "relative-dot" {
			if os.Chdir(sb.root) != nil {
				res.Inconclusive = "c18: chdir failed"
				return res
			}
			exported = "."
		} else {
			if os.Chdir(filepath.Dir(sb.root)) != nil {
				res.Inconclusive = "c18: chdir failed"
				return res
			}
			exported = filepath.Base(sb.root)
		}
	}
	switch spelling {
	case "narrowed":
		exported = filepath.Dir(sb.root) // S/mid first, the root proper afterwards
	case "moved-from-sibling":
		exported = filepath.Join(filepath.Dir(sb.root), "sibdir")
	}
	e.s = srvlab.NewUfsSess(exported, dotu, 1<<20)
	if spelling == "narrowed" || spelling == "moved-from-sibling" {
		// the operator re-points a running server: it served another (wider, or neighbouring) directory before, every
		// connection made after the change is confined to the directory it is told to export now
		if rc, err := e.raw(8192, dotu); err == nil {
			rr := &rawc{c: rc}
			rr.rpc(&wire.Msg{Type: wire.Twalk, Fid: 0, Newfid: 1, Wname: []string{".."}})
			rr.rpc(&wire.Msg{Type: wire.Tstat, Fid: 1})
			rr.rpc(&wire.Msg{Type: wire.Twalk, Fid: 0, Newfid: 2, Wname: []string{"root"}})
			rr.rpc(&wire.Msg{Type: wire.Tcreate, Fid: 2, Name: "warmup", Perm: 0o644, Mode: 1})
			rr.rpc(&wire.Msg{Type: wire.Tremove, Fid: 2})
			rc.Hangup()
			rc.Quiesce(W)
		}
		e.s.Ufs.Root = sb.root
	}
	rootIno := uint64(0)
	if fi, err := os.Lstat(sb.root); err == nil {
		rootIno = fi.Sys().(*syscall.Stat_t).Ino
	}
	session := 0
	broken := false // the world outside the root was modified: the rest of the case would judge a damaged sandbox
	var what string
	fail := func(sig, msg string) {
		res.Violate("C18;"+sig, fmt.Sprintf("%s [%s, dotu %v]", msg, what, dotu), nil)
	}
	// leak checks on everything the server hands to the client
	checkQid := func(q wire.Qid, how string) {
		if p, out := sb.outside[q.Path]; out {
			fail("outside-qid;"+how, fmt.Sprintf("the server returned the qid of %s, an object outside the exported root", p))
		}
	}
	checkBytes := func(b []byte, how string) {
		for _, t := range sb.tokens {
			if bytes.Contains(b, t) {
				fail("canary-token-read;"+how, "data returned to the client contains the contents of a file outside the exported root")
				return
			}
		}
	}
	checkOutside := func(how string) {
		after := sb.snap()
		var diffs []string
		for p, d := range sb.before {
			if d2, ok := after[p]; !ok {
				diffs = append(diffs, "removed or moved: "+p)
			} else if d2 != d {
				diffs = append(diffs, "modified: "+p)
			}
		}
		for p := range after {
			if _, ok := sb.before[p]; !ok {
				diffs = append(diffs, "created: "+p)
			}
		}
		if len(diffs) > 0 {
			sort.Strings(diffs)
			fail("outside-modified;"+how, "objects outside the exported root changed: "+strings.Join(diffs[:min(len(diffs), 4)], "; "))
			broken = true
			// repair the sandbox so that the run can go on
			for p := range after {
				if _, ok := sb.before[p]; !ok {
					_ = os.RemoveAll(p)
				}
			}
			sb.before = sb.snap()
		}
	}
	// battery: every kind of access through a fid the server handed out
	battery := func(rw *rawc, fid uint32, how string) {
		st := rw.rpc(&wire.Msg{Type: wire.Tstat, Fid: fid})
		if st != nil && st.Type == wire.Rstat {
			checkQid(st.Stat.Qid, how+";stat")
		}
		// read it (file or directory)
		if w := rw.rpc(&wire.Msg{Type: wire.Twalk, Fid: fid, Newfid: 90, Wname: []string{}}); w != nil && w.Type == wire.Rwalk {
			if o := rw.rpc(&wire.Msg{Type: wire.Topen, Fid: 90, Mode: 0}); o != nil && o.Type == wire.Ropen {
				checkQid(o.Qid, how+";open")
				rd := rw.rpc(&wire.Msg{Type: wire.Tread, Fid: 90, Offset: 0, Count: 4000})
				if rd != nil && rd.Type == wire.Rread {
					checkBytes(rd.Data, how+";read")
					if o.Qid.Type&0x80 != 0 {
						b := rd.Data
						for len(b) > 0 {
							s, used, err := wire.DecodeStat(b, rw.c.Dotu())
							if err != nil {
								break
							}
							// (an entry is recognised by its inode, not by its name: a client may create a file called like a canary inside the root)
							if p, out := sb.outside[s.Qid.Path]; out {
								fail("canary-listed;"+how, fmt.Sprintf("a directory listing contains %q (%s), which lives outside the exported root", s.Name, p))
							}
							b = b[used:]
						}
					}
				}
			}
			rw.rpc(&wire.Msg{Type: wire.Tclunk, Fid: 90})
		}
		// modify through it
		session++
		for _, nm := range []string{fmt.Sprintf("pwned-%d", session), "../pwned-up", "/../pwned-abs"} {
			if w := rw.rpc(&wire.Msg{Type: wire.Twalk, Fid: fid, Newfid: 91, Wname: []string{}}); w != nil && w.Type == wire.Rwalk {
				c := rw.rpc(&wire.Msg{Type: wire.Tcreate, Fid: 91, Name: nm, Perm: 0o644, Mode: 1})
				if c != nil && c.Type == wire.Rcreate {
					checkQid(c.Qid, how+";create")
					rw.rpc(&wire.Msg{Type: wire.Twrite, Fid: 91, Offset: 0, Count: 5, Data: []byte("pwned")})
				}
				rw.rpc(&wire.Msg{Type: wire.Tclunk, Fid: 91})
			}
		}
		if w := rw.rpc(&wire.Msg{Type: wire.Twalk, Fid: fid, Newfid: 92, Wname: []string{}}); w != nil && w.Type == wire.Rwalk {
			rw.rpc(&wire.Msg{Type: wire.Tcreate, Fid: 92, Name: fmt.Sprintf("pwndir-%d", session), Perm: 0x80000000 | 0o755, Mode: 0})
			rw.rpc(&wire.Msg{Type: wire.Tclunk, Fid: 92})
		}
		// write into it if it is a file
		if w := rw.rpc(&wire.Msg{Type: wire.Twalk, Fid: fid, Newfid: 93, Wname: []string{}}); w != nil && w.Type == wire.Rwalk {
			if o := rw.rpc(&wire.Msg{Type: wire.Topen, Fid: 93, Mode: 1}); o != nil && o.Type == wire.Ropen {
				rw.rpc(&wire.Msg{Type: wire.Twrite, Fid: 93, Offset: 0, Count: 9, Data: []byte("overwrite")})
			}
			rw.rpc(&wire.Msg{Type: wire.Tclunk, Fid: 93})
		}
		// chmod / truncate / rename / remove it
		if w := rw.rpc(&wire.Msg{Type: wire.Twalk, Fid: fid, Newfid: 94, Wname: []string{}}); w != nil && w.Type == wire.Rwalk {
			st1 := noTouch()
			st1.Mode = 0o600
			rw.rpc(&wire.Msg{Type: wire.Twstat, Fid: 94, Stat: st1})
			if how != "root" && !strings.HasPrefix(how, "inside") {
				st2 := noTouch()
				st2.Name = fmt.Sprintf("renamed-%d", session)
				rw.rpc(&wire.Msg{Type: wire.Twstat, Fid: 94, Stat: st2})
				rw.rpc(&wire.Msg{Type: wire.Tremove, Fid: 94})
			} else {
				rw.rpc(&wire.Msg{Type: wire.Tclunk, Fid: 94})
			}
		}
		checkOutside(how)
	}
	open := func() *rawc {
		if sb.repair() {
			res.Count("sandbox_tree_repairs", 1)
		}
		rc := e.s.Dial()
		ver := "9P2000"
		if dotu {
			ver = "9P2000.u"
		}
		if rp, err := rc.Version(8192, ver, W); err != nil || rp.Msg == nil {
			return nil
		}
		return &rawc{c: rc}
	}
	attachRoot := func(rw *rawc) bool {
		a := rw.rpc(&wire.Msg{Type: wire.Tattach, Fid: 0, Afid: wire.NOFID, Uname: "root", Nuname: 0})
		return a != nil && a.Type == wire.Rattach
	}
	depths := []string{"", "a", "a/b", "a/b/c"}
	nameClass := func(n string) string {
		switch {
		case n == ".." || n == "." || n == "" || n == "/":
			return "special:" + n
		case strings.HasPrefix(n, "/"):
			return "absolute"
		case strings.Contains(n, "../"):
			return "dotdot-chain"
		case strings.Contains(n, "/"):
			return "slash"
		}
		return "plain"
	}
	if family == "attach" || family == "mixed" {
		for _, an := range evilNames(sb, 0) {
			if broken {
				return res
			}
			what = fmt.Sprintf("attach name %q", an)
			rw := open()
			if rw == nil {
				res.Inconclusive = "c18: cannot connect"
				return res
			}
			res.Evals++
			a := rw.rpc(&wire.Msg{Type: wire.Tattach, Fid: 5, Afid: wire.NOFID, Uname: "root", Nuname: 0, Aname: an})
			if a != nil && a.Type == wire.Rattach {
				checkQid(a.Qid, "attach")
				battery(rw, 5, "attach")
			}
			checkOutside("attach")
			res.Sig(fmt.Sprintf("attach|%v|%s|%q", dotu, nameClass(an), an))
			rw.c.Hangup()
		}
	}
	if family == "walk" || family == "mixed" {
		for di, d := range depths {
			for _, ev := range evilNames(sb, di) {
				// the hostile string as one element, as several elements split at '/', and after real names
				lists := [][]string{{ev}, strings.Split(ev, "/"), append(split("a/b"), ev), {"pub", ev}, {ev, "sibdir"}, {ev, "canary-sibling.txt"}}
				for li, names := range lists {
					if len(names) > 16 {
						continue
					}
					if broken {
						return res
					}
					what = fmt.Sprintf("walk %q from depth %d", names, di)
					rw := open()
					if rw == nil || !attachRoot(rw) {
						res.Inconclusive = "c18: cannot attach"
						return res
					}
					res.Evals++
					ok := true
					if d != "" {
						w := rw.rpc(&wire.Msg{Type: wire.Twalk, Fid: 0, Newfid: 1, Wname: split(d)})
						ok = w != nil && w.Type == wire.Rwalk
					} else {
						rw.rpc(&wire.Msg{Type: wire.Twalk, Fid: 0, Newfid: 1, Wname: []string{}})
					}
					if ok {
						w := rw.rpc(&wire.Msg{Type: wire.Twalk, Fid: 1, Newfid: 2, Wname: names})
						if w != nil && w.Type == wire.Rwalk {
							for _, q := range w.Wqid {
								checkQid(q, "walk")
							}
							if len(w.Wqid) == len(names) {
								battery(rw, 2, "walk")
							}
						}
						// in place as well
						w2 := rw.rpc(&wire.Msg{Type: wire.Twalk, Fid: 1, Newfid: 1, Wname: names})
						if w2 != nil && w2.Type == wire.Rwalk {
							for _, q := range w2.Wqid {
								checkQid(q, "walk")
							}
							battery(rw, 1, "walk-inplace")
						}
					}
					checkOutside("walk")
					res.Sig(fmt.Sprintf("walk|%v|%d|%s|%d", dotu, di, nameClass(ev), li))
					rw.c.Hangup()
				}
			}
		}
		// '..' at the root stays at the root
		rw := open()
		if rw != nil && attachRoot(rw) {
			what = "walk '..' from the root"
			for k := 1; k <= 3; k++ {
				names := make([]string, k)
				for i := range names {
					names[i] = ".."
				}
				w := rw.rpc(&wire.Msg{Type: wire.Twalk, Fid: 0, Newfid: uint32(10 + k), Wname: names})
				res.Evals++
				if w == nil || w.Type != wire.Rwalk || len(w.Wqid) != k {
					fail("dotdot-at-root-refused", fmt.Sprintf("walking %d x '..' from the root answered %v; it must stay at the root", k, w))
					continue
				}
				for _, q := range w.Wqid {
					if q.Path != rootIno {
						fail("dotdot-at-root-leaves", fmt.Sprintf("'..' from the root yields qid path %d, the root is %d", q.Path, rootIno))
					}
				}
				st := rw.rpc(&wire.Msg{Type: wire.Tstat, Fid: uint32(10 + k)})
				if st != nil && st.Type == wire.Rstat && st.Stat.Qid.Path != rootIno {
					fail("dotdot-at-root-leaves", "the fid walked with '..' from the root does not designate the root")
				}
			}
			rw.c.Hangup()
		}
	}
	if family == "create" || family == "mixed" {
		perms := []uint32{0o644, 0x80000000 | 0o755}
		if dotu {
			perms = append(perms, 0x02000000|0o777, 0x01000000|0o644)
		}
		for di, d := range depths {
			for _, ev := range evilNames(sb, di) {
				for _, perm := range perms {
					if broken {
						return res
					}
					what = fmt.Sprintf("create %q (perm %#x) in depth %d", ev, perm, di)
					rw := open()
					if rw == nil || !attachRoot(rw) {
						res.Inconclusive = "c18: cannot attach"
						return res
					}
					res.Evals++
					rw.rpc(&wire.Msg{Type: wire.Twalk, Fid: 0, Newfid: 1, Wname: split(d)})
					rw.rpc(&wire.Msg{Type: wire.Twalk, Fid: 0, Newfid: 7, Wname: []string{"hello.txt"}})
					ext := ""
					switch {
					case perm&0x02000000 != 0:
						ext = "hello.txt" // an in-tree target: the premise
					case perm&0x01000000 != 0:
						ext = "7"
					}
					c := rw.rpc(&wire.Msg{Type: wire.Tcreate, Fid: 1, Name: ev, Perm: perm, Mode: 1 &^ uint8(perm>>31), Ext: ext})
					if c != nil && c.Type == wire.Rcreate {
						checkQid(c.Qid, "create")
						rw.rpc(&wire.Msg{Type: wire.Twrite, Fid: 1, Offset: 0, Count: 5, Data: []byte("pwned")})
						battery(rw, 1, "create")
					}
					checkOutside("create")
					res.Sig(fmt.Sprintf("create|%v|%d|%s|%#x", dotu, di, nameClass(ev), perm>>24))
					rw.c.Hangup()
				}
			}
		}
	}
	if family == "rename" || family == "mixed" {
		for di, d := range depths {
			for _, ev := range evilNames(sb, di) {
				for _, victim := range []string{"in.txt", "subdir"} {
					if broken {
						return res
					}
					what = fmt.Sprintf("rename %s to %q in depth %d", victim, ev, di)
					// something of our own to rename
					vp := filepath.Join(sb.root, d, victim)
					_ = os.RemoveAll(vp)
					if victim == "subdir" {
						_ = os.Mkdir(vp, 0o755)
					} else {
						_ = os.WriteFile(vp, []byte("mine"), 0o644)
					}
					rw := open()
					if rw == nil || !attachRoot(rw) {
						res.Inconclusive = "c18: cannot attach"
						return res
					}
					res.Evals++
					w := rw.rpc(&wire.Msg{Type: wire.Twalk, Fid: 0, Newfid: 1, Wname: append(split(d), victim)})
					if w != nil && w.Type == wire.Rwalk {
						st := noTouch()
						st.Name = ev
						rw.rpc(&wire.Msg{Type: wire.Twstat, Fid: 1, Stat: st})
						battery(rw, 1, "rename")
					}
					checkOutside("rename")
					res.Sig(fmt.Sprintf("rename|%v|%d|%s|%s", dotu, di, nameClass(ev), victim))
					rw.c.Hangup()
				}
			}
		}
	}
	if (family == "create" || family == "mixed") && dotu {
		// a name is confined when it is used, not only when the request arrived: a hard-link create waits for the fid
		// it links (busy in a blocked open of a named pipe) while the directory fid it was issued on is renamed
		// nearer to the root by another request of the same (hostile) client; then the wait ends
		for round := 0; round < 3 && !broken; round++ {
			what = fmt.Sprintf("hard-link create racing with a rename of its directory fid (round %d)", round)
			dir := fmt.Sprintf("a/b/race%d", round)
			_ = os.MkdirAll(filepath.Join(sb.root, dir), 0o755)
			pipe := filepath.Join(sb.root, fmt.Sprintf("pipe%d", round))
			_ = syscall.Mkfifo(pipe, 0o644)
			rw := open()
			if rw == nil || !attachRoot(rw) {
				res.Inconclusive = "c18: cannot attach"
				return res
			}
			res.Evals++
			c := rw.c
			rw.rpc(&wire.Msg{Type: wire.Twalk, Fid: 0, Newfid: 30, Wname: []string{filepath.Base(pipe)}})
			rw.rpc(&wire.Msg{Type: wire.Twalk, Fid: 0, Newfid: 31, Wname: split(dir)})
			_ = c.Send(&wire.Msg{Type: wire.Topen, Tag: 900, Fid: 30, Mode: 0}) // blocks in open(2): nobody writes to the pipe yet
			time.Sleep(3 * time.Millisecond)
			// three levels up from a/b/raceN is the root: inside; after the rename to /rN the same name is S/mid/…: outside
			_ = c.Send(&wire.Msg{Type: wire.Tcreate, Tag: 901, Fid: 31, Name: "../../../made-by-link", Perm: 0x01000000 | 0o644, Mode: 0, Ext: "30"})
			time.Sleep(3 * time.Millisecond)
			st := noTouch()
			st.Name = fmt.Sprintf("/r%d", round)
			_ = c.Send(&wire.Msg{Type: wire.Twstat, Tag: 902, Fid: 31, Stat: st})
			c.WaitTag(902, 2*time.Second)
			// the other end of the pipe: the blocked open returns, the fid is free, the create goes on
			if wf, err := os.OpenFile(pipe, os.O_WRONLY|syscall.O_NONBLOCK, 0); err == nil {
				c.WaitTag(900, 2*time.Second)
				c.WaitTag(901, 2*time.Second)
				wf.Close()
			} else {
				c.WaitTag(901, 300*time.Millisecond)
			}
			checkOutside("create-link-race")
			res.Sig(fmt.Sprintf("link-race|%v|%d", dotu, round))
			c.Hangup()
			_ = os.Remove(pipe)
			_ = os.Remove(filepath.Join(sb.root, "made-by-link"))
		}
	}
	res.Count("canaries", int64(len(sb.tokens)))
	res.Count("outside_objects_watched", int64(len(sb.before)))
	res.Sample(map[string]interface{}{"family": family, "dotu": dotu, "hostile_names": len(evilNames(sb, 0)), "depths": len(depths), "example": what})
	return res
}
