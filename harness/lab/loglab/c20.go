// Package loglab checks go9p's message logger (C20) against a reference ring.
package loglab

import (
	"bytes"
	"fmt"
	"sort"
	"sync"
	"sync/atomic"
	"time"

	"github.com/anishathalye/porcupine"
	"github.com/rminnich/go9p"

	"verif/core"
	"verif/lab/srvlab"
	"verif/wire"
)

const W = 15 * time.Second

func init() {
	core.Register(&core.Engine{
		Property: "C20",
		Level:    "exploration",
		Rule: "the real Logger with capacity N in {1, 2, 3, 16, 64} (sequential phase also 5, 17, 20, 48, 100, 1000, 1024); entries carry unique ids, one of 3 owners and one of 3 types. Sequential phase: seeded sequences of Log and Filter (every owner/type " +
			"combination incl. nil owner and type 0) of lengths below, at and >= 20 x N; each Filter result must be the matching subsequence of the reference-ring window (j-N, j] for some j that never " +
			"decreases and never exceeds the number logged, and after logging stops Filter must converge to j = #logged within 10 000 polls (no clock). Concurrent phase: 1, 2 and 8 producers with " +
			"concurrent filterers: membership, match, no duplicates, length <= N, per-producer order, real-time order of non-overlapping Log calls, no skipped entry of a producer between two returned ones; with " +
			"N >= #entries the final Filter gives the total order and every concurrent Filter must be a filtered prefix of it. Short concurrent histories are additionally checked with porcupine against a " +
			"ring model in which Log takes effect at any time after its call. distinct = (N, length class, filter, phase, producers)",
		Assumptions: []string{
			"'blocks indefinitely' is decided as: every call returns within a 15 s watchdog while the logger goroutine runs",
			"a porcupine timeout is inconclusive, not a failure",
		},
		Cases:       c20Cases,
		MinDistinct: 100,
		Jobs:        8,
	})
}

type ent struct {
	id    int
	owner int // index into owners, 0..2
	typ   int
}

var owners = []interface{}{&struct{ n int }{1}, &struct{ n int }{2}, &struct{ n int }{3}}
var types = []int{1, 2, 4, 3, 6, 7, 8, 8, 12} // the facilities' own values (DbgLogFcalls 4, DbgLogPackets 8) among them; values that share bits: matching is equality, not a mask

func matches(e ent, fo, ft int) bool { // fo -1 = nil owner, ft 0 = any type
	return (fo < 0 || e.owner == fo) && (ft == 0 || e.typ == ft)
}

func ownerArg(fo int) interface{} {
	if fo < 0 {
		return nil
	}
	return owners[fo]
}

func c20Cases(tier string, seed int64) []core.Case {
	var cases []core.Case
	// (sequential only) capacities that are no power of two, and the default of a server's own log
	for _, n := range []int{5, 17, 20, 48, 100, 1000, 1024} {
		n := n
		cases = append(cases, core.Case{ID: fmt.Sprintf("sequential/N=%d", n), Run: func(ctx *core.Ctx) core.Result { return c20Seq(ctx, n, false) }})
	}
	for _, n := range []int{1, 2, 3, 16, 64} {
		n := n
		cases = append(cases, core.Case{ID: fmt.Sprintf("sequential/N=%d", n), Run: func(ctx *core.Ctx) core.Result { return c20Seq(ctx, n, tier == "thorough") }})
		for _, producers := range []int{1, 2, 8} {
			producers := producers
			cases = append(cases, core.Case{ID: fmt.Sprintf("concurrent/N=%d/producers=%d", n, producers), Run: func(ctx *core.Ctx) core.Result {
				return c20Conc(ctx, n, producers, tier == "thorough")
			}})
		}
	}
	for _, producers := range []int{1, 2, 8} {
		producers := producers
		cases = append(cases, core.Case{ID: fmt.Sprintf("bigring/producers=%d", producers), Run: func(ctx *core.Ctx) core.Result { return c20Big(ctx, producers, tier == "thorough") }})
	}
	// the library's own producers: a server connection that logs every message and packet it receives and sends; what
	// Filter returns for that connection must be those messages, also after the buffers they were in have been reused
	for _, dotu := range []bool{true, false} {
		dotu := dotu
		cases = append(cases, core.Case{ID: fmt.Sprintf("server-connection-log/dotu=%v", dotu), Run: func(ctx *core.Ctx) core.Result { return c20ServerLog(ctx, dotu) }})
	}
	for _, n := range []int{1, 2, 3} {
		n := n
		cases = append(cases, core.Case{ID: fmt.Sprintf("porcupine/N=%d", n), Run: func(ctx *core.Ctx) core.Result { return c20Porc(ctx, n, tier == "thorough") }})
	}
	return cases
}

func c20ServerLog(ctx *core.Ctx, dotu bool) core.Result {
	var res core.Result
	s := srvlab.NewSess(srvlab.Config{Dotu: dotu, Msize: 8192, Debug: go9p.DbgLogFcalls | go9p.DbgLogPackets})
	c := s.Dial()
	defer c.Hangup()
	ver := "9P2000"
	if dotu {
		ver = "9P2000.u"
	}
	var wireLog [][]byte // every frame that crossed the connection, in order (one request at a time)
	tag := uint16(0)
	rpc := func(m *wire.Msg) *wire.Msg {
		if m.Type != wire.Tversion {
			tag++
			m.Tag = tag
		}
		raw := wire.Encode(m, dotu)
		r, err := c.Rpc(m, W)
		if err != nil || r.Msg == nil {
			return nil
		}
		wireLog = append(wireLog, raw, append([]byte{}, r.Raw...))
		return r.Msg
	}
	if r := rpc(&wire.Msg{Type: wire.Tversion, Tag: wire.NOTAG, Msize: 8192, Version: ver}); r == nil {
		res.Inconclusive = "c20: version failed"
		return res
	}
	rpc(&wire.Msg{Type: wire.Tattach, Fid: 1, Afid: wire.NOFID, Uname: "root", Nuname: 0})
	rpc(&wire.Msg{Type: wire.Twalk, Fid: 1, Newfid: 2, Wname: []string{"f"}})
	rpc(&wire.Msg{Type: wire.Topen, Fid: 2, Mode: 2})
	for i := 0; i < 40; i++ {
		switch i % 5 {
		case 0:
			rpc(&wire.Msg{Type: wire.Tread, Fid: 2, Offset: uint64(i * 3), Count: uint32(20 + 13*i)})
		case 1:
			rpc(&wire.Msg{Type: wire.Tstat, Fid: 1})
		case 2:
			rpc(&wire.Msg{Type: wire.Twrite, Fid: 2, Offset: uint64(i), Count: uint32(5 + i), Data: []byte(fmt.Sprintf("%-60d", i))[:5+i]})
		case 3:
			rpc(&wire.Msg{Type: wire.Tstat, Fid: 4000 + uint32(i)}) // refused: Rerror
		case 4:
			rpc(&wire.Msg{Type: wire.Twalk, Fid: 1, Newfid: 100 + uint32(i), Wname: []string{"d", "e"}})
		}
	}
	conn := c.GC
	lg := s.Srv.Log
	if conn == nil || lg == nil {
		res.Inconclusive = "c20: no connection log"
		return res
	}
	// logging is asynchronous: bounded polls until every frame is there
	var pk, fcs []*go9p.Log
	for poll := 0; poll < 2000; poll++ {
		pk = lg.Filter(conn, go9p.DbgLogPackets)
		fcs = lg.Filter(conn, go9p.DbgLogFcalls)
		if len(pk) >= len(wireLog) && len(fcs) >= len(wireLog) {
			break
		}
		time.Sleep(time.Millisecond)
	}
	res.Evals++
	res.Count("connection_log_entries_compared", int64(len(pk)+len(fcs)))
	if len(pk) != len(wireLog) || len(fcs) != len(wireLog) {
		res.Violate("C20;connection-log;count", fmt.Sprintf("%d frames crossed the connection; its log holds %d packets and %d messages", len(wireLog), len(pk), len(fcs)), nil)
		return res
	}
	for i, want := range wireLog {
		got, ok := pk[i].Data.([]byte)
		if !ok || !bytes.Equal(got, want) {
			res.Violate("C20;connection-log;packet-not-what-was-logged", fmt.Sprintf("packet entry %d of the connection's log (a %s) is not the frame that crossed the connection at that position", i, wire.TypeName(want[4])), map[string]interface{}{"index": i, "entries": len(wireLog)})
			break
		}
	}
	for i, want := range wireLog {
		f, ok := fcs[i].Data.(*go9p.Fcall)
		m, _, _ := wire.Decode(want, dotu)
		if !ok || f == nil || m == nil {
			res.Violate("C20;connection-log;message-entry", fmt.Sprintf("message entry %d is not an Fcall", i), nil)
			break
		}
		if f.Type != m.Type || f.Tag != m.Tag {
			res.Violate("C20;connection-log;message-not-what-was-logged", fmt.Sprintf("message entry %d is %d/tag %d, the frame at that position was %s/tag %d", i, f.Type, f.Tag, wire.TypeName(m.Type), m.Tag), nil)
			break
		}
		if (m.Type == wire.Rread || m.Type == wire.Twrite) && !bytes.Equal(f.Data, m.Data) {
			res.Violate("C20;connection-log;message-payload-changed;"+wire.TypeName(m.Type), fmt.Sprintf("message entry %d (%s, tag %d) carries %d payload bytes that are not the ones of the frame that was logged", i, wire.TypeName(m.Type), m.Tag, len(f.Data)), nil)
			break
		}
	}
	res.Sig(fmt.Sprintf("server-log|%v|%d", dotu, len(wireLog)))
	res.Sample(map[string]interface{}{"scenario": "server connection with DbgLogFcalls|DbgLogPackets", "frames": len(wireLog)})
	return res
}

// decode turns a Filter result into entries; ok=false if something is not a logged entry.
func decode(res []*go9p.Log) ([]ent, string) {
	out := make([]ent, 0, len(res))
	for _, l := range res {
		if l == nil {
			return nil, "a nil entry was returned"
		}
		id, ok := l.Data.(int)
		if !ok {
			return nil, "an entry that was never logged was returned"
		}
		oi := -1
		for i, o := range owners {
			if l.Owner == o {
				oi = i
			}
		}
		if oi < 0 {
			return nil, "an entry with a foreign owner was returned"
		}
		out = append(out, ent{id: id, owner: oi, typ: l.Type})
	}
	return out, ""
}

// call runs f with the watchdog.
func call(f func()) bool {
	done := make(chan struct{})
	go func() { f(); close(done) }()
	select {
	case <-done:
		return true
	case <-time.After(W):
		return false
	}
}

func c20Seq(ctx *core.Ctx, N int, thorough bool) core.Result {
	var res core.Result
	r := core.NewRand(ctx.Seed, fmt.Sprintf("c20seq/%d", N))
	lengths := []int{0, 1, N - 1, N, N + 1, 2*N + 1, 20 * N, 20*N + 7, 57 * N}
	reps := 3
	if thorough {
		reps = 40
	}
	for rep := 0; rep < reps; rep++ {
		for _, total := range lengths {
			if total < 0 || len(res.Violations) > 2 {
				continue
			}
			lg := go9p.NewLogger(N)
			var logged []ent // logged[i].id == i+1
			jlo := 0         // smallest ring position consistent with everything seen so far
			blocked := false // a call on this logger never returned: nothing further can be learnt from it
			fail := func(sig, what string) {
				res.Violate(fmt.Sprintf("C20;%s;N=%d", sig, N), fmt.Sprintf("%s [capacity %d, %d entries logged so far, sequential]", what, N, len(logged)), nil)
			}
			check := func(fo, ft int, final bool) bool {
				var got []*go9p.Log
				if !call(func() { got = lg.Filter(ownerArg(fo), ft) }) {
					fail("filter-blocks", "Filter did not return")
					blocked = true
					return false
				}
				res.Evals++
				es, bad := decode(got)
				if bad != "" {
					fail("foreign-entry", bad)
					return false
				}
				if len(es) > N {
					fail("more-than-capacity", fmt.Sprintf("Filter returned %d entries", len(es)))
					return false
				}
				for i, e := range es {
					if e.id < 1 || e.id > len(logged) || logged[e.id-1] != e {
						fail("not-logged", fmt.Sprintf("entry %+v was not logged like that", e))
						return false
					}
					if !matches(e, fo, ft) {
						fail("does-not-match", fmt.Sprintf("entry %+v does not match filter (owner %d, type %d)", e, fo, ft))
						return false
					}
					if i > 0 && es[i-1].id >= e.id {
						fail("order", fmt.Sprintf("entries %d and %d are returned out of order or twice", es[i-1].id, e.id))
						return false
					}
				}
				// is there a ring position j in [jlo, #logged] whose window (j-N, j] filtered gives exactly this result?
				lo := jlo
				if len(es) > 0 && es[len(es)-1].id > lo {
					lo = es[len(es)-1].id
				}
				feasible := -1
				for j := lo; j <= len(logged); j++ {
					var want []int
					for id := j - N + 1; id <= j; id++ {
						if id >= 1 && matches(logged[id-1], fo, ft) {
							want = append(want, id)
						}
					}
					same := len(want) == len(es)
					for i := 0; same && i < len(want); i++ {
						same = want[i] == es[i].id
					}
					if same {
						feasible = j
						break
					}
				}
				if feasible < 0 {
					var ids []int
					for _, e := range es {
						ids = append(ids, e.id)
					}
					fail(fmt.Sprintf("not-a-window;owner=%d;type=%d", fo, ft), fmt.Sprintf("Filter(owner %d, type %d) returned ids %v, which is not the filtered content of any window of the last %d entries at a position >= %d", fo, ft, tail(ids), N, jlo))
					return false
				}
				jlo = feasible
				if final && feasible != len(logged) {
					return false
				}
				return true
			}
			filters := [][2]int{{-1, 0}, {0, 0}, {1, 0}, {2, 0}, {-1, 1}, {-1, 2}, {-1, 4}, {0, 1}, {1, 2}, {2, 4}, {0, 4}, {-1, 3}, {-1, 6}, {1, 7}, {-1, 5}, {2, 3}}
			for i := 0; i < total; i++ {
				e := ent{id: i + 1, owner: r.Intn(3), typ: types[r.Intn(len(types))]}
				logged = append(logged, e)
				if !call(func() { lg.Log(e.id, owners[e.owner], e.typ) }) {
					fail("log-blocks", "Log did not return")
					blocked = true
					break
				}
				if r.Intn(4) == 0 || i == total-1 {
					f := filters[r.Intn(len(filters))]
					if !check(f[0], f[1], false) {
						break
					}
				}
			}
			if blocked {
				return res
			}
			ctx.Beat()
			// convergence after logging stops: exact, within 10 000 polls
			if len(res.Violations) == 0 {
				converged := false
				for poll := 0; poll < 10000; poll++ {
					if check(-1, 0, true) {
						converged = true
						break
					}
					if len(res.Violations) > 0 {
						break
					}
				}
				if !converged && len(res.Violations) == 0 {
					fail("no-convergence", "after logging stopped Filter never returned the last entries")
				}
				for _, f := range filters {
					if !blocked {
						check(f[0], f[1], true)
					}
				}
			}
			if blocked {
				return res
			}
			res.Sig(fmt.Sprintf("seq|N=%d|len=%s|rep=%d", N, lclass(total, N), rep%3))
			if rep == 0 && total == 2*N+1 {
				res.Sample(map[string]interface{}{"phase": "sequential", "capacity": N, "entries": total, "final_window_end": jlo})
			}
		}
	}
	return res
}

func tail(a []int) []int {
	if len(a) > 12 {
		return a[len(a)-12:]
	}
	return a
}

func lclass(total, N int) string {
	switch {
	case total < N:
		return "below"
	case total == N:
		return "at"
	case total <= 2*N+1:
		return "wrap-once"
	}
	return "wrap-many"
}

type stamp struct {
	e          ent
	call, retn int64
}

func c20Conc(ctx *core.Ctx, N, producers int, thorough bool) core.Result {
	var res core.Result
	rounds := 6
	if thorough {
		rounds = 80
	}
	for round := 0; round < rounds && len(res.Violations) < 3; round++ {
		lg := go9p.NewLogger(N)
		per := []int{N / 2, N + 1, 20 * N}[round%3] + 1
		var clock int64
		stamps := make([][]stamp, producers)
		var wg sync.WaitGroup
		stop := make(chan struct{})
		var mu sync.Mutex
		fail := func(sig, what string) {
			mu.Lock()
			res.Violate(fmt.Sprintf("C20;%s;N=%d", sig, N), fmt.Sprintf("%s [capacity %d, %d producers, concurrent]", what, N, producers), nil)
			mu.Unlock()
		}
		// id = producer*1e6 + seq
		for p := 0; p < producers; p++ {
			wg.Add(1)
			go func(p int) {
				defer wg.Done()
				r := core.NewRand(ctx.Seed, fmt.Sprintf("c20p/%d/%d/%d", N, round, p))
				for s := 1; s <= per; s++ {
					e := ent{id: p*1000000 + s, owner: r.Intn(3), typ: types[r.Intn(len(types))]}
					st := stamp{e: e, call: atomic.AddInt64(&clock, 1)}
					lg.Log(e.id, owners[e.owner], e.typ)
					st.retn = atomic.AddInt64(&clock, 1)
					stamps[p] = append(stamps[p], st)
				}
			}(p)
		}
		type obs struct {
			fo, ft int
			es     []ent
			call   int64
		}
		var observations []obs
		var fwg sync.WaitGroup
		for f := 0; f < 2; f++ {
			fwg.Add(1)
			go func(f int) {
				defer fwg.Done()
				r := core.NewRand(ctx.Seed, fmt.Sprintf("c20f/%d/%d/%d", N, round, f))
				for {
					select {
					case <-stop:
						return
					default:
					}
					fo, ft := r.Intn(4)-1, []int{0, 0, 1, 2, 4, 3, 6, 5, 8, 0}[r.Intn(10)]
					c0 := atomic.AddInt64(&clock, 1)
					got := lg.Filter(ownerArg(fo), ft)
					es, bad := decode(got)
					if bad != "" {
						fail("foreign-entry", bad)
						return
					}
					mu.Lock()
					observations = append(observations, obs{fo, ft, es, c0})
					mu.Unlock()
				}
			}(f)
		}
		doneP := make(chan struct{})
		go func() { wg.Wait(); close(doneP) }()
		select {
		case <-doneP:
		case <-time.After(W):
			fail("log-blocks", "producers did not finish: Log blocks")
			close(stop)
			return res
		}
		close(stop)
		fwg.Wait()
		// index the logged entries
		byID := map[int]stamp{}
		for _, ss := range stamps {
			for _, s := range ss {
				byID[s.e.id] = s
			}
		}
		for _, o := range observations {
			res.Evals++
			if len(o.es) > N {
				fail("more-than-capacity", fmt.Sprintf("Filter returned %d entries", len(o.es)))
				break
			}
			seen := map[int]bool{}
			lastSeq := map[int]int{}
			for i, e := range o.es {
				s, ok := byID[e.id]
				if !ok || s.e != e {
					fail("not-logged", fmt.Sprintf("entry %+v was never logged like that", e))
					break
				}
				if s.call > o.call+int64(0) && false {
					_ = s
				}
				if !matches(e, o.fo, o.ft) {
					fail("does-not-match", fmt.Sprintf("entry %+v does not match the filter", e))
					break
				}
				if seen[e.id] {
					fail("duplicate", fmt.Sprintf("entry %d returned twice", e.id))
					break
				}
				seen[e.id] = true
				p, seq := e.id/1000000, e.id%1000000
				if lastSeq[p] >= seq {
					fail("producer-order", fmt.Sprintf("entries of producer %d are returned out of order (%d after %d)", p, seq, lastSeq[p]))
					break
				}
				// nothing of this producer that matches may be skipped between two returned entries
				if lastSeq[p] > 0 {
					for q := lastSeq[p] + 1; q < seq; q++ {
						if matches(stamps[p][q-1].e, o.fo, o.ft) {
							fail("skipped", fmt.Sprintf("matching entry %d of producer %d lies between two returned entries but was not returned", q, p))
						}
					}
				}
				lastSeq[p] = seq
				// real-time order: an entry whose Log returned before another's Log was called precedes it
				for k := 0; k < i; k++ {
					if byID[o.es[k].id].call > s.retn {
						fail("realtime-order", fmt.Sprintf("entry %d is returned after entry %d although its Log call had returned before the other was made", e.id, o.es[k].id))
					}
				}
			}
		}
		// after logging stopped: convergence to exactly N most recent (whatever their total order): bounded polls
		var final []ent
		for poll := 0; poll < 10000; poll++ {
			es, _ := decode(lg.Filter(nil, 0))
			final = es
			want := producers * per
			if want > N {
				want = N
			}
			if len(es) == want {
				// the last entry of every producer that fits must be there eventually
				ok := true
				maxSeq := map[int]int{}
				for _, e := range es {
					if e.id%1000000 > maxSeq[e.id/1000000] {
						maxSeq[e.id/1000000] = e.id % 1000000
					}
				}
				if producers == 1 && maxSeq[0] != per {
					ok = false
				}
				if ok {
					break
				}
			}
		}
		want := producers * per
		if want > N {
			want = N
		}
		if len(final) != want {
			fail("no-convergence", fmt.Sprintf("after logging stopped Filter returns %d entries, expected %d", len(final), want))
		}
		if producers == 1 && len(final) > 0 {
			for i, e := range final {
				if e.id != per-len(final)+1+i {
					fail("final-window", "with one producer the final content is not the N most recent entries in order")
					break
				}
			}
		}
		res.Count("concurrent_filter_results", int64(len(observations)))
		res.Sig(fmt.Sprintf("conc|N=%d|p=%d|per=%s", N, producers, lclass(per*producers, N)))
		if round == 1 {
			res.Sample(map[string]interface{}{"phase": "concurrent", "capacity": N, "producers": producers, "entries_per_producer": per, "filter_results_judged": len(observations)})
		}
	}
	return res
}

// c20Big: capacity >= number of entries, so the final Filter reveals the total order in which the logger
// took the entries; every concurrent Filter must then be a filtered prefix of that order.
func c20Big(ctx *core.Ctx, producers int, thorough bool) core.Result {
	var res core.Result
	rounds := 5
	if thorough {
		rounds = 60
	}
	for round := 0; round < rounds && len(res.Violations) < 3; round++ {
		per := 200
		N := producers*per + 10
		lg := go9p.NewLogger(N)
		var wg sync.WaitGroup
		stop := make(chan struct{})
		type obs struct {
			fo, ft int
			es     []ent
			g      int
		}
		var mu sync.Mutex
		var observations []obs
		ents := map[int]ent{}
		for p := 0; p < producers; p++ {
			r := core.NewRand(ctx.Seed, fmt.Sprintf("c20b/%d/%d", round, p))
			for s := 1; s <= per; s++ {
				e := ent{id: p*1000000 + s, owner: r.Intn(3), typ: types[r.Intn(len(types))]}
				ents[e.id] = e
			}
		}
		for p := 0; p < producers; p++ {
			wg.Add(1)
			go func(p int) {
				defer wg.Done()
				for s := 1; s <= per; s++ {
					e := ents[p*1000000+s]
					lg.Log(e.id, owners[e.owner], e.typ)
				}
			}(p)
		}
		var fwg sync.WaitGroup
		for f := 0; f < 3; f++ {
			fwg.Add(1)
			go func(f int) {
				defer fwg.Done()
				r := core.NewRand(ctx.Seed, fmt.Sprintf("c20bf/%d/%d", round, f))
				for {
					select {
					case <-stop:
						return
					default:
					}
					fo, ft := r.Intn(4)-1, []int{0, 0, 1, 2, 4, 3, 6, 5, 8, 0}[r.Intn(10)]
					es, bad := decode(lg.Filter(ownerArg(fo), ft))
					mu.Lock()
					if bad != "" {
						res.Violate("C20;foreign-entry;big", bad, nil)
					}
					observations = append(observations, obs{fo, ft, es, f})
					mu.Unlock()
				}
			}(f)
		}
		wg.Wait()
		close(stop)
		fwg.Wait()
		var order []ent
		for poll := 0; poll < 10000; poll++ {
			order, _ = decode(lg.Filter(nil, 0))
			if len(order) == producers*per {
				break
			}
		}
		if len(order) != producers*per {
			res.Violate("C20;no-convergence;big", fmt.Sprintf("after logging stopped Filter returns %d of %d entries", len(order), producers*per), nil)
			continue
		}
		pos := map[int]int{}
		for i, e := range order {
			if _, dup := pos[e.id]; dup {
				res.Violate("C20;duplicate;big", "an entry appears twice in the final content", nil)
			}
			pos[e.id] = i
		}
		lastJ := map[int]int{}
		for _, o := range observations {
			res.Evals++
			// o.es must be the filtered prefix order[0:j] for some j, j non-decreasing per filterer
			j := 0
			if len(o.es) > 0 {
				j = pos[o.es[len(o.es)-1].id] + 1
			}
			var want []int
			for _, e := range order[:j] {
				if matches(e, o.fo, o.ft) {
					want = append(want, e.id)
				}
			}
			same := len(want) == len(o.es)
			for i := 0; same && i < len(want); i++ {
				same = want[i] == o.es[i].id
			}
			if !same {
				res.Violate("C20;not-a-prefix;big", fmt.Sprintf("a concurrent Filter(owner %d, type %d) returned %d entries that are not the matching entries of a prefix of the order in which the logger took them (%d producers)", o.fo, o.ft, len(o.es), producers), nil)
				break
			}
			// the state this result was computed from lies in [j, hi]: hi = just before the next matching entry
			hi := len(order)
			for k := j; k < len(order); k++ {
				if matches(order[k], o.fo, o.ft) {
					hi = k
					break
				}
			}
			if hi < lastJ[o.g] {
				res.Violate("C20;goes-backwards;big", "a later Filter of the same goroutine shows an older state of the log", nil)
				break
			}
			if j > lastJ[o.g] {
				lastJ[o.g] = j
			}
		}
		res.Count("prefix_checks", int64(len(observations)))
		res.Sig(fmt.Sprintf("big|p=%d|round=%d", producers, round))
	}
	res.Sample(map[string]interface{}{"phase": "big ring: total order reconstructed from the final content", "producers": producers})
	return res
}

// ---- porcupine: short concurrent histories against a ring model with asynchronous Log

type pin struct {
	log    bool
	e      ent
	fo, ft int
}
type pout struct {
	ids []int
}

type ringState struct {
	n       int
	ring    []int // ids, oldest first, at most n
	pending map[int]bool
}

func c20Porc(ctx *core.Ctx, N int, thorough bool) core.Result {
	var res core.Result
	rounds := 40
	if thorough {
		rounds = 1500
	}
	for round := 0; round < rounds && len(res.Violations) < 2; round++ {
		lg := go9p.NewLogger(N)
		r := core.NewRand(ctx.Seed, fmt.Sprintf("c20porc/%d/%d", N, round))
		var clock int64
		var mu sync.Mutex
		var ops []porcupine.Operation
		entsByID := map[int]ent{}
		nprod := 1 + r.Intn(3)
		perProd := 2 + r.Intn(2)
		for p := 0; p < nprod; p++ {
			for s := 1; s <= perProd; s++ {
				e := ent{id: p*100 + s, owner: r.Intn(3), typ: types[r.Intn(len(types))]}
				entsByID[e.id] = e
			}
		}
		var wg sync.WaitGroup
		for p := 0; p < nprod; p++ {
			wg.Add(1)
			go func(p int) {
				defer wg.Done()
				for s := 1; s <= perProd; s++ {
					e := entsByID[p*100+s]
					c := atomic.AddInt64(&clock, 1)
					lg.Log(e.id, owners[e.owner], e.typ)
					// asynchronous: the effect may come at any time after the call, so the operation stays open to the end
					mu.Lock()
					ops = append(ops, porcupine.Operation{ClientId: p, Input: pin{log: true, e: e}, Call: c, Output: pout{}, Return: 1 << 40})
					mu.Unlock()
				}
			}(p)
		}
		for f := 0; f < 2; f++ {
			wg.Add(1)
			go func(f int) {
				defer wg.Done()
				rr := core.NewRand(ctx.Seed, fmt.Sprintf("c20porcf/%d/%d/%d", N, round, f))
				for k := 0; k < 3; k++ {
					fo, ft := rr.Intn(4)-1, []int{0, 0, 1, 2, 4, 3, 6, 5, 8, 0}[rr.Intn(10)]
					c := atomic.AddInt64(&clock, 1)
					es, _ := decode(lg.Filter(ownerArg(fo), ft))
					rt := atomic.AddInt64(&clock, 1)
					var ids []int
					for _, e := range es {
						ids = append(ids, e.id)
					}
					mu.Lock()
					ops = append(ops, porcupine.Operation{ClientId: 10 + f, Input: pin{fo: fo, ft: ft}, Call: c, Output: pout{ids}, Return: rt})
					mu.Unlock()
				}
			}(f)
		}
		wg.Wait()
		// per-producer program order of the asynchronous Logs: a later Log of a producer is called after the earlier one
		// returned, and the channel is FIFO per sender; the model enforces it through the pending set order below.
		model := porcupine.Model{
			Init: func() interface{} { return "" },
			Step: func(st, in, out interface{}) (bool, interface{}) {
				s := st.(string)
				ids := parse(s)
				i := in.(pin)
				if i.log {
					// per-producer FIFO: the previous entry of this producer must already be in (or have passed through) the ring
					if seq := i.e.id % 100; seq > 1 {
						prev := i.e.id - 1
						if !contains(parse(sHist(s)), prev) {
							return false, st
						}
					}
					ring := append(ids, i.e.id)
					if len(ring) > N {
						ring = ring[len(ring)-N:]
					}
					return true, enc(ring, append(parse(sHist(s)), i.e.id))
				}
				var want []int
				for _, id := range ids {
					if matches(entsByID[id], i.fo, i.ft) {
						want = append(want, id)
					}
				}
				got := out.(pout).ids
				if len(got) != len(want) {
					return false, st
				}
				for k := range got {
					if got[k] != want[k] {
						return false, st
					}
				}
				return true, st
			},
			Equal: func(a, b interface{}) bool { return a.(string) == b.(string) },
		}
		res.Evals++
		switch porcupine.CheckOperationsTimeout(model, ops, 20*time.Second) {
		case porcupine.Illegal:
			var desc []string
			sort.Slice(ops, func(a, b int) bool { return ops[a].Call < ops[b].Call })
			for _, o := range ops {
				desc = append(desc, fmt.Sprintf("%d:%+v->%v@%d-%d", o.ClientId, o.Input, o.Output, o.Call, o.Return))
			}
			res.Violate(fmt.Sprintf("C20;not-linearizable;N=%d", N), fmt.Sprintf("a concurrent history of Log/Filter calls has no explanation by a ring of capacity %d with asynchronous Log", N), map[string]interface{}{"history": desc})
		case porcupine.Unknown:
			res.Count("porcupine_timeouts", 1)
		default:
			res.Count("porcupine_histories_ok", 1)
		}
		res.Sig(fmt.Sprintf("porc|N=%d|p=%d|per=%d|%d", N, nprod, perProd, round%10))
	}
	res.Sample(map[string]interface{}{"phase": "porcupine", "capacity": N, "histories": rounds})
	return res
}

// state encoding: "ring|history" as comma-separated ids
func enc(ring, hist []int) string {
	return join(ring) + "|" + join(hist)
}
func join(a []int) string {
	s := ""
	for i, v := range a {
		if i > 0 {
			s += ","
		}
		s += fmt.Sprint(v)
	}
	return s
}
func parse(s string) []int {
	if i := indexByte(s, '|'); i >= 0 {
		s = s[:i]
	}
	var out []int
	cur, have := 0, false
	for i := 0; i < len(s); i++ {
		if s[i] == ',' {
			if have {
				out = append(out, cur)
			}
			cur, have = 0, false
			continue
		}
		cur = cur*10 + int(s[i]-'0')
		have = true
	}
	if have {
		out = append(out, cur)
	}
	return out
}
func sHist(s string) string {
	if i := indexByte(s, '|'); i >= 0 {
		return s[i+1:]
	}
	return ""
}
func indexByte(s string, c byte) int {
	for i := 0; i < len(s); i++ {
		if s[i] == c {
			return i
		}
	}
	return -1
}
func contains(a []int, v int) bool {
	for _, x := range a {
		if x == v {
			return true
		}
	}
	return false
}
