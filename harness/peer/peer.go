// Package peer is a scripted raw 9P server used against go9p's client library.
// It decodes the client's byte stream with the independent codec, keeps the
// set of outstanding tags, and answers in a chosen order, with chosen
// segmentation, cut point or garbage. Answers are a pure function of the
// request, so a caller that receives somebody else's reply is recognisable.
package peer

import (
	"fmt"
	"net"
	"os"
	"sync"
	"sync/atomic"
	"time"

	"verif/memconn"
	"verif/wire"
)

// Req is one request received from the client.
type Req struct {
	Msg *wire.Msg
	Raw []byte
	N   int // arrival index
}

type Peer struct {
	Srv *memconn.End // the peer's end
	Cli *memconn.End // the end handed to the client library

	Msize  uint32 // the peer's own msize limit
	DotuOK bool   // the peer speaks 9P2000.u
	// VersionReply, if set, overrides the Rversion (msize, version) the peer answers with.
	VersionReply func(t *wire.Msg) (uint32, string)

	versionRefusal atomic.Pointer[func(t *wire.Msg) *wire.Msg]

	mu          sync.Mutex
	cond        *sync.Cond
	dotu        bool
	queue       []*Req
	nreq        int
	outstanding map[uint16]int
	Dups        []string // tags seen again while still outstanding
	BadFrames   []string // client frames that do not decode
	rerr        error
	maxOut      int
	sent        int64 // bytes of the reply stream sent so far
	cutAt       int64 // -1 = never
	cutKind     string
	cutDone     bool
	segment     func(n int) []int // how to cut a reply of n bytes into writes
	AllowDupTag bool
	Seen        []*wire.Msg
	paused      bool // the peer does not read requests (its receive buffer fills up)
	maxFrame    int  // the longest request frame received
	// Iounit is what the peer puts into Ropen and Rcreate (0 = "use msize - 24", what the library's servers say).
	Iounit uint32
}

// MaxFrame returns the length of the longest request frame the client has sent.
func (p *Peer) MaxFrame() int {
	p.mu.Lock()
	defer p.mu.Unlock()
	return p.maxFrame
}

// PauseReads makes the peer stop draining the client's requests (true) or resume (false).
func (p *Peer) PauseReads(on bool) {
	p.mu.Lock()
	p.paused = on
	p.cond.Broadcast()
	p.mu.Unlock()
}

// New creates the pipe and starts reading the client's requests.
func New(msize uint32, dotuOK bool) *Peer {
	cli, srv := memconn.Pipe("client", "peer")
	p := &Peer{Srv: srv, Cli: cli, Msize: msize, DotuOK: dotuOK, outstanding: map[uint16]int{}, cutAt: -1}
	p.cond = sync.NewCond(&p.mu)
	go p.reader()
	return p
}

func (p *Peer) reader() {
	var buf []byte
	tmp := make([]byte, 1<<20)
	for {
		p.mu.Lock()
		for p.paused {
			p.cond.Wait()
		}
		p.mu.Unlock()
		n, err := p.Srv.Read(tmp)
		if n > 0 {
			buf = append(buf, tmp[:n]...)
			for len(buf) >= 4 {
				sz := int(wire.PeekSize(buf))
				if sz < 7 {
					p.mu.Lock()
					p.BadFrames = append(p.BadFrames, fmt.Sprintf("size %d", sz))
					p.mu.Unlock()
					buf = nil
					break
				}
				if sz > len(buf) {
					break
				}
				frame := append([]byte{}, buf[:sz]...)
				buf = buf[sz:]
				p.mu.Lock()
				dotu := p.dotu
				if sz > p.maxFrame {
					p.maxFrame = sz
				}
				p.mu.Unlock()
				m, _, derr := wire.Decode(frame, dotu)
				p.mu.Lock()
				if derr != nil {
					p.BadFrames = append(p.BadFrames, derr.Error())
				} else {
					if _, dup := p.outstanding[m.Tag]; dup && !p.AllowDupTag {
						p.Dups = append(p.Dups, fmt.Sprintf("tag %d (%s) while a request with that tag is outstanding", m.Tag, wire.TypeName(m.Type)))
					}
					p.outstanding[m.Tag]++
					if len(p.outstanding) > p.maxOut {
						p.maxOut = len(p.outstanding)
					}
					p.nreq++
					p.queue = append(p.queue, &Req{Msg: m, Raw: frame, N: p.nreq})
					if len(p.Seen) < 200000 {
						p.Seen = append(p.Seen, m)
					}
				}
				p.cond.Broadcast()
				p.mu.Unlock()
			}
		}
		if err != nil {
			p.mu.Lock()
			p.rerr = err
			p.cond.Broadcast()
			p.mu.Unlock()
			return
		}
	}
}

// Next returns the next request in arrival order (nil on timeout or when the client is gone).
func (p *Peer) Next(d time.Duration) *Req {
	timedOut := false
	timer := time.AfterFunc(d, func() {
		p.mu.Lock()
		timedOut = true // under the lock: the waiter cannot miss it between its check and its Wait
		p.cond.Broadcast()
		p.mu.Unlock()
	})
	defer timer.Stop()
	p.mu.Lock()
	defer p.mu.Unlock()
	for len(p.queue) == 0 {
		if p.rerr != nil || timedOut {
			return nil
		}
		p.cond.Wait()
	}
	r := p.queue[0]
	p.queue = p.queue[1:]
	return r
}

// Collect waits until n requests are queued and returns them.
func (p *Peer) Collect(n int, d time.Duration) []*Req {
	var out []*Req
	deadline := time.Now().Add(d)
	for len(out) < n {
		r := p.Next(time.Until(deadline))
		if r == nil {
			break
		}
		out = append(out, r)
	}
	return out
}

// MaxOutstanding is the largest number of distinct tags outstanding at one instant.
func (p *Peer) MaxOutstanding() int {
	p.mu.Lock()
	defer p.mu.Unlock()
	return p.maxOut
}

func (p *Peer) Requests() int {
	p.mu.Lock()
	defer p.mu.Unlock()
	return p.nreq
}

func (p *Peer) Problems() (dups, bad []string) {
	p.mu.Lock()
	defer p.mu.Unlock()
	return append([]string{}, p.Dups...), append([]string{}, p.BadFrames...)
}

// ClientGone reports whether the client closed its side.
func (p *Peer) ClientGone() bool {
	p.mu.Lock()
	defer p.mu.Unlock()
	return p.rerr != nil
}

// Dotu reports the dialect the session speaks (set by the Rversion the peer sent).
func (p *Peer) Dotu() bool {
	p.mu.Lock()
	defer p.mu.Unlock()
	return p.dotu
}

// SetDotu sets the dialect of the session (for callers that send the Rversion themselves).
func (p *Peer) SetDotu(d bool) {
	p.mu.Lock()
	p.dotu = d
	p.mu.Unlock()
}

// SetSegment chooses how reply bytes are cut into transport writes (nil = one write per reply).
func (p *Peer) SetSegment(f func(n int) []int) {
	p.mu.Lock()
	p.segment = f
	p.mu.Unlock()
}

// CutAfter makes the reply stream end after total bytes: kind "close" (EOF), "reset" (error), or "stall" (silence).
func (p *Peer) CutAfter(total int64, kind string) {
	p.mu.Lock()
	p.cutAt, p.cutKind = total, kind
	p.mu.Unlock()
}

// Sent returns how many bytes of the reply stream were written.
func (p *Peer) Sent() int64 {
	p.mu.Lock()
	defer p.mu.Unlock()
	return p.sent
}

// SendRaw writes bytes of the reply stream, honouring segmentation and the cut point.
// It reports whether the stream is still alive afterwards.
func (p *Peer) SendRaw(b []byte) bool {
	p.mu.Lock()
	if p.cutDone {
		p.mu.Unlock()
		return false
	}
	allowed := len(b)
	cut := false
	if p.cutAt >= 0 && p.sent+int64(len(b)) >= p.cutAt {
		allowed = int(p.cutAt - p.sent)
		cut = true
	}
	seg := p.segment
	kind := p.cutKind
	p.sent += int64(allowed)
	if cut {
		p.cutDone = true
	}
	p.mu.Unlock()
	out := b[:allowed]
	if seg == nil {
		if len(out) > 0 {
			_, _ = p.Srv.Write(out)
		}
	} else {
		prev := 0
		for _, c := range seg(len(out)) {
			if c > prev && c <= len(out) {
				_, _ = p.Srv.Write(out[prev:c])
				prev = c
			}
		}
		if prev < len(out) {
			_, _ = p.Srv.Write(out[prev:])
		}
	}
	if cut {
		// "delivered before the failure" means read by the client: what it has not read yet is discarded by a
		// reset, and by its own close when one of its writes fails first
		p.Cli.WaitDrained(10 * time.Second)
		switch kind {
		case "close":
			p.Srv.Close()
		case "reset":
			p.Srv.Reset()
		case "timeout":
			// the client's receive deadline ran out: every Read from now on fails the way an expired
			// SetReadDeadline makes it fail
			p.Cli.FailReadAfter(0, &net.OpError{Op: "read", Net: "mem", Err: os.ErrDeadlineExceeded})
		case "stall":
		}
		return false
	}
	return true
}

// Reply encodes and sends the answer to req and retires its tag.
func (p *Peer) Reply(req *Req, r *wire.Msg) bool {
	r.Tag = req.Msg.Tag
	p.mu.Lock()
	dotu := p.dotu
	if r.Type == wire.Rversion {
		p.dotu = r.Version == "9P2000.u"
	}
	if n := p.outstanding[req.Msg.Tag]; n <= 1 {
		delete(p.outstanding, req.Msg.Tag)
	} else {
		p.outstanding[req.Msg.Tag] = n - 1
	}
	p.mu.Unlock()
	return p.SendRaw(wire.Encode(r, dotu))
}

// ---- deterministic answers

// Data is the payload the peer returns for a read: a function of the request only.
func Data(fid uint32, offset uint64, n int) []byte {
	b := make([]byte, n)
	x := uint64(fid)*0x9E3779B97F4A7C15 ^ offset*0xC2B2AE3D27D4EB4F ^ 0xABCDEF
	for i := range b {
		x ^= x << 13
		x ^= x >> 7
		x ^= x << 17
		b[i] = byte(x >> 32)
	}
	return b
}

func QidFor(fid uint32) wire.Qid {
	return wire.Qid{Type: 0, Version: fid * 3, Path: uint64(fid)*7919 + 1}
}

func StatName(fid uint32) string { return fmt.Sprintf("peerfile-%d", fid) }

// Fids at or above ErrFid are answered with Rerror, fids in [WrongFid, ErrFid) with a reply of the wrong type.
const (
	WrongFid = 0x40000000
	EchoFid  = 0x48000000 // fids in [EchoFid, ErrFid) get their own request echoed back
	ErrFid   = 0x50000000
)

func ErrText(fid uint32) string { return fmt.Sprintf("peer says no to fid %d", fid) }
func ErrNum(fid uint32) uint32  { return fid%200 + 1 }

// RefuseVersion installs (f != nil) or removes a function that answers a Tversion with something else than an
// Rversion (the reply carries the request's tag, NOTAG, like every reply to a Tversion).
func (p *Peer) RefuseVersion(f func(t *wire.Msg) *wire.Msg) {
	if f == nil {
		p.versionRefusal.Store(nil)
		return
	}
	p.versionRefusal.Store(&f)
}

// Answer computes the peer's deterministic reply to a request.
func (p *Peer) Answer(t *wire.Msg) *wire.Msg {
	if t.Type == wire.Tversion {
		if f := p.versionRefusal.Load(); f != nil {
			if r := (*f)(t); r != nil {
				return r
			}
		}
	}
	fid := t.Fid
	if t.Type == wire.Tauth {
		fid = t.Afid
	}
	if t.Type != wire.Tversion && t.Type != wire.Tflush && fid >= ErrFid && fid != wire.NOFID {
		r := &wire.Msg{Type: wire.Rerror, Ename: ErrText(fid)}
		if p.Dotu() {
			r.Ecode = ErrNum(fid)
		}
		return r
	}
	if t.Type != wire.Tversion && t.Type != wire.Tflush && fid >= EchoFid && fid < ErrFid {
		// a peer that sends the request back (a loop-back, a confused proxy): a T-message is not a reply
		e := *t
		return &e
	}
	if t.Type != wire.Tversion && t.Type != wire.Tflush && fid >= WrongFid && fid != wire.NOFID {
		if t.Type == wire.Tclunk {
			return &wire.Msg{Type: wire.Rremove}
		}
		return &wire.Msg{Type: wire.Rclunk}
	}
	r := &wire.Msg{Type: t.Type + 1}
	switch t.Type {
	case wire.Tversion:
		ms, ver := t.Msize, "9P2000"
		if p.Msize < ms {
			ms = p.Msize
		}
		if t.Version == "9P2000.u" && p.DotuOK {
			ver = "9P2000.u"
		}
		if p.VersionReply != nil {
			ms, ver = p.VersionReply(t)
		}
		r.Msize, r.Version = ms, ver
	case wire.Tauth:
		r.Qid = QidFor(t.Afid)
		r.Qid.Type = 0x08
	case wire.Tattach:
		r.Qid = QidFor(t.Fid)
		r.Qid.Type = 0x80
	case wire.Twalk:
		r.Wqid = []wire.Qid{}
		for i := range t.Wname {
			q := QidFor(t.Newfid + uint32(i))
			if i < len(t.Wname)-1 {
				q.Type = 0x80
			}
			r.Wqid = append(r.Wqid, q)
		}
	case wire.Topen, wire.Tcreate:
		r.Qid = QidFor(t.Fid)
		r.Iounit = p.Iounit
	case wire.Tread:
		r.Data = Data(t.Fid, t.Offset, int(t.Count))
		r.Count = t.Count
	case wire.Twrite:
		r.Count = uint32(len(t.Data))
	case wire.Tstat:
		r.Stat = wire.Stat{Name: StatName(t.Fid), Qid: QidFor(t.Fid), Length: uint64(t.Fid), Mode: 0o644, Uid: "u", Gid: "g", Muid: "m", Nuid: 1, Ngid: 2, Nmuid: 3}
	}
	return r
}

// Serve answers every request at once, in arrival order, until the client goes away or stop is closed.
func (p *Peer) Serve(stop <-chan struct{}) {
	for {
		select {
		case <-stop:
			return
		default:
		}
		r := p.Next(50 * time.Millisecond)
		if r == nil {
			if p.ClientGone() {
				return
			}
			continue
		}
		if !p.Reply(r, p.Answer(r.Msg)) {
			return
		}
	}
}
