// Command verif is supervisor and worker of every check in /verif.
//
//	verif check <ID> quick|thorough
//	verif replay <ID> <file>
//	verif worker …            (internal)
//	verif list
package main

import (
	"fmt"
	"os"

	"verif/core"
	_ "verif/lab"
)

func main() {
	if len(os.Args) < 2 {
		fmt.Fprintln(os.Stderr, "usage: verif check <ID> quick|thorough | replay <ID> <file> | list")
		os.Exit(2)
	}
	switch os.Args[1] {
	case "worker":
		os.Exit(core.WorkerMain(os.Args[2:]))
	case "check":
		if len(os.Args) < 4 {
			fmt.Fprintln(os.Stderr, "usage: verif check <ID> quick|thorough")
			os.Exit(2)
		}
		os.Exit(core.CheckMain(os.Args[2], os.Args[3], -1))
	case "replay":
		if len(os.Args) < 4 {
			fmt.Fprintln(os.Stderr, "usage: verif replay <ID> <file>")
			os.Exit(2)
		}
		os.Exit(core.ReplayMain(os.Args[2], os.Args[3]))
	case "list":
		for _, id := range core.Properties() {
			fmt.Println(id)
		}
	default:
		fmt.Fprintln(os.Stderr, "unknown command", os.Args[1])
		os.Exit(2)
	}
}
