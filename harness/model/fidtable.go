// Package model holds the executable reference models the oracles compare
// the server with. FidTable is the per-connection fid table with the
// protocol's fid-state rules (DESIGN.md Appendix C). Where the property
// statements are silent the model answers Either rather than guessing.
package model

import (
	"fmt"

	"verif/wire"
)

type Expect int

const (
	Forward Expect = iota // must reach the implementation exactly once
	Refuse                // must be answered Rerror by the framework, never forwarded
	Either                // the statements do not settle it
)

func (e Expect) String() string { return [...]string{"forward", "refuse", "either"}[e] }

const (
	QTDIR  = 0x80
	QTAUTH = 0x08
)

const (
	DMDIR       = 0x80000000
	DMSYMLINK   = 0x02000000
	DMLINK      = 0x01000000
	DMDEVICE    = 0x00800000
	DMNAMEDPIPE = 0x00200000
	DMSOCKET    = 0x00100000
)

// Fid is the model's view of one valid fid.
type Fid struct {
	Type  uint8 // qid type bits that matter: QTDIR, QTAUTH
	Open  bool
	Omode uint8
	User  int
	Tok   int64 // identity of the server-side fid object, learned from the implementation log (0 = not yet seen)
}

func (f *Fid) Dir() bool  { return f.Type&QTDIR != 0 }
func (f *Fid) Auth() bool { return f.Type&QTAUTH != 0 }

type FidTable struct {
	Fids    map[uint32]*Fid
	Dotu    bool
	Msize   uint32
	HasAuth bool // the implementation provides AuthOps
}

func NewFidTable(dotu bool, msize uint32, hasAuth bool) *FidTable {
	return &FidTable{Fids: map[uint32]*Fid{}, Dotu: dotu, Msize: msize, HasAuth: hasAuth}
}

// Verdict is what the model expects for one request.
type Verdict struct {
	Exp  Expect
	Text string // exact Rerror text required ("" = any error)
	Op   string // callback that must be invoked when forwarded (Attach, Walk, …, AuthRead, AuthWrite, AuthDestroy, AuthInit)
	Why  string
}

const (
	EUnknownFid = "unknown fid"
	EInUse      = "fid already in use"
)

func refuse(text, why string) Verdict { return Verdict{Exp: Refuse, Text: text, Why: why} }
func forward(op string) Verdict       { return Verdict{Exp: Forward, Op: op} }
func either(op, why string) Verdict   { return Verdict{Exp: Either, Op: op, Why: why} }

// UserKnown tells the model whether the attach/auth names a user the pool knows
// (sessions normally do; "unknown user" is then not part of the table).

// Expect evaluates the rule table for request m in the current state.
// authReject says that the planned AuthCheck rejects this attach.
func (t *FidTable) Expect(m *wire.Msg, authReject bool) Verdict {
	fid := t.Fids[m.Fid]
	switch m.Type {
	case wire.Tauth:
		if m.Afid == wire.NOFID {
			return either("AuthInit", "NOFID as a fid to bind: statement silent")
		}
		if t.Fids[m.Afid] != nil {
			return refuse(EInUse, "afid already valid")
		}
		if !t.HasAuth {
			return refuse("", "no authentication support")
		}
		return forward("AuthInit")
	case wire.Tattach:
		if m.Fid == wire.NOFID {
			return either("Attach", "NOFID as a fid to bind: statement silent")
		}
		if fid != nil {
			return refuse(EInUse, "fid already valid")
		}
		if m.Afid != wire.NOFID && t.Fids[m.Afid] == nil {
			return refuse(EUnknownFid, "afid invalid")
		}
		if t.HasAuth && authReject {
			return refuse("", "authentication check rejects")
		}
		return forward("Attach")
	}
	// every other request names fid[4]
	if m.Type == wire.Tflush || m.Type == wire.Tversion {
		return either("", "not a fid request")
	}
	if fid == nil {
		return refuse(EUnknownFid, "fid invalid")
	}
	limit := t.Msize - wire.IOHDRSZ
	switch m.Type {
	case wire.Twalk:
		if fid.Open {
			return refuse("", "walk from an open fid")
		}
		if len(m.Wname) > 0 && !fid.Dir() {
			return refuse("", "walk by name from a non-directory")
		}
		if m.Newfid != m.Fid {
			if m.Newfid == wire.NOFID {
				return either("Walk", "NOFID as newfid: statement silent")
			}
			if t.Fids[m.Newfid] != nil {
				return refuse(EInUse, "newfid already valid")
			}
		}
		if fid.Auth() {
			return either("Walk", "clone of an auth fid: statement silent")
		}
		return forward("Walk")
	case wire.Topen:
		if fid.Open {
			return refuse("", "open of an open fid")
		}
		if fid.Auth() {
			return either("Open", "open of an auth fid: statement silent")
		}
		if fid.Dir() {
			acc := m.Mode & 3
			if acc == 1 || acc == 2 || m.Mode&16 != 0 {
				return refuse("", "directory opened other than for reading")
			}
			if m.Mode == 0 {
				return forward("Open")
			}
			return either("Open", "directory with OEXEC/ORCLOSE/other flags: statement silent")
		}
		return forward("Open")
	case wire.Tcreate:
		if fid.Open {
			return refuse("", "create through an open fid")
		}
		if !fid.Dir() {
			return refuse("", "create through a non-directory")
		}
		if m.Perm&(DMNAMEDPIPE|DMSYMLINK|DMLINK|DMDEVICE|DMSOCKET) != 0 && !t.Dotu {
			return refuse("", "special file on a non-.u connection")
		}
		if m.Perm&DMDIR != 0 && m.Mode != 0 {
			return either("Create", "directory created with a mode other than OREAD: statement silent")
		}
		return forward("Create")
	case wire.Tread:
		if uint64(m.Count) > uint64(limit) {
			return refuse("", "count exceeds msize-IOHDRSZ")
		}
		if fid.Auth() {
			if !t.HasAuth {
				return refuse("", "auth fid without authentication support")
			}
			return forward("AuthRead")
		}
		if !fid.Open {
			return either("Read", "read on an unopened fid: statement silent")
		}
		return forward("Read")
	case wire.Twrite:
		if fid.Auth() {
			if !t.HasAuth {
				return refuse("", "auth fid without authentication support")
			}
			if uint64(m.Count) > uint64(limit) {
				return either("AuthWrite", "oversize write on an auth fid")
			}
			return forward("AuthWrite")
		}
		if !fid.Open || fid.Dir() || (fid.Omode&3 != 1 && fid.Omode&3 != 2) {
			return refuse("", "fid not open for writing or a directory")
		}
		if uint64(m.Count) > uint64(limit) {
			return refuse("", "count exceeds msize-IOHDRSZ")
		}
		return forward("Write")
	case wire.Tclunk:
		if fid.Auth() {
			if !t.HasAuth {
				return refuse("", "auth fid without authentication support")
			}
			return forward("AuthDestroy")
		}
		return forward("Clunk")
	case wire.Tremove:
		if fid.Auth() {
			return either("Remove", "remove of an auth fid: statement silent")
		}
		return forward("Remove")
	case wire.Tstat:
		if fid.Auth() {
			return either("Stat", "stat of an auth fid: statement silent")
		}
		return forward("Stat")
	case wire.Twstat:
		if fid.Auth() {
			return either("Wstat", "wstat of an auth fid: statement silent")
		}
		return forward("Wstat")
	}
	return either("", "unknown request")
}

// Apply updates the table with the reply that was received for request m.
// user is the uid resolved for Tauth/Tattach.
func (t *FidTable) Apply(m *wire.Msg, r *wire.Msg, user int) {
	ok := r.Type == m.Type+1
	switch m.Type {
	case wire.Tauth:
		if ok && t.Fids[m.Afid] == nil {
			t.Fids[m.Afid] = &Fid{Type: QTAUTH, User: user}
		}
	case wire.Tattach:
		if ok && t.Fids[m.Fid] == nil {
			t.Fids[m.Fid] = &Fid{Type: r.Qid.Type & QTDIR, User: user}
		}
	case wire.Twalk:
		src := t.Fids[m.Fid]
		if ok && src != nil && len(r.Wqid) == len(m.Wname) {
			typ := src.Type
			if n := len(r.Wqid); n > 0 {
				typ = r.Wqid[n-1].Type & QTDIR
			}
			if m.Newfid == m.Fid {
				src.Type = typ
			} else if t.Fids[m.Newfid] == nil {
				t.Fids[m.Newfid] = &Fid{Type: typ, User: src.User}
			}
		}
	case wire.Topen:
		if f := t.Fids[m.Fid]; ok && f != nil {
			f.Open = true
			f.Omode = m.Mode
		}
	case wire.Tcreate:
		if f := t.Fids[m.Fid]; ok && f != nil {
			f.Open = true
			f.Omode = m.Mode
			f.Type = r.Qid.Type & QTDIR
		}
	case wire.Tclunk:
		if ok {
			delete(t.Fids, m.Fid)
		}
	case wire.Tremove:
		if t.Fids[m.Fid] != nil {
			// any reply to Tremove invalidates the fid (a refusal for an unknown fid changes nothing)
			delete(t.Fids, m.Fid)
		}
	}
}

// Clone copies the table (used to remember the state before a request).
func (t *FidTable) Clone() *FidTable {
	c := &FidTable{Fids: map[uint32]*Fid{}, Dotu: t.Dotu, Msize: t.Msize, HasAuth: t.HasAuth}
	for k, v := range t.Fids {
		f := *v
		c.Fids[k] = &f
	}
	return c
}

// StateKey is an abstract description of the table over the given fid numbers.
func (t *FidTable) StateKey(nums []uint32) string {
	s := ""
	for _, n := range nums {
		f := t.Fids[n]
		switch {
		case f == nil:
			s += "-"
		default:
			c := "f"
			if f.Dir() {
				c = "d"
			} else if f.Auth() {
				c = "a"
			}
			if f.Open {
				c += fmt.Sprintf("o%d", f.Omode&3)
			}
			s += c
		}
		s += "|"
	}
	return s
}
