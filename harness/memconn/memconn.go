// Package memconn is a scripted in-memory net.Conn pair. Every Write is kept
// as one segment and a Read returns bytes of the first queued segment only,
// so the writer decides exactly how the reader's transport reads are cut
// (one byte at a time, many messages in one read, a split inside a size
// prefix). Faults — EOF, reset, error after N bytes in either direction —
// are injected at exact byte offsets.
package memconn

import (
	"errors"
	"io"
	"net"
	"sync"
	"sync/atomic"
	"time"
)

type addr string

func (a addr) Network() string { return "mem" }
func (a addr) String() string  { return string(a) }

var ErrClosed = errors.New("memconn: use of closed connection")
var ErrReset = errors.New("memconn: connection reset by peer")

// End is one side of the pair.
type End struct {
	name string
	peer *End

	mu       sync.Mutex
	cond     *sync.Cond
	segs     [][]byte // inbound segments not yet read
	queued   int
	waiting  int   // Read calls blocked for data
	rcalls   int64 // Read calls so far
	eof      bool  // peer closed its side: EOF after the queue drains
	rerr     error // injected / reset: returned by Read at once
	closed   bool  // this side closed
	closedA  int32 // same, readable without the lock (a blocked Write of this side must notice)
	Cap      int   // >0: a Write to this End blocks while that many bytes are queued
	Coalesce bool  // Read may return bytes of several segments

	readTotal   int64
	failReadAt  int64 // >=0: Read fails once this many bytes were delivered
	failReadErr error

	wmu          sync.Mutex
	wroteTotal   int64
	failWriteAt  int64 // >=0: Write fails (after delivering the allowed prefix) at this many bytes
	failWriteErr error

	// OnRead, if set, is called (outside the lock) after each Read with the bytes returned.
	OnRead func(n int)

	// MaxWrite > 0 makes Write accept at most that many bytes per call (a short write without
	// error, as a congested socket does); BeforeWrite is called before every Write (delay injection).
	MaxWrite    int
	BeforeWrite func(n int)
}

// Pipe returns the two ends of a new connection.
func Pipe(nameA, nameB string) (*End, *End) {
	a := &End{name: nameA, failReadAt: -1, failWriteAt: -1}
	b := &End{name: nameB, failReadAt: -1, failWriteAt: -1}
	a.cond = sync.NewCond(&a.mu)
	b.cond = sync.NewCond(&b.mu)
	a.peer, b.peer = b, a
	return a, b
}

func (e *End) Read(p []byte) (int, error) {
	e.mu.Lock()
	e.rcalls++
	for {
		if e.closed {
			e.mu.Unlock()
			return 0, ErrClosed
		}
		if e.rerr != nil {
			err := e.rerr
			e.mu.Unlock()
			return 0, err
		}
		if e.failReadAt >= 0 && e.readTotal >= e.failReadAt {
			err := e.failReadErr
			e.mu.Unlock()
			return 0, err
		}
		if len(e.segs) > 0 {
			break
		}
		if e.eof {
			e.mu.Unlock()
			return 0, io.EOF
		}
		e.waiting++
		e.cond.Wait()
		e.waiting--
	}
	n := 0
	for len(e.segs) > 0 && n < len(p) {
		s := e.segs[0]
		k := copy(p[n:], s)
		if e.failReadAt >= 0 && e.readTotal+int64(k) > e.failReadAt {
			k = int(e.failReadAt - e.readTotal)
		}
		n += k
		e.readTotal += int64(k)
		e.queued -= k
		if k == len(s) {
			e.segs = e.segs[1:]
		} else {
			e.segs[0] = s[k:]
		}
		if !e.Coalesce || (e.failReadAt >= 0 && e.readTotal >= e.failReadAt) {
			break
		}
	}
	e.cond.Broadcast()
	cb := e.OnRead
	e.mu.Unlock()
	if cb != nil {
		cb(n)
	}
	if n == 0 && len(p) > 0 {
		// only possible when the fail offset is reached exactly
		return e.Read(p)
	}
	return n, nil
}

// Write delivers p to the peer as one segment.
func (e *End) Write(p []byte) (int, error) {
	e.wmu.Lock()
	defer e.wmu.Unlock()
	e.mu.Lock()
	closed := e.closed
	e.mu.Unlock()
	if closed {
		return 0, ErrClosed
	}
	if e.BeforeWrite != nil {
		e.BeforeWrite(len(p))
	}
	short := false
	if e.MaxWrite > 0 && len(p) > e.MaxWrite {
		p = p[:e.MaxWrite]
		short = true
	}
	_ = short
	allowed := len(p)
	var ferr error
	if e.failWriteAt >= 0 && e.wroteTotal+int64(len(p)) > e.failWriteAt {
		allowed = int(e.failWriteAt - e.wroteTotal)
		if allowed < 0 {
			allowed = 0
		}
		ferr = e.failWriteErr
	}
	if allowed > 0 {
		if err := e.peer.deliver(p[:allowed], e); err != nil {
			return 0, err
		}
		e.wroteTotal += int64(allowed)
	}
	if ferr != nil {
		return allowed, ferr
	}
	return len(p), nil
}

func (e *End) deliver(p []byte, from *End) error {
	e.mu.Lock()
	defer e.mu.Unlock()
	// a full receive buffer blocks the writer until the reader drains it, the reader goes away, or the
	// writer's own side is closed (like a socket: Close unblocks a pending Write)
	for e.Cap > 0 && e.queued >= e.Cap && !e.closed && e.rerr == nil && atomic.LoadInt32(&from.closedA) == 0 {
		e.cond.Wait()
	}
	if atomic.LoadInt32(&from.closedA) != 0 {
		return ErrClosed
	}
	if e.closed || e.rerr != nil {
		return ErrReset // the other side is gone: EPIPE-like
	}
	e.segs = append(e.segs, append([]byte{}, p...))
	e.queued += len(p)
	e.cond.Broadcast()
	return nil
}

// Close closes this side: its own reads and writes fail, the peer reads EOF
// after draining what was already written.
func (e *End) Close() error {
	e.mu.Lock()
	if e.closed {
		e.mu.Unlock()
		return nil
	}
	e.closed = true
	atomic.StoreInt32(&e.closedA, 1)
	e.cond.Broadcast()
	e.mu.Unlock()
	p := e.peer
	p.mu.Lock()
	p.eof = true
	p.cond.Broadcast()
	p.mu.Unlock()
	return nil
}

// Reset makes the peer's reads fail with ErrReset at once (queued data is dropped)
// and closes this side.
func (e *End) Reset() {
	p := e.peer
	p.mu.Lock()
	p.rerr = ErrReset
	p.segs = nil
	p.queued = 0
	p.cond.Broadcast()
	p.mu.Unlock()
	e.mu.Lock()
	e.closed = true
	atomic.StoreInt32(&e.closedA, 1)
	e.cond.Broadcast()
	e.mu.Unlock()
	p.mu.Lock()
	p.cond.Broadcast() // writers of this side blocked on the peer's full buffer
	p.mu.Unlock()
}

// FailReadAfter makes Read on this End return err once n more bytes were delivered to the reader.
func (e *End) FailReadAfter(n int64, err error) {
	e.mu.Lock()
	e.failReadAt = e.readTotal + n
	e.failReadErr = err
	e.cond.Broadcast()
	e.mu.Unlock()
}

// FailWriteAfter makes Write on this End fail with err after n more bytes were accepted.
func (e *End) FailWriteAfter(n int64, err error) {
	e.wmu.Lock()
	e.failWriteAt = e.wroteTotal + n
	e.failWriteErr = err
	e.wmu.Unlock()
}

// Closed reports whether this side was closed (by its owner).
func (e *End) Closed() bool {
	e.mu.Lock()
	defer e.mu.Unlock()
	return e.closed
}

// PeerGone reports whether the other side closed or reset.
func (e *End) PeerGone() bool {
	e.mu.Lock()
	defer e.mu.Unlock()
	return e.eof || e.rerr != nil
}

// Queued returns the number of bytes written to this End and not yet read.
func (e *End) Queued() int {
	e.mu.Lock()
	defer e.mu.Unlock()
	return e.queued
}

// ReaderIdle reports whether a Read of this End is blocked with nothing queued: the reader has
// consumed everything written so far and has come back for more.
// Activity is a snapshot of what happened on this End's inbound side: Read calls made, bytes handed to readers,
// bytes still queued. Two equal snapshots some time apart mean nobody read and nobody wrote in between.
func (e *End) Activity() [3]int64 {
	e.mu.Lock()
	defer e.mu.Unlock()
	return [3]int64{e.rcalls, e.readTotal, int64(e.queued)}
}

func (e *End) ReaderIdle() bool {
	e.mu.Lock()
	defer e.mu.Unlock()
	return e.waiting > 0 && e.queued == 0
}

// WaitDrained blocks until everything written to this End has been read,
// the End is closed, or the timeout expires; it reports whether it drained.
func (e *End) WaitDrained(d time.Duration) bool {
	deadline := time.Now().Add(d)
	for {
		e.mu.Lock()
		q, c := e.queued, e.closed
		e.mu.Unlock()
		if q == 0 || c {
			return q == 0
		}
		if time.Now().After(deadline) {
			return false
		}
		time.Sleep(50 * time.Microsecond)
	}
}

func (e *End) LocalAddr() net.Addr                { return addr(e.name) }
func (e *End) RemoteAddr() net.Addr               { return addr(e.peer.name) }
func (e *End) SetDeadline(t time.Time) error      { return nil }
func (e *End) SetReadDeadline(t time.Time) error  { return nil }
func (e *End) SetWriteDeadline(t time.Time) error { return nil }

var _ net.Conn = (*End)(nil)
