// Package script is a scripted go9p file-server implementation. Every
// callback is logged (with a sequence number shared with the wire observer)
// and then follows the plan the harness registered for that request: wait on
// a gate, answer success, an error, a partial walk, answer twice, cancel on
// Flush. Answers are a pure function of the request so the harness can
// recompute what "the implementation produced".
package script

import (
	"fmt"
	"hash/fnv"
	"sync"
	"sync/atomic"

	"github.com/rminnich/go9p"
)

// Event is one entry of the shared log.
type Event struct {
	Seq    int64
	Kind   string // op | answer | exit | destroy | connopen | connclosed | flushcb | T | R | pt | note
	Conn   int
	Tag    uint16
	Op     string // Attach Walk Open … AuthInit AuthCheck AuthRead AuthWrite AuthDestroy Flush
	Fid    int64  // identity token of req.Fid (0 = none)
	Newfid int64
	Afid   int64
	User   int    // uid bound to the fid the callback saw (-1 none)
	Args   string // digest of the arguments as seen by the implementation
	Type   uint8  // wire type for T/R events
	Info   string
}

// Log is the append-only event log of one session.
type Log struct {
	mu  sync.Mutex
	seq int64
	ev  []Event
}

func (l *Log) Add(e Event) int64 {
	l.mu.Lock()
	l.seq++
	e.Seq = l.seq
	l.ev = append(l.ev, e)
	s := l.seq
	l.mu.Unlock()
	return s
}

func (l *Log) Seq() int64 {
	l.mu.Lock()
	defer l.mu.Unlock()
	return l.seq
}

// Snapshot returns a copy of the events with Seq > after.
func (l *Log) Snapshot(after int64) []Event {
	l.mu.Lock()
	defer l.mu.Unlock()
	var out []Event
	for _, e := range l.ev {
		if e.Seq > after {
			out = append(out, e)
		}
	}
	return out
}

func (l *Log) Len() int {
	l.mu.Lock()
	defer l.mu.Unlock()
	return len(l.ev)
}

// Plan tells the implementation what to do with one request.
type Plan struct {
	Gate       chan struct{} // if non-nil the callback blocks until it is closed
	Err        string        // non-empty: answer Rerror with this text …
	Errnum     uint32        // … and this number
	WalkN      int           // Twalk: number of qids to return (-1 = all names)
	QidTypes   []uint8       // Twalk: type of each returned qid (default: by name, 'd…' = directory)
	QidType    uint8         // Tattach/Tcreate: type bits of the returned qid (Tattach default QTDIR)
	ReadN      int           // Tread: bytes to return (-1 = count)
	Twice      bool          // call Respond a second time after answering
	ThenError  string        // after the answer, answer once more with this error text (a confused worker's second, different answer)
	TwiceFull  bool          // give the whole answer a second time (pack it again, then Respond), as a confused worker would
	NoAnswer   bool          // return without answering (the harness answers later through Pending)
	OnFlush    string        // with FlushOp: "cancel" calls req.Flush(), "ignore" does nothing
	AuthReject string        // AuthCheck: non-empty = reject the attach with this text
	Entered    chan struct{} // closed when the callback has been entered (may be nil)
	Text       string        // Tstat: overrides the computed name (used to make large replies)
}

type planKey struct {
	conn int
	tag  uint16
}

// FidTok is stored in SrvFid.Aux of every fid shown to the implementation.
type FidTok struct {
	ID        int64
	Destroyed int32
}

// Ops is the base implementation: SrvReqOps + ConnOps + SrvFidOps.
type Ops struct {
	Log *Log

	mu           sync.Mutex
	plans        map[planKey][]*Plan // FIFO per (conn, tag): shared-tag groups queue several
	aplans       map[string]*Plan    // auth plans keyed by aname
	conns        map[*go9p.Conn]int
	nconn        int
	nextTok      int64
	pending      map[planKey]*go9p.SrvReq
	destroys     map[*go9p.SrvFid]int
	flushModes   map[planKey]string
	active       map[*go9p.SrvReq]bool     // requests currently inside a callback
	byKey        map[planKey]*go9p.SrvReq  // the last request seen for (conn, tag)
	flushGates   map[planKey]chan struct{} // Flush(conn, tag) blocks until the channel is closed
	closedGates  map[int]chan struct{}     // ConnClosed(conn id) blocks until the channel is closed
	pendingAns   map[planKey]func()        // deferred answers of NoAnswer requests
	defPlans     map[int]*Plan             // one-shot catch-all plan per connection
	cbGates      map[string]chan struct{}  // one-shot gates of the other callbacks, by name
	destroyGates map[int64]chan struct{}   // FidDestroy of the fid object with that token blocks until the channel is closed
	Dotu         bool
}

// NewPlan returns the default plan: answer success at once.
func NewPlan() *Plan { return &Plan{WalkN: -1, ReadN: -1} }

// SetDestroyGate makes FidDestroy of the fid object tok block until gate is closed (a slow FidDestroy, e.g. closing a
// file on a slow file system).
func (o *Ops) SetDestroyGate(tok int64, gate chan struct{}) {
	o.mu.Lock()
	if o.destroyGates == nil {
		o.destroyGates = map[int64]chan struct{}{}
	}
	o.destroyGates[tok] = gate
	o.mu.Unlock()
}

// SetCallbackGate makes the next call of the named callback (AuthInit, AuthCheck, AuthRead, AuthWrite, AuthDestroy,
// ConnOpened, SrvReqProcess, SrvReqRespond) block until gate is closed; the call logs a "blocked" event first.
func (o *Ops) SetCallbackGate(name string, gate chan struct{}) {
	o.mu.Lock()
	if o.cbGates == nil {
		o.cbGates = map[string]chan struct{}{}
	}
	o.cbGates[name] = gate
	o.mu.Unlock()
}

func (o *Ops) cbGate(name string, conn int, tag uint16) {
	o.mu.Lock()
	g := o.cbGates[name]
	delete(o.cbGates, name)
	o.mu.Unlock()
	if g != nil {
		o.Log.Add(Event{Kind: "blocked", Conn: conn, Tag: tag, Op: name})
		<-g
	}
}

// SetFlushGate makes the Flush callback for (conn, tag) block until gate is closed (a slow FlushOp).
func (o *Ops) SetFlushGate(conn int, tag uint16, gate chan struct{}) {
	o.mu.Lock()
	o.flushGates[planKey{conn, tag}] = gate
	o.mu.Unlock()
}

// SetFlushMode says what the Flush callback does when asked to flush (conn, tag):
// "cancel" calls req.Flush(), anything else only logs.
func (o *Ops) SetFlushMode(conn int, tag uint16, mode string) {
	o.mu.Lock()
	o.flushModes[planKey{conn, tag}] = mode
	o.mu.Unlock()
}

func New(log *Log) *Ops {
	return &Ops{Log: log, plans: map[planKey][]*Plan{}, aplans: map[string]*Plan{}, conns: map[*go9p.Conn]int{},
		pending: map[planKey]*go9p.SrvReq{}, destroys: map[*go9p.SrvFid]int{}, flushModes: map[planKey]string{}, active: map[*go9p.SrvReq]bool{}, byKey: map[planKey]*go9p.SrvReq{}, flushGates: map[planKey]chan struct{}{}}
}

// SetPlan registers the plan for the next request (conn, tag).
func (o *Ops) SetPlan(conn int, tag uint16, p *Plan) {
	o.mu.Lock()
	k := planKey{conn, tag}
	o.plans[k] = append(o.plans[k], p)
	o.mu.Unlock()
}

// SetDefaultPlan sets (p != nil) or clears the plan the next request of the connection gets when nothing was
// planned for its tag (for requests whose tag the harness cannot know in advance); it is used once.
func (o *Ops) SetDefaultPlan(conn int, p *Plan) {
	o.mu.Lock()
	if o.defPlans == nil {
		o.defPlans = map[int]*Plan{}
	}
	if p == nil {
		delete(o.defPlans, conn)
	} else {
		o.defPlans[conn] = p
	}
	o.mu.Unlock()
}

// AnswerPending gives the answer of a request whose callback returned without answering (plan NoAnswer), now, on the
// caller's goroutine: an implementation that completes requests later, from a goroutine of its own.
func (o *Ops) AnswerPending(conn int, tag uint16) bool {
	o.mu.Lock()
	f := o.pendingAns[planKey{conn, tag}]
	delete(o.pendingAns, planKey{conn, tag})
	delete(o.pending, planKey{conn, tag})
	o.mu.Unlock()
	if f == nil {
		return false
	}
	f()
	return true
}

// SetAuthPlan registers the plan used by AuthInit/AuthCheck for this aname.
func (o *Ops) SetAuthPlan(aname string, p *Plan) {
	o.mu.Lock()
	o.aplans[aname] = p
	o.mu.Unlock()
}

func (o *Ops) takePlan(conn int, tag uint16) *Plan {
	o.mu.Lock()
	defer o.mu.Unlock()
	k := planKey{conn, tag}
	q := o.plans[k]
	if len(q) == 0 {
		if d := o.defPlans[conn]; d != nil {
			delete(o.defPlans, conn) // one-shot
			return d
		}
		return &Plan{WalkN: -1, ReadN: -1}
	}
	p := q[0]
	if len(q) == 1 {
		delete(o.plans, k)
	} else {
		o.plans[k] = q[1:]
	}
	return p
}

func (o *Ops) authPlan(aname string) *Plan {
	o.mu.Lock()
	defer o.mu.Unlock()
	if p, ok := o.aplans[aname]; ok {
		return p
	}
	return &Plan{}
}

// ConnID returns the id given to a connection (order of ConnOpened).
func (o *Ops) ConnID(c *go9p.Conn) int {
	o.mu.Lock()
	defer o.mu.Unlock()
	id, ok := o.conns[c]
	if !ok {
		o.nconn++
		id = o.nconn
		o.conns[c] = id
	}
	return id
}

// KnownConn returns the id of a connection this session already numbered (0 = not one of ours).
func (o *Ops) KnownConn(c *go9p.Conn) int {
	o.mu.Lock()
	defer o.mu.Unlock()
	return o.conns[c]
}

// NConn returns how many connections were seen.
func (o *Ops) NConn() int {
	o.mu.Lock()
	defer o.mu.Unlock()
	return o.nconn
}

// ConnByID returns the go9p connection object with that id.
func (o *Ops) ConnByID(id int) *go9p.Conn {
	o.mu.Lock()
	defer o.mu.Unlock()
	for c, i := range o.conns {
		if i == id {
			return c
		}
	}
	return nil
}

func (o *Ops) tok(f *go9p.SrvFid) int64 {
	if f == nil {
		return 0
	}
	o.mu.Lock()
	defer o.mu.Unlock()
	if t, ok := f.Aux.(*FidTok); ok && t != nil {
		return t.ID
	}
	o.nextTok++
	f.Aux = &FidTok{ID: o.nextTok}
	return o.nextTok
}

// ftype tolerates the nil fid a broken framework may hand to the implementation.
func ftype(f *go9p.SrvFid) uint8 {
	if f == nil {
		return 0
	}
	return f.Type
}

func uid(f *go9p.SrvFid) int {
	if f == nil || f.User == nil {
		return -1
	}
	return f.User.Id()
}

func hash(b []byte) string {
	h := fnv.New64a()
	h.Write(b)
	return fmt.Sprintf("%d:%016x", len(b), h.Sum64())
}

// HashBytes is the payload digest used in Args (exported for the oracles).
func HashBytes(b []byte) string { return hash(b) }

// Pattern is the deterministic content of an Rread: a function of the request only.
func Pattern(tag uint16, fidTok int64, offset uint64, n int) []byte {
	b := make([]byte, n)
	x := uint64(tag)*0x9E3779B97F4A7C15 ^ uint64(fidTok)*0xC2B2AE3D27D4EB4F ^ offset*0x165667B19E3779F9
	for i := range b {
		x ^= x << 13
		x ^= x >> 7
		x ^= x << 17
		b[i] = byte(x >> 24)
	}
	return b
}

// QidFor is the deterministic qid the implementation returns for a fid token.
func QidFor(tok int64, typ uint8) go9p.Qid {
	return go9p.Qid{Type: typ, Version: uint32(tok * 7), Path: uint64(tok)*1000003 + 17}
}

// WalkQidType is the default type of the qid for a walked name: names that start with 'd' are directories.
func WalkQidType(name string) uint8 {
	if len(name) > 0 && name[0] == 'd' {
		return go9p.QTDIR
	}
	return 0
}

// WalkQid is the deterministic qid for element i of a walk.
func WalkQid(name string, i int, typ uint8) go9p.Qid {
	h := fnv.New64a()
	h.Write([]byte(name))
	return go9p.Qid{Type: typ, Version: uint32(i + 1), Path: h.Sum64()}
}

// StatName is the name the implementation reports in Rstat: it reveals the
// identity of the fid object and the user it is bound to.
func StatName(tok int64, uid int) string { return fmt.Sprintf("tok%d-u%d", tok, uid) }

func (o *Ops) enter(req *go9p.SrvReq, op, args string) (int, *Plan, int64) {
	conn := o.ConnID(req.Conn)
	tag := req.Tc.Tag
	p := o.takePlan(conn, tag)
	ft := o.tok(req.Fid)
	var nt, at int64
	if req.Newfid != nil {
		nt = o.tok(req.Newfid)
	}
	if req.Afid != nil {
		at = o.tok(req.Afid)
	}
	o.Log.Add(Event{Kind: "op", Conn: conn, Tag: tag, Op: op, Fid: ft, Newfid: nt, Afid: at, User: uid(req.Fid), Args: args})
	o.mu.Lock()
	o.active[req] = true
	o.byKey[planKey{conn, tag}] = req
	o.mu.Unlock()
	if p.Entered != nil {
		close(p.Entered)
	}
	if p.Gate != nil {
		<-p.Gate
	}
	return conn, p, ft
}

func (o *Ops) finish(req *go9p.SrvReq, conn int, p *Plan, op string, answer func()) {
	tag := req.Tc.Tag
	o.mu.Lock()
	delete(o.active, req)
	o.mu.Unlock()
	if p.NoAnswer {
		o.mu.Lock()
		o.pending[planKey{conn, tag}] = req
		if o.pendingAns == nil {
			o.pendingAns = map[planKey]func(){}
		}
		o.pendingAns[planKey{conn, tag}] = func() {
			o.Log.Add(Event{Kind: "answer", Conn: conn, Tag: tag, Op: op, Info: "deferred"})
			if p.Err != "" {
				req.RespondError(&go9p.Error{Err: p.Err, Errornum: p.Errnum})
			} else {
				answer()
			}
			if p.Twice {
				req.Respond()
			}
			o.Log.Add(Event{Kind: "answered", Conn: conn, Tag: tag, Op: op})
		}
		o.mu.Unlock()
		o.Log.Add(Event{Kind: "exit", Conn: conn, Tag: tag, Op: op, Info: "noanswer"})
		return
	}
	o.Log.Add(Event{Kind: "answer", Conn: conn, Tag: tag, Op: op})
	if p.Err != "" {
		req.RespondError(&go9p.Error{Err: p.Err, Errornum: p.Errnum})
	} else {
		answer()
	}
	if p.Twice {
		req.Respond()
	}
	if p.TwiceFull {
		if p.Err != "" {
			req.RespondError(&go9p.Error{Err: p.Err, Errornum: p.Errnum})
		} else {
			answer()
		}
	}
	if p.ThenError != "" {
		req.RespondError(&go9p.Error{Err: p.ThenError, Errornum: 99})
	}
	o.Log.Add(Event{Kind: "exit", Conn: conn, Tag: tag, Op: op})
}

// Request returns the request object the implementation was last handed for (conn, tag): an implementation
// may answer a request from any of its goroutines.
func (o *Ops) Request(conn int, tag uint16) *go9p.SrvReq {
	o.mu.Lock()
	defer o.mu.Unlock()
	return o.byKey[planKey{conn, tag}]
}

// Pending returns (and forgets) a request that was left unanswered by plan NoAnswer.
func (o *Ops) Pending(conn int, tag uint16) *go9p.SrvReq {
	o.mu.Lock()
	defer o.mu.Unlock()
	k := planKey{conn, tag}
	r := o.pending[k]
	delete(o.pending, k)
	return r
}

func (o *Ops) Attach(req *go9p.SrvReq) {
	tc := req.Tc
	conn, p, ft := o.enter(req, "Attach", fmt.Sprintf("aname=%q uname=%q", tc.Aname, tc.Uname))
	o.finish(req, conn, p, "Attach", func() {
		typ := p.QidType
		if typ == 0 && !p.fileRoot() {
			typ = go9p.QTDIR
		}
		q := QidFor(ft, typ)
		req.RespondRattach(&q)
	})
}

// fileRoot: QidType 0 normally means "default to directory"; plans that want a
// plain-file root set Text to "fileroot".
func (p *Plan) fileRoot() bool { return p.Text == "fileroot" }

// WalkAnswer computes the qids the implementation returns for names under plan p
// (nil, false = Rerror "file not found").
func WalkAnswer(names []string, p *Plan) ([]go9p.Qid, bool) {
	n := len(names)
	if p.WalkN >= 0 && p.WalkN < n {
		n = p.WalkN
	}
	if n == 0 && len(names) > 0 {
		return nil, false
	}
	qs := make([]go9p.Qid, n)
	for i := 0; i < n; i++ {
		t := WalkQidType(names[i])
		if i < len(p.QidTypes) {
			t = p.QidTypes[i]
		}
		qs[i] = WalkQid(names[i], i, t)
	}
	return qs, true
}

func (o *Ops) Walk(req *go9p.SrvReq) {
	tc := req.Tc
	conn, p, _ := o.enter(req, "Walk", fmt.Sprintf("names=%q", tc.Wname))
	o.finish(req, conn, p, "Walk", func() {
		qs, ok := WalkAnswer(tc.Wname, p)
		if !ok {
			req.RespondError(&go9p.Error{Err: "file not found", Errornum: go9p.ENOENT})
			return
		}
		req.RespondRwalk(qs)
	})
}

func (o *Ops) Open(req *go9p.SrvReq) {
	conn, p, ft := o.enter(req, "Open", fmt.Sprintf("mode=%d", req.Tc.Mode))
	typ := ftype(req.Fid) // (the framework forgets the request's fid once it is answered: a second answer uses the same values)
	o.finish(req, conn, p, "Open", func() {
		q := QidFor(ft, typ)
		req.RespondRopen(&q, 0)
	})
}

func (o *Ops) Create(req *go9p.SrvReq) {
	tc := req.Tc
	conn, p, ft := o.enter(req, "Create", fmt.Sprintf("name=%q perm=%#x mode=%d ext=%q", tc.Name, tc.Perm, tc.Mode, tc.Ext))
	o.finish(req, conn, p, "Create", func() {
		typ := p.QidType
		if tc.Perm&go9p.DMDIR != 0 {
			typ |= go9p.QTDIR
		}
		q := QidFor(ft+1000000, typ)
		req.RespondRcreate(&q, 0)
	})
}

func (o *Ops) Read(req *go9p.SrvReq) {
	tc := req.Tc
	conn, p, ft := o.enter(req, "Read", fmt.Sprintf("offset=%d count=%d", tc.Offset, tc.Count))
	o.finish(req, conn, p, "Read", func() {
		n := int(tc.Count)
		if p.ReadN >= 0 && p.ReadN < n {
			n = p.ReadN
		}
		if n > 16<<20 {
			// a count no msize allows: the framework should never have forwarded it (the oracle
			// reports that); do not allocate gigabytes in the monitor
			req.RespondError(&go9p.Error{Err: "script: absurd read count", Errornum: go9p.EINVAL})
			return
		}
		data := Pattern(tc.Tag, ft, tc.Offset, n)
		if tc.Offset%2 == 1 && !p.Twice && !p.TwiceFull && p.ThenError == "" {
			// the other way the library documents for answering a read: have the reply set up, fill its data in place,
			// say how much there is, respond (reads at odd offsets are answered like this, as long as the plan gives
			// one answer only: after Respond the buffer is no longer the implementation's to write into)
			if err := go9p.InitRread(req.Rc, uint32(len(data))); err != nil {
				req.RespondError(err)
				return
			}
			copy(req.Rc.Data, data)
			go9p.SetRreadCount(req.Rc, uint32(len(data)))
			req.Respond()
			return
		}
		req.RespondRread(data)
	})
}

func (o *Ops) Write(req *go9p.SrvReq) {
	tc := req.Tc
	conn, p, _ := o.enter(req, "Write", fmt.Sprintf("offset=%d count=%d data=%s", tc.Offset, tc.Count, hash(tc.Data)))
	o.finish(req, conn, p, "Write", func() {
		// the payload as it is when the implementation is done with it (it aliases the server's receive buffer)
		o.Log.Add(Event{Kind: "latehash", Conn: conn, Tag: tc.Tag, Op: "Write", Args: hash(tc.Data)})
		req.RespondRwrite(uint32(len(tc.Data)))
	})
}

func (o *Ops) Clunk(req *go9p.SrvReq) {
	conn, p, _ := o.enter(req, "Clunk", "")
	o.finish(req, conn, p, "Clunk", func() { req.RespondRclunk() })
}

func (o *Ops) Remove(req *go9p.SrvReq) {
	conn, p, _ := o.enter(req, "Remove", "")
	o.finish(req, conn, p, "Remove", func() { req.RespondRremove() })
}

// StatDir is the deterministic Rstat content for a fid token / user.
func StatDir(tok int64, uid int, typ uint8, text string) *go9p.Dir {
	d := &go9p.Dir{}
	d.Name = StatName(tok, uid)
	if text != "" {
		d.Name = text
	}
	d.Qid = QidFor(tok, typ)
	d.Mode = 0o644
	if typ&go9p.QTDIR != 0 {
		d.Mode |= go9p.DMDIR
	}
	d.Length = uint64(tok) * 3
	d.Uid, d.Gid, d.Muid = "u", "g", "m"
	d.Uidnum, d.Gidnum, d.Muidnum = uint32(uid), 7, 9
	d.Atime, d.Mtime = 11, 13
	return d
}

func (o *Ops) Stat(req *go9p.SrvReq) {
	conn, p, ft := o.enter(req, "Stat", "")
	u, typ := uid(req.Fid), ftype(req.Fid)
	o.finish(req, conn, p, "Stat", func() {
		req.RespondRstat(StatDir(ft, u, typ, p.Text))
	})
}

func dirDigest(d *go9p.Dir, dotu bool) string {
	s := fmt.Sprintf("type=%d dev=%d qid=%d/%d/%d mode=%#x atime=%d mtime=%d length=%d name=%q uid=%q gid=%q muid=%q",
		d.Type, d.Dev, d.Qid.Type, d.Qid.Version, d.Qid.Path, d.Mode, d.Atime, d.Mtime, d.Length, d.Name, d.Uid, d.Gid, d.Muid)
	if dotu {
		s += fmt.Sprintf(" ext=%q n=%d/%d/%d", d.Ext, d.Uidnum, d.Gidnum, d.Muidnum)
	}
	return s
}

// WstatDigest renders stat fields the way the Wstat callback logs them.
func WstatDigest(d *go9p.Dir, dotu bool) string { return dirDigest(d, dotu) }

func (o *Ops) Wstat(req *go9p.SrvReq) {
	conn, p, _ := o.enter(req, "Wstat", dirDigest(&req.Tc.Dir, req.Conn.Dotu))
	o.finish(req, conn, p, "Wstat", func() { req.RespondRwstat() })
}

func (o *Ops) ConnOpened(c *go9p.Conn) {
	id := o.ConnID(c)
	o.Log.Add(Event{Kind: "connopen", Conn: id})
	o.cbGate("ConnOpened", id, 0)
}

func (o *Ops) ConnClosed(c *go9p.Conn) {
	id := o.ConnID(c)
	o.Log.Add(Event{Kind: "connclosed", Conn: id})
	o.mu.Lock()
	gate := o.closedGates[id]
	o.mu.Unlock()
	if gate != nil {
		<-gate
	}
}

// SetConnClosedGate makes the ConnClosed callback for connection id block until gate is closed.
func (o *Ops) SetConnClosedGate(id int, gate chan struct{}) {
	o.mu.Lock()
	if o.closedGates == nil {
		o.closedGates = map[int]chan struct{}{}
	}
	o.closedGates[id] = gate
	o.mu.Unlock()
}

func (o *Ops) FidDestroy(f *go9p.SrvFid) {
	var id int64
	if t, ok := f.Aux.(*FidTok); ok && t != nil {
		id = t.ID
		atomic.AddInt32(&t.Destroyed, 1)
	}
	conn := 0
	if f.Fconn != nil {
		conn = o.ConnID(f.Fconn)
	}
	o.mu.Lock()
	o.destroys[f]++
	n := o.destroys[f]
	gate := o.destroyGates[id]
	o.mu.Unlock()
	o.Log.Add(Event{Kind: "destroy", Conn: conn, Fid: id, Info: fmt.Sprintf("n=%d", n)})
	if gate != nil {
		<-gate
	}
}

// DoubleDestroys returns how many fid objects were reported destroyed more than once.
func (o *Ops) DoubleDestroys() int {
	o.mu.Lock()
	defer o.mu.Unlock()
	n := 0
	for _, c := range o.destroys {
		if c > 1 {
			n++
		}
	}
	return n
}

// ---- optional interfaces, selected by wrapping

// WithFlush adds FlushOp.
type WithFlush struct{ *Ops }

func (o WithFlush) Flush(req *go9p.SrvReq) { o.Ops.flush(req) }

// flushPlans: what to do when Flush is called for (conn, tag).
func (o *Ops) flush(req *go9p.SrvReq) {
	conn := o.ConnID(req.Conn)
	tag := req.Tc.Tag
	o.mu.Lock()
	mode := o.flushModes[planKey{conn, tag}]
	if mode == "cancel" && !o.active[req] {
		// an implementation can only cancel (and vouch for having cancelled) a request it is working on;
		// one that has not reached it yet, or has already left it, is none of its business
		mode = "cancel-not-mine"
	}
	gate := o.flushGates[planKey{conn, tag}]
	o.mu.Unlock()
	o.Log.Add(Event{Kind: "flushcb", Conn: conn, Tag: tag, Op: "Flush", Info: mode})
	if gate != nil {
		<-gate
	}
	if mode == "cancel" {
		req.Flush()
	}
}

// WithAuth adds AuthOps.
type WithAuth struct{ *Ops }

func (o WithAuth) AuthInit(afid *go9p.SrvFid, aname string) (*go9p.Qid, error) {
	return o.Ops.authInit(afid, aname)
}
func (o WithAuth) AuthDestroy(afid *go9p.SrvFid) { o.Ops.authDestroy(afid) }
func (o WithAuth) AuthCheck(fid, afid *go9p.SrvFid, aname string) error {
	return o.Ops.authCheck(fid, afid, aname)
}
func (o WithAuth) AuthRead(afid *go9p.SrvFid, offset uint64, data []byte) (int, error) {
	return o.Ops.authRead(afid, offset, data)
}
func (o WithAuth) AuthWrite(afid *go9p.SrvFid, offset uint64, data []byte) (int, error) {
	return o.Ops.authWrite(afid, offset, data)
}

// WithAuthFlush adds both.
type WithAuthFlush struct{ *Ops }

func (o WithAuthFlush) Flush(req *go9p.SrvReq) { o.Ops.flush(req) }
func (o WithAuthFlush) AuthInit(afid *go9p.SrvFid, aname string) (*go9p.Qid, error) {
	return o.Ops.authInit(afid, aname)
}
func (o WithAuthFlush) AuthDestroy(afid *go9p.SrvFid) { o.Ops.authDestroy(afid) }
func (o WithAuthFlush) AuthCheck(fid, afid *go9p.SrvFid, aname string) error {
	return o.Ops.authCheck(fid, afid, aname)
}
func (o WithAuthFlush) AuthRead(afid *go9p.SrvFid, offset uint64, data []byte) (int, error) {
	return o.Ops.authRead(afid, offset, data)
}
func (o WithAuthFlush) AuthWrite(afid *go9p.SrvFid, offset uint64, data []byte) (int, error) {
	return o.Ops.authWrite(afid, offset, data)
}

func connOf(o *Ops, f *go9p.SrvFid) int {
	if f != nil && f.Fconn != nil {
		return o.ConnID(f.Fconn)
	}
	return 0
}

func (o *Ops) authInit(afid *go9p.SrvFid, aname string) (*go9p.Qid, error) {
	p := o.authPlan(aname)
	t := o.tok(afid)
	o.Log.Add(Event{Kind: "op", Conn: connOf(o, afid), Op: "AuthInit", Afid: t, User: uid(afid), Args: fmt.Sprintf("aname=%q", aname)})
	if p.Entered != nil {
		close(p.Entered)
	}
	if p.Gate != nil {
		<-p.Gate
	}
	o.cbGate("AuthInit", connOf(o, afid), 0)
	if p.Err != "" {
		return nil, &go9p.Error{Err: p.Err, Errornum: p.Errnum}
	}
	q := QidFor(t, go9p.QTAUTH)
	return &q, nil
}

func (o *Ops) authDestroy(afid *go9p.SrvFid) {
	o.Log.Add(Event{Kind: "op", Conn: connOf(o, afid), Op: "AuthDestroy", Afid: o.tok(afid), User: uid(afid)})
	o.cbGate("AuthDestroy", connOf(o, afid), 0)
}

func (o *Ops) authCheck(fid, afid *go9p.SrvFid, aname string) error {
	p := o.authPlan(aname)
	var at int64
	if afid != nil {
		at = o.tok(afid)
	}
	o.Log.Add(Event{Kind: "op", Conn: connOf(o, fid), Op: "AuthCheck", Fid: o.tok(fid), Afid: at, User: uid(fid), Args: fmt.Sprintf("aname=%q", aname), Info: p.AuthReject})
	o.cbGate("AuthCheck", connOf(o, fid), 0)
	if p.AuthReject != "" {
		return &go9p.Error{Err: p.AuthReject, Errornum: go9p.EPERM}
	}
	return nil
}

func (o *Ops) authRead(afid *go9p.SrvFid, offset uint64, data []byte) (int, error) {
	t := o.tok(afid)
	o.Log.Add(Event{Kind: "op", Conn: connOf(o, afid), Op: "AuthRead", Afid: t, User: uid(afid), Args: fmt.Sprintf("offset=%d count=%d", offset, len(data))})
	o.cbGate("AuthRead", connOf(o, afid), 0)
	copy(data, Pattern(0xA07, t, offset, len(data)))
	return len(data), nil
}

func (o *Ops) authWrite(afid *go9p.SrvFid, offset uint64, data []byte) (int, error) {
	t := o.tok(afid)
	o.Log.Add(Event{Kind: "op", Conn: connOf(o, afid), Op: "AuthWrite", Afid: t, User: uid(afid), Args: fmt.Sprintf("offset=%d count=%d data=%s", offset, len(data), hash(data))})
	o.cbGate("AuthWrite", connOf(o, afid), 0)
	return len(data), nil
}

// ---- SrvReqProcessOps: an implementation that takes over request processing and, as documented, calls
// req.Process() from SrvReqProcess and req.PostProcess() from SrvReqRespond.

func (o *Ops) srvReqProcess(req *go9p.SrvReq) {
	o.Log.Add(Event{Kind: "procop", Conn: o.ConnID(req.Conn), Tag: req.Tc.Tag, Op: "SrvReqProcess"})
	o.cbGate("SrvReqProcess", o.ConnID(req.Conn), req.Tc.Tag)
	req.Process()
}

func (o *Ops) srvReqRespond(req *go9p.SrvReq) {
	o.Log.Add(Event{Kind: "procop", Conn: o.ConnID(req.Conn), Tag: req.Tc.Tag, Op: "SrvReqRespond"})
	o.cbGate("SrvReqRespond", o.ConnID(req.Conn), req.Tc.Tag)
	req.PostProcess()
}

type WithProc struct{ *Ops }

func (o WithProc) SrvReqProcess(r *go9p.SrvReq) { o.Ops.srvReqProcess(r) }
func (o WithProc) SrvReqRespond(r *go9p.SrvReq) { o.Ops.srvReqRespond(r) }

type WithProcFlush struct{ WithFlush }

func (o WithProcFlush) SrvReqProcess(r *go9p.SrvReq) { o.Ops.srvReqProcess(r) }
func (o WithProcFlush) SrvReqRespond(r *go9p.SrvReq) { o.Ops.srvReqRespond(r) }

type WithProcAuth struct{ WithAuth }

func (o WithProcAuth) SrvReqProcess(r *go9p.SrvReq) { o.Ops.srvReqProcess(r) }
func (o WithProcAuth) SrvReqRespond(r *go9p.SrvReq) { o.Ops.srvReqRespond(r) }

type WithProcAuthFlush struct{ WithAuthFlush }

func (o WithProcAuthFlush) SrvReqProcess(r *go9p.SrvReq) { o.Ops.srvReqProcess(r) }
func (o WithProcAuthFlush) SrvReqRespond(r *go9p.SrvReq) { o.Ops.srvReqRespond(r) }

// ---- implementations that provide only some of the optional interfaces (Go embedding would promote all of *Ops)

// reqOnly has the mandatory request operations and nothing else.
type reqOnly struct{ o *Ops }

func (w reqOnly) Attach(r *go9p.SrvReq) { w.o.Attach(r) }
func (w reqOnly) Walk(r *go9p.SrvReq)   { w.o.Walk(r) }
func (w reqOnly) Open(r *go9p.SrvReq)   { w.o.Open(r) }
func (w reqOnly) Create(r *go9p.SrvReq) { w.o.Create(r) }
func (w reqOnly) Read(r *go9p.SrvReq)   { w.o.Read(r) }
func (w reqOnly) Write(r *go9p.SrvReq)  { w.o.Write(r) }
func (w reqOnly) Clunk(r *go9p.SrvReq)  { w.o.Clunk(r) }
func (w reqOnly) Remove(r *go9p.SrvReq) { w.o.Remove(r) }
func (w reqOnly) Stat(r *go9p.SrvReq)   { w.o.Stat(r) }
func (w reqOnly) Wstat(r *go9p.SrvReq)  { w.o.Wstat(r) }

// ReqOnly: SrvReqOps only.
func ReqOnly(o *Ops) interface{} { return reqOnly{o} }

type connOnly struct{ reqOnly }

func (w connOnly) ConnOpened(c *go9p.Conn) { w.o.ConnOpened(c) }
func (w connOnly) ConnClosed(c *go9p.Conn) { w.o.ConnClosed(c) }

// ConnOnly: SrvReqOps + ConnOps, no SrvFidOps (the implementation is never told about fids going away).
func ConnOnly(o *Ops) interface{} { return connOnly{reqOnly{o}} }

type fidOnly struct{ reqOnly }

func (w fidOnly) FidDestroy(f *go9p.SrvFid) { w.o.FidDestroy(f) }

// FidOnly: SrvReqOps + SrvFidOps, no ConnOps.
func FidOnly(o *Ops) interface{} { return fidOnly{reqOnly{o}} }
