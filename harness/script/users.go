package script

import "github.com/rminnich/go9p"

// Users is the user pool handed to the server: three users known by number and by name.
type Users struct{}

type user struct {
	name string
	id   int
}

func (u *user) Name() string               { return u.name }
func (u *user) Id() int                    { return u.id }
func (u *user) Groups() []go9p.Group       { return nil }
func (u *user) IsMember(g go9p.Group) bool { return false }

var known = []*user{{"root", 0}, {"alice", 1001}, {"bob", 1002}}

func (Users) Uid2User(uid int) go9p.User {
	for _, u := range known {
		if u.id == uid {
			return u
		}
	}
	return nil
}

func (Users) Uname2User(name string) go9p.User {
	for _, u := range known {
		if u.name == name {
			return u
		}
	}
	return nil
}

func (Users) Gid2Group(gid int) go9p.Group       { return nil }
func (Users) Gname2Group(name string) go9p.Group { return nil }
