// Package sched is the schedule-point controller behind go9p's verif hook.
// The library calls the hook at named points, always outside its own
// critical sections. The controller records the points into the session's
// event log, lets a scenario park the goroutine that reaches a given point
// (directed holds) until the scenario releases it or a budget expires, and in
// random mode perturbs the schedule with seeded delays.
//
// The hook is process-global: one scenario at a time per worker process.
package sched

import (
	"runtime"
	"sync"
	"sync/atomic"
	"time"

	"github.com/rminnich/go9p"

	"verif/script"
)

// AnyTag matches every tag in a hold or a wait.
const AnyTag = -1

// Who identifies where a point was passed.
type Who struct {
	Point string
	Conn  int // 0 = unknown / client side
	Tag   int // -1 = the object carries no tag
	Gtag  int // tag of the request whose worker goroutine is running (-1 unknown)
}

type Hold struct {
	c         *Ctl
	point     string
	conn      int
	tag       int
	gtag      int // AnyTag = do not care which goroutine
	reached   chan struct{}
	release   chan struct{}
	budget    time.Duration
	once      bool
	used      int32
	Expired   int32 // set when the budget ran out before Release
	relOnce   sync.Once
	reachOnce sync.Once
}

// Reached is closed when a goroutine is parked at the hold.
func (h *Hold) Reached() <-chan struct{} { return h.reached }

// Release lets the parked goroutine (or the one that will arrive) continue.
func (h *Hold) Release() { h.relOnce.Do(func() { close(h.release) }) }

// WaitReached waits until a goroutine is parked (false = nobody came in time).
func (h *Hold) WaitReached(d time.Duration) bool {
	select {
	case <-h.reached:
		return true
	case <-time.After(d):
		return false
	}
}

type passKey struct {
	point string
	conn  int
	tag   int
	g     int // tag of the request whose worker goroutine passed the point (AnyTag = any)
}

// Ctl is the controller of one scenario.
type Ctl struct {
	mu      sync.Mutex
	cond    *sync.Cond
	Log     *script.Log
	ConnID  func(*go9p.Conn) int
	holds   []*Hold
	passed  map[passKey]int
	gtags   map[uint64]int // goroutine id -> tag of the request it processes
	Trace   bool
	UseGID  bool
	order   []string // sequence of (point,tag) for the interleaving id
	npoints int
	random  *randomCfg
	clients map[*go9p.Clnt]int
}

type randomCfg struct {
	seed  uint64
	prob  uint32 // out of 1000
	maxUs int
	ctr   uint64
}

var cur atomic.Pointer[Ctl]

func init() {
	go9p.VerifSetHook(func(point string, obj interface{}) {
		if c := cur.Load(); c != nil {
			c.point(point, obj)
		}
	})
}

// Install makes c the active controller (nil deactivates).
func Install(c *Ctl) { cur.Store(c) }

func New(log *script.Log, connID func(*go9p.Conn) int) *Ctl {
	c := &Ctl{Log: log, ConnID: connID, passed: map[passKey]int{}, gtags: map[uint64]int{}, Trace: true, UseGID: false}
	c.cond = sync.NewCond(&c.mu)
	return c
}

// Random turns on seeded random delays: with probability prob/1000 a point sleeps up to maxUs microseconds.
func (c *Ctl) Random(seed uint64, prob uint32, maxUs int) {
	c.mu.Lock()
	c.random = &randomCfg{seed: seed | 1, prob: prob, maxUs: maxUs}
	c.mu.Unlock()
}

func gid() uint64 {
	var buf [64]byte
	n := runtime.Stack(buf[:], false)
	// "goroutine 123 ["
	var id uint64
	for i := len("goroutine "); i < n; i++ {
		ch := buf[i]
		if ch < '0' || ch > '9' {
			break
		}
		id = id*10 + uint64(ch-'0')
	}
	return id
}

func (c *Ctl) point(point string, obj interface{}) {
	w := Who{Point: point, Tag: -1, Gtag: -1}
	switch o := obj.(type) {
	case *go9p.SrvReq:
		w.Tag = int(o.VerifTag())
		if o.Conn != nil && c.ConnID != nil {
			if w.Conn = c.ConnID(o.Conn); w.Conn == 0 {
				return // a goroutine left over from an earlier session
			}
		}
	case *go9p.Conn:
		if c.ConnID != nil {
			if w.Conn = c.ConnID(o); w.Conn == 0 {
				return
			}
		}
	case *go9p.Req:
		w.Tag = int(o.VerifTag())
	case *go9p.Clnt:
	}
	var g uint64
	if c.UseGID {
		g = gid()
	}
	c.mu.Lock()
	if c.UseGID {
		if point == "process.start" {
			c.gtags[g] = w.Tag
		}
		if t, ok := c.gtags[g]; ok {
			w.Gtag = t
		}
		if point == "process.done" {
			delete(c.gtags, g)
		}
	}
	var parked *Hold
	for _, h := range c.holds {
		if h.point != point || (h.conn != 0 && w.Conn != 0 && h.conn != w.Conn) {
			continue
		}
		if h.tag != AnyTag && h.tag != w.Tag {
			continue
		}
		if h.gtag != AnyTag && h.gtag != w.Gtag {
			continue
		}
		if h.once && !atomic.CompareAndSwapInt32(&h.used, 0, 1) {
			continue
		}
		parked = h
		break
	}
	rc := c.random
	var delay time.Duration
	if rc != nil && parked == nil {
		rc.ctr++
		x := rc.seed + rc.ctr*0x9E3779B97F4A7C15
		x ^= x >> 31
		x *= 0xBF58476D1CE4E5B9
		x ^= x >> 29
		if uint32(x%1000) < rc.prob {
			delay = time.Duration((x>>20)%uint64(rc.maxUs+1)) * time.Microsecond
		}
	}
	c.mu.Unlock()

	if parked != nil {
		if c.Trace && c.Log != nil {
			c.Log.Add(script.Event{Kind: "hold", Op: point, Conn: w.Conn, Tag: uint16(w.Tag), Info: gtagInfo(w)})
		}
		parked.reachOnce.Do(func() { close(parked.reached) })
		select {
		case <-parked.release:
		case <-time.After(parked.budget):
			atomic.StoreInt32(&parked.Expired, 1)
			if c.Trace && c.Log != nil {
				c.Log.Add(script.Event{Kind: "expired", Op: point, Conn: w.Conn, Tag: uint16(w.Tag)})
			}
		}
	} else if delay > 0 {
		if delay < 5*time.Microsecond {
			runtime.Gosched()
		} else {
			time.Sleep(delay)
		}
	}

	// the point counts as passed when the goroutine leaves it
	if c.Trace && c.Log != nil {
		c.Log.Add(script.Event{Kind: "pt", Op: point, Conn: w.Conn, Tag: uint16(w.Tag), Info: gtagInfo(w)})
	}
	c.mu.Lock()
	c.passed[passKey{point, w.Conn, w.Tag, AnyTag}]++
	c.passed[passKey{point, 0, w.Tag, AnyTag}]++
	c.passed[passKey{point, w.Conn, AnyTag, AnyTag}]++
	c.passed[passKey{point, 0, AnyTag, AnyTag}]++
	if w.Gtag >= 0 {
		c.passed[passKey{point, w.Conn, w.Tag, w.Gtag}]++
	}
	c.npoints++
	if len(c.order) < 8192 {
		c.order = append(c.order, point+"/"+itoa(w.Tag))
	}
	c.cond.Broadcast()
	c.mu.Unlock()
}

func gtagInfo(w Who) string {
	if w.Gtag >= 0 {
		return "g" + itoa(w.Gtag)
	}
	return ""
}

func itoa(n int) string {
	if n < 0 {
		return "-"
	}
	if n == 0 {
		return "0"
	}
	var b [12]byte
	i := len(b)
	for n > 0 {
		i--
		b[i] = byte('0' + n%10)
		n /= 10
	}
	return string(b[i:])
}

// HoldAt parks the next goroutine that reaches (point, conn, tag); gtag restricts it to the
// worker goroutine of that request tag (AnyTag = any goroutine). The goroutine continues on
// Release or after budget.
func (c *Ctl) HoldAt(point string, conn, tag, gtag int, budget time.Duration) *Hold {
	h := &Hold{c: c, point: point, conn: conn, tag: tag, gtag: gtag, reached: make(chan struct{}), release: make(chan struct{}),
		budget: budget, once: true}
	c.mu.Lock()
	c.holds = append(c.holds, h)
	c.mu.Unlock()
	return h
}

// Passed reports how many times (point, conn, tag) was passed (conn 0 = any, tag AnyTag = any).
func (c *Ctl) Passed(point string, conn, tag int) int {
	c.mu.Lock()
	defer c.mu.Unlock()
	return c.passed[passKey{point, conn, tag, AnyTag}]
}

// WaitPassed waits until (point, conn, tag) has been passed at least n times.
func (c *Ctl) WaitPassed(point string, conn, tag, n int, d time.Duration) bool {
	return c.WaitPassedG(point, conn, tag, AnyTag, n, d)
}

// WaitPassedG is WaitPassed restricted to passes made on the worker goroutine of request gtag.
func (c *Ctl) WaitPassedG(point string, conn, tag, gtag, n int, d time.Duration) bool {
	timedOut := false
	timer := time.AfterFunc(d, func() {
		c.mu.Lock()
		timedOut = true
		c.cond.Broadcast()
		c.mu.Unlock()
	})
	defer timer.Stop()
	c.mu.Lock()
	defer c.mu.Unlock()
	for c.passed[passKey{point, conn, tag, gtag}] < n {
		if timedOut {
			return false
		}
		c.cond.Wait()
	}
	return true
}

// ReleaseAll releases every hold (end of scenario).
func (c *Ctl) ReleaseAll() {
	c.mu.Lock()
	hs := append([]*Hold{}, c.holds...)
	c.mu.Unlock()
	for _, h := range hs {
		h.Release()
	}
}

// InterleavingID hashes the order in which points were passed.
func (c *Ctl) InterleavingID() string {
	c.mu.Lock()
	defer c.mu.Unlock()
	var h uint64 = 1469598103934665603
	for _, s := range c.order {
		for i := 0; i < len(s); i++ {
			h = (h ^ uint64(s[i])) * 1099511628211
		}
		h = (h ^ 0xFF) * 1099511628211
	}
	const hexd = "0123456789abcdef"
	var b [16]byte
	for i := 15; i >= 0; i-- {
		b[i] = hexd[h&15]
		h >>= 4
	}
	return string(b[:])
}

// Points returns how many schedule points were passed.
func (c *Ctl) Points() int {
	c.mu.Lock()
	defer c.mu.Unlock()
	return c.npoints
}

// ResetOrder starts a new interleaving id (e.g. at the beginning of a round).
func (c *Ctl) ResetOrder() {
	c.mu.Lock()
	c.order = c.order[:0]
	c.mu.Unlock()
}
