// Package wire is an independent encoder/decoder of the 9P2000 and 9P2000.u
// message layouts, written from the protocol manual pages (intro(5), version,
// auth, attach, error, flush, walk, open/create, read/write, clunk, remove,
// stat/wstat) and the 9P2000.u extension notes (n_uname, ecode, extension[s]
// n_uid n_gid n_muid in stat, extension[s] of Tcreate). It deliberately does
// not import go9p: it is the oracle go9p's codec is compared with.
package wire

import (
	"errors"
	"fmt"
)

const (
	Tversion = 100
	Rversion = 101
	Tauth    = 102
	Rauth    = 103
	Tattach  = 104
	Rattach  = 105
	Terror   = 106 // illegal
	Rerror   = 107
	Tflush   = 108
	Rflush   = 109
	Twalk    = 110
	Rwalk    = 111
	Topen    = 112
	Ropen    = 113
	Tcreate  = 114
	Rcreate  = 115
	Tread    = 116
	Rread    = 117
	Twrite   = 118
	Rwrite   = 119
	Tclunk   = 120
	Rclunk   = 121
	Tremove  = 122
	Rremove  = 123
	Tstat    = 124
	Rstat    = 125
	Twstat   = 126
	Rwstat   = 127
)

const (
	NOTAG   = 0xFFFF
	NOFID   = 0xFFFFFFFF
	NOUID   = 0xFFFFFFFF
	IOHDRSZ = 24
)

// Types lists the 27 defined message types.
var Types = []uint8{Tversion, Rversion, Tauth, Rauth, Tattach, Rattach, Rerror, Tflush, Rflush, Twalk, Rwalk,
	Topen, Ropen, Tcreate, Rcreate, Tread, Rread, Twrite, Rwrite, Tclunk, Rclunk, Tremove, Rremove, Tstat, Rstat, Twstat, Rwstat}

var names = map[uint8]string{Tversion: "Tversion", Rversion: "Rversion", Tauth: "Tauth", Rauth: "Rauth", Tattach: "Tattach",
	Rattach: "Rattach", Rerror: "Rerror", Tflush: "Tflush", Rflush: "Rflush", Twalk: "Twalk", Rwalk: "Rwalk", Topen: "Topen",
	Ropen: "Ropen", Tcreate: "Tcreate", Rcreate: "Rcreate", Tread: "Tread", Rread: "Rread", Twrite: "Twrite", Rwrite: "Rwrite",
	Tclunk: "Tclunk", Rclunk: "Rclunk", Tremove: "Tremove", Rremove: "Rremove", Tstat: "Tstat", Rstat: "Rstat", Twstat: "Twstat",
	Rwstat: "Rwstat"}

func TypeName(t uint8) string {
	if n, ok := names[t]; ok {
		return n
	}
	return fmt.Sprintf("type%d", t)
}

type Qid struct {
	Type    uint8
	Version uint32
	Path    uint64
}

type Stat struct {
	Type   uint16
	Dev    uint32
	Qid    Qid
	Mode   uint32
	Atime  uint32
	Mtime  uint32
	Length uint64
	Name   string
	Uid    string
	Gid    string
	Muid   string
	// 9P2000.u
	Ext   string
	Nuid  uint32
	Ngid  uint32
	Nmuid uint32
}

// Msg holds the fields of any message; which ones are meaningful depends on Type.
type Msg struct {
	Type    uint8
	Tag     uint16
	Msize   uint32
	Version string
	Afid    uint32
	Fid     uint32
	Newfid  uint32
	Uname   string
	Aname   string
	Nuname  uint32 // .u
	Ename   string
	Ecode   uint32 // .u
	Oldtag  uint16
	Wname   []string
	Wqid    []Qid
	Mode    uint8
	Perm    uint32
	Name    string
	Ext     string // .u Tcreate
	Qid     Qid
	Iounit  uint32
	Offset  uint64
	Count   uint32
	Data    []byte
	Stat    Stat
}

type enc struct{ b []byte }

func (e *enc) u8(v uint8)   { e.b = append(e.b, v) }
func (e *enc) u16(v uint16) { e.b = append(e.b, byte(v), byte(v>>8)) }
func (e *enc) u32(v uint32) { e.b = append(e.b, byte(v), byte(v>>8), byte(v>>16), byte(v>>24)) }
func (e *enc) u64(v uint64) {
	for i := 0; i < 8; i++ {
		e.b = append(e.b, byte(v>>(8*uint(i))))
	}
}
func (e *enc) str(s string) { e.u16(uint16(len(s))); e.b = append(e.b, s...) }
func (e *enc) qid(q Qid)    { e.u8(q.Type); e.u32(q.Version); e.u64(q.Path) }

// EncodeStat returns the stat record including its leading size[2].
func EncodeStat(s *Stat, dotu bool) []byte {
	e := &enc{}
	e.u16(0) // patched below
	e.u16(s.Type)
	e.u32(s.Dev)
	e.qid(s.Qid)
	e.u32(s.Mode)
	e.u32(s.Atime)
	e.u32(s.Mtime)
	e.u64(s.Length)
	e.str(s.Name)
	e.str(s.Uid)
	e.str(s.Gid)
	e.str(s.Muid)
	if dotu {
		e.str(s.Ext)
		e.u32(s.Nuid)
		e.u32(s.Ngid)
		e.u32(s.Nmuid)
	}
	n := len(e.b) - 2
	e.b[0], e.b[1] = byte(n), byte(n>>8)
	return e.b
}

// StatLen is the encoded length of the record (with size[2]).
func StatLen(s *Stat, dotu bool) int {
	n := 2 + 2 + 4 + 13 + 4 + 4 + 4 + 8 + 2 + len(s.Name) + 2 + len(s.Uid) + 2 + len(s.Gid) + 2 + len(s.Muid)
	if dotu {
		n += 2 + len(s.Ext) + 12
	}
	return n
}

// Encode builds the packet for m. The caller is responsible for the value
// being representable (string lengths < 65536 and so on).
func Encode(m *Msg, dotu bool) []byte {
	e := &enc{}
	e.u32(0)
	e.u8(m.Type)
	e.u16(m.Tag)
	switch m.Type {
	case Tversion, Rversion:
		e.u32(m.Msize)
		e.str(m.Version)
	case Tauth:
		e.u32(m.Afid)
		e.str(m.Uname)
		e.str(m.Aname)
		if dotu {
			e.u32(m.Nuname)
		}
	case Rauth, Rattach:
		e.qid(m.Qid)
	case Tattach:
		e.u32(m.Fid)
		e.u32(m.Afid)
		e.str(m.Uname)
		e.str(m.Aname)
		if dotu {
			e.u32(m.Nuname)
		}
	case Rerror:
		e.str(m.Ename)
		if dotu {
			e.u32(m.Ecode)
		}
	case Tflush:
		e.u16(m.Oldtag)
	case Twalk:
		e.u32(m.Fid)
		e.u32(m.Newfid)
		e.u16(uint16(len(m.Wname)))
		for _, w := range m.Wname {
			e.str(w)
		}
	case Rwalk:
		e.u16(uint16(len(m.Wqid)))
		for _, q := range m.Wqid {
			e.qid(q)
		}
	case Topen:
		e.u32(m.Fid)
		e.u8(m.Mode)
	case Ropen, Rcreate:
		e.qid(m.Qid)
		e.u32(m.Iounit)
	case Tcreate:
		e.u32(m.Fid)
		e.str(m.Name)
		e.u32(m.Perm)
		e.u8(m.Mode)
		if dotu {
			e.str(m.Ext)
		}
	case Tread:
		e.u32(m.Fid)
		e.u64(m.Offset)
		e.u32(m.Count)
	case Rread:
		e.u32(m.Count)
		e.b = append(e.b, m.Data...)
	case Twrite:
		e.u32(m.Fid)
		e.u64(m.Offset)
		e.u32(m.Count)
		e.b = append(e.b, m.Data...)
	case Rwrite:
		e.u32(m.Count)
	case Tclunk, Tremove, Tstat:
		e.u32(m.Fid)
	case Rstat:
		st := EncodeStat(&m.Stat, dotu)
		e.u16(uint16(len(st)))
		e.b = append(e.b, st...)
	case Twstat:
		e.u32(m.Fid)
		st := EncodeStat(&m.Stat, dotu)
		e.u16(uint16(len(st)))
		e.b = append(e.b, st...)
	case Rflush, Rclunk, Rremove, Rwstat:
	}
	n := uint32(len(e.b))
	e.b[0], e.b[1], e.b[2], e.b[3] = byte(n), byte(n>>8), byte(n>>16), byte(n>>24)
	return e.b
}

var ErrShort = errors.New("wire: short")

type dec struct {
	b   []byte
	err error
}

func (d *dec) need(n int) bool {
	if d.err != nil {
		return false
	}
	if len(d.b) < n {
		d.err = ErrShort
		return false
	}
	return true
}
func (d *dec) u8() uint8 {
	if !d.need(1) {
		return 0
	}
	v := d.b[0]
	d.b = d.b[1:]
	return v
}
func (d *dec) u16() uint16 {
	if !d.need(2) {
		return 0
	}
	v := uint16(d.b[0]) | uint16(d.b[1])<<8
	d.b = d.b[2:]
	return v
}
func (d *dec) u32() uint32 {
	if !d.need(4) {
		return 0
	}
	v := uint32(d.b[0]) | uint32(d.b[1])<<8 | uint32(d.b[2])<<16 | uint32(d.b[3])<<24
	d.b = d.b[4:]
	return v
}
func (d *dec) u64() uint64 {
	if !d.need(8) {
		return 0
	}
	var v uint64
	for i := 0; i < 8; i++ {
		v |= uint64(d.b[i]) << (8 * uint(i))
	}
	d.b = d.b[8:]
	return v
}
func (d *dec) str() string {
	n := int(d.u16())
	if !d.need(n) {
		return ""
	}
	s := string(d.b[:n])
	d.b = d.b[n:]
	return s
}
func (d *dec) qid() Qid { return Qid{d.u8(), d.u32(), d.u64()} }

// DecodeStat decodes one stat record (with its size[2]) from the front of b
// and returns the number of bytes it occupies. The record's own size field
// must agree with its contents.
func DecodeStat(b []byte, dotu bool) (*Stat, int, error) {
	d := &dec{b: b}
	sz := int(d.u16())
	s := &Stat{}
	s.Type = d.u16()
	s.Dev = d.u32()
	s.Qid = d.qid()
	s.Mode = d.u32()
	s.Atime = d.u32()
	s.Mtime = d.u32()
	s.Length = d.u64()
	s.Name = d.str()
	s.Uid = d.str()
	s.Gid = d.str()
	s.Muid = d.str()
	if dotu {
		s.Ext = d.str()
		s.Nuid = d.u32()
		s.Ngid = d.u32()
		s.Nmuid = d.u32()
	} else {
		s.Nuid, s.Ngid, s.Nmuid = NOUID, NOUID, NOUID
	}
	if d.err != nil {
		return nil, 0, d.err
	}
	used := len(b) - len(d.b)
	if sz+2 != used {
		return nil, 0, fmt.Errorf("wire: stat size field %d but record occupies %d", sz, used-2)
	}
	return s, used, nil
}

// Decode strictly decodes one message from the front of b.
func Decode(b []byte, dotu bool) (*Msg, int, error) {
	if len(b) < 7 {
		return nil, 0, ErrShort
	}
	d0 := &dec{b: b}
	size := d0.u32()
	if size < 7 || uint64(size) > uint64(len(b)) {
		return nil, 0, fmt.Errorf("wire: bad size %d (have %d)", size, len(b))
	}
	d := &dec{b: b[4:size]}
	m := &Msg{Fid: NOFID, Afid: NOFID, Newfid: NOFID}
	m.Type = d.u8()
	m.Tag = d.u16()
	switch m.Type {
	case Tversion, Rversion:
		m.Msize = d.u32()
		m.Version = d.str()
	case Tauth:
		m.Afid = d.u32()
		m.Uname = d.str()
		m.Aname = d.str()
		m.Nuname = NOUID
		if dotu {
			m.Nuname = d.u32()
		}
	case Rauth, Rattach:
		m.Qid = d.qid()
	case Tattach:
		m.Fid = d.u32()
		m.Afid = d.u32()
		m.Uname = d.str()
		m.Aname = d.str()
		m.Nuname = NOUID
		if dotu {
			m.Nuname = d.u32()
		}
	case Rerror:
		m.Ename = d.str()
		if dotu {
			m.Ecode = d.u32()
		}
	case Tflush:
		m.Oldtag = d.u16()
	case Twalk:
		m.Fid = d.u32()
		m.Newfid = d.u32()
		n := int(d.u16())
		m.Wname = []string{}
		for i := 0; i < n && d.err == nil; i++ {
			m.Wname = append(m.Wname, d.str())
		}
	case Rwalk:
		n := int(d.u16())
		m.Wqid = []Qid{}
		for i := 0; i < n && d.err == nil; i++ {
			m.Wqid = append(m.Wqid, d.qid())
		}
	case Topen:
		m.Fid = d.u32()
		m.Mode = d.u8()
	case Ropen, Rcreate:
		m.Qid = d.qid()
		m.Iounit = d.u32()
	case Tcreate:
		m.Fid = d.u32()
		m.Name = d.str()
		m.Perm = d.u32()
		m.Mode = d.u8()
		if dotu {
			m.Ext = d.str()
		}
	case Tread:
		m.Fid = d.u32()
		m.Offset = d.u64()
		m.Count = d.u32()
	case Rread:
		m.Count = d.u32()
		if d.err == nil {
			if uint64(m.Count) != uint64(len(d.b)) {
				return nil, 0, fmt.Errorf("wire: Rread count %d but %d data bytes", m.Count, len(d.b))
			}
			m.Data = d.b
			d.b = nil
		}
	case Twrite:
		m.Fid = d.u32()
		m.Offset = d.u64()
		m.Count = d.u32()
		if d.err == nil {
			if uint64(m.Count) != uint64(len(d.b)) {
				return nil, 0, fmt.Errorf("wire: Twrite count %d but %d data bytes", m.Count, len(d.b))
			}
			m.Data = d.b
			d.b = nil
		}
	case Rwrite:
		m.Count = d.u32()
	case Tclunk, Tremove, Tstat:
		m.Fid = d.u32()
	case Rstat, Twstat:
		if m.Type == Twstat {
			m.Fid = d.u32()
		}
		n := int(d.u16())
		if d.err == nil {
			if n != len(d.b) {
				return nil, 0, fmt.Errorf("wire: stat[n] n=%d but %d bytes follow", n, len(d.b))
			}
			st, used, err := DecodeStat(d.b, dotu)
			if err != nil {
				return nil, 0, err
			}
			m.Stat = *st
			d.b = d.b[used:]
		}
	case Rflush, Rclunk, Rremove, Rwstat:
	default:
		return nil, 0, fmt.Errorf("wire: undefined message type %d", m.Type)
	}
	if d.err != nil {
		return nil, 0, d.err
	}
	if len(d.b) != 0 {
		return nil, 0, fmt.Errorf("wire: %d bytes left over in %s", len(d.b), TypeName(m.Type))
	}
	return m, int(size), nil
}

// PeekSize returns the size prefix of the frame at the front of b (0 if fewer than 4 bytes).
func PeekSize(b []byte) uint32 {
	if len(b) < 4 {
		return 0
	}
	return uint32(b[0]) | uint32(b[1])<<8 | uint32(b[2])<<16 | uint32(b[3])<<24
}

// Split cuts a byte stream into complete frames; rest is the incomplete tail.
func Split(b []byte) (frames [][]byte, rest []byte) {
	for len(b) >= 4 {
		n := int(PeekSize(b))
		if n < 7 || n > len(b) {
			break
		}
		frames = append(frames, b[:n])
		b = b[n:]
	}
	return frames, b
}

func (m *Msg) String() string {
	switch m.Type {
	case Rerror:
		return fmt.Sprintf("Rerror tag=%d %q/%d", m.Tag, m.Ename, m.Ecode)
	case Twalk:
		return fmt.Sprintf("Twalk tag=%d fid=%d newfid=%d %q", m.Tag, m.Fid, m.Newfid, m.Wname)
	case Rwalk:
		return fmt.Sprintf("Rwalk tag=%d nqid=%d", m.Tag, len(m.Wqid))
	case Tflush:
		return fmt.Sprintf("Tflush tag=%d oldtag=%d", m.Tag, m.Oldtag)
	case Rread, Twrite:
		return fmt.Sprintf("%s tag=%d fid=%d off=%d count=%d", TypeName(m.Type), m.Tag, m.Fid, m.Offset, m.Count)
	}
	return fmt.Sprintf("%s tag=%d fid=%d", TypeName(m.Type), m.Tag, m.Fid)
}
