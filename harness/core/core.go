// Package core is the supervisor / worker skeleton shared by every engine:
// deterministic case lists, crash-isolated worker processes, violation
// signatures matched against known_findings.json, evidence files.
package core

import (
	"encoding/json"
	"fmt"
	"os"
	"sort"
	"sync"
)

// Violation is one rejected execution.
type Violation struct {
	// Signature is stable across runs and seeds: it identifies *what* fails
	// (used to match known_findings.json), not which random case found it.
	Signature string      `json:"signature"`
	What      string      `json:"what"`
	Detail    interface{} `json:"detail,omitempty"`
	Case      string      `json:"case,omitempty"`
	CaseIndex int         `json:"case_index"`
}

// Result is what running one case produced.
type Result struct {
	Evals        int                 `json:"evals"`          // executions judged by an oracle in this case
	Sigs         []string            `json:"sigs,omitempty"` // signatures of distinct non-trivial executions
	Violations   []Violation         `json:"violations,omitempty"`
	Samples      []interface{}       `json:"samples,omitempty"` // a few actual cases, written out
	Counters     map[string]int64    `json:"counters,omitempty"`
	Sets         map[string][]string `json:"sets,omitempty"` // named sets whose union size is reported (e.g. interleaving ids)
	Inconclusive string              `json:"inconclusive,omitempty"`
}

func (r *Result) Count(name string, n int64) {
	if r.Counters == nil {
		r.Counters = map[string]int64{}
	}
	r.Counters[name] += n
}

func (r *Result) AddSet(name, v string) {
	if r.Sets == nil {
		r.Sets = map[string][]string{}
	}
	r.Sets[name] = append(r.Sets[name], v)
}

func (r *Result) Sig(s string) { r.Sigs = append(r.Sigs, s) }

func (r *Result) Sample(v interface{}) {
	if len(r.Samples) < 2 {
		r.Samples = append(r.Samples, v)
	}
}

func (r *Result) Violate(sig, what string, detail interface{}) {
	// keep the per-case list short: the same signature once
	for _, v := range r.Violations {
		if v.Signature == sig {
			return
		}
	}
	if len(r.Violations) < 50 {
		r.Violations = append(r.Violations, Violation{Signature: sig, What: what, Detail: detail})
	}
}

// Case is one unit of work of an engine. The list of cases is a pure
// function of (tier, seed); a case may judge many executions.
type Case struct {
	ID  string
	Run func(ctx *Ctx) Result
}

// Ctx gives a running case access to worker facilities.
type Ctx struct {
	Tier     string
	Seed     int64
	Index    int
	notePath string
	noteFile *os.File
	beat     func()
	Scratch  string // per-worker scratch directory (removed by the supervisor)
}

// Note records (on disk, before the call) the input about to be handed to
// the library, so that a process-fatal crash can be attributed.
func (c *Ctx) Note(b []byte) {
	if c.notePath == "" {
		return
	}
	if c.noteFile == nil {
		f, err := os.OpenFile(c.notePath, os.O_CREATE|os.O_WRONLY, 0o644)
		if err != nil {
			return
		}
		c.noteFile = f
	}
	_, _ = c.noteFile.WriteAt(b, 0)
	_ = c.noteFile.Truncate(int64(len(b)))
}

// Beat tells the supervisor's stall watchdog that a long case is still making progress.
func (c *Ctx) Beat() {
	if c.beat != nil {
		c.beat()
	}
}

// Done releases per-case resources of the context.
func (c *Ctx) Done() {
	if c.noteFile != nil {
		c.noteFile.Close()
		c.noteFile = nil
	}
}

// Engine describes the check of one property.
type Engine struct {
	Property    string
	Level       string // exploration | fault_enumeration
	Rule        string
	Assumptions []string
	Cases       func(tier string, seed int64) []Case
	MinDistinct int  // a run that observed fewer distinct non-trivial cases is inconclusive
	Race        bool // the worker must be the -race build; verdict from race logs
	Jobs        int  // worker processes (0 = default)
	MemLimitMB  int  // RLIMIT_AS for workers (0 = none); never with Race
	StallSec    int  // supervisor watchdog: no progress for this long = inconclusive (default 180)
	// PostRun lets an engine add run-level observations (e.g. parsed race logs).
	PostRun func(run *RunInfo)
}

type RunInfo struct {
	Tier       string
	Seed       int64
	LogDir     string
	Violations *[]Violation
	Extra      map[string]interface{}
	Internal   *[]string
}

var (
	mu      sync.Mutex
	engines = map[string]*Engine{}
)

func Register(e *Engine) {
	mu.Lock()
	defer mu.Unlock()
	engines[e.Property] = e
}

func Lookup(id string) *Engine {
	mu.Lock()
	defer mu.Unlock()
	return engines[id]
}

func Properties() []string {
	mu.Lock()
	defer mu.Unlock()
	var ids []string
	for k := range engines {
		ids = append(ids, k)
	}
	sort.Strings(ids)
	return ids
}

// ---------------------------------------------------------------------------
// deterministic PRNG (splitmix64)

type Rand struct{ s uint64 }

func NewRand(seed int64, stream string) *Rand {
	h := uint64(seed)*0x9E3779B97F4A7C15 + 0x1234567
	for i := 0; i < len(stream); i++ {
		h = (h ^ uint64(stream[i])) * 0x100000001B3
	}
	r := &Rand{s: h}
	r.Uint64()
	return r
}

func (r *Rand) State() uint64 { return r.s }

func (r *Rand) Uint64() uint64 {
	r.s += 0x9E3779B97F4A7C15
	z := r.s
	z = (z ^ (z >> 30)) * 0xBF58476D1CE4E5B9
	z = (z ^ (z >> 27)) * 0x94D049BB133111EB
	return z ^ (z >> 31)
}

func (r *Rand) Intn(n int) int {
	if n <= 0 {
		return 0
	}
	return int(r.Uint64() % uint64(n))
}

func (r *Rand) Uint32() uint32 { return uint32(r.Uint64() >> 16) }
func (r *Rand) Bool() bool     { return r.Uint64()&1 == 1 }

func (r *Rand) Bytes(n int) []byte {
	b := make([]byte, n)
	for i := 0; i < n; i += 8 {
		v := r.Uint64()
		for j := 0; j < 8 && i+j < n; j++ {
			b[i+j] = byte(v >> (8 * j))
		}
	}
	return b
}

func (r *Rand) Perm(n int) []int {
	p := make([]int, n)
	for i := range p {
		p[i] = i
	}
	for i := n - 1; i > 0; i-- {
		j := r.Intn(i + 1)
		p[i], p[j] = p[j], p[i]
	}
	return p
}

// JSON helper used by engines for compact details.
func J(v interface{}) string {
	b, err := json.Marshal(v)
	if err != nil {
		return fmt.Sprintf("%v", v)
	}
	return string(b)
}
