package core

import (
	"bufio"
	"encoding/json"
	"fmt"
	"os"
	"os/exec"
	"path/filepath"
	"regexp"
	"runtime/pprof"
	"sort"
	"strconv"
	"strings"
	"sync"
	"syscall"
	"time"
)

// ---------------------------------------------------------------------------
// worker side

type wline struct {
	Ev  string  `json:"ev"` // start | done
	I   int     `json:"i"`
	ID  string  `json:"id,omitempty"`
	Res *Result `json:"res,omitempty"`
}

// WorkerMain runs the cases of one shard, logging each case before it runs.
// args: ID tier seed shard nshards start outfile notefile scratch [only]
func WorkerMain(args []string) int {
	if len(args) < 9 {
		fmt.Fprintln(os.Stderr, "worker: bad arguments")
		return 2
	}
	e := Lookup(args[0])
	if e == nil {
		fmt.Fprintln(os.Stderr, "worker: unknown property", args[0])
		return 2
	}
	tier := args[1]
	seed, _ := strconv.ParseInt(args[2], 10, 64)
	shard, _ := strconv.Atoi(args[3])
	nshards, _ := strconv.Atoi(args[4])
	start, _ := strconv.Atoi(args[5])
	only := -1
	if len(args) > 9 {
		only, _ = strconv.Atoi(args[9])
	}
	if e.MemLimitMB > 0 && !e.Race {
		lim := uint64(e.MemLimitMB) << 20
		_ = syscall.Setrlimit(syscall.RLIMIT_AS, &syscall.Rlimit{Cur: lim, Max: lim})
	}
	out, err := os.OpenFile(args[6], os.O_APPEND|os.O_CREATE|os.O_WRONLY, 0o644)
	if err != nil {
		fmt.Fprintln(os.Stderr, "worker:", err)
		return 2
	}
	defer out.Close()
	enc := json.NewEncoder(out)
	cases := e.Cases(tier, seed)
	if pf := os.Getenv("VERIF_CPUPROFILE"); pf != "" {
		if f, err := os.Create(fmt.Sprintf("%s.%d", pf, shard)); err == nil {
			_ = pprof.StartCPUProfile(f)
			defer pprof.StopCPUProfile()
		}
	}
	for i := start; i < len(cases); i++ {
		if only >= 0 {
			if i != only {
				continue
			}
		} else if i%nshards != shard {
			continue
		}
		_ = enc.Encode(wline{Ev: "start", I: i, ID: cases[i].ID})
		fmt.Fprintf(os.Stderr, "=== case %d %s\n", i, cases[i].ID)
		ctx := &Ctx{Tier: tier, Seed: seed, Index: i, notePath: args[7], Scratch: args[8]}
		ctx.beat = func() { _ = enc.Encode(wline{Ev: "beat", I: i}) }
		res := cases[i].Run(ctx)
		ctx.Done()
		for k := range res.Violations {
			res.Violations[k].Case = cases[i].ID
			res.Violations[k].CaseIndex = i
		}
		_ = enc.Encode(wline{Ev: "done", I: i, ID: cases[i].ID, Res: &res})
	}
	return 0
}

// ---------------------------------------------------------------------------
// supervisor side

type finding struct {
	Property  string `json:"property"`
	Status    string `json:"status"` // known | fixed
	Signature string `json:"signature"`
	Commit    string `json:"commit,omitempty"`
	What      string `json:"what"`
}

type findingsFile struct {
	Findings []finding `json:"findings"`
}

func loadFindings(root string) []finding {
	b, err := os.ReadFile(filepath.Join(root, "known_findings.json"))
	if err != nil {
		return nil
	}
	var f findingsFile
	if json.Unmarshal(b, &f) != nil {
		return nil
	}
	return f.Findings
}

func sigMatch(pattern, sig string) bool {
	if strings.HasSuffix(pattern, "*") {
		return strings.HasPrefix(sig, strings.TrimSuffix(pattern, "*"))
	}
	return pattern == sig
}

type shardState struct {
	results  map[int]*Result
	ids      map[int]string
	crashes  []Violation
	internal []string
}

var reFrame = regexp.MustCompile(`^([A-Za-z0-9_./\-]+(?:\.[^\s(]+|\(\*[^)]+\)\.[^\s(]+)*)\(`)
var reDigits = regexp.MustCompile(`[0-9]+`)
var reHex = regexp.MustCompile(`0x[0-9a-fA-F]+`)

// classifyCrash inspects the stderr of a dead worker. It returns the innermost
// go9p function of the panicking goroutine ("" if the crash is not in the
// library) and the normalised panic message.
func classifyCrash(log string) (libFrame, msg string, excerpt string) {
	lines := strings.Split(log, "\n")
	idx := -1
	for i, l := range lines {
		if strings.HasPrefix(l, "panic: ") || strings.HasPrefix(l, "fatal error: ") {
			idx = i
			msg = l
			break
		}
	}
	if idx < 0 {
		return "", "", tail(log, 40)
	}
	// frames of the first goroutine listed after the message
	g := -1
	for i := idx; i < len(lines); i++ {
		if strings.HasPrefix(lines[i], "goroutine ") {
			g = i
			break
		}
	}
	end := len(lines)
	if g >= 0 {
		for i := g + 1; i < len(lines); i++ {
			if strings.TrimSpace(lines[i]) == "" {
				end = i
				break
			}
		}
		first := true
		for i := g + 1; i < end; i++ {
			l := lines[i]
			if strings.HasPrefix(l, "\t") || strings.HasPrefix(l, " ") {
				continue
			}
			fn := l
			if p := strings.LastIndex(fn, "("); p > 0 {
				fn = fn[:p]
			}
			// skip the standard library: the innermost frame that belongs either to go9p or to the harness decides
			if !strings.HasPrefix(fn, "github.com/rminnich/go9p.") && !strings.HasPrefix(fn, "verif/") && !strings.HasPrefix(fn, "main.") {
				continue
			}
			if first {
				first = false
				if strings.Contains(fn, "github.com/rminnich/go9p.") {
					libFrame = strings.TrimPrefix(fn, "github.com/rminnich/go9p.")
				}
				break
			}
		}
	}
	if strings.HasPrefix(msg, "fatal error: out of memory") && libFrame != "" {
		// under the worker's address-space limit the allocation that fails need not be the one to blame: only a
		// single allocation of 64 MiB or more, made from a library frame, is the library's doing (a length field taken
		// at its word); a small one failing means the worker as a whole ran out — not a verdict on the library
		big := false
		for i := idx; i < end && i < len(lines); i++ {
			for _, fn := range []string{"runtime.mallocgc(", "runtime.makeslice(", "runtime.growslice("} {
				if p := strings.Index(lines[i], fn+"0x"); p >= 0 {
					var n uint64
					fmt.Sscanf(lines[i][p+len(fn):], "0x%x", &n)
					if fn == "runtime.mallocgc(" && n >= 1<<26 {
						big = true
					}
				}
			}
		}
		if !big {
			libFrame = ""
		}
	}
	msg = reHex.ReplaceAllString(msg, "0xN")
	msg = reDigits.ReplaceAllString(msg, "N")
	if len(msg) > 160 {
		msg = msg[:160]
	}
	hi := end
	if hi > idx+60 {
		hi = idx + 60
	}
	excerpt = strings.Join(lines[idx:hi], "\n")
	return
}

func tail(s string, n int) string {
	l := strings.Split(s, "\n")
	if len(l) > n {
		l = l[len(l)-n:]
	}
	return strings.Join(l, "\n")
}

type evidence struct {
	PropertyID  string                 `json:"property_id"`
	Tier        string                 `json:"tier"`
	Seed        int64                  `json:"seed"`
	Level       string                 `json:"level"`
	Coverage    map[string]interface{} `json:"coverage"`
	Assumptions []string               `json:"assumptions"`
	WallS       float64                `json:"wall_s"`
	Violations  int                    `json:"violations"`
	Verdict     string                 `json:"verdict"`
	Known       []string               `json:"known_findings_met,omitempty"`
}

// CheckMain is the supervisor: bin/check <ID> quick|thorough.
func CheckMain(id, tier string, only int) int {
	t0 := time.Now()
	if s := os.Getenv("VERIF_ONLY"); s != "" && only < 0 {
		only, _ = strconv.Atoi(s)
	}
	e := Lookup(id)
	if e == nil {
		fmt.Fprintln(os.Stderr, "unknown property", id)
		return 2
	}
	root := os.Getenv("VERIF_ROOT")
	if root == "" {
		root = "/verif"
	}
	seed := int64(1)
	if s := os.Getenv("VERIF_SEED"); s != "" {
		if v, err := strconv.ParseInt(s, 10, 64); err == nil {
			seed = v
		}
	}
	if t := os.Getenv("VERIF_TIER"); t != "" && only < 0 {
		tier = t
	}
	if tier != "quick" && tier != "thorough" {
		fmt.Fprintln(os.Stderr, "tier must be quick or thorough")
		return 2
	}
	jobs := e.Jobs
	if jobs == 0 {
		jobs = 8
	}
	if s := os.Getenv("VERIF_JOBS"); s != "" {
		if v, err := strconv.Atoi(s); err == nil && v > 0 {
			jobs = v
		}
	}
	cases := e.Cases(tier, seed)
	if len(cases) == 0 {
		fmt.Fprintln(os.Stderr, "engine produced no cases")
		return 2
	}
	if jobs > len(cases) {
		jobs = len(cases)
	}
	if only >= 0 {
		jobs = 1
	}
	_ = os.MkdirAll(filepath.Join(root, ".build"), 0o755)
	logdir, err := os.MkdirTemp(filepath.Join(root, ".build"), "run-"+id+"-")
	if err != nil {
		fmt.Fprintln(os.Stderr, err)
		return 2
	}
	keepLogs := false
	defer func() {
		if !keepLogs {
			os.RemoveAll(logdir)
		}
	}()
	self, _ := os.Executable()
	stall := e.StallSec
	if stall == 0 {
		stall = 180
	}

	states := make([]*shardState, jobs)
	var wg sync.WaitGroup
	for k := 0; k < jobs; k++ {
		st := &shardState{results: map[int]*Result{}, ids: map[int]string{}}
		states[k] = st
		wg.Add(1)
		go func(k int, st *shardState) {
			defer wg.Done()
			runShard(e, self, id, tier, seed, k, jobs, only, logdir, stall, len(cases), st)
		}(k, st)
	}
	wg.Wait()

	// ---- aggregate
	var viols []Violation
	var internal []string
	evals := 0
	sigs := map[string]bool{}
	var samples []interface{}
	counters := map[string]int64{}
	sets := map[string]map[string]bool{}
	ran := 0
	var idxs []int
	all := map[int]*Result{}
	for _, st := range states {
		viols = append(viols, st.crashes...)
		internal = append(internal, st.internal...)
		for i, r := range st.results {
			all[i] = r
			idxs = append(idxs, i)
		}
	}
	sort.Ints(idxs)
	for _, i := range idxs {
		r := all[i]
		ran++
		evals += r.Evals
		for _, s := range r.Sigs {
			sigs[s] = true
		}
		for _, s := range r.Samples {
			if len(samples) < 6 {
				samples = append(samples, s)
			}
		}
		for k, v := range r.Counters {
			counters[k] += v
		}
		for k, vs := range r.Sets {
			if sets[k] == nil {
				sets[k] = map[string]bool{}
			}
			for _, v := range vs {
				sets[k][v] = true
			}
		}
		viols = append(viols, r.Violations...)
		if r.Inconclusive != "" {
			internal = append(internal, fmt.Sprintf("case %d: %s", i, r.Inconclusive))
		}
	}
	extra := map[string]interface{}{}
	if e.PostRun != nil {
		e.PostRun(&RunInfo{Tier: tier, Seed: seed, LogDir: logdir, Violations: &viols, Extra: extra, Internal: &internal})
	}

	if old, _ := filepath.Glob(filepath.Join(root, "replays", fmt.Sprintf("%s-%d-*.json", id, seed))); only < 0 {
		for _, f := range old {
			os.Remove(f)
		}
	}
	// ---- known findings, de-duplication by signature
	findings := loadFindings(root)
	bySig := map[string][]Violation{}
	var order []string
	for _, v := range viols {
		if _, ok := bySig[v.Signature]; !ok {
			order = append(order, v.Signature)
		}
		bySig[v.Signature] = append(bySig[v.Signature], v)
	}
	sort.Strings(order)
	nviol := 0
	var knownMet []string
	n := 0
	for _, sig := range order {
		vs := bySig[sig]
		known := false
		for _, f := range findings {
			if f.Property == id && f.Status == "known" && sigMatch(f.Signature, sig) {
				known = true
				line := fmt.Sprintf("KNOWN-FINDING: property=%s %s [signature %s, met %d times]", id, f.What, sig, len(vs))
				fmt.Println(line)
				knownMet = append(knownMet, sig)
				break
			}
		}
		if known {
			continue
		}
		nviol++
		n++
		path := filepath.Join(root, "replays", fmt.Sprintf("%s-%d-%d.json", id, seed, n))
		rep := map[string]interface{}{
			"property": id, "tier": tier, "seed": seed, "signature": sig,
			"occurrences": len(vs), "first": vs[0],
			"replay_hint": fmt.Sprintf("bin/check %s --replay %s", id, path),
		}
		b, _ := json.MarshalIndent(rep, "", " ")
		_ = os.MkdirAll(filepath.Dir(path), 0o755)
		_ = os.WriteFile(path, b, 0o644)
		if n <= 40 {
			fmt.Printf("VIOLATION property=%s replay=%s signature=%q what=%q\n", id, path, sig, vs[0].What)
		}
	}

	// ---- evidence
	cov := map[string]interface{}{
		"evaluations":         evals,
		"distinct_nontrivial": len(sigs),
		"rule":                e.Rule,
		"samples":             samples,
		"cases_run":           ran,
		"cases_planned":       len(cases),
		"worker_processes":    jobs,
	}
	for k, v := range counters {
		cov[k] = v
	}
	for k, v := range sets {
		cov["distinct_"+k] = len(v)
	}
	for k, v := range extra {
		cov[k] = v
	}
	if samples == nil {
		cov["samples"] = []interface{}{}
	}
	verdict := "held"
	rc := 0
	expected := len(cases)
	if only >= 0 {
		expected = 1
	}
	crashedCases := map[int]bool{}
	for _, st := range states {
		for _, c := range st.crashes {
			crashedCases[c.CaseIndex] = true
		}
	}
	expected -= len(crashedCases) // a case that killed its worker is reported as a violation, not as missing
	if ran < expected {
		internal = append(internal, fmt.Sprintf("only %d of %d cases completed", ran, expected))
	}
	if only < 0 && e.MinDistinct > 0 && len(sigs) < e.MinDistinct {
		internal = append(internal, fmt.Sprintf("observed only %d distinct non-trivial cases, the tier promises at least %d", len(sigs), e.MinDistinct))
	}
	if nviol > 0 {
		verdict = "violated"
		rc = 1
	} else if len(internal) > 0 {
		verdict = "inconclusive"
		rc = 2
	}
	if len(internal) > 0 {
		keepLogs = true
		for i, s := range internal {
			if i < 20 {
				fmt.Fprintln(os.Stderr, "INCONCLUSIVE:", s)
			}
		}
		fmt.Fprintln(os.Stderr, "worker logs kept in", logdir)
		cov["inconclusive"] = internal
	}
	ev := evidence{
		PropertyID: id, Tier: tier, Seed: seed, Level: e.Level, Coverage: cov,
		Assumptions: e.Assumptions, WallS: time.Since(t0).Seconds(), Violations: nviol,
		Verdict: verdict, Known: knownMet,
	}
	if only < 0 {
		b, _ := json.MarshalIndent(ev, "", " ")
		evdir := filepath.Join(root, "evidence")
		if d := os.Getenv("VERIF_EVIDENCE_DIR"); d != "" {
			evdir = d // self-validation against a scratch copy: not the evidence of /repo
		}
		_ = os.MkdirAll(evdir, 0o755)
		_ = os.WriteFile(filepath.Join(evdir, id+".json"), append(b, '\n'), 0o644)
	}
	fmt.Printf("%s %s seed=%d: %s — %d cases, %d executions judged, %d distinct non-trivial, %d violation signature(s), %d known, %.1fs\n",
		id, tier, seed, verdict, ran, evals, len(sigs), nviol, len(knownMet), time.Since(t0).Seconds())
	return rc
}

func runShard(e *Engine, self, id, tier string, seed int64, shard, nshards, only int, logdir string, stall, ncases int, st *shardState) {
	start := 0
	attempt := 0
	out := filepath.Join(logdir, fmt.Sprintf("shard-%d.jsonl", shard))
	note := filepath.Join(logdir, fmt.Sprintf("shard-%d.note", shard))
	scratch := filepath.Join(logdir, fmt.Sprintf("scratch-%d", shard))
	_ = os.MkdirAll(scratch, 0o755)
	crashesHere := 0
	for {
		attempt++
		logp := filepath.Join(logdir, fmt.Sprintf("shard-%d-attempt-%d.log", shard, attempt))
		lf, err := os.Create(logp)
		if err != nil {
			st.internal = append(st.internal, err.Error())
			return
		}
		args := []string{"worker", id, tier, strconv.FormatInt(seed, 10), strconv.Itoa(shard), strconv.Itoa(nshards),
			strconv.Itoa(start), out, note, scratch}
		if only >= 0 {
			args = append(args, strconv.Itoa(only))
		}
		cmd := exec.Command(self, args...)
		cmd.Stdout = lf
		cmd.Stderr = lf
		cmd.Env = append(os.Environ(), "VERIF_WORKER=1")
		if e.Race {
			cmd.Env = append(cmd.Env, fmt.Sprintf("GORACE=halt_on_error=0 exitcode=0 history_size=5 log_path=%s/race-%d-%d", logdir, shard, attempt))
		}
		if err := cmd.Start(); err != nil {
			lf.Close()
			st.internal = append(st.internal, "cannot start worker: "+err.Error())
			return
		}
		done := make(chan error, 1)
		go func() { done <- cmd.Wait() }()
		stalled := false
		var werr error
		lastSize := int64(-1)
		lastChange := time.Now()
		lastDone := time.Now() // heartbeats keep the stall watchdog quiet, but no single case may run longer than 15 minutes
		lastDoneCount := 0
	wait:
		for {
			select {
			case werr = <-done:
				break wait
			case <-time.After(time.Second):
				fi, err := os.Stat(out)
				sz := int64(0)
				if err == nil {
					sz = fi.Size()
				}
				if sz != lastSize {
					lastSize = sz
					lastChange = time.Now()
					if b, err := os.ReadFile(out); err == nil {
						if n := strings.Count(string(b), `"ev":"done"`); n != lastDoneCount {
							lastDoneCount = n
							lastDone = time.Now()
						}
					}
				}
				if time.Since(lastChange) > time.Duration(stall)*time.Second || time.Since(lastDone) > 15*time.Minute {
					stalled = true
					_ = cmd.Process.Signal(syscall.SIGQUIT)
					select {
					case werr = <-done:
					case <-time.After(10 * time.Second):
						_ = cmd.Process.Kill()
						werr = <-done
					}
					break wait
				}
			}
		}
		lf.Close()
		// parse the progress file
		lastStart, lastStartID := -1, ""
		doneSet := map[int]bool{}
		if f, err := os.Open(out); err == nil {
			sc := bufio.NewScanner(f)
			sc.Buffer(make([]byte, 1<<20), 1<<28)
			for sc.Scan() {
				var l wline
				if json.Unmarshal(sc.Bytes(), &l) != nil {
					continue
				}
				if l.Ev == "start" {
					lastStart, lastStartID = l.I, l.ID
				} else if l.Ev == "done" && l.Res != nil {
					doneSet[l.I] = true
					st.results[l.I] = l.Res
					st.ids[l.I] = l.ID
				}
			}
			f.Close()
		}
		if werr == nil && !stalled {
			return
		}
		logb, _ := os.ReadFile(logp)
		if stalled {
			st.internal = append(st.internal, fmt.Sprintf("worker %d made no progress for %ds in case %d (%s); goroutine dump in %s", shard, stall, lastStart, lastStartID, logp))
			return
		}
		if lastStart < 0 || doneSet[lastStart] {
			st.internal = append(st.internal, fmt.Sprintf("worker %d died outside a case: %v: %s", shard, werr, tail(string(logb), 15)))
			return
		}
		lib, msg, excerpt := classifyCrash(string(logb))
		noteb, _ := os.ReadFile(note)
		if lib == "" {
			st.internal = append(st.internal, fmt.Sprintf("worker %d died in case %d (%s) outside the library: %v\n%s", shard, lastStart, lastStartID, werr, excerpt))
			// do not loop forever on harness bugs
			crashesHere++
			if crashesHere > 3 {
				return
			}
		} else {
			detail := map[string]interface{}{"panic": excerpt}
			if len(noteb) > 0 {
				if len(noteb) > 4096 {
					noteb = noteb[:4096]
				}
				detail["last_input_hex"] = fmt.Sprintf("%x", noteb)
			}
			st.crashes = append(st.crashes, Violation{
				Signature: "crash;" + lib + ";" + msg,
				What:      fmt.Sprintf("process-fatal %s in %s", msg, lib),
				Detail:    detail, Case: lastStartID, CaseIndex: lastStart,
			})
			crashesHere++
			if crashesHere > 200 {
				st.internal = append(st.internal, "too many crashes in one shard, giving up")
				return
			}
		}
		if only >= 0 {
			return
		}
		start = lastStart + 1
		if start >= ncases {
			return
		}
	}
}

// ReplayMain re-runs the case recorded in a replay file.
func ReplayMain(id, path string) int {
	b, err := os.ReadFile(path)
	if err != nil {
		fmt.Fprintln(os.Stderr, err)
		return 2
	}
	var rep struct {
		Tier  string    `json:"tier"`
		Seed  int64     `json:"seed"`
		First Violation `json:"first"`
	}
	if err := json.Unmarshal(b, &rep); err != nil {
		fmt.Fprintln(os.Stderr, err)
		return 2
	}
	os.Setenv("VERIF_SEED", strconv.FormatInt(rep.Seed, 10))
	return CheckMain(id, rep.Tier, rep.First.CaseIndex)
}
