# Toolchain + offline environment shared by every script in /verif/bin (source it).
export GOFLAGS=-mod=mod GOPROXY=off GOSUMDB=off GOTOOLCHAIN=local GONOSUMDB='*' GONOSUMCHECK=1 GOFLAGS=-mod=mod
VERIF_ROOT="$(cd "$(dirname "${BASH_SOURCE[0]}")/.." && pwd)"
export VERIF_ROOT
_tc=/root/go/pkg/mod/golang.org/toolchain@v0.0.1-go1.23.12.linux-amd64/bin/go
if [ -x "$_tc" ]; then
  GO="$_tc"
elif command -v go1.26.8 >/dev/null 2>&1; then
  GO="$(command -v go1.26.8)"
else
  GO=go
fi
export GO
export VERIF_REPO="${VERIF_REPO:-/repo}"
