#!/bin/bash
# bin/reval_seeds.sh [<glob of seed ids, default *>]  — re-validates kept seeds against /repo HEAD: the patch applies to a scratch
# copy, the copy builds, and the quick check of the seed's property reports a violation. One line per seed.
# (env PAR = seeds in parallel, default 4; each check runs with VERIF_JOBS=4)
set -u
cd "$(dirname "$0")/.."
. bin/env.sh
PAT="${1:-*}"
one() {
  sd="$(readlink -f "$1")"; id="$(basename "$sd")"
  prop="$(python3 -c "import json,sys;print(json.load(open('$sd/meta.json')).get('property',''))" 2>/dev/null)"
  [ -z "$prop" ] && prop="${id:0:3}"
  D="$(mktemp -d /tmp/verif-reval.XXXXXX)"
  git -C /repo archive HEAD | tar -x -C "$D"
  if ! (cd "$D" && patch -p1 -s --no-backup-if-mismatch < "$sd/patch.diff" >/dev/null 2>&1); then echo "$id $prop PATCH-DOES-NOT-APPLY"; rm -rf "$D"; return; fi
  if ! (cd "$D" && $GO build ./... && $GO build -tags verif ./...) >/dev/null 2>&1; then echo "$id $prop DOES-NOT-BUILD"; rm -rf "$D"; return; fi
  out="$(VERIF_JOBS=4 VERIF_REPO="$D" timeout ${TMO:-1500} bin/check "$prop" quick 2>&1)"
  nv="$(echo "$out" | grep -c '^VIOLATION')"
  verdict="$(echo "$out" | grep ' seed=.*: ' | sed 's/.*seed=[0-9]*: \([a-z]*\).*/\1/' | tail -1)"
  first="$(echo "$out" | sed -n 's/^VIOLATION .*signature=\("[^"]*"\).*/\1/p' | head -1)"
  echo "$id $prop ${verdict:-none} violations=$nv $first"
  rm -rf "$D"
}
export -f one; export GO
ls -d seeded/$PAT | xargs -P "${PAR:-4}" -I{} bash -c 'one {}'
