#!/usr/bin/env python3
"""bin/seed_round.py <N>: prepares /tmp/seed<N>/ (instructions, one property text per property with the list of changes
already tried, one scratch worktree of /repo HEAD per property) for a round of independently seeded changes."""
import json, os, subprocess, sys
n = sys.argv[1]
base = f"/tmp/seed{n}"
os.makedirs(base, exist_ok=True)
root = os.path.dirname(os.path.dirname(os.path.abspath(__file__)))
open(f"{base}/INSTRUCTIONS.md", "w").write(open(f"{root}/notes/seed-INSTRUCTIONS.md").read())
by = {}
for d in sorted(os.listdir(f"{root}/seeded")):
    mp = f"{root}/seeded/{d}/meta.json"
    if os.path.exists(mp):
        m = json.load(open(mp))
        by.setdefault(m.get("property") or d[:3], []).append(m.get("summary") or "")
props = {}
for l in open(f"{root}/properties.jsonl"):
    d = json.loads(l)
    props[d["id"]] = d
for i in range(1, 21):
    pid = "C%02d" % i
    d = props[pid]
    a = d["anchors"]
    out = (f"PROPERTY {pid}: {d['title']}\n\nStatement: {d['statement']}\n\nQuantified over: {d['quantifier']['text']}\n\n"
           f"Why the existing tests cannot settle it: {d['why_tests_cant']}\n\nCode anchors: files {a['files']}; mechanisms: "
           + "; ".join(f"{m['name']} ({m['where']})" for m in a["mechanism"]) + "\n")
    out += ("\n\nALREADY TRIED by others (do NOT repeat any of these; choose a different site and a different mechanism — ideally a "
            "different clause of the property, a different configuration of the library (Srv/Clnt/Ufs fields, debug levels, the akaros "
            "switch, Maxpend, msize values, dialect of server vs client, listener vs NewConn, implementations providing only some optional "
            "interfaces, implementations that answer later from another goroutine), a rarely used API entry point, a different message type "
            "or open mode, a multi-step sequence on one fid after an error, or two cooperating sites that each look fine alone):\n")
    for s in by.get(pid, []):
        out += "  - " + s.strip().replace("\n", " ")[:330] + "\n"
    open(f"{base}/{pid}.txt", "w").write(out)
    subprocess.run(["git", "-C", "/repo", "worktree", "add", "-q", "--detach", f"{base}/{pid}", "HEAD"], check=False)
print("prepared", base)
