#!/bin/bash
# bin/try_patch.sh <patch.diff> <ID> [<ID>…]   (env TIER=quick|thorough)
# Self-validation helper: applies a patch to a scratch copy of /repo (never to /repo itself), checks that the
# copy still builds, and runs the given checks against the copy (VERIF_REPO). The copy is removed afterwards.
set -u
cd "$(dirname "$0")/.."
. bin/env.sh
PATCH="$(readlink -f "$1")"; shift
D="$(mktemp -d /tmp/verif-mut.XXXXXX)"
trap 'rm -rf "$D"' EXIT
git -C /repo archive HEAD | tar -x -C "$D"
if ! (cd "$D" && patch -p1 -s < "$PATCH"); then echo "patch does not apply"; exit 3; fi
if ! (cd "$D" && $GO build ./... && $GO vet -tags verif . >/dev/null 2>&1 || $GO build -tags verif ./...); then echo "mutant does not build"; exit 3; fi
if [ "${RUN_SUITE:-0}" = 1 ]; then (cd "$D" && $GO test -vet=off -count=1 ./... 2>&1 | tail -2); fi
for ID in "$@"; do
  VERIF_REPO="$D" bin/check "$ID" "${TIER:-quick}" 2>&1 | sed -n -e 's/^VIOLATION .*signature=\("[^"]*"\).*/  V \1/p' -e '/^KNOWN-FINDING/p' -e '/^INCONCLUSIVE/p' -e '/ seed=.*: /p' | cut -c1-260 | head -${MAXL:-12}
done
