#!/usr/bin/env python3
"""Regenerates /verif/MANIFEST.json from the table below (run after adding a check)."""
import json, os, subprocess

ROOT = os.path.dirname(os.path.dirname(os.path.abspath(__file__)))

# property id -> (engine, category, technique, level text, level note, design ref)
CHECKS = {
 "C01": ("codec", "exploration",
  "differential runtime monitor: go9p codec vs independent wire codec on generated field tuples",
  "Every constructor, SetTag, the InitRread/SetRreadCount form, PackDir/UnpackDir and Unpack are executed on a boundary grid "
  "(every field at each value class, one factor at a time and all together) plus seeded random tuples for all 27 types x 2 dialects, "
  "and compared byte for byte / field for field with an independent codec. Held = no disagreement on the tuples run; input space sampled around boundaries, not covered.",
  "trusts the independent codec in harness/wire (written from the manual pages); representable domain: strings<=65535, stat<=65535, counts<=65535",
  "DESIGN.md §5 C01"),
 "C02": ("codec", "exploration",
  "runtime monitor in a crash-isolated, address-space-limited worker: panic/allocation/tail-independence/re-encoding oracle over mutated packets",
  "Unpack and UnpackDir run on exhaustive truncations, declared-size variations, byte substitutions and 16/32-bit overwrites at every offset of 3 canonical packets per "
  "type x dialect, plus splices and raw random strings; each call is watched for panic, process death (RLIMIT_AS), bytes allocated (runtime/metrics), dependence on bytes beyond the "
  "declared size and the success conditions of the statement. Held = no rejected execution among those run.",
  "trusts runtime/metrics allocation accounting and the wire re-encoder; allocation bound 2 MiB + 64 x len(input)",
  "DESIGN.md §5 C02"),
 "C03": ("srvlab", "exploration",
  "offline checker over the recorded wire/invocation log of concurrent rounds (exactly-once, byte-exact reply content), schedule perturbation through hook points and a congested transport",
  "Rounds of 1..64 simultaneously outstanding requests of mixed types are held in the scripted implementation and finished in every permutation (N<=5) or seeded random orders, free-running, "
  "with random delays at the server's schedule points and with short writes on the transport; after a quiescence barrier the log is judged: one reply per tag, bytes equal to the recomputed "
  "answer, no reply for a tag not outstanding, a second Respond produces no frame. Held on the rounds and interleavings observed (count in evidence).",
  "trusts the wire codec, the scripted implementation's determinism and the hook-point placement; interleavings needing a preemption inside a hook-free region are reached only by chance",
  "DESIGN.md §5 C03"),
 "C06": ("srvlab", "exploration",
  "crash monitor: hostile sessions against servers hosted in a crash-isolated worker process (panic/fatal attribution by the supervisor) with bystander and liveness probes after every session",
  "Structured boundary-value sessions (every T type x fid state x value classes), byte-mutated valid sessions, raw random streams, truncated frames, tiny msize and many short connections are sent to "
  "the framework+scripted implementation and to Ufs on a scratch tree; the hosting process must survive, a bystander connection must still be served and fresh connections accepted. "
  "Held = no crash or disturbance in the sessions run.",
  "the worker process stands for the server process; RLIMIT_AS 4 GiB; Ufs runs as uid 0 on a scratch tree",
  "DESIGN.md §5 C06"),
 "C07": ("srvlab", "exploration",
  "directed schedule exploration through hook points (park one goroutine at a point until the other passed its point) with an offline oracle over wire order, invocation log and fid probes",
  "For each target type and flush support of the implementation, a Tflush meets its target at every stage of its life: every pairwise ordering of 14 target points x 15 flusher points in both "
  "directions (infeasible orderings time out and are counted, not judged), same-segment arrival under random delays, already answered, unknown tag, several flushes, flush of a flush; the reply "
  "pool is pre-warmed with replies of the target's success type. Judged: one Rflush per Tflush, reply-before-Rflush, no invocation after an Rflush without reply, fid table unchanged by a "
  "cancelled request. Held on the feasible orderings observed (count and interleaving ids in evidence).",
  "orderings reachable at the ~25 hook points only; a scripted FlushOp cancels only requests it is working on; budgets are wall-clock but never a verdict (infeasible != violation)",
  "DESIGN.md §5 C07"),
 "C08": ("srvlab", "exploration",
  "runtime monitor with blocking injected inside the scripted implementation; offline order checker over the invocation log and the wire for shared-tag groups",
  "Every non-empty subset of 6 outstanding requests is held inside the implementation (issued before or after the others, Maxpend 0/1/4, with and without schedule perturbation) while the remaining "
  "requests and one on a second connection must be answered; shared-tag groups of 2..8 are checked for one-at-a-time execution in arrival order and in-order replies by holding each member in turn. "
  "A reply that arrives only after the blockers were released is the witness. Held on the subsets/groups run. Also held blocked: a Tflush inside FlushOp, Tclunk/Tremove/failed Twalk inside FidDestroy, requests inside AuthInit/AuthCheck/AuthRead/AuthWrite/AuthDestroy, requests (also ones the framework refuses) inside the SrvReqProcess/SrvReqRespond hooks; and, end to end, go9p's own client issuing a shared-tag group through its Tag interface.",
  "bounded progress with a 15 s watchdog that is never itself the verdict; Tversion excepted",
  "DESIGN.md §5 C08"),
 "C11": ("srvlab", "fault_enumeration",
  "fault injection at enumerated disconnect points with goroutine-dump, FidDestroy/ConnClosed log and /proc/self/fd monitors",
  "A victim connection running a generated history is cut after every prefix length with 0..4 requests held in the implementation (released afterwards, in every order over the run), by close, "
  "reset, server-side write failure and mid-frame disconnect, Maxpend 0/4, next to a bystander connection. Monitors: one ConnClosed, every fid object destroyed exactly once, no library goroutine "
  "created for the victim left (confirmed stable across two dumps), bystander undisturbed; with Ufs no descriptor into the tree remains. Held on the enumerated cut points. Further cuts: client stops reading, disconnect while a Topen is blocked in open(2) of a named pipe (collections disabled while descriptors are counted), and a teardown whose ConnClosed/FidDestroy callback blocks while the bystander and a new connection must be served.",
  "goroutines attributed by creation after a baseline dump; leak = same library frame in two dumps after close.exit was observed",
  "DESIGN.md §5 C11"),
 "C12": ("srvlab", "exploration",
  "wire monitor over a configuration grid: negotiated limits recomputed independently and asserted on every frame the server sends",
  "Server msize x client msize x server dialect x version string grid; the Rversion is compared with min()/refusal/dialect rules, then every reply of a session through recycled buffers "
  "(attach, stat straddling msize, walks of 0..16 qids, reads up to the limit, long implementation errors) is measured on the wire against the negotiated msize and decoded in the negotiated dialect "
  "only; announced frame sizes below a header or above msize must drop the connection without invocation while another connection works; Ufs variant for real stat replies. Held on the grid run.  Also: reply batteries after pipelined traffic preceding the Tversion and after second/third negotiations; an oversized frame in the same segment as the Tversion that lowers msize; implementation errors compared with the text given (cut only as far as needed); the grid with the akaros switch on. "
  "The client half (Connect adopts min msize / dialect) is checked by the clntlab engine cases.",
  "one Tversion per connection; trusts the wire codec",
  "DESIGN.md §5 C12"),
 "C13": ("srvlab+clntlab", "exploration",
  "differential runtime monitor: one fixed byte stream replayed under enumerated and random transport segmentations, each run judged against the independent decoding of the stream",
  "Server: request streams of ~44 x msize bytes (msize 64..4096, frames from 9 bytes to exactly msize, one shared-tag group) are delivered all at once, byte by byte, split at every single offset "
  "(small msize) or around every size prefix, and in random multi-way splits; writes are held in the implementation until the stream has been delivered. Every frame must produce exactly the "
  "invocation (arguments, late payload hash) and the reply bytes the reference decoding predicts. Client: a fixed reply stream for a fixed call script under the same families of cuts must give identical "
  "call results. Held on the segmentations run. Plus a stream whose Tversion lowers msize ahead of a frame that is legal only under the old limit, compared across segmentations.",
  "requests of the measured stream are mutually independent; trusts the wire codec and the scripted implementation/peer",
  "DESIGN.md §5 C13"),
 "C09": ("clntlab", "exploration",
  "runtime monitor at the client boundary against a scripted peer whose answers are a pure function of each request (unique payloads identify the reply a caller received); tag-set and conservation monitors",
  "1..5 concurrent calls answered in every permutation; 1/8/64 caller goroutines with the peer answering in random batches, random order, arbitrary reply segmentation and random delays at the "
  "client's schedule points; more than 65 535 (thorough: 4 x 1 000 000) consecutive calls with bursts that force tags back to the pool; Rerror and wrong-type replies; the pipelined Tag interface. "
  "Each call's result must be the answer to its own request, the peer must never see a tag that is still outstanding, and at quiescence free tags + cached slots == 65 535. Held on the runs made.",
  "trusts the scripted peer and the wire codec; interleavings reachable through the client's hook points and scheduler noise",
  "DESIGN.md §5 C09"),
 "C10": ("clntlab", "fault_enumeration",
  "fault injection at every byte offset of a scripted reply stream, with caller/receiver goroutines parked at client hook points; hang oracle = stable pair of goroutine dumps",
  "Connect, Attach and k = 0..4 concurrent calls whose replies come in one burst; the stream is cut after every offset by close and reset, and at every frame boundary by an undersize / oversize / "
  "undefined-type / unknown-tag frame followed by silence; additionally a client-side write fault at every offset, Unmount racing with calls, the Tag interface across a failure, and all of it with a "
  "caller or the receive loop parked at each client schedule point while the failure is delivered. A call must succeed iff its complete reply was read by the client before the failure, all others "
  "and all later calls must fail, and every call must return (a caller parked in Rpc in two dumps is a hang). Held on the enumerated fault points.",
  "'delivered' = read from the transport by the client before the fault; hang decided by two dumps 0.7 s apart after 3 s and again after 15 s",
  "DESIGN.md §5 C10"),
 "C14": ("ufslab", "exploration",
  "differential runtime monitor: bytes moved through go9p client + real Ufs versus the host file and a byte-array model",
  "Random-content files of boundary lengths (0, 1, iounit+-1, k*iounit+-1, random) are read with boundary and random (offset, count) pairs through Clnt.Read, File.Read, ReadAt and Readn and written "
  "through Clnt.Write, File.Write, WriteAt and Written at arbitrary offsets/chunkings, for msize 128..65536 and both dialects, 32 files open at once; every returned byte/count/offset is compared with "
  "the host file (os.ReadFile) and the model after each step. Held on the files and sequences run. Slices returned by Clnt.Read are kept and compared again after the later reads; files that grow are read back through the writing fid.",
  "trusts the host file system and os package; in-process server over scripted connections",
  "DESIGN.md §5 C14"),
 "C15": ("ufslab", "exploration",
  "wire monitor: every Rread of a directory decoded record by record with the independent codec and reconciled with os.ReadDir",
  "Directories of 0..3000 entries with name lengths 1..255 are listed through raw Treads following the offset rule with every count from the largest entry up to four entries (exhaustive for small "
  "directories), random counts, msize 256..65536, both dialects, restarts at offset 0, too-small counts; each payload must consist of whole records <= count, the multiset of names must equal the host's, "
  "and File.Readdir(0) must return the same set. Held on the listings run. Entries are added to and removed from a directory between two complete listings through the same fid (also a directory that was empty).",
  "directory not modified during listing; trusts the wire codec and os.ReadDir",
  "DESIGN.md §5 C15"),
 "C16": ("ufslab", "exploration",
  "differential runtime monitor: Rwalk/Rstat contents and client path helpers versus os.Lstat on seeded random trees",
  "Random trees (depth up to 40, odd names, files, directories, in-tree symlinks, hard links): raw walks of 0..16 elements with an existing prefix of every length, in place and to a new fid, then "
  "Tstat of both fids; qid count/type/path, mode, length, mtime and name compared with Lstat; qid paths equal for hard links and distinct otherwise; FStat/FOpen of paths of every depth. Held on the trees and walks run. Trees contain sticky/setgid/setuid directories and files, named pipes and symlinks to directories (walked through).",
  "uid/gid/muid, atime, qid.version and directory lengths are not compared; trusts os.Lstat",
  "DESIGN.md §5 C16"),
 "C17": ("ufslab", "exploration",
  "twin-tree differential monitor: each 9P mutation is mirrored with the corresponding os/syscall call on a twin tree and the trees are compared after every step",
  "Seeded sequences of create (all open modes), mkdir, symlink, hard link, write, remove, rename, truncate, chmod and mtime operations, including error cases with a single POSIX answer; after each step "
  "the 9P-mutated tree must equal the twin (names, kinds, contents, permissions, link targets, hard-link partition, set mtimes), an Rerror must leave the tree unchanged and carry the twin's errno (.u), "
  "and the fid must designate the created/renamed object. Held on the sequences run. Renames go to free and occupied names of every kind and to absolute targets; wstat length/mtime also through fids opened in every mode; mkdir also with modes a directory cannot be created with (an Rerror must leave the tree unchanged).",
  "twin operations run in the same process (same uid 0, umask); operations whose POSIX counterpart is ambiguous are not generated",
  "DESIGN.md §5 C17"),
 "C18": ("ufslab", "exploration",
  "canary monitor: sandbox outside the exported root snapshotted before/after every hostile session; inode and token leak detectors on everything the server returns",
  "Attach names, walk element lists, create names and rename targets from a hostile grammar ('..', '.', '', '/', absolute paths, ../ chains, a/../../x, mixtures with real names) at every depth, each "
  "followed by stat, open+read, listing, create, mkdir, write, chmod, rename and remove through the fid obtained. Outside the root nothing may change or appear, no returned qid or listing entry may carry an "
  "outside inode, no payload a canary token, and '..' from the root must yield the root. Held on the sessions run. The walk and mixed batteries also run against servers whose Root is configured with a trailing slash, a /./ element or a double slash.",
  "tree without symlinks leaving it (premise); hostile names are bounded so that they cannot climb above the sandbox",
  "DESIGN.md §5 C18"),
 "C19": ("racelab", "exploration",
  "Go race detector (-race build of the worker, GORACE halt_on_error=0 log_path=...) over concurrent workloads; reports parsed and de-duplicated by the supervisor",
  "2/8/32 goroutines share one client and work on their own files and directories against the real Ufs over a socketpair (walks start from the shared root fid), raw connections pipeline requests on "
  "distinct fids and flush them against a stateless implementation, other connections come and go, logging on/off, Maxpend 0/4, both dialects, seeded repetitions with yields and sleeps injected at the "
  "library's schedule points by a hook that touches no shared memory. Verdict: zero DATA RACE reports with a go9p frame. Held = no race observed in the runs made. Half of the raw workloads use a cancelling FlushOp (req.Flush() plus the late answer of the cancelled worker).",
  "the detector sees only overlapping accesses within its history window; requests on a fid are only sent after the reply that created or changed the fid",
  "DESIGN.md §5 C19"),
 "C20": ("loglab", "exploration",
  "online reference-ring monitor for sequential histories, offline order/prefix checker for concurrent ones, porcupine linearizability check of short histories",
  "Capacities 1..64, sequences below/at/far above capacity, every owner/type filter: each sequential Filter result must be the filtered content of a ring window at a non-decreasing position and "
  "converge exactly after logging stops (bounded polls); concurrent producers/filterers are checked for membership, match, order, duplicates, skipped entries, real-time order, and - with a ring large "
  "enough to reveal the total order - for being a filtered prefix of that order; short histories go through porcupine with Log as an open-ended operation. Held on the histories run.",
  "15 s watchdog for 'does not block'; porcupine timeouts are counted, never failed",
  "DESIGN.md §5 C20"),
 "C04": ("srvlab", "exploration",
  "online reference-model monitor: every request/reply of sequential histories judged against an executable fid-table model, plus invocation/FidDestroy log of a scripted implementation",
  "The real server framework runs in-process with a scripted implementation over scripted in-memory connections; each step of (a) all (fid state x request x outcome) transitions on fresh "
  "connections with probes and a reuse sequence and (b) long random histories on 1-3 connections is compared with the reference fid table: validity, 'unknown fid'/'fid already in use' refusals "
  "without invocation, object identity and user seen by the implementation, destruction exactly once and no later than the invalidating reply. Held on the histories run.",
  "trusts the reference model (DESIGN.md Appendix C, three-valued), the wire codec and the scripted implementation's log; sequential histories only",
  "DESIGN.md §5 C04"),
 "C05": ("srvlab", "exploration",
  "online reference-model monitor over the (fid state x request x argument class) product with a scripted implementation's invocation log",
  "Same machinery as C04 with the rule table: must-refuse requests get Rerror and no invocation, must-forward requests exactly one invocation with the fid object, user and "
  "arguments the client sent (digest comparison), count boundaries up to 2^32-1 at msize 64/256/8192, malformed Twrite, AuthCheck gate; every request is followed by requests that depend on "
  "the state it left. Held on the product and the random histories run.",
  "trusts the reference model (three-valued: silent cases are 'either'), the wire codec, the scripted implementation",
  "DESIGN.md §5 C05"),
}

PENDING_REASON = "check not built yet in this revision of /verif (design in DESIGN.md §5); not claimed until its monitor exists and is silent on the unchanged tree"

def main():
    props = [json.loads(l)["id"] for l in open(os.path.join(ROOT, "properties.jsonl"))]
    try:
        commits = subprocess.check_output(
            ["git", "-C", "/repo", "log", "--format=%h %s", "--grep=^verif:"], text=True).strip().splitlines()
    except Exception:
        commits = []
    man = {
        "version": 1,
        "setup_cmd": "bin/setup.sh",
        "hooks": {
            "guard": "verif",
            "enable": "go build -tags verif (bin/check builds harness/cmd/verif against /repo's working tree with -tags verif; C19 adds -race)",
            "baseline_off_cmd": "bin/baseline_off.sh",
            "source_commits": [c.split()[0] for c in commits],
            "add_only": True,
        },
        "engines": [
            {"name": "codec", "path": "harness/lab/codec", "serves_properties": ["C01", "C02"],
             "kind_free_text": "in-process differential monitor of go9p's codec against the independent codec harness/wire"},
            {"name": "clntlab", "path": "harness/lab/clntlab", "serves_properties": ["C09", "C10", "C12", "C13"],
             "kind_free_text": "go9p client library against the scripted raw peer (harness/peer) over scripted connections; client hook points through harness/sched"},
            {"name": "ufslab", "path": "harness/lab/ufslab", "serves_properties": ["C14", "C15", "C16", "C17", "C18"],
             "kind_free_text": "real Ufs on scratch trees, accessed through go9p's client and through raw connections; host file system and twin trees as reference"},
            {"name": "racelab", "path": "harness/lab/racelab", "serves_properties": ["C19"], "kind_free_text": "concurrent workloads under the Go race detector; report parser"},
            {"name": "loglab", "path": "harness/lab/loglab", "serves_properties": ["C20"], "kind_free_text": "Logger against a reference ring; porcupine for short concurrent histories"},
            {"name": "srvlab", "path": "harness/lab/srvlab", "serves_properties": ["C03", "C04", "C05", "C07", "C08", "C11", "C12", "C13"],
             "kind_free_text": "real server framework + scripted implementation (harness/script) over scripted connections (harness/memconn), schedule-point controller (harness/sched), reference models (harness/model)"},
        ],
        "checks": [],
        "not_applicable": [],
        "notes": "All checks are runtime monitors over executions of the real code built from /repo's working tree (see DESIGN.md). "
                 "exit 0 held / exit 1 VIOLATION / exit 2 inconclusive. known_findings.json lists repaired (fixed:) and recorded defects.",
    }
    for p in props:
        if p in CHECKS:
            eng, cat, tech, text, note, ref = CHECKS[p]
            man["checks"].append({
                "property_id": p,
                "quick_cmd": f"bin/check {p} quick",
                "thorough_cmd": f"bin/check {p} thorough",
                "evidence_file": f"/verif/evidence/{p}.json",
                "replay_cmd_template": f"bin/check {p} --replay {{path}}",
                "engine": eng,
                "level_claimed": {"category": cat, "text": text, "design_ref": ref},
                "level_note": note,
                "technique": tech,
            })
        else:
            man["not_applicable"].append({"property_id": p, "reason": PENDING_REASON})
    json.dump(man, open(os.path.join(ROOT, "MANIFEST.json"), "w"), indent=1)
    print("MANIFEST.json:", len(man["checks"]), "checks,", len(man["not_applicable"]), "not claimed")

if __name__ == "__main__":
    main()
