#!/bin/bash
# bin/eval_seed.sh <seed dir with patch.diff + seed_demo_test.go> <ID> [<ID>…]
# Confirms a seeded change on a scratch copy of /repo (never /repo itself): builds, the unedited suite passes with it,
# its demonstration passes without it and fails with it; then runs the given checks against the copy.
set -u
cd "$(dirname "$0")/.."
. bin/env.sh
SD="$(readlink -f "$1")"; shift
D="$(mktemp -d /tmp/verif-seed.XXXXXX)"
trap 'rm -rf "$D"' EXIT
git -C /repo archive HEAD | tar -x -C "$D"
DEMO=""
[ -f "$SD/seed_demo_test.go" ] && DEMO=seed_demo_test.go
if [ -n "$DEMO" ]; then
  cp "$SD/$DEMO" "$D/"
  (cd "$D" && $GO test -count=1 -run 'TestSeed' . >/tmp/seed-demo-clean.$$ 2>&1) && echo "demo on unchanged tree: PASS" || { echo "demo on unchanged tree: FAIL"; tail -5 /tmp/seed-demo-clean.$$; }
  rm -f "$D/$DEMO" /tmp/seed-demo-clean.$$
fi
if ! (cd "$D" && patch -p1 -s < "$SD/patch.diff"); then echo "patch does not apply"; exit 3; fi
(cd "$D" && $GO build ./... && $GO build -tags verif ./...) || { echo "does not build"; exit 3; }
(cd "$D" && $GO test -vet=off -count=1 ./... 2>&1 | grep "^ok\|^FAIL\|^--- FAIL" | head -3 | sed "s/^/suite with change: /")
if [ -n "$DEMO" ]; then
  cp "$SD/$DEMO" "$D/"
  (cd "$D" && $GO test -count=1 -run 'TestSeed' . >/tmp/seed-demo-mut.$$ 2>&1) && echo "demo with change: PASS (unexpected)" || echo "demo with change: FAIL (as intended)"
  rm -f "$D/$DEMO" /tmp/seed-demo-mut.$$
fi
for ID in "$@"; do
  VERIF_REPO="$D" timeout ${TMO:-1500} bin/check "$ID" "${TIER:-quick}" 2>&1 | sed -n -e 's/^VIOLATION .*signature=\("[^"]*"\).*/  V \1/p' -e '/^KNOWN-FINDING/d' -e '/^INCONCLUSIVE/p' -e '/ seed=.*: /p' | cut -c1-260 | head -${MAXL:-8}
done
