#!/usr/bin/env python3
"""bin/keep_seed.py <agent SEED dir> <seed id> <property> <caught: yes|no|after-strengthening> <signatures/notes…>
Copies a confirmed seeded change into /verif/seeded/<seed id>/ and records what was run."""
import json, os, shutil, sys
src, sid, prop, caught = sys.argv[1:5]
notes = " ".join(sys.argv[5:])
dst = os.path.join(os.path.dirname(os.path.dirname(os.path.abspath(__file__))), "seeded", sid)
os.makedirs(dst, exist_ok=True)
for f in os.listdir(src):
    if f in ("patch.diff", "seed_demo_test.go", "meta.json") or f.endswith("_test.go"):
        shutil.copy(os.path.join(src, f), os.path.join(dst, f))
if os.path.isdir(os.path.join(src, "demo")):
    shutil.copytree(os.path.join(src, "demo"), os.path.join(dst, "demo"), dirs_exist_ok=True)
meta = {}
try:
    meta = json.load(open(os.path.join(dst, "meta.json")))
except Exception:
    pass
meta.update({"property": prop, "breaks": prop,
             "confirmed_by": "bin/eval_seed.sh on a scratch copy of /repo HEAD: builds (also -tags verif), unedited suite passes with the change, demonstration passes without and fails with it",
             "checks_run": f"VERIF_REPO=<scratch copy> bin/check {prop} quick", "caught": caught, "caught_as": notes})
json.dump(meta, open(os.path.join(dst, "meta.json"), "w"), indent=1)
# the demo must not be compiled as part of anything in /verif
for f in os.listdir(dst):
    if f.endswith("_test.go"):
        os.rename(os.path.join(dst, f), os.path.join(dst, f + ".txt"))
print("kept", dst)
