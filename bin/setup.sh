#!/bin/bash
# MANIFEST.setup_cmd: build the harness (plain and race) from files on disk, warming the build cache.
set -e
cd "$(dirname "$0")/.."
. bin/env.sh
mkdir -p .build evidence replays
cd harness
$GO build -tags verif -o ../.build/verif ./cmd/verif
$GO build -tags verif -race -o ../.build/verif-race ./cmd/verif
echo "setup ok: $($GO version)"
