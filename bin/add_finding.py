#!/usr/bin/env python3
"""bin/add_finding.py <property> <status> <commit|-> <signature> <what…>  — appends to known_findings.json (never run by checks)."""
import json, sys, os
p = os.path.join(os.path.dirname(os.path.dirname(os.path.abspath(__file__))), "known_findings.json")
d = json.load(open(p))
prop, status, commit, sig = sys.argv[1:5]
what = " ".join(sys.argv[5:])
e = {"property": prop, "status": status, "signature": sig, "what": what}
if commit != "-":
    e["commit"] = commit
    if status == "fixed" and not what.startswith("fixed:"):
        e["what"] = f"fixed: property={prop} {commit} {what}"
d["findings"].append(e)
json.dump(d, open(p, "w"), indent=1)
print("added", e["what"][:100])
