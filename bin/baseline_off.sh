#!/bin/bash
# Runs the repository's own test suite with the verif guard OFF (no -tags verif).
cd /repo || exit 2
export GOFLAGS=-mod=mod GOPROXY=off
exec go test -json -vet=off -count=1 -timeout 25m ./...
